From Coq Require Import Reals ZArith Lra Lia.
From Flocq Require Import Core.
Open Scope R_scope.

Definition fexp := FLT_exp (-1074) 53.
Definition fmt := generic_format radix2 fexp.
Definition rnd := round radix2 fexp ZnearestE.

(* easier: use generic_format_FLT with an explicit float *)
Lemma fmt_360 : fmt 360.
Proof.
  unfold fmt, fexp. apply generic_format_FLT.
  exists (Float radix2 45 3); simpl.
  - unfold F2R; simpl; lra.
  - lia.
  - lia.
Qed.
Global Instance prec53 : Prec_gt_0 53. Proof. unfold Prec_gt_0; lia. Qed.
Global Instance fexp_valid : Valid_exp fexp. Proof. unfold fexp; apply FLT_exp_valid; typeclasses eauto. Qed.
Lemma fmt_0 : fmt 0. Proof. apply generic_format_0. Qed.

(* the adjusting addition of Python's float % keeps the result inside [0,360] *)
Lemma adjust_range m : -360 < m < 0 -> 0 <= rnd (m + 360) <= 360.
Proof.
  intros Hm. split.
  - rewrite <- (round_0 radix2 fexp ZnearestE). apply round_le; try typeclasses eauto. lra.
  - rewrite <- (round_generic radix2 fexp ZnearestE 360 fmt_360) at 2.
    apply round_le; try typeclasses eauto. lra.
Qed.
Print Assumptions adjust_range.
