From Coq Require Import Reals Lra Psatz Nsatz.
Open Scope R_scope.
Section Rot.
Variables cp sp cy sy cr sr : R.
Hypothesis Hp : cp*cp + sp*sp = 1.
Hypothesis Hy : cy*cy + sy*sy = 1.
Hypothesis Hr : cr*cr + sr*sr = 1.
Definition aa := cp*cy. Definition ab := cp*sy. Definition ac := -sp.
Definition ba := sp*(sr*cy) - cr*sy. Definition bb := sp*(sr*sy) + cr*cy. Definition bc := sr*cp.
Definition ca := sp*(cr*cy) + sr*sy. Definition cb := sp*(cr*sy) - sr*cy. Definition cc := cr*cp.
Lemma row_a_unit : aa*aa + ab*ab + ac*ac = 1.
Proof. unfold aa, ab, ac. nsatz. Qed.
Lemma row_ab_orth : aa*ba + ab*bb + ac*bc = 0.
Proof. unfold aa, ab, ac, ba, bb, bc. nsatz. Qed.
Lemma det_one : aa*(bb*cc - bc*cb) - ab*(ba*cc - bc*ca) + ac*(ba*cb - bb*ca) = 1.
Proof. unfold aa, ab, ac, ba, bb, bc, ca, cb, cc. nsatz. Qed.
End Rot.
Print Assumptions det_one.
