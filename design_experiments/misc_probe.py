import io, traceback
from uuid import UUID
from srctools.dmx import Element, Attribute, ValueType, StubElement, NULL
from srctools.math import FrozenMatrix, Matrix
def sec(s): print('=====', s)
sec('dmx scalar matrix binary')
e = Element('root', 'DmElement'); e['m'] = Attribute('m', ValueType.MATRIX, FrozenMatrix())
b = io.BytesIO(); e.export_binary(b, version=5); b.seek(0)
try: r,_,_ = Element.parse(b); print('ok', r['m'])
except Exception as ex: print('ERR', type(ex).__name__, ex)
sec('dmx stub binary / kv2')
e = Element('root', 'DmElement'); st = StubElement.stub(UUID(int=12345)); e['s'] = Attribute('s', ValueType.ELEMENT, st); e['after'] = 7
b = io.BytesIO(); e.export_binary(b, version=5); b.seek(0)
try: r,_,_ = Element.parse(b); print('bin ok', r['s'].val_elem, r['after'].val_int)
except Exception as ex: print('BIN ERR', type(ex).__name__, ex)
b = io.BytesIO(); e.export_kv2(b); b.seek(0)
try: r,_,_ = Element.parse(b); print('kv2 stub uuid kept:', r['s'].val_elem.uuid == st.uuid, r['s'].val_elem)
except Exception as ex: print('KV2 ERR', type(ex).__name__, ex)
sec('dmx attr name needing escape (kv2)')
e = Element('root', 'DmElement'); e['we"ird'] = 'x'
b = io.BytesIO(); e.export_kv2(b); b.seek(0)
try: r,_,_ = Element.parse(b); print(list(r.keys()))
except Exception as ex: print('KV2 ERR', type(ex).__name__, str(ex)[:100])
sec('dmx unicode string array binary')
e = Element('root', 'DmElement'); e['arr'] = Attribute.array('arr', ValueType.STRING); e['arr'].append('héllo')
b = io.BytesIO(); e.export_binary(b, version=5, unicode='format'); b.seek(0)
try: r,_,_ = Element.parse(b); print(list(r['arr'].iter_str()))
except Exception as ex: print('ERR', type(ex).__name__, str(ex)[:100])
sec('vtf resource with enum id, inline int')
from srctools.vtf import VTF, ImageFormats, Resource, ResourceID
v = VTF(4,4, fmt=ImageFormats.RGBA8888, thumb_fmt=ImageFormats.NONE); v.resources[ResourceID.CRC] = Resource(0x02, 1234)
try: b = io.BytesIO(); v.save(b); b.seek(0); r = VTF.read(b); print(r.resources)
except Exception as ex: print('ERR', type(ex).__name__, ex)
sec('frame bounds')
f = v.get(); f.fill(1,2,3,4)
for pos in [(4,0),(0,4),(-1,0),(4,4)]:
    try: print(pos, f[pos])
    except Exception as ex: print(pos, 'ERR', type(ex).__name__)
sec('smd multi-link vertex')
from srctools import smd
from srctools.math import Vec
m = smd.Mesh.blank('root'); root = m.root_bone()
b2 = smd.Bone('child', root); m.bones['child'] = b2
import inspect
vert = smd.Vertex(Vec(1,2,3), Vec(0,0,1), 0.5, 0.25, [(root, 0.5), (b2, 0.5)])
m.triangles.append(smd.Triangle('mat', vert, vert.copy(), vert.copy()))
for t, fr in m.animation.items(): fr.append(smd.BoneFrame(b2, Vec(), __import__('srctools').Angle()))
b = io.BytesIO(); m.export(b)
print(b.getvalue().decode().split('triangles')[1][:200])
try:
    m2 = smd.Mesh.parse_smd(io.BytesIO(b.getvalue())); print('links', [(bn.name, w) for bn,w in m2.triangles[0].point1.links], m2.triangles[0].point1.tex_v)
except Exception as ex: print('ERR', type(ex).__name__, ex)
