From Coq Require Import ZArith Reals Lia.
From Flocq Require Import Core BinarySingleNaN Bits.
Open Scope Z_scope.

Notation b64 := (binary_float 53 1024).
Definition of_bits (z : Z) : Binary.binary_float 53 1024 := b64_of_bits z.
Definition to_bits (x : Binary.binary_float 53 1024) : Z := bits_of_b64 x.

Lemma Hprec : Prec_gt_0 53. Proof. unfold Prec_gt_0; lia. Qed.
Lemma Hemax : Prec_lt_emax 53 1024. Proof. unfold Prec_lt_emax; lia. Qed.

Definition norm (m e : Z) : b64 := @binary_normalize 53 1024 Hprec Hemax mode_NE m e false.
Definition f360 : b64 := norm 360 0.

(* exact fmod(x, 360): x = ±m·2^e *)
Definition fmod360 (x : b64) : b64 :=
  match x with
  | B754_finite s m e _ =>
      let m := Z.pos m in
      let r := if 0 <=? e then ((m * 2 ^ e) mod 360, 0)
               else (m mod (360 * 2 ^ (- e)), e) in
      let '(rm, re) := r in
      if rm =? 0 then B754_zero s else norm (if s then - rm else rm) re
  | _ => x
  end.
Definition is_neg (x : b64) : bool := match x with B754_finite true _ _ _ => true | _ => false end.
Definition is_zero (x : b64) : bool := match x with B754_zero _ => true | _ => false end.
Definition pymod360 (x : b64) : b64 :=
  let m := fmod360 x in
  if is_zero m then B754_zero false
  else if is_neg m then @Bplus 53 1024 Hprec Hemax mode_NE m f360 else m.

Definition conv (z : Z) : b64 := Binary.B2BSN 53 1024 (of_bits z).
Definition show (x : b64) : option (bool * Z * Z) :=
  match x with B754_finite s m e _ => Some (s, Z.pos m, e) | B754_zero s => Some (s, 0, 0) | _ => None end.
(* -1e-14 = 0xBD06849B86A12B9B ; 725.5 ; -0.0 ; 360.0 *)
Time Eval vm_compute in show (pymod360 (conv 0xBD06849B86A12B9B)).
Time Eval vm_compute in show (pymod360 (pymod360 (conv 0xBD06849B86A12B9B))).
Time Eval vm_compute in show f360.
Time Eval vm_compute in show (pymod360 (norm 1451 (-1))).
Time Eval vm_compute in show (pymod360 (norm (-1451) (-1))).
Time Eval vm_compute in show (pymod360 (norm 1 1000)).
