From Coq Require Import List Arith Lia.
Import ListNotations.

Definition str := list nat.
Inductive tok := TS (s : str) | TNL | TBO | TBC | TOther.
Inductive kv := Leaf (n v : str) | Block (n : str) (cs : list kv).

Section KvInd.
  Variable P : kv -> Prop.
  Hypothesis HL : forall n v, P (Leaf n v).
  Hypothesis HB : forall n cs, Forall P cs -> P (Block n cs).
  Fixpoint kv_ind' (k : kv) : P k :=
    match k with
    | Leaf n v => HL n v
    | Block n cs => HB n cs ((fix go (l : list kv) : Forall P l :=
        match l with [] => Forall_nil _ | x :: r => Forall_cons _ (kv_ind' x) (go r) end) cs)
    end.
End KvInd.

Fixpoint toks (k : kv) : list tok :=
  match k with
  | Leaf n v => [TS n; TS v; TNL]
  | Block n cs => [TS n; TNL; TBO; TNL] ++ flat_map toks cs ++ [TBC; TNL]
  end.
Definition toks_doc (d : list kv) := flat_map toks d.

Definition frame := (str * list kv)%type.   (* name, children so far (reversed) *)
Inductive bl := BNone | BExpect.

(* The token loop of Keyvalues.parse (default options, no flags); push_back = leave the token. *)
Fixpoint run (fuel : nat) (stk : list frame) (cur : frame) (b : bl) (ts : list tok) : option (list kv) :=
  match fuel with O => None | S f =>
  match ts with
  | [] => match b, stk with BNone, [] => Some (rev (snd cur)) | _, _ => None end
  | TBO :: r =>
      match b with
      | BNone => None
      | BExpect => match snd cur with
                   | Block n [] :: cs' => run f ((fst cur, cs') :: stk) (n, []) BNone r
                   | _ => None end
      end
  | TNL :: r => run f stk cur b r
  | t :: r =>
      match b with
      | BExpect => None
      | BNone =>
        match t with
        | TS n =>
            match r with
            | TS v :: r2 =>
                match r2 with
                | TS _ :: _ => None
                | _ => run f stk (fst cur, Leaf n v :: snd cur) BNone r2
                end
            | _ => run f stk (fst cur, Block n [] :: snd cur) BExpect r
            end
        | TBC => match stk with
                 | [] => None
                 | (pn, pcs) :: stk' => run f stk' (pn, Block (fst cur) (rev (snd cur)) :: pcs) BNone r
                 end
        | _ => None
        end
      end
  end end.

Lemma run_kv : forall k, forall fuel stk cur rest,
  length (toks k ++ rest) < fuel ->
  exists fuel', length rest < fuel' /\
    run fuel stk cur BNone (toks k ++ rest) = run fuel' stk (fst cur, k :: snd cur) BNone rest.
Proof.
  induction k as [n v | n cs IH] using kv_ind'; intros fuel stk cur rest Hf.
  - (* leaf: one step consumes name and value, next the newline *)
    simpl in *. destruct fuel as [|[|f]]; try lia. exists f. split; [lia|]. reflexivity.
  - cbn [toks] in *. rewrite <- !app_assoc in *. cbn [app] in *.
    (* four steps: name, NL, {, NL *)
    destruct fuel as [|[|[|[|f]]]]; cbn [length] in Hf; try lia.
    cbn [run snd fst].
    (* now the children, by induction over the list *)
    assert (Hcs : forall cs0 f0 stk0 cur0 rest0, Forall
              (fun k => forall fuel stk cur rest, length (toks k ++ rest) < fuel ->
                 exists fuel', length rest < fuel' /\
                 run fuel stk cur BNone (toks k ++ rest) = run fuel' stk (fst cur, k :: snd cur) BNone rest) cs0 ->
              length (flat_map toks cs0 ++ rest0) < f0 ->
              exists f1, length rest0 < f1 /\
                run f0 stk0 cur0 BNone (flat_map toks cs0 ++ rest0)
                = run f1 stk0 (fst cur0, rev cs0 ++ snd cur0) BNone rest0).
    { induction cs0 as [|k ks IHks]; intros f0 stk0 cur0 rest0 HF Hl.
      - exists f0. split; [exact Hl|]. destruct cur0; reflexivity.
      - inversion HF as [|? ? Hk Hks]; subst. cbn [flat_map] in *. rewrite <- app_assoc in *.
        destruct (Hk f0 stk0 cur0 (flat_map toks ks ++ rest0) Hl) as (f1 & Hl1 & E1). rewrite E1.
        destruct (IHks f1 stk0 (fst cur0, k :: snd cur0) rest0 Hks Hl1) as (f2 & Hl2 & E2).
        exists f2. split; [exact Hl2|]. rewrite E2. cbn [fst snd rev]. rewrite <- app_assoc. reflexivity. }
    destruct (Hcs cs f ((fst cur, snd cur) :: stk) (n, []) (TBC :: TNL :: rest) IH) as (f1 & Hl1 & E1).
    { rewrite !app_length in *. cbn [length] in *. lia. }
    rewrite E1. cbn [length] in Hl1. destruct f1 as [|[|f2]]; try lia.
    exists f2. split; [lia|]. cbn [run fst snd]. rewrite app_nil_r, rev_involutive. reflexivity.
Qed.

Theorem parse_toks_doc : forall d, run (S (length (toks_doc d))) [] ([], []) BNone (toks_doc d) = Some d.
Proof.
  intros d.
  assert (H : forall cs f0 stk0 cur0 rest0, length (flat_map toks cs ++ rest0) < f0 ->
     exists f1, length rest0 < f1 /\ run f0 stk0 cur0 BNone (flat_map toks cs ++ rest0)
       = run f1 stk0 (fst cur0, rev cs ++ snd cur0) BNone rest0).
  { induction cs as [|k ks IHks]; intros f0 stk0 cur0 rest0 Hl.
    - exists f0; split; [exact Hl|]; destruct cur0; reflexivity.
    - cbn [flat_map] in *. rewrite <- app_assoc in *.
      destruct (run_kv k f0 stk0 cur0 (flat_map toks ks ++ rest0) Hl) as (f1 & Hl1 & E1). rewrite E1.
      destruct (IHks f1 stk0 (fst cur0, k :: snd cur0) rest0 Hl1) as (f2 & Hl2 & E2).
      exists f2; split; [exact Hl2|]. rewrite E2. cbn [fst snd rev]. now rewrite <- app_assoc. }
  unfold toks_doc. destruct (H d (S (length (flat_map toks d))) [] ([], []) []) as (f1 & Hl1 & E).
  { rewrite app_nil_r. lia. }
  rewrite app_nil_r in E. rewrite E. cbn [fst snd]. rewrite app_nil_r.
  destruct f1; [cbn in *; lia|]. cbn. now rewrite rev_involutive.
Qed.
Print Assumptions parse_toks_doc.
