From Coq Require Import Uint63 List Bool.
Import ListNotations.
Open Scope uint63_scope.

Definition upsample (bits data : int) : int := data lor (data >> bits).
Definition compress565 (r g b : int) : int * int :=
  ( ((g << 3) land 224) lor (b >> 3), (r land 248) lor (g >> 5) ).
Definition decomp565 (a b : int) : int * int * int :=
  ( upsample 5 ((a land 31) << 3),
    upsample 6 (((b land 7) << 5) lor ((a land 224) >> 3)),
    upsample 5 (b land 248) ).

(* loop over [0,n) with structural nat fuel of 256 *)
Fixpoint forall_below (fuel : nat) (i : int) (P : int -> bool) : bool :=
  match fuel with
  | O => true
  | S f => P i && forall_below f (i + 1) P
  end.
Definition forall_byte (P : int -> bool) : bool := forall_below 256 0 P.

(* storing again changes nothing: compress (decomp d) = d over all 2^16 stored values *)
Definition stored_fix : bool :=
  forall_byte (fun a => forall_byte (fun b =>
    let '(r,g,bl) := decomp565 a b in
    let '(a',b') := compress565 r g bl in (a' =? a) && (b' =? b))).
Time Eval vm_compute in stored_fix.

(* full 2^24: decomp (compress p) = quantisation *)
Definition q5 (x:int) := upsample 5 (x land 248).
Definition q6 (x:int) := upsample 6 (x land 252).
Definition full : bool :=
  forall_byte (fun r => forall_byte (fun g => forall_byte (fun b =>
    let '(a',b') := compress565 r g b in
    let '(r',g',bl') := decomp565 a' b' in
    (* note decomp565 returns first channel from low bits of a = b channel of compress order *)
    (r' =? q5 b) && (g' =? q6 g) && (bl' =? q5 r)))).
Time Eval vm_compute in full.
