From Coq Require Import List NArith Lia Bool.
Import ListNotations.
Open Scope N_scope.

Definition char := N.
Definition DQ := 34. Definition BS := 92. Definition LF := 10. Definition CR := 13.

(* would be generated from tokenizer.ESCAPES *)
Definition esc_table : list (char * char) :=
  [(110,10);(116,9);(118,11);(98,8);(114,13);(102,12);(97,7);(34,34);(39,39);(47,47);(92,92);(63,63)].
Definition excluded (ml : bool) : list char := if ml then [63;47;10] else [63;47].

Fixpoint lookup (e : char) (t : list (char*char)) : option char :=
  match t with [] => None | (s,c)::r => if s =? e then Some c else lookup e r end.
Fixpoint rlookup (c : char) (t : list (char*char)) : option char :=
  match t with [] => None | (s,c')::r => if c' =? c then Some s else rlookup c r end.
Definition mem (c : char) (l : list char) := existsb (N.eqb c) l.
Definition esc_char (ml : bool) (c : char) : list char :=
  if mem c (excluded ml) then [c] else
  match rlookup c esc_table with Some s => [BS; s] | None => [c] end.
Definition escape ml (s : list char) := flat_map (esc_char ml) s.

(* string scanner on a flat list, mirroring Tokenizer._handle_string with allow_escapes *)
Inductive res := Str (v : list char) (line : N) (rest : list char) | ErrUnterminated | ErrNoEscape | OutOfFuel.
Fixpoint hs (fuel : nat) (acc : list char) (last_cr : bool) (line : N) (inp : list char) : res :=
  match fuel with O => OutOfFuel | S f =>
  match inp with
  | [] => ErrUnterminated
  | c :: r =>
    if c =? DQ then Str (rev acc) line r
    else if c =? CR then hs f (LF :: acc) true (line+1) r
    else if c =? LF then (if last_cr then hs f acc false line r else hs f (LF :: acc) false (line+1) r)
    else if c =? BS then
      match r with
      | [] => ErrNoEscape
      | e :: r' => if e =? LF then hs f acc false line r'
                   else match lookup e esc_table with
                        | Some x => hs f (x :: acc) false line r'
                        | None => hs f (e :: BS :: acc) false line r'
                        end
      end
    else hs f (c :: acc) false line r
  end end.

(* what one source character contributes *)
Definition lines_of ml (c : char) : N := if ml && (c =? LF) then 1 else 0.

Ltac neqb := repeat match goal with
 | |- context [?a =? ?b] => replace (a =? b) with false by (symmetry; apply N.eqb_neq; congruence) end.

Lemma step_char ml c : forall f acc line rest,
  hs (S f) acc false line (esc_char ml c ++ rest) = hs f (c :: acc) false (line + lines_of ml c) rest.
Proof.
  intros f acc line rest. unfold esc_char, lines_of.
  (* decide c against the finitely many special characters *)
  destruct (N.eq_dec c 10) as [->|n10]; [destruct ml; cbn; rewrite ?N.add_0_r; reflexivity|].
  { replace (c =? LF) with false by (symmetry; apply N.eqb_neq; exact n10). rewrite andb_false_r, N.add_0_r.
      destruct (N.eq_dec c 9) as [->|]; [destruct ml; cbn; rewrite ?N.add_0_r; reflexivity|].
      destruct (N.eq_dec c 11) as [->|]; [destruct ml; cbn; rewrite ?N.add_0_r; reflexivity|].
      destruct (N.eq_dec c 8) as [->|]; [destruct ml; cbn; rewrite ?N.add_0_r; reflexivity|].
      destruct (N.eq_dec c 13) as [->|]; [destruct ml; cbn; rewrite ?N.add_0_r; reflexivity|].
      destruct (N.eq_dec c 12) as [->|]; [destruct ml; cbn; rewrite ?N.add_0_r; reflexivity|].
      destruct (N.eq_dec c 7) as [->|]; [destruct ml; cbn; rewrite ?N.add_0_r; reflexivity|].
      destruct (N.eq_dec c 34) as [->|]; [destruct ml; cbn; rewrite ?N.add_0_r; reflexivity|].
      destruct (N.eq_dec c 39) as [->|]; [destruct ml; cbn; rewrite ?N.add_0_r; reflexivity|].
      destruct (N.eq_dec c 92) as [->|]; [destruct ml; cbn; rewrite ?N.add_0_r; reflexivity|].
      destruct (N.eq_dec c 63) as [->|]; [destruct ml; cbn; rewrite ?N.add_0_r; reflexivity|].
      destruct (N.eq_dec c 47) as [->|]; [destruct ml; cbn; rewrite ?N.add_0_r; reflexivity|].
      (* ordinary character *)
      unfold mem, excluded, esc_table, DQ, CR, LF, BS in *.
      destruct ml; cbn [existsb rlookup orb]; neqb; cbn [orb rlookup app hs]; unfold DQ, CR, LF, BS; neqb; rewrite ?N.add_0_r; reflexivity. }
Qed.

Theorem quoted_embedding ml : forall s f acc line rest, (length s < f)%nat ->
  hs f acc false line (escape ml s ++ DQ :: rest)
  = Str (rev acc ++ s) (line + fold_right (fun c n => lines_of ml c + n) 0 s) rest.
Proof.
  induction s as [|c s IH]; intros f acc line rest Hf; simpl.
  - destruct f; [simpl in Hf; lia|]. simpl. now rewrite app_nil_r, N.add_0_r.
  - destruct f; [simpl in Hf; lia|]. rewrite <- app_assoc, step_char.
    rewrite IH by (simpl in Hf; lia). simpl. rewrite <- app_assoc. simpl. f_equal. lia.
Qed.
Print Assumptions quoted_embedding.
