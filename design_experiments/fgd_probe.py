import io, sys
from srctools.fgd import FGD, EntityDef
from srctools.filesys import VirtualFileSystem
fgd = FGD.engine_dbase()
print(len(fgd.entities))
def exp(f, **kw):
    b = io.StringIO(); f.export(b, **kw); return b.getvalue()
t1 = exp(fgd)
print(len(t1))
vfs = VirtualFileSystem({'test.fgd': t1})
f2 = FGD()
try:
    f2.parse_file(vfs, vfs['test.fgd'])
except Exception as e:
    print('PARSE ERR', type(e).__name__, str(e)[:500]); sys.exit()
t2 = exp(f2)
print('fixed point:', t1 == t2, len(t2))
if t1 != t2:
    l1 = t1.splitlines(); l2 = t2.splitlines()
    n=0
    for i,(a,b) in enumerate(zip(l1,l2)):
        if a!=b:
            print(i, repr(a[:150])); print(i, repr(b[:150])); n+=1
            if n>5: break
