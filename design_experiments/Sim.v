From Coq Require Import List ZArith Lia Bool.
Import ListNotations.
Open Scope Z_scope.

Definition char := N.
Inductive Prog (A : Type) : Type :=
| Ret (a : A)
| Next (k : option char -> Prog A)
| Unread (k : Prog A).
Arguments Ret {A}. Arguments Next {A}. Arguments Unread {A}.

(* ---- flat source ---- *)
Inductive last_t := Just (c : char) | AtEOF | NoUnread.
Record flat := { frest : list char; flast : last_t }.
Definition fnext (s : flat) : option char * flat :=
  match frest s with
  | c :: r => (Some c, {| frest := r; flast := Just c |})
  | [] => (None, {| frest := []; flast := AtEOF |})
  end.
Definition funread (s : flat) : option flat :=
  match flast s with
  | Just c => Some {| frest := c :: frest s; flast := NoUnread |}
  | AtEOF => Some {| frest := frest s; flast := NoUnread |}
  | NoUnread => None
  end.
Fixpoint run_flat {A} (p : Prog A) (s : flat) : option (A * flat) :=
  match p with
  | Ret a => Some (a, s)
  | Next k => let '(c, s') := fnext s in run_flat (k c) s'
  | Unread k => match funread s with Some s' => run_flat k s' | None => None end
  end.

(* ---- chunked source, mirroring Tokenizer._next_char / _char_index -= 1 ---- *)
Record chk := { cur : list char; idx : Z; more : list (list char) }.
Definition nthZ (l : list char) (i : Z) : option char :=
  if i <? 0 then None else nth_error l (Z.to_nat i).
Fixpoint refill (cs : list (list char)) : option (list char * list (list char)) :=
  match cs with
  | [] => None
  | [] :: r => refill r
  | (c :: t) :: r => Some (c :: t, r)
  end.
Definition cnext (s : chk) : option char * chk :=
  let i := idx s + 1 in
  match nthZ (cur s) i with
  | Some c => (Some c, {| cur := cur s; idx := i; more := more s |})
  | None =>
    match refill (more s) with
    | Some (c :: t, r) => (Some c, {| cur := c :: t; idx := 0; more := r |})
    | _ => (None, {| cur := cur s; idx := i; more := [] |})
    end
  end.
Definition cunread (s : chk) : chk := {| cur := cur s; idx := idx s - 1; more := more s |}.
Fixpoint run_chk {A} (p : Prog A) (s : chk) : A * chk :=
  match p with
  | Ret a => (a, s)
  | Next k => let '(c, s') := cnext s in run_chk (k c) s'
  | Unread k => run_chk k (cunread s)
  end.

Definition dropZ (i : Z) (l : list char) := skipn (Z.to_nat i) l.
Definition absr (s : chk) : list char := dropZ (idx s + 1) (cur s) ++ concat (more s).

Definition R (f : flat) (s : chk) : Prop :=
  -1 <= idx s /\
  match flast f with
  | Just c => 0 <= idx s < Z.of_nat (length (cur s)) /\ nthZ (cur s) (idx s) = Some c /\ frest f = absr s
  | AtEOF => Z.of_nat (length (cur s)) <= idx s /\ more s = [] /\ frest f = []
  | NoUnread => True /\ frest f = absr s
  end.

Lemma refill_concat cs : match refill cs with
  | Some (l, r) => l <> [] /\ concat cs = l ++ concat r
  | None => concat cs = [] end.
Proof. induction cs as [|[|c t] r IH]; simpl; auto. split; [discriminate|reflexivity]. Qed.

Lemma nthZ_skipn l i c : 0 <= i -> nthZ l i = Some c -> dropZ i l = c :: dropZ (i+1) l.
Proof.
  unfold nthZ, dropZ. intros Hi. destruct (i <? 0) eqn:E; [lia|].
  replace (Z.to_nat (i+1)) with (S (Z.to_nat i)) by lia.
  generalize (Z.to_nat i). clear. intros n; revert l; induction n; destruct l; simpl; try discriminate; intros H.
  - now inversion H.
  - now apply IHn.
Qed.
Lemma nthZ_none l i : 0 <= i -> nthZ l i = None -> Z.of_nat (length l) <= i /\ dropZ i l = [].
Proof.
  unfold nthZ, dropZ. intros Hi. destruct (i <? 0) eqn:E; [lia|]. intros H.
  apply nth_error_None in H. split; [lia|]. apply skipn_all2. lia.
Qed.
Lemma nthZ_some_lt l i c : nthZ l i = Some c -> 0 <= i < Z.of_nat (length l).
Proof. unfold nthZ. destruct (i <? 0) eqn:E; [discriminate|]. intros H.
  assert (nth_error l (Z.to_nat i) <> None) by congruence. apply nth_error_Some in H0. lia. Qed.

Lemma next_sim f s : R f s ->
  let '(c1, f') := fnext f in let '(c2, s') := cnext s in c1 = c2 /\ R f' s'.
Proof.
  intros [Hlo HR]. unfold fnext, cnext.
  destruct (nthZ (cur s) (idx s + 1)) as [c|] eqn:En.
  - (* in-chunk *)
    pose proof (nthZ_some_lt _ _ _ En) as Hlt.
    assert (Hrest : frest f = c :: dropZ (idx s + 1 + 1) (cur s) ++ concat (more s)).
    { destruct (flast f); try (destruct HR as (?&?&?)); try (destruct HR as (?&?)); try lia;
      match goal with H : frest f = absr s |- _ => rewrite H end; unfold absr;
      rewrite (nthZ_skipn (cur s) (idx s + 1) c ltac:(lia) En); reflexivity. }
    rewrite Hrest. split; [reflexivity|]. split; simpl; [lia|]. repeat split; try lia; auto.
  - (* past end of chunk: refill *)
    destruct (nthZ_none (cur s) (idx s + 1) ltac:(lia) En) as [Hge Hdrop].
    pose proof (refill_concat (more s)) as Hrf.
    assert (Hrest : frest f = concat (more s)).
    { destruct (flast f); try (destruct HR as (?&?&?)); try (destruct HR as (?&?)).
      - rewrite H1; unfold absr; now rewrite Hdrop.
      - subst. rewrite H0, H1. reflexivity.
      - rewrite H0; unfold absr; now rewrite Hdrop. }
    destruct (refill (more s)) as [[[|c t] r]|].
    + destruct Hrf as [Hne _]; congruence.
    + destruct Hrf as [_ Hc]. rewrite Hrest, Hc. simpl. split; [reflexivity|].
      split; simpl; [lia|]. repeat split; try lia; try reflexivity.
    + rewrite Hrest, Hrf. split; [reflexivity|]. split; simpl; [lia|].
      repeat split; auto.
Qed.

Lemma unread_sim f s f' : R f s -> funread f = Some f' -> R f' (cunread s).
Proof.
  intros [Hlo HR] Hu. unfold funread in Hu. destruct (flast f) eqn:El; inversion Hu; subst; clear Hu.
  - destruct HR as (Hb & Hn & Hr). split; simpl; [lia|]. split; [exact I|].
    rewrite Hr. unfold absr; simpl. replace (idx s - 1 + 1) with (idx s) by lia.
    rewrite (nthZ_skipn (cur s) (idx s) c ltac:(lia) Hn). reflexivity.
  - destruct HR as (Hb & Hm & Hr). split; simpl.
    + pose proof (Zle_0_nat (length (cur s))). lia.
    + split; [exact I|]. rewrite Hr. unfold absr; simpl. rewrite Hm. simpl.
      unfold dropZ. rewrite skipn_all2 by lia. reflexivity.
Qed.

Theorem chunk_independent {A} (p : Prog A) : forall f s, R f s ->
  match run_flat p f with
  | None => True
  | Some (a, f') => let '(a', s') := run_chk p s in a = a' /\ R f' s'
  end.
Proof.
  induction p as [a|k IH|k IH]; intros f s HR; simpl.
  - auto.
  - pose proof (next_sim f s HR) as Hn. destruct (fnext f) as [c1 f1], (cnext s) as [c2 s1].
    destruct Hn as [-> HR1]. apply IH, HR1.
  - destruct (funread f) as [f1|] eqn:Eu; [|exact I]. apply IH. eapply unread_sim; eauto.
Qed.
Print Assumptions chunk_independent.
