import sys, shutil, os, io, contextlib, traceback
from srctools.bsp import BSP, BSP_LUMPS
SRC='/repo/tests/test_vec/rot_main.bsp'
views = ['pakfile','ents','textures','texinfo','cubemaps','overlays','bmodels','brushes','visleafs','water_leaf_info','nodes','visibility','vertexes','surfedges','planes','faces','orig_faces','hdr_faces','primitives','props','detail_props']
def snapshot(path):
    b = BSP(path)
    return b, {l: (v.version, v.data, getattr(v,'flags',None), v.is_compressed) for l,v in b.lumps.items()}, {k:(g.version,g.flags,g.data) for k,g in b.game_lumps.items()}
b0, l0, g0 = snapshot(SRC)
print(b0.version, b0.game_ver, b0.map_revision, {k.name:len(v[1]) for k,v in l0.items() if v[1]}, list(g0))
def trial(touch):
    shutil.copy(SRC, 'w.bsp')
    b = BSP('w.bsp')
    for v in touch:
        try: getattr(b, v)
        except Exception as e:
            return f'READERR {v}: {type(e).__name__} {e}'
    with contextlib.redirect_stdout(io.StringIO()):
        try: b.save('o.bsp')
        except Exception as e:
            return f'SAVEERR: {type(e).__name__} {e}\n' + traceback.format_exc()
    b1, l1, g1 = snapshot('o.bsp')
    diffs = [k.name for k in l0 if l0[k][1] != l1[k][1] or l0[k][0]!=l1[k][0]]
    gd = [k for k in g0 if g0.get(k) != g1.get(k)]
    return diffs, gd, b1.map_revision==b0.map_revision
print('none:', trial([]))
for v in views:
    print(v, trial([v]))
print('all:', trial(views))
