import os, tempfile, shutil, io, zipfile, pathlib
from srctools import AtomicWriter
d = tempfile.mkdtemp()
dest = os.path.join(d, 'out.bin'); open(dest,'wb').write(b'OLD')
# 1. replace fails
orig = pathlib.Path.replace
def bad_replace(self, target): raise OSError('EXDEV injected')
pathlib.Path.replace = bad_replace
try:
    with AtomicWriter(dest, is_bytes=True) as f: f.write(b'NEW')
except OSError as e: print('replace fault ->', e, sorted(os.listdir(d)), open(dest,'rb').read())
pathlib.Path.replace = orig
for n in os.listdir(d):
    if n.startswith('tmp_'): os.remove(os.path.join(d,n))
# 2. body exception
try:
    with AtomicWriter(dest, is_bytes=True) as f:
        f.write(b'PART'); raise RuntimeError('body')
except RuntimeError: print('body exc ->', sorted(os.listdir(d)), open(dest,'rb').read())
# 3. close (flush) fails: wrap temp's close
aw = AtomicWriter(dest, is_bytes=True)
f = aw.__enter__(); f.write(b'NEW2')
class Boom(Exception): pass
real_exit = aw.temp.__exit__
import builtins
# emulate flush failure by making the raw write fail at close: close fd underneath
os.close(f.fileno())
try:
    aw.__exit__(None, None, None)
except OSError as e: print('close fault ->', type(e).__name__, sorted(os.listdir(d)), open(dest,'rb').read())
# 4. dest named tmp_1
dest2 = os.path.join(d, 'sub'); os.mkdir(dest2); t1 = os.path.join(dest2, 'tmp_1')
aw = AtomicWriter(t1, is_bytes=True); f = aw.__enter__(); f.write(b'partial'); f.flush()
print('dest named tmp_1 during write ->', os.path.exists(t1), open(t1,'rb').read(), aw._temp_name)
aw.__exit__(None,None,None)
shutil.rmtree(d)
print('==== fs walk')
from srctools.filesys import ZipFileSystem, VPKFileSystem
from srctools.vpk import VPK
d = tempfile.mkdtemp()
zp = os.path.join(d,'a.zip')
with zipfile.ZipFile(zp,'w') as z:
    z.writestr('materials/a.vmt','1'); z.writestr('mat/b.txt','2'); z.writestr('Mat.txt','3')
zf = ZipFileSystem(zp); print('zip walk mat:', [f.path for f in zf.walk_folder('mat')], '| all:', len(list(zf)))
vp = os.path.join(d,'p_dir.vpk'); v = VPK(vp, mode='w'); v.add_file('materials/a.vmt', b'1'); v.add_file('Mat/b.txt', b'2'); v.add_file('root.txt', b'3'); v.write_dirfile()
vf = VPKFileSystem(vp); print('vpk walk mat:', [f.path for f in vf.walk_folder('mat')], '| MAT:', [f.path for f in vf.walk_folder('MAT')], '| all:', len(list(vf)))
print('vpk lookup path attr:', vf['MATERIALS/A.VMT'].path, '| zip:', zf['MATERIALS\\A.VMT'].path)
shutil.rmtree(d)
