import io, traceback, gc
from srctools.vmf import VMF, Entity, Solid, Side, Output, EntityGroup, VisGroup, DispFlag
from srctools.keyvalues import Keyvalues
from srctools.math import Vec
def rt(v, **kw):
    t = v.export(inc_version=False, **kw)
    v2 = VMF.parse(Keyvalues.parse(t), preserve_ids=True)
    return t, v2, v2.export(inc_version=False, **kw)
def section(s): print('=====', s)
section('groupid / group autoshown')
v = VMF()
g = EntityGroup(v, auto_shown=False); v.groups[g.id] = g
p = v.make_prism(Vec(0,0,0), Vec(64,64,64)); p.solid.group_id = g.id; v.add_brush(p)
e = v.create_ent('info_target', origin='1 2 3'); e.groups.add(g.id)
t, v2, t2 = rt(v)
print('fixed point:', t == t2, '| solid group', v2.brushes[0].group_id, '| ent groups', v2.entities[0].groups, '| grp autoshown', [x.auto_shown for x in v2.groups.values()])
section('displacement')
v = VMF(); p = v.make_prism(Vec(0,0,0), Vec(64,64,64)); v.add_brush(p)
s = p.top
d = Side(v, [q.copy() for q in s.planes], disp_power=2)
p.solid.sides[1] = d
try:
    t, v2, t2 = rt(v); print('disp fixed point', t==t2)
except Exception as ex: print('DISP ERR', type(ex).__name__, ex)
c = d.copy(); d.disp_allowed_vert[0] = 5
c2 = d.copy(); print('copy allowed_vert kept:', list(c2.disp_allowed_vert)[:2])
section('hidden order')
v = VMF(); a = v.create_ent('a'); a.hidden=True; b = v.create_ent('b')
t, v2, t2 = rt(v); print('fixed point w/ hidden-first:', t == t2, [x['classname'] for x in v2.entities])
section('fixup aliasing')
v = VMF(); e = v.create_ent('func_instance'); e.fixup['var'] = 'orig'
c = e.copy(); c.fixup['var'] = 'changed'; print('orig after copy mutation:', e.fixup['var'])
s1 = v.make_prism(Vec(0,0,0), Vec(8,8,8)).solid; s2 = s1.copy(); s2.editor_color.x = 1; print('solid editor_color shared:', s1.editor_color)
section('IDMan double discard')
v = VMF(); e1 = v.create_ent('x'); i1 = e1.id; e1.remove(); e2 = v.create_ent('y'); print('e2 reuses', e2.id == i1)
del e1; gc.collect(); e3 = v.create_ent('z'); print('dup ids:', e2.id, e3.id, e2.id == e3.id)
section('stale spawn after parse')
v = VMF.parse(Keyvalues.parse(VMF().export())); print('worldspawn set size', len(v.by_class['worldspawn']), len(v.by_target[None]))
section('index staleness')
v = VMF(); e = v.create_ent('Func_Door', targetname='Door1')
e['classname'] = 'func_button'; e['targetname'] = 'Btn'
print({k: len(s) for k, s in v.by_class.items()}, {k: len(s) for k, s in v.by_target.items()})
e.remove(); print('after remove', {k: len(s) for k, s in v.by_class.items()}, {k: len(s) for k, s in v.by_target.items()})
