#!/bin/bash
# MANIFEST.setup_cmd: offline, from files on disk only. Regenerates rocq/Gen from /repo/src and builds every .vo.
cd /verif || exit 2
export PYTHONPATH=/repo/src:/verif/shim:/verif PYTHONHASHSEED=0 PYTHONDONTWRITEBYTECODE=1
exec /venv/bin/python -m harness.setup --clean
