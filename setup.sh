#!/bin/bash
# MANIFEST.setup_cmd: offline, from files on disk only. Regenerates rocq/Gen from /repo/src and builds every .vo.
ROOT="${VERIF_ROOT:-$(cd "$(dirname "$0")" && pwd)}"
REPO="${VERIF_REPO:-/repo}"
cd "$ROOT" || exit 2
export VERIF_ROOT="$ROOT" VERIF_REPO="$REPO"
export PYTHONPATH="$REPO/src:$ROOT/shim:$ROOT" PYTHONHASHSEED=0 PYTHONDONTWRITEBYTECODE=1
exec /venv/bin/python -m harness.setup "$@"
