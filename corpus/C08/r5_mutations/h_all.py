# harmless variants of the code that became decisive in round 5, applied together
import sys
p = sys.argv[1] + '/src/srctools/vmf.py'
s = open(p).read()
# the destructor's guard as an early return inside try/except
old = "        if getattr(self, '_id_owned', False):\n            self.map.solid_id.discard(self.id)\n"
new = "        try:\n            if not self._id_owned:\n                return\n        except AttributeError:\n            return\n        self.map.solid_id.discard(self.id)\n"
assert s.count(old) == 1
s = s.replace(old, new)
# __copy__ as an alias / with explicit arguments
i = s.index("    def __copy__(self) -> 'Side':")
j = s.index("        return self.copy()\n", i) + len("        return self.copy()\n")
s = s[:i] + "    __copy__ = copy\n" + s[j:]
s = s.replace("""        \"\"\"copy.copy() makes a real duplicate with an ID of its own, not a second group with our ID.\"\"\"
        return self.copy()""", """        \"\"\"copy.copy() makes a real duplicate with an ID of its own, not a second group with our ID.\"\"\"
        return self.copy(self.vmf)""")
# registration through a local
old = "        self.id = self.map.solid_id.get_id(self.id)\n        self._id_owned = True\n"
new = "        new_id = self.map.solid_id.get_id(self.id)\n        self.id = new_id\n        self._id_owned = True\n"
assert s.count(old) == 1
s = s.replace(old, new)
open(p, 'w').write(s)
