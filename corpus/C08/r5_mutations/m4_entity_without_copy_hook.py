# M4: Entity.__copy__ removed (copy.copy(ent) is the default field-by-field duplicate again)
import sys
p = sys.argv[1] + '/src/srctools/vmf.py'
s = open(p).read()
i = s.index("    def __copy__(self) -> 'Entity':")
j = s.index("        return self.copy()\n", i) + len("        return self.copy()\n")
open(p, 'w').write(s[:i] + s[j:].lstrip('\n'))
