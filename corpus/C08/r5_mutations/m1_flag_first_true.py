# M1: the ownership flag is declared first and starts as True: a half-built Solid "owns" the requested ID
import sys, re
p = sys.argv[1] + '/src/srctools/vmf.py'
s = open(p).read()
old = "    _id_owned: bool = attrs.field(default=False, init=False, repr=False)\n"
assert s.count(old) == 1
s = s.replace(old, '')
s = s.replace('    """A single brush, serving as both world brushes and brush entities."""\n    map: VMF\n',
              '    """A single brush, serving as both world brushes and brush entities."""\n    _id_owned: bool = attrs.field(default=True, init=False, repr=False)\n    map: VMF\n')
open(p, 'w').write(s)
