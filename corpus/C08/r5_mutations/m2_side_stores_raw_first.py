# M2: Side.__init__ "assigns the plain fields first": self.id = des_id before the length test, registration afterwards
import sys
p = sys.argv[1] + '/src/srctools/vmf.py'
s = open(p).read()
old = """        self.map = vmf_file
        if len(planes) != 3:
            raise ValueError('Must have only 3 planes!')
        self.planes = planes
        self.id = vmf_file.face_id.get_id(des_id)
"""
new = """        self.map = vmf_file
        self.id = des_id
        if len(planes) != 3:
            raise ValueError('Must have only 3 planes!')
        self.planes = planes
        self.id = vmf_file.face_id.get_id(self.id)
"""
assert s.count(old) == 1
open(p, 'w').write(s.replace(old, new))
