# M3: VisGroup gets a validator on `name` and a destructor that gives its ID back
import sys
p = sys.argv[1] + '/src/srctools/vmf.py'
s = open(p).read()
old = """    vmf: VMF
    name: str
    id: int = attrs.field(default=-1)
    color: Vec = attrs.field(factory=lambda: Vec(255, 255, 255))
    child_groups: list['VisGroup'] = attrs.field(factory=list)

    def __attrs_post_init__(self) -> None:
        self.id = self.vmf.vis_id.get_id(self.id)
"""
new = """    vmf: VMF
    name: str = attrs.field(validator=attrs.validators.instance_of(str))
    id: int = attrs.field(default=-1)
    color: Vec = attrs.field(factory=lambda: Vec(255, 255, 255))
    child_groups: list['VisGroup'] = attrs.field(factory=list)

    def __attrs_post_init__(self) -> None:
        self.id = self.vmf.vis_id.get_id(self.id)

    def __del__(self) -> None:
        self.vmf.vis_id.discard(self.id)
"""
assert s.count(old) == 1
open(p, 'w').write(s.replace(old, new))
