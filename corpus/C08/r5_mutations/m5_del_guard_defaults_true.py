# M5: Solid.__del__ treats a missing flag as "owned" (getattr default True)
import sys
p = sys.argv[1] + '/src/srctools/vmf.py'
s = open(p).read()
old = "        if getattr(self, '_id_owned', False):\n"
assert s.count(old) == 1
open(p, 'w').write(s.replace(old, "        if getattr(self, '_id_owned', True):\n"))
