# collapse_one(visgroup=<VisGroup>): the visgroup trees are copied for the instance's own map
import sys; p=sys.argv[1]+'/src/srctools/instancing.py'; s=open(p).read()
a="            new_group = old_group.copy(vmf, inst.visgroup_ids)\n"; assert s.count(a)==1
s=s.replace(a,"            new_group = old_group.copy(vmf if visgroup is True else file.vmf, inst.visgroup_ids)\n"); open(p,'w').write(s)
