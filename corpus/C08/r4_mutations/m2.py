# the placeholder is not taken out of by_class: it never dies
import sys; p=sys.argv[1]+'/src/srctools/vmf.py'; s=open(p).read()
a="        _remove_copyset(map_obj.by_class, 'worldspawn', map_obj.spawn)\n"; assert s.count(a)==1
s=s.replace(a,""); open(p,'w').write(s)
