# IDMan.get_id stops advancing at 3: the scan never ends once 1-3 are taken (run the check with C08_STAGE_LIMIT_S=15)
import sys; p=sys.argv[1]+'/src/srctools/vmf.py'; s=open(p).read()
a="                return poss_id\n            poss_id += 1\n"; assert s.count(a)==1
s=s.replace(a,"                return poss_id\n            if poss_id < 3:\n                poss_id += 1\n"); open(p,'w').write(s)
