# alias keeps the placeholder alive until parse returns
import sys; p=sys.argv[1]+'/src/srctools/vmf.py'; s=open(p).read()
a="        map_obj.spawn = worldspawn\n"; assert s.count(a)==1
s=s.replace(a,"        old_spawn = map_obj.spawn\n"+a); open(p,'w').write(s)
