# parse gives the placeholder's ID back explicitly after replacing it, and the alias dies at return: released twice
import sys; p=sys.argv[1]+'/src/srctools/vmf.py'; s=open(p).read()
a="        map_obj.spawn = worldspawn\n"; assert s.count(a)==1
s=s.replace(a,"        old_spawn = map_obj.spawn\n"+a+"        map_obj.ent_id.discard(old_spawn.id)\n"); open(p,'w').write(s)
