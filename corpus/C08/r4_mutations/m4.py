# VMF.parse always builds the map with preserve_ids=True
import sys; p=sys.argv[1]+'/src/srctools/vmf.py'; s=open(p).read()
a="            preserve_ids=preserve_ids,\n"; assert s.count(a)==1
s=s.replace(a,"            preserve_ids=True,\n"); open(p,'w').write(s)
