# five behaviour-preserving rewrites of the code that became decisive in round 4, applied together
import sys; R=sys.argv[1]; p=R+'/src/srctools/vmf.py'; s=open(p).read()
a = s.index("    def parse(tree: Union[Keyvalues, str], preserve_ids: bool = False) -> 'VMF':")
b = s.index("    @overload\n    def export(", a)
body = s[a:b].replace('map_obj', 'new_map')                                  # H1 rename
old = """            if block.name == 'entity':
                new_map.add_ent(
                    Entity.parse(new_map, block, False)  # hidden=False
                )
            elif block.name == 'hidden':
                for ent in block:
                    new_map.add_ent(
                        Entity.parse(new_map, ent, True)  # hidden=True
                    )
"""
assert body.count(old) == 1
body = body.replace(old, """            if block.name == 'hidden':
                for ent in block:
                    parsed = Entity.parse(new_map, ent, hidden=True)
                    new_map.add_ent(parsed)
            elif block.name == 'entity':
                parsed = Entity.parse(new_map, block)
                new_map.add_ent(parsed)
""")                                                                          # H3 branches swapped, temp, keyword
old = """        _remove_copyset(new_map.by_class, 'worldspawn', new_map.spawn)
        _remove_copyset(new_map.by_target, None, new_map.spawn)
"""
assert body.count(old) == 1
body = body.replace(old, """        _remove_copyset(new_map.by_target, None, new_map.spawn)
        _remove_copyset(new_map.by_class, 'worldspawn', new_map.spawn)
""")                                                                          # H4 removals swapped
body = body.replace("Entity.parse(new_map, map_spawn, _worldspawn=True)", "Entity.parse(new_map, map_spawn, False, True)")   # H2 positional
s = s[:a] + body + s[b:]
old = "id_man = NullIDMan if preserve_ids else IDMan"
assert s.count(old) == 1
s = s.replace(old, "id_man = IDMan if not preserve_ids else NullIDMan")      # H6
old = "Entity(self, keys=kargs)"
assert s.count(old) == 1
s = s.replace(old, "Entity(vmf_file=self, keys=kargs)")                      # H8
open(p, 'w').write(s)
