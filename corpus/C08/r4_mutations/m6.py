# Entity.__delitem__('nodeid') releases the node ID but keeps the key (round-3 mutation: only a correspondence reacts first)
import sys; p=sys.argv[1]+'/src/srctools/vmf.py'; s=open(p).read()
a="                val = self._keys.pop(k)  # noqa: B909\n"; assert s.count(a)==1
s=s.replace(a,"                val = self._keys[k] if key == 'nodeid' else self._keys.pop(k)  # noqa: B909\n"); open(p,'w').write(s)
