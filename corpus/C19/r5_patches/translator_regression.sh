#!/bin/bash
# Translator-only regression over the round-5 patches (both translators: c19_walk and c19_state) (no coqc): every harmless refactoring must give the generated file of
# the unchanged tree (or one of the equivalent recognised forms listed in EQUIV), every fault must change it or fail closed.
# usage: translator_regression.sh <verif root> <repo root>      (works on a private copy of <repo root>/src)
V=${1:?verif root}; R=${2:?repo root}; HERE=$(cd "$(dirname "$0")" && pwd)
T=$(mktemp -d /var/tmp/c19_regr.XXXXXX); trap 'rm -rf "$T"' EXIT
cp -r "$R/src" "$T/src"; cd "$T" && git init -q && git add -A >/dev/null && git -c user.email=x@y -c user.name=x commit -qm base >/dev/null
PY=${PYTHON:-/venv/bin/python}
gen() { (cd "$V" && VERIF_ROOT="$V" VERIF_REPO="$T" PYTHONPATH="$T/src:$V/shim:$V" $PY -c "
from translate import c19_walk, c19_state
for mod in (c19_walk, c19_state):
    try:
        print(mod.translate()[0])
    except Exception as e:
        print('FAIL-CLOSED:', str(e)[:200])
" 2>/dev/null | grep -v '^WARNING conda'); }
gen > "$T/base.v"
grep -q FAIL-CLOSED "$T/base.v" && { echo "unchanged tree fails closed: $(cat $T/base.v)"; exit 1; }
EQUIV='ExLoop false false \[OSlash\]|CIfNoTail CPreload CRead'
bad=0
for f in "$HERE"/harmless/*.diff; do
  git -C "$T" checkout -q -- . && git -C "$T" apply "$f" || { echo "DOES NOT APPLY $(basename $f)"; bad=1; continue; }
  d=$(gen | diff - "$T/base.v" | grep '^<' | grep -Ev "$EQUIV")
  [ -n "$d" ] && { echo "ALARM on harmless $(basename $f): $d" | cut -c1-300; bad=1; }
done
for f in "$HERE"/faults/*.diff; do
  git -C "$T" checkout -q -- . && git -C "$T" apply "$f" || { echo "DOES NOT APPLY $(basename $f)"; bad=1; continue; }
  d=$(gen | diff - "$T/base.v" | grep '^<')
  [ -z "$d" ] && { echo "MISSED fault $(basename $f)"; bad=1; }
done
[ $bad = 0 ] && echo "translator regression: $(ls "$HERE"/harmless/*.diff | wc -l) harmless quiet, $(ls "$HERE"/faults/*.diff | wc -l) faults noticed"
exit $bad
