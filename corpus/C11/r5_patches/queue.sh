#!/bin/bash
# usage: queue.sh <outfile> <tag>=<patch|none>[@SEED] ...  -- runs the given patched copies two at a time (machine-load rule)
out=$1; shift
run() { t=${1%%=*}; p=${1#*=}; seed=""; case $p in *@*) seed=${p##*@}; p=${p%@*};; esac
  if [ -n "$seed" ]; then VERIF_SEED=$seed bash $(dirname $0)/run.sh $t $p quick 30; else bash $(dirname $0)/run.sh $t $p quick 30; fi; }
while [ $# -gt 0 ]; do
  run $1 >> $out.a 2>&1 &
  if [ $# -gt 1 ]; then run $2 >> $out.b 2>&1 & fi
  wait; shift; [ $# -gt 0 ] && shift
done
cat $out.a $out.b > $out 2>/dev/null; echo DONE >> $out
