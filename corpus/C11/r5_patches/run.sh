#!/bin/bash
# usage: run.sh <tag> <patch-file|none> [tier]  -- runs C11 in private copies of my verif/repo worktrees
tag=$1; patch=$2; tier=${3:-quick}
w=/var/tmp/c11_par/$tag
rm -rf $w; mkdir -p $w/repo
rsync -a --exclude .git --exclude replays --exclude __pycache__ /var/tmp/wt/c11_verif/ $w/verif/
rsync -a --exclude .git --exclude __pycache__ /var/tmp/wt/c11_repo/ $w/repo/
if [ "$patch" != none ]; then (cd $w/repo && git init -q . 2>/dev/null; git -C $w/repo apply $patch) || { echo "PATCH FAILED $tag"; exit 2; }; fi
start=$(date +%s)
VERIF_ROOT=$w/verif VERIF_REPO=$w/repo timeout 1200 $w/verif/check C11 --tier $tier > $w/out.log 2>&1
echo "exit=$? wall=$(( $(date +%s) - start ))s" >> $w/out.log
/venv/bin/python - <<PY >> $w/out.log 2>&1
import json
e=json.load(open('$w/verif/evidence/C11.json'))
for o in e['coverage']['obligation_list']:
    if not o.get('ok', True): print('FAILED-OBLIGATION', o['name'])
PY
echo "== $tag"; grep -v "^WARNING" $w/out.log | grep "VIOLATION\|KNOWN\|^\[C11\]\|exit=\|FAILED-OB" | sed 's#/var/tmp/c11_par/[^/]*/verif/replays/##' | head -${4:-12}
