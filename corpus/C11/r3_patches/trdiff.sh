#!/bin/bash
# usage: trdiff.sh <tag> <patch|none> : translator output of a patched private repo copy vs the unpatched worktree
tag=$1; patch=$2; w=/var/tmp/c11_par/trd/$tag
rm -rf $w; mkdir -p $w
rsync -a --exclude .git --exclude __pycache__ --exclude tests /var/tmp/wt/c11_repo/ $w/repo/
if [ "$patch" != none ]; then (cd $w/repo && git init -q . 2>/dev/null; git -C $w/repo apply $patch) || { echo "PATCH FAILED"; exit 2; }; fi
cd /var/tmp/wt/c11_verif
VERIF_REPO=$w/repo PYTHONPATH=$w/repo/src:/var/tmp/wt/c11_verif/shim:/var/tmp/wt/c11_verif timeout 300 /venv/bin/python /var/tmp/c11_par/trgen.py $w/gen 2>&1 | grep -v "^WARNING"
if [ "$tag" != base ]; then for k in formats glue; do echo "-- $tag $k"; diff /var/tmp/c11_par/trd/base/gen.$k.v $w/gen.$k.v | head -${3:-20}; done; fi
