import sys
from translate import c11_glue, c11_formats
out = sys.argv[1]
for nm, fn in (('formats', c11_formats.translate), ('glue', c11_glue.translate)):
    try:
        t, s = fn()
    except Exception as e:
        t = f'{type(e).__name__}: {e}\n'
    open(f'{out}.{nm}.v', 'w').write(t)
