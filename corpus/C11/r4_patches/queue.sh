#!/bin/bash
# usage: queue.sh tag=patch ...   (2 jobs at a time)
printf '%s\n' "$@" | xargs -P 2 -I{} bash -c 'j={}; tag=${j%%=*}; patch=${j#*=}; /var/tmp/c11_par/run.sh $tag $patch quick 25 > /var/tmp/c11_par/$tag.txt 2>&1'
echo QUEUE-DONE
