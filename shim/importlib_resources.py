# Harness-side shim: /repo/src/srctools/fgd.py imports the PyPI backport, which /venv lacks.
from importlib.resources import *  # noqa
from importlib.resources import files, as_file  # noqa
