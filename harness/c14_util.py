"""C14 helpers: DMX graph specs (plain JSON-able data), building real srctools.dmx graphs from them, canonical
form of a real graph (independent breadth-first walk), isomorphism comparison, generators and a shrinker.

A *spec* is {'elems': [E0, E1, ...]} with E = {'type': str, 'name': str, 'uuid': 32 hex digits,
'attrs': [[name, TYPE, is_array, values], ...]}; root is E0.  TYPE is the ValueType member name.  values is a list
(one item for scalars).  Items: ELEMENT -> int (index) | None (NULL) | ['stub', hex32]; INTEGER -> int;
FLOAT/TIME -> float; BOOL -> bool; STRING -> str; BINARY -> hex str; COLOR -> [r,g,b,a]; VEC2/VEC3/VEC4/ANGLE/
QUATERNION -> list of floats; MATRIX -> 9 floats (3x3 row major).
An element may carry 'ops': an API history applied to the built Element after its attributes were assigned, in order:
['clear'] | ['del', name] | ['pop', name] | ['popitem'] | ['setname', text] (the Element.name setter) |
['set', name, TYPE, is_array, values] (elem[name] = Attribute) | ['setdefault', name, TYPE, is_array, values].
Names are spelled in any case (the mapping API casefolds them); the 'name' member can be removed and re-added.
"""
from __future__ import annotations

import contextlib
import io
import math
import random
import struct
import uuid as uuidmod
from typing import Any

TYPES = ['ELEMENT', 'INTEGER', 'FLOAT', 'BOOL', 'STRING', 'BINARY', 'TIME', 'COLOR', 'VEC2', 'VEC3', 'VEC4',
         'ANGLE', 'QUATERNION', 'MATRIX']
NFLOATS = {'VEC2': 2, 'VEC3': 3, 'VEC4': 4, 'ANGLE': 3, 'QUATERNION': 4, 'MATRIX': 9}
UNICODE_MODES = ['ascii', 'format', 'silent']


# ------------------------------------------------------------------------------------------------ build / canon
def _mk_value(typ: str, v: Any, elems: list, stubs: dict):
    from srctools import dmx
    from srctools.math import FrozenAngle, FrozenVec, Matrix
    if typ == 'ELEMENT':
        if v is None:
            return dmx.NULL
        if isinstance(v, int):
            return elems[v]
        key = v[1]
        if key not in stubs:
            stubs[key] = dmx.StubElement.stub(uuidmod.UUID(hex=key))
        return stubs[key]
    if typ == 'INTEGER':
        return int(v)
    if typ == 'FLOAT':
        return float(v)
    if typ == 'BOOL':
        return bool(v)
    if typ == 'STRING':
        return str(v)
    if typ == 'BINARY':
        return bytes.fromhex(v)
    if typ == 'TIME':
        return dmx.Time(float(v))
    if typ == 'COLOR':
        return dmx.Color(*v)
    if typ == 'VEC2':
        return dmx.Vec2(*v)
    if typ == 'VEC3':
        return FrozenVec(*v)
    if typ == 'VEC4':
        return dmx.Vec4(*v)
    if typ == 'ANGLE':
        return FrozenAngle(*v)
    if typ == 'QUATERNION':
        return dmx.Quaternion(*v)
    if typ == 'MATRIX':
        m = Matrix()
        for i in range(3):
            for j in range(3):
                m[i, j] = v[3 * i + j]
        return m.freeze()
    raise ValueError(typ)


def build(spec: dict):
    """Build the real element graph; returns the list of Element objects (root first)."""
    from srctools import dmx
    elems = [dmx.Element(e['name'], e['type'], uuidmod.UUID(hex=e['uuid'])) for e in spec['elems']]
    stubs: dict = {}
    for e, obj in zip(spec['elems'], elems):
        for name, typ, is_arr, vals in e['attrs']:
            vt = dmx.ValueType[typ]
            conv = [_mk_value(typ, v, elems, stubs) for v in vals]
            obj[name] = dmx.Attribute(name, vt, conv if is_arr else conv[0])
    for e, obj in zip(spec['elems'], elems):
        for op in e.get('ops', ()):
            apply_op(obj, op, elems, stubs)
    return elems


def apply_op(obj, op: list, elems: list, stubs: dict) -> None:
    """One step of an API history on a real Element (see the module docstring for the op forms).  Removing a key that
    is not there is a no-op here and in [effective] (the shrinker may have dropped the step that added it)."""
    from srctools import dmx
    kind = op[0]
    if kind == 'clear':
        obj.clear()
    elif kind == 'del':
        try:
            del obj[op[1]]
        except KeyError:
            pass
    elif kind == 'pop':
        obj.pop(op[1], '')
    elif kind == 'popitem':
        try:
            obj.popitem()
        except KeyError:
            pass
    elif kind == 'setname':
        obj.name = op[1]
    elif kind in ('set', 'setdefault'):
        _, name, typ, is_arr, vals = op
        conv = [_mk_value(typ, v, elems, stubs) for v in vals]
        a = dmx.Attribute(name, dmx.ValueType[typ], conv if is_arr else conv[0])
        if kind == 'set':
            obj[name] = a
        else:
            obj.setdefault(name, a)
    else:
        raise ValueError(op)


def effective(e: dict) -> tuple[str, bool, list]:
    """What an element of a spec looks like after its attribute list and its API history: (name, has a 'name' member,
    all members in dict order as [key, [name, TYPE, is_array, values]]) — an independent simulation of the ordered,
    casefold-keyed `_members` dict (assignment to an existing key keeps its position; Element.name reads the 'name'
    member or '' when it is missing, the setter appends it when missing)."""
    mem: dict = {'name': ['name', 'STRING', False, [e['name']]]}
    for a in e['attrs']:
        mem[a[0].casefold()] = list(a)
    for op in e.get('ops', ()):
        kind = op[0]
        if kind == 'clear':
            mem.clear()
        elif kind in ('del', 'pop'):
            mem.pop(op[1].casefold(), None)
        elif kind == 'popitem':
            if mem:
                mem.popitem()
        elif kind == 'setname':
            if 'name' in mem:
                mem['name'] = [mem['name'][0], 'STRING', False, [op[1]]]
            else:
                mem['name'] = ['name', 'STRING', False, [op[1]]]
        elif kind == 'set':
            mem[op[1].casefold()] = list(op[1:])
        elif kind == 'setdefault':
            mem.setdefault(op[1].casefold(), list(op[1:]))
        else:
            raise ValueError(op)
    nm = mem.get('name')
    name = '' if nm is None else str(nm[3][0])
    return name, nm is not None, [[k, v] for k, v in mem.items()]


def eff_attrs(e: dict) -> list:
    """The attribute records of an element (every member except the one keyed 'name')."""
    return [v for k, v in effective(e)[2] if k != 'name']


def _canon_value(typ: str, v: Any, index_of) -> Any:
    if typ == 'ELEMENT':
        return index_of(v)
    if typ == 'INTEGER':
        return int(v)
    if typ == 'FLOAT':
        return float(v)
    if typ == 'BOOL':
        return bool(v)
    if typ == 'STRING':
        return str(v)
    if typ == 'BINARY':
        return bytes(v).hex()
    if typ == 'TIME':
        return float(v.value)
    if typ == 'COLOR':
        return [v.r, v.g, v.b, v.a]
    if typ in ('VEC2', 'VEC4', 'QUATERNION'):
        return [float(x) for x in v]
    if typ == 'VEC3':
        return [float(v.x), float(v.y), float(v.z)]
    if typ == 'ANGLE':
        return [float(v.pitch), float(v.yaw), float(v.roll)]
    if typ == 'MATRIX':
        return [float(v[i, j]) for i in range(3) for j in range(3)]
    raise ValueError(typ)


def canon(root) -> dict:
    """Canonical spec of the graph reachable from `root`: elements numbered in breadth-first order of first
    reference (attribute order, then array order), identity = Python object identity (NOT the UUID), stubs and
    NULL kept as such.  Also records 'refs': how often each element is referenced (root counts once)."""
    from srctools import dmx
    order: list = [root]
    idx = {id(root): 0}
    refs = [1]
    out = []

    def index_of(el):
        if el is dmx.NULL or el.is_null:
            return None
        if el.is_stub:
            return ['stub', el.uuid.hex]
        k = idx.get(id(el))
        if k is None:
            k = idx[id(el)] = len(order)
            order.append(el)
            refs.append(0)
        refs[k] += 1
        return k

    i = 0
    while i < len(order):
        el = order[i]
        i += 1
        attrs = []
        keys = []                       # the dict key each attribute record is stored under (what elem[name] looks up)
        members: list | None = []       # the dict itself, the 'name' member included: [key, [name, TYPE, is_array, values]]
        for key, attr in el._members.items():
            typ = attr.type.name
            raw = attr._value if attr.is_array else [attr._value]
            if key == 'name':
                if typ == 'ELEMENT':
                    members = None       # not generated; the exporters never follow a reference held by the name member
                elif members is not None:
                    members.append([key, [attr.name, typ, bool(attr.is_array), [_canon_value(typ, v, index_of) for v in raw]]])
                continue
            rec = [attr.name, typ, bool(attr.is_array), [_canon_value(typ, v, index_of) for v in raw]]
            attrs.append(rec)
            keys.append(key)
            if members is not None:
                members.append([key, rec])
        out.append({'type': el.type, 'name': el.name, 'uuid': el.uuid.hex, 'attrs': attrs, 'members': members, 'keys': keys})
    return {'elems': out, 'refs': refs}


def reachable_canon(spec: dict) -> dict:
    """canon() computed on the spec itself (no srctools involved): what an isomorphic copy must look like."""
    elems = spec['elems']
    order = [0]
    idx = {0: 0}
    refs = [1]
    out = []
    i = 0
    while i < len(order):
        e = elems[order[i]]
        i += 1
        attrs = []
        ename, has_name, members = effective(e)
        for name, typ, is_arr, vals in (v for k, v in members if k != 'name'):
            nv = []
            for v in vals:
                if typ == 'ELEMENT' and isinstance(v, int):
                    if v not in idx:
                        idx[v] = len(order)
                        order.append(v)
                        refs.append(0)
                    refs[idx[v]] += 1
                    nv.append(idx[v])
                elif typ == 'ELEMENT' and v is not None:
                    nv.append(['stub', v[1]])
                else:
                    nv.append(v)
            attrs.append([name, typ, is_arr, nv])
        out.append({'type': e['type'], 'name': ename, 'uuid': e['uuid'], 'attrs': attrs, 'has_name': has_name,
                    'keys': [k for k, _ in members if k != 'name'],
                    'name_pos': next((j for j, (k, _) in enumerate(members) if k == 'name'), None)})
    return {'elems': out, 'refs': refs}


# ------------------------------------------------------------------------------------------------ comparison
def _f32(x: float) -> float:
    return struct.unpack('<f', struct.pack('<f', x))[0]


def _feq(a: float, b: float, text: bool, angle: bool = False) -> bool:
    if math.isnan(a) or math.isnan(b):
        return math.isnan(a) and math.isnan(b)
    if not text:
        return struct.pack('<d', a) == struct.pack('<d', b)
    if math.isinf(a) or math.isinf(b):
        return a == b
    d = abs(a - b)
    if angle:
        d = min(d, abs(d - 360.0))
    return d <= 5.0e-7 + 1e-12 * abs(a)


def diff(a: dict, b: dict, text: bool, uuid_all: bool = True) -> str | None:
    """First difference between two canonical specs (None = isomorphic).  text=True: floats to 6 decimals.
    uuid_all=False (cull_uuid in nested layout): UUIDs are compared only for the root and shared elements."""
    if len(a['elems']) != len(b['elems']):
        return f'element count {len(a["elems"])} != {len(b["elems"])}'
    for i, (x, y) in enumerate(zip(a['elems'], b['elems'])):
        for f in ('type', 'name'):
            if x[f] != y[f]:
                return f'elem[{i}].{f}: {x[f]!r} != {y[f]!r}'
        if (uuid_all or a['refs'][i] > 1 or i == 0) and x['uuid'] != y['uuid']:
            return f'elem[{i}].uuid: {x["uuid"]} != {y["uuid"]}'
        if len(x['attrs']) != len(y['attrs']):
            return f'elem[{i}] attribute count {len(x["attrs"])} != {len(y["attrs"])} ({[t[0] for t in x["attrs"]]} vs {[t[0] for t in y["attrs"]]})'
        kx, ky = x.get('keys'), y.get('keys')
        for j, ((n1, t1, a1, v1), (n2, t2, a2, v2)) in enumerate(zip(x['attrs'], y['attrs'])):
            w = f'elem[{i}].attr[{n1!r}]'
            if n1 != n2:
                return f'{w} name != {n2!r}'
            if kx is not None and ky is not None and kx[j] != ky[j]:
                # same record, but the mapping API (elem[name], `in`, del) does not find it under its name any more
                return f'{w} key: stored under {ky[j]!r}, not under {kx[j]!r} (lookup by name fails)'
            if t1 != t2:
                return f'{w} type {t1} != {t2}'
            if a1 != a2:
                return f'{w} array-ness {a1} != {a2}'
            if len(v1) != len(v2):
                return f'{w} length {len(v1)} != {len(v2)}'
            for k, (p, q) in enumerate(zip(v1, v2)):
                if t1 in ('FLOAT', 'TIME'):
                    ok = _feq(p, q, text and t1 == 'FLOAT')
                elif t1 in NFLOATS:
                    ok = len(p) == len(q) and all(_feq(s, t, text and t1 != 'MATRIX', t1 == 'ANGLE') for s, t in zip(p, q))
                else:
                    ok = p == q
                if not ok:
                    return f'{w}[{k}] value {p!r} != {q!r}'
    return None


# ------------------------------------------------------------------------------------------------ round trips
class HangTimeout(BaseException):
    """A call into the implementation did not return within the limit (a loop that does not end).  Not an Exception: the
    `except Exception` handlers that turn an error of the implementation into "skip this case" must not swallow it."""


HANG_LIMIT_S = 10.0      # one export / parse of these graphs takes a few milliseconds, also on a loaded machine


@contextlib.contextmanager
def time_limit(seconds: float = HANG_LIMIT_S):
    """Interrupt the enclosed call into the implementation after `seconds` (main thread only; a no-op elsewhere).  The
    caller treats HangTimeout like any other exception of the implementation: a failing input."""
    import signal
    import threading
    if threading.current_thread() is not threading.main_thread() or not hasattr(signal, 'setitimer'):
        yield
        return

    import time

    def on_alarm(signum, frame):
        raise HangTimeout(f'no result after {seconds:g} s')
    outer_left = signal.getitimer(signal.ITIMER_REAL)[0]       # an enclosing limit, if any, goes on afterwards
    t0 = time.monotonic()
    old = signal.signal(signal.SIGALRM, on_alarm)
    signal.setitimer(signal.ITIMER_REAL, seconds)
    try:
        yield
    finally:
        signal.setitimer(signal.ITIMER_REAL, 0)
        signal.signal(signal.SIGALRM, old)
        if outer_left > 0:
            signal.setitimer(signal.ITIMER_REAL, max(outer_left - (time.monotonic() - t0), 0.01))


def arm(seconds: float = 20.0) -> None:
    """(Re)start a limit for the code that follows, until the next arm() or disarm(): used at the top of every iteration of a
    correspondence loop, so that one case cannot keep a stage busy for ever.  The HangTimeout ends the stage (a broken
    tie, see the stage guard in checks/c14.py); the searches, which have their own limits per call, then produce the input."""
    import signal
    import threading
    if threading.current_thread() is not threading.main_thread() or not hasattr(signal, 'setitimer'):
        return

    def on_alarm(signum, frame):
        raise HangTimeout(f'one case of the stage did not finish within {seconds:g} s')
    signal.signal(signal.SIGALRM, on_alarm)
    signal.setitimer(signal.ITIMER_REAL, seconds)


def disarm() -> None:
    import signal
    import threading
    if threading.current_thread() is threading.main_thread() and hasattr(signal, 'setitimer'):
        signal.setitimer(signal.ITIMER_REAL, 0)
        signal.signal(signal.SIGALRM, signal.SIG_DFL)


def roundtrip(spec: dict, mode: dict) -> tuple[str | None, str]:
    """Build, export, parse, compare.  Returns (problem or None, stage).  mode: {'fmt':'binary','version':v,
    'unicode':u} or {'fmt':'kv2','flat':b,'cull_uuid':b,'unicode':u}.  Every call into the implementation runs under
    a time limit and any exception it raises is a problem of that stage (never an error of the check)."""
    from srctools import dmx
    try:
        with time_limit():
            elems = build(spec)
            before = canon(elems[0])
    except (Exception, HangTimeout) as e:   # the mapping API of Element / Attribute on valid arguments
        return f'building the graph raised {type(e).__name__}: {str(e)[:200]}', 'build'
    buf = io.BytesIO()
    # the format name / version arguments of the exporters (defaults 'dmx', 1 when the mode does not give them)
    fmt_kw = {k: mode[k] for k in ('fmt_name', 'fmt_ver') if k in mode}
    try:
        with time_limit():
            if mode['fmt'] == 'binary':
                elems[0].export_binary(buf, version=mode['version'], unicode=mode['unicode'], **fmt_kw)
            else:
                elems[0].export_kv2(buf, flat=mode['flat'], cull_uuid=mode['cull_uuid'], unicode=mode['unicode'], **fmt_kw)
    except (Exception, HangTimeout) as e:   # the data is expressible by construction: an export error loses the graph
        return f'export raised {type(e).__name__}: {e}', 'export'
    data = buf.getvalue()
    try:
        with time_limit():
            got, got_name, got_ver = dmx.Element.parse(io.BytesIO(data), unicode=(mode['unicode'] == 'silent'))
            after = canon(got)
    except (Exception, HangTimeout) as e:
        return f'parse raised {type(e).__name__}: {str(e)[:200]}', 'parse'
    if (got_name, got_ver) != (fmt_kw.get('fmt_name', 'dmx'), fmt_kw.get('fmt_ver', 1)):
        return f'format name / version {fmt_kw or ("dmx", 1)} came back as {(got_name, got_ver)}', 'header'
    d = diff(before, after, text=(mode['fmt'] == 'kv2'),
             uuid_all=not (mode['fmt'] == 'kv2' and mode['cull_uuid'] and not mode['flat']))
    if d is not None:
        return d, 'compare'
    # state carried between calls: exporting must leave the graph as it was and give the same bytes when repeated;
    # parsing the same bytes again must give the same graph (nothing kept from the first call)
    try:
        with time_limit():
            if canon(elems[0]) != before:
                return 'the export changed the graph it was given', 'repeat'
            buf2 = io.BytesIO()
            if mode['fmt'] == 'binary':
                elems[0].export_binary(buf2, version=mode['version'], unicode=mode['unicode'], **fmt_kw)
            else:
                elems[0].export_kv2(buf2, flat=mode['flat'], cull_uuid=mode['cull_uuid'], unicode=mode['unicode'], **fmt_kw)
            if buf2.getvalue() != data:
                return 'a second export of the same graph gives other bytes', 'repeat'
            got2, _, _ = dmx.Element.parse(io.BytesIO(data), unicode=(mode['unicode'] == 'silent'))
            d2 = diff(before, canon(got2), text=(mode['fmt'] == 'kv2'),
                      uuid_all=not (mode['fmt'] == 'kv2' and mode['cull_uuid'] and not mode['flat']))
            if d2 is not None:
                return f'a second parse of the same bytes differs: {d2}', 'repeat'
    except (Exception, HangTimeout) as e:
        return f'repeating export / parse raised {type(e).__name__}: {str(e)[:200]}', 'repeat'
    # second generation: the graph that was read is an element graph like any other.  Objects handed out by the parser
    # are modified through the public API (name setter, item assignment, Attribute.__setitem__ on the first INTEGER /
    # STRING array); the result must be what the same modifications give on the canonical form (nothing shared between
    # the parsed elements or their attributes), and must itself survive an export in the other layout / version.
    try:
        with time_limit():
            import copy
            exp = copy.deepcopy(after)
            for k, (el, ce) in enumerate(zip(_bfs(got), exp['elems'])):
                if ce['members'] is None:
                    continue
                el.name = ce['name'] + '~'
                ce['name'] += '~'
                for key, rec in ce['members']:
                    if key == 'name':
                        rec[3] = [ce['name']]
                for rec in ce['attrs']:
                    if rec[2] and rec[3] and rec[1] in ('INTEGER', 'STRING'):
                        new = 77 + k if rec[1] == 'INTEGER' else f'r5-{k}'
                        el[rec[0]][0] = new
                        rec[3][0] = new
                        break
                el['R5added'] = k
                rec = ['R5added', 'INTEGER', False, [k]]
                ce['attrs'].append(rec)
                ce['keys'].append('r5added')
                ce['members'].append(['r5added', rec])
            now = canon(got)
            if now != exp:
                return ('after modifying the parsed graph through the API: '
                        + (diff(exp, now, text=False) or 'the dicts of the elements differ from the expected ones')), 'second'
            buf3 = io.BytesIO()
            if mode['fmt'] == 'binary':
                got.export_binary(buf3, version=(4 if mode['version'] == 5 else 5), unicode=mode['unicode'])
            else:
                got.export_kv2(buf3, flat=not mode['flat'], cull_uuid=False, unicode=mode['unicode'])
            got3, _, _ = dmx.Element.parse(io.BytesIO(buf3.getvalue()), unicode=(mode['unicode'] == 'silent'))
            d3 = diff(now, canon(got3), text=(mode['fmt'] == 'kv2'))
            if d3 is not None:
                return f'the parsed graph, modified and exported again, does not come back: {d3}', 'second'
    except (Exception, HangTimeout) as e:
        return f'modifying / exporting the parsed graph raised {type(e).__name__}: {str(e)[:200]}', 'second'
    return None, 'ok'


def _bfs(root) -> list:
    """The elements reachable from `root` in the order canon() numbers them."""
    from srctools import dmx
    order, seen = [root], {id(root)}
    i = 0
    while i < len(order):
        el = order[i]
        i += 1
        for key, attr in el._members.items():
            if key == 'name' or attr.type is not dmx.ValueType.ELEMENT:
                continue
            for v in (attr._value if attr.is_array else [attr._value]):
                if v is dmx.NULL or v.is_null or v.is_stub or id(v) in seen:
                    continue
                seen.add(id(v))
                order.append(v)
    return order


def export_bytes(spec: dict, version: int, unicode: str) -> bytes:
    elems = build(spec)
    buf = io.BytesIO()
    elems[0].export_binary(buf, version=version, unicode=unicode)
    return buf.getvalue()


# ------------------------------------------------------------------------------------------------ generators
ASCII_STRS = ['', 'a', 'x', 'Name1', 'some text', 'MixedCase', 'with space', 'tab\there', 'line\nbreak', 'quote"d',
              "apos'", 'back\\slash', 'br{ace}', '[sq]', 'a,b', '//c', '\\n', 'cr\rx', '0', '-1.5', 'int', 'element',
              'string_array', 'DmeThing', '\x01\x7f', 'trail\\', '"', ' lead', 'a=b', 'p;q', '(r)', '\x0b\x0c\x07\x08']
UNI_STRS = ['é', 'naïve', 'Ωmega', '日本語', 'mixé"q', '😀', 'ß', 'İ', 'ǅ', '\x80\xff', 'é\n', ' x']
NAME_POOL = ['a', 'b', 'key', 'Key2', 'CamelCase', 'UPPER', 'x_y', 'with space', 'value', 'subkeys', 'id', 'type',
             'q"uote', 'tab\tname', 'new\nline', 'back\\s', "ap'os", 'br{', 'sq]', 'c,d', 'names', 'nam', 'n']
TYPE_POOL = ['DmElement', 'DmeModel', 'T', 'DmeThing_array', 'x y', 'q"t', 'a\\b', '', 'Upper', 'tab\tt']
KV2_AMBIGUOUS_TYPES = ['int', 'element', 'string', 'vector3', 'float_array', 'Bool']


def _rand_f32(rng: random.Random) -> float:
    r = rng.random()
    if r < 0.35:
        return _f32(rng.choice([0.0, 1.0, -1.0, 0.5, -0.25, 2.0, 1024.0, -0.0, 0.1015625, 3.0e-6, 123456.0, 0.1, 1e-7]))
    if r < 0.6:
        return _f32(rng.uniform(-1000, 1000))
    if r < 0.7:
        return _f32(rng.uniform(-1, 1) * 10 ** rng.randint(-8, 12))
    while True:
        x = struct.unpack('<f', struct.pack('<I', rng.getrandbits(32)))[0]
        if math.isfinite(x):
            return x


def _rand_str(rng: random.Random, uni: bool, nul_ok: bool = False) -> str:
    r = rng.random()
    pool = ASCII_STRS + (UNI_STRS * 3 if uni else [])
    if r < 0.7:
        return rng.choice(pool)
    if r < 0.85:
        return rng.choice(pool) + rng.choice(pool)
    n = rng.randint(0, 6)
    hi = 0x24F if uni else 0x7F
    return ''.join(chr(rng.randint(1, hi)) for _ in range(n))


def rand_value(rng: random.Random, typ: str, n_elems: int, uni: bool, stub_pool: list) -> Any:
    if typ == 'ELEMENT':
        r = rng.random()
        if r < 0.15:
            return None
        if r < 0.3:
            return ['stub', rng.choice(stub_pool)]
        return rng.randrange(n_elems)
    if typ == 'INTEGER':
        return rng.choice([0, 1, -1, 2 ** 31 - 1, -2 ** 31, rng.randint(-2 ** 31, 2 ** 31 - 1), rng.randint(-300, 300)])
    if typ == 'FLOAT':
        return _rand_f32(rng)
    if typ == 'BOOL':
        return rng.random() < 0.5
    if typ == 'STRING':
        return _rand_str(rng, uni)
    if typ == 'BINARY':
        return bytes(rng.randrange(256) for _ in range(rng.choice([0, 0, 1, 2, 5, 17]))).hex()
    if typ == 'TIME':
        return rng.choice([0, 1, -1, 15000, rng.randint(-10 ** 6, 10 ** 6), rng.randint(-2 ** 31, 2 ** 31 - 1)]) / 10000.0
    if typ == 'COLOR':
        return [rng.randrange(256) for _ in range(4)]
    if typ == 'ANGLE':
        return [abs(_f32(rng.uniform(0, 359.9))) if rng.random() < 0.7 else float(rng.choice([0, 90, 180, 270, 45.5]))
                for _ in range(3)]
    return [_rand_f32(rng) for _ in range(NFLOATS[typ])]


def _recase(rng: random.Random, name: str) -> str:
    """Another spelling of the same mapping key (the API casefolds): only ASCII letters are changed."""
    if rng.random() < 0.5:
        return name
    return ''.join((c.upper() if rng.random() < 0.5 else c.lower()) if c.isascii() else c for c in name)


def gen_ops(rng: random.Random, attrs: list, n_elems: int, uni: bool, stub_pool: list, allow_time: bool) -> list:
    """An API history for an element that already has `attrs`: removes and re-adds members through the public mapping
    API, the 'name' member included (clear, del, pop, popitem down to it, re-adding it through the setter or by
    assigning an attribute spelled in another case)."""
    ops: list = []
    keys = ['name'] + [a[0] for a in attrs]

    def new_attr(nm=None):
        nm = nm or rng.choice(NAME_POOL[:12] + ['after', 'z9'])
        typ = rng.choice(['INTEGER', 'STRING', 'ELEMENT', 'FLOAT', 'BOOL', 'COLOR', 'BINARY', 'VEC3'] + (['TIME'] if allow_time else []))
        is_arr = rng.random() < 0.3
        vals = [rand_value(rng, typ, n_elems, uni, stub_pool) for _ in range(rng.choice([0, 1, 2]) if is_arr else 1)]
        return [nm, typ, is_arr, vals]
    shape = rng.random()
    if shape < 0.3:          # everything removed, then filled again
        ops.append(['clear'])
        keys = []
        for _ in range(rng.choice([0, 1, 1, 2, 3])):
            a = new_attr()
            if a[0].casefold() not in {k.casefold() for k in keys} | {'name'}:
                ops.append(['set', *a])
                keys.append(a[0])
    elif shape < 0.6:        # only the name member removed
        ops.append([rng.choice(['del', 'pop']), _recase(rng, 'name')])
        keys.remove('name')
    elif shape < 0.75:       # popitem from the end, possibly down to and including the name member
        for _ in range(rng.randint(1, len(keys))):
            ops.append(['popitem'])
            keys.pop()
    else:                    # ordinary attributes removed / replaced / added, name untouched so far
        for _ in range(rng.randint(1, 3)):
            r = rng.random()
            others = [k for k in keys if k.casefold() != 'name']
            if r < 0.4 and others:
                k = rng.choice(others)
                ops.append([rng.choice(['del', 'pop']), _recase(rng, k)])
                keys.remove(k)
            elif r < 0.6 and others:
                ops.append(['set', *new_attr(rng.choice(others))])      # same key: keeps its position
            elif r < 0.8:
                a = new_attr()
                ops.append([rng.choice(['set', 'setdefault']), *a])
                if a[0].casefold() not in {k.casefold() for k in keys}:
                    keys.append(a[0])
            else:
                ops.append(['pop', 'not-there'])
    # afterwards: sometimes the name comes back (at the end of the dict when it was missing), sometimes more attributes
    if rng.random() < 0.35:
        r = rng.random()
        if r < 0.4:
            ops.append(['setname', _rand_str(rng, uni)])
        elif r < 0.7:
            ops.append(['set', rng.choice(['NAME', 'Name', 'name']), 'STRING', False, [_rand_str(rng, uni)]])
        else:
            ops.append(['setdefault', 'Name', 'STRING', False, [_rand_str(rng, uni)]])
        if not any(k.casefold() == 'name' for k in keys):
            keys.append('name')
    if rng.random() < 0.4:
        a = new_attr()
        if a[0].casefold() not in {k.casefold() for k in keys} | {'name'}:
            ops.append(['set', *a])
    return ops


def gen_spec(rng: random.Random, uni: bool, allow_time: bool = True, kv2: bool = False, histories: float = 0.0) -> dict:
    n = rng.choice([1, 1, 2, 2, 3, 4, 6])
    stub_pool = [uuidmod.UUID(int=rng.getrandbits(128), version=4).hex for _ in range(2)]
    elems = []
    for i in range(n):
        tpool = TYPE_POOL + ([s for s in UNI_STRS[:5]] if uni else [])
        etype = rng.choice(tpool) if rng.random() < 0.6 else 'DmElement'
        ename = _rand_str(rng, uni) if rng.random() < 0.7 else f'elem{i}'
        attrs = []
        used = {'name'}
        for _ in range(rng.choice([0, 1, 2, 3, 5, 8])):
            nm = rng.choice(NAME_POOL) if rng.random() < 0.8 else _rand_str(rng, uni)
            if uni and rng.random() < 0.15:
                nm = rng.choice(UNI_STRS[:7])
            if nm.casefold() in used:
                continue
            used.add(nm.casefold())
            typ = rng.choice(TYPES) if rng.random() < 0.75 else 'ELEMENT'
            if typ == 'TIME' and not allow_time:
                typ = 'INTEGER'
            is_arr = rng.random() < 0.45
            cnt = rng.choice([0, 0, 1, 2, 3, 5]) if is_arr else 1
            vals = [rand_value(rng, typ, n, uni, stub_pool) for _ in range(cnt)]
            attrs.append([nm, typ, is_arr, vals])
        elems.append({'type': etype, 'name': ename,
                      'uuid': uuidmod.UUID(int=rng.getrandbits(128), version=4).hex, 'attrs': attrs})
    if histories:
        # drawn after the whole graph so that the graphs themselves are the ones drawn without histories
        for e in elems:
            if rng.random() < histories:
                e['ops'] = gen_ops(rng, e['attrs'], n, uni, stub_pool, allow_time)
    return {'elems': elems}


def strip_nul(spec: dict) -> dict:
    return spec


def features(spec: dict) -> dict[str, int]:
    """Histogram of what a spec contains (for the evidence's input distribution)."""
    f: dict[str, int] = {}
    c = reachable_canon(spec)

    def add(k):
        f[k] = f.get(k, 0) + 1
    add(f'elements={min(len(c["elems"]), 6)}')
    if any(r > 1 for r in c['refs']):
        add('shared-or-cyclic')
    for e in spec['elems']:
        for op in e.get('ops', ()):
            add('op:' + op[0])
    for i, e in enumerate(c['elems']):
        if not e['has_name']:
            add('no-name-member' + (':with-attributes' if e['attrs'] else ':empty'))
        elif e['name_pos']:
            add('name-member-not-first')
        for name, typ, is_arr, vals in e['attrs']:
            add(f'{typ}:{"array" if is_arr else "scalar"}' + (':empty' if is_arr and not vals else ''))
            if typ == 'ELEMENT':
                for v in vals:
                    if v is None:
                        add('ref:null')
                    elif isinstance(v, int):
                        add('ref:self' if v == i else ('ref:back' if v < i else 'ref:forward'))
                    else:
                        add('ref:stub')
    return f


def payloads(e: dict) -> list:
    """Every [name, TYPE, is_array, values] list an element of a spec mentions: its attributes and the attributes its
    history assigns (shared with the spec: the values list can be replaced in place through `p[3]`)."""
    class _View:
        def __init__(self, op):
            self.op = op
        def __getitem__(self, i):
            return self.op[i + 1]
        def __setitem__(self, i, v):
            self.op[i + 1] = v
    return list(e['attrs']) + [_View(op) for op in e.get('ops', ()) if op[0] in ('set', 'setdefault')]


# ------------------------------------------------------------------------------------------------ shrinking
def _variants(spec: dict):
    """Smaller / simpler specs, most aggressive first."""
    import copy
    E = spec['elems']
    # drop a step of an API history (last first), then a whole history
    for i, e in enumerate(E):
        ops = e.get('ops', [])
        if len(ops) > 1:
            s = copy.deepcopy(spec)
            del s['elems'][i]['ops']
            yield s
        for j in range(len(ops) - 1, -1, -1):
            s = copy.deepcopy(spec)
            del s['elems'][i]['ops'][j]
            if not s['elems'][i]['ops']:
                del s['elems'][i]['ops']
            yield s
    # drop a whole non-root element that nothing references
    refd = {v for e in E for a in payloads(e) if a[1] == 'ELEMENT' for v in a[3] if isinstance(v, int)}
    for i in range(len(E) - 1, 0, -1):
        if i not in refd:
            s = copy.deepcopy(spec)
            del s['elems'][i]
            for e in s['elems']:
                for a in payloads(e):
                    if a[1] == 'ELEMENT':
                        a[3] = [v - 1 if isinstance(v, int) and v > i else v for v in a[3]]
            yield s
    # make another element the root
    for i in range(1, len(E)):
        s = copy.deepcopy(spec)
        perm = [i] + [k for k in range(len(E)) if k != i]
        inv = {old: new for new, old in enumerate(perm)}
        s['elems'] = [s['elems'][k] for k in perm]
        for e in s['elems']:
            for a in payloads(e):
                if a[1] == 'ELEMENT':
                    a[3] = [inv[v] if isinstance(v, int) else v for v in a[3]]
        yield s
    # simplify the attribute a history assigns
    for i, e in enumerate(E):
        for j, op in enumerate(e.get('ops', ())):
            if op[0] in ('set', 'setdefault') and op[2:] != ['INTEGER', False, [0]] and op[1].casefold() != 'name':
                s = copy.deepcopy(spec)
                s['elems'][i]['ops'][j][2:] = ['INTEGER', False, [0]]
                yield s
    for i, e in enumerate(E):
        for j in range(len(e['attrs'])):
            s = copy.deepcopy(spec)
            del s['elems'][i]['attrs'][j]
            yield s
    for i, e in enumerate(E):
        for j, a in enumerate(e['attrs']):
            if (a[1], a[2], a[3]) != ('INTEGER', False, [0]):
                s = copy.deepcopy(spec)
                s['elems'][i]['attrs'][j][1:] = ['INTEGER', False, [0]]
                yield s
    for i, e in enumerate(E):
        for j, a in enumerate(e['attrs']):
            if a[2]:
                for k in range(len(a[3])):
                    s = copy.deepcopy(spec)
                    del s['elems'][i]['attrs'][j][3][k]
                    yield s
            for k, v in enumerate(a[3]):
                simple = {'ELEMENT': None, 'INTEGER': 0, 'FLOAT': 0.0, 'BOOL': False, 'STRING': '', 'BINARY': '', 'TIME': 0.0,
                          'COLOR': [0, 0, 0, 0]}.get(a[1], [0.0] * NFLOATS.get(a[1], 0))
                if a[1] == 'ELEMENT' and isinstance(v, int) and v != 0:
                    s = copy.deepcopy(spec)
                    s['elems'][i]['attrs'][j][3][k] = 0
                    yield s
                if v != simple and not (a[1] == 'ELEMENT'):
                    s = copy.deepcopy(spec)
                    s['elems'][i]['attrs'][j][3][k] = simple
                    yield s
                if a[1] == 'STRING' and len(v) > 1:
                    for cut in (v[:len(v) // 2], v[len(v) // 2:], v[1:], v[:-1]):
                        s = copy.deepcopy(spec)
                        s['elems'][i]['attrs'][j][3][k] = cut
                        yield s
            if a[0] != 'a' and 'a' not in {x[0].casefold() for x in e['attrs']}:
                s = copy.deepcopy(spec)
                s['elems'][i]['attrs'][j][0] = 'a'
                yield s
            if len(a[0]) > 1:
                for cut in (a[0][:len(a[0]) // 2], a[0][len(a[0]) // 2:], a[0][1:], a[0][:-1]):
                    if cut.casefold() not in {x[0].casefold() for x in e['attrs']} | {'name', ''}:
                        s = copy.deepcopy(spec)
                        s['elems'][i]['attrs'][j][0] = cut
                        yield s
        for f, simple in (('type', 'T'), ('name', 'n')):
            if e[f] != simple:
                s = copy.deepcopy(spec)
                s['elems'][i][f] = simple
                yield s
                if len(e[f]) > 1:
                    for cut in (e[f][:len(e[f]) // 2], e[f][len(e[f]) // 2:]):
                        s = copy.deepcopy(spec)
                        s['elems'][i][f] = cut
                        yield s


def shrink(spec: dict, pred, limit: int = 400) -> dict:
    cur = spec
    steps = 0
    progress = True
    while progress and steps < limit:
        progress = False
        for cand in _variants(cur):
            steps += 1
            if steps > limit:
                break
            try:
                if pred(cand):
                    cur = cand
                    progress = True
                    break
            except Exception:
                continue
    return cur


VALUE_TYPE_NAMES = ('int', 'float', 'bool', 'string', 'binary', 'time', 'color', 'vector2', 'vector3', 'vector4', 'qangle',
                    'quaternion', 'vmatrix', 'element')


def kv2_ambiguous_type(t: str) -> bool:
    """Element types which the KeyValues2 grammar cannot tell from an attribute type keyword."""
    f = t.casefold()
    return f in VALUE_TYPE_NAMES or f == 'elementid' or (f.endswith('_array') and f[:-6] in VALUE_TYPE_NAMES)


NEEDS_ESCAPE = set('"\\\n\t\r\x0b\x0c\x07\x08\'')


def classify(spec: dict) -> str:
    """The features left in a (shrunk) failing spec, most specific first: names the failing input class."""
    c = reachable_canon(spec)
    special, values = [], []
    for i, e in enumerate(c['elems']):
        if not e['type'].isascii():
            special.append('nonascii-element-type')
        if kv2_ambiguous_type(e['type']):
            special.append('element-type-is-value-type-name')
        if NEEDS_ESCAPE & set(e['type']):
            special.append('element-type-needs-escape')
        if not e['name'].isascii():
            special.append('nonascii-element-name')
        elif NEEDS_ESCAPE & set(e['name']):
            special.append('element-name-needs-escape')
        if not e['has_name']:
            special.append('element-without-name-member')
        elif e['name_pos']:
            special.append('name-member-not-first')
        for name, typ, is_arr, vals in e['attrs']:
            shape = 'array' if is_arr else 'scalar'
            if NEEDS_ESCAPE & set(name):
                special.append('attr-name-needs-escape')
            elif not name.isascii():
                special.append('nonascii-attr-name')
            elif name.casefold() == 'name':
                special.append('attr-called-name')
            if typ == 'ELEMENT':
                kinds = sorted({'null' if v is None else ('elem' if isinstance(v, int) else 'stub') for v in vals})
                values.append(f'element-{shape}-{"+".join(kinds) if kinds else "empty"}')
            elif typ == 'STRING' and any(not v.isascii() for v in vals):
                values.append(f'string-{shape}-nonascii')
            elif typ == 'STRING' and any(NEEDS_ESCAPE & set(v) for v in vals):
                values.append(f'string-{shape}-needs-escape')
            elif (typ, is_arr, vals) != ('INTEGER', False, [0]):
                values.append(f'{typ.lower()}-{shape}' + ('-empty' if is_arr and not vals else ''))
    special, values = sorted(set(special)), sorted(set(values))
    if 'element-without-name-member' in special:       # the rarest class first: it names the failing history shape
        special.remove('element-without-name-member')
        special.insert(0, 'element-without-name-member')
    if special:
        return '|'.join(special[:2])
    if len(values) > 1:
        values = [v for v in values if v not in ('element-scalar-elem', 'element-array-elem')] or values
    return '|'.join(values[:3]) if values else 'plain-elements'
