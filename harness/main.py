"""CLI: ./check CNN [--tier quick|thorough] [--replay FILE]"""
from __future__ import annotations

import argparse
import importlib
import json
import os
import sys
import traceback

from harness.common import Ck, import_guard


def main() -> int:
    ap = argparse.ArgumentParser()
    ap.add_argument('pid')
    ap.add_argument('--tier', default=os.environ.get('VERIF_TIER', 'quick'), choices=['quick', 'thorough'])
    ap.add_argument('--replay', default=None)
    a = ap.parse_args()
    import_guard()
    seed = int(os.environ.get('VERIF_SEED', '20260926'))
    mod = importlib.import_module('checks.' + a.pid.lower())
    if a.replay:
        data = json.load(open(a.replay))
        return int(mod.replay(data) or 0)
    ck = Ck(a.pid.upper(), a.tier, seed)
    try:
        mod.run(ck)
    except Exception:
        # The check stopped half-way. On the unchanged tree this never happens; when it does, the usual cause is a change to the
        # code under test that breaks an assumption of a translator, harness or oracle (an implementation call raising where it
        # never did). Nothing is shown to hold then, so this is a failed obligation: reported as a violation without a failing
        # input unless the concrete violations found before the crash are all there is to say (they are printed first either way).
        traceback.print_exc()
        tb = traceback.format_exc()
        ck.obligation('check:ran-to-completion', False,
                      'the check stopped with an unexpected exception before it had finished; what it had not yet examined is not '
                      'shown to hold:\n' + tb[-2500:])
        try:
            return ck.finish()
        except Exception:
            traceback.print_exc()
            print(f'INTERNAL-ERROR property={a.pid} (the check itself failed; nothing is claimed)')
            return 2
    return ck.finish()


if __name__ == '__main__':
    sys.exit(main())
