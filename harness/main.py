"""CLI: ./check CNN [--tier quick|thorough] [--replay FILE]"""
from __future__ import annotations

import argparse
import importlib
import json
import os
import sys
import traceback

from harness.common import Ck, import_guard


def main() -> int:
    ap = argparse.ArgumentParser()
    ap.add_argument('pid')
    ap.add_argument('--tier', default=os.environ.get('VERIF_TIER', 'quick'), choices=['quick', 'thorough'])
    ap.add_argument('--replay', default=None)
    a = ap.parse_args()
    import_guard()
    seed = int(os.environ.get('VERIF_SEED', '20260926'))
    mod = importlib.import_module('checks.' + a.pid.lower())
    if a.replay:
        data = json.load(open(a.replay))
        return int(mod.replay(data) or 0)
    ck = Ck(a.pid.upper(), a.tier, seed)
    try:
        mod.run(ck)
    except Exception:
        traceback.print_exc()
        print(f'INTERNAL-ERROR property={a.pid} (the check itself failed; nothing is claimed)')
        return 2
    return ck.finish()


if __name__ == '__main__':
    sys.exit(main())
