"""C07 helpers: operation histories over several VMF objects, executed on the real implementation.

A *world* is a list of maps; every map has an object table (list of Entity objects created for that map, index =
entity number used by the operations and by the Coq model SM/IndexModel.v).  Operations are plain tuples so that they
can be stored in replay files:

  ('newmap',)                         VMF()
  ('parse', spawn_kvs, [(kvs, hidden), ...])   VMF.parse(tree built from these key lists)
  ('copy', m, e, m2)                  objs[m][e].copy(vmf_file=maps[m2])   (new detached object of map m2)
  ('new', m, kvs)                     Entity(maps[m], keys=dict(kvs))      (new detached object)
  ('create', m, cls, kvs)             maps[m].create_ent(cls, **dict(kvs))
  ('add', m, e) ('adds', m, [e..], form) ('rem', m, e, via_entity)      form: gen | iter | map | list | tuple
  ('set', m, e, k, v) ('del', m, e, k) ('dels', m, e, [k..]) ('pop', m, e, k) ('popitem', m, e)
  ('setdefault', m, e, k, v) ('update', m, e, kvs) ('clear', m, e) ('uniq', m, e, prefix) ('export', m)
  ('keyset', m, e, kvs)               objs[m][e].keys = dict(kvs): the deprecated setter that replaces all keys (round 5;
                                      for the model: Clear then Update, observed after both)
  ('probe', m, which, key)            evaluate maps[m].by_class[key] / by_target[key]: a defaultdict read, which leaves
                                      an empty set behind when the key was absent
  ('iter', m, which, key, subop)      iterate maps[m].by_class[key] / by_target[key] / search(key) and apply
                                      `subop` (a 'set'/'del'/'rem'/'clear'/'pop'/'uniq' template without m, e, or
                                      ('spawn_like',) = create_ent with the class and name of the yielded one) to every
                                      entity yielded — implementation only (the model sees the flattened steps).
"""
from __future__ import annotations

import io
import itertools
import warnings
from typing import Any

ERR = {None: 0, 'KeyError': 1, 'ValueError': 2}


class Hang(BaseException):
    """The implementation did not come back within the time limit (a fault can turn make_unique's `while True`, an
    index iteration or search() into an endless loop).  BaseException: no `except Exception` on the way swallows it."""


class time_limit:
    """with time_limit(seconds): ...   raises Hang in the main thread when the block runs longer (SIGALRM; a no-op in
    other threads).  A whole history takes milliseconds; the limit is generous (>= 100x) so that load cannot trip it."""

    def __init__(self, seconds: float) -> None:
        self.seconds = seconds
        self.active = False

    def _fire(self, signum, frame):
        raise Hang(f'no answer within {self.seconds} s')

    def __enter__(self):
        import signal
        import threading
        if threading.current_thread() is threading.main_thread():
            self.active = True
            self.old = signal.signal(signal.SIGALRM, self._fire)
            signal.setitimer(signal.ITIMER_REAL, self.seconds)
        return self

    def __exit__(self, *exc):
        import signal
        if self.active:
            signal.setitimer(signal.ITIMER_REAL, 0)
            signal.signal(signal.SIGALRM, self.old)
        return False


class World:
    def __init__(self, n_maps: int = 2) -> None:
        from srctools.vmf import VMF
        self.maps: list = []
        self.objs: list[list] = []
        self.flat: list[tuple] = []        # model-level steps actually executed (iter ops flattened)
        for _ in range(n_maps):
            self._newmap(VMF())

    def _newmap(self, vmf, table=None) -> None:
        self.maps.append(vmf)
        self.objs.append(table if table is not None else [vmf.spawn])

    def eid(self, m: int, ent) -> int:
        for i, o in enumerate(self.objs[m]):
            if o is ent:
                return i
        return -1

    # ------------------------------------------------------------------ one operation
    def apply(self, op: tuple) -> int:
        """Execute one operation; returns the error code (0 none, 1 KeyError, 2 ValueError, 9 other)."""
        try:
            with warnings.catch_warnings():
                warnings.simplefilter('ignore')
                self._apply(op)
            return 0
        except KeyError:
            return 1
        except ValueError:
            return 2

    def _apply(self, op: tuple) -> None:
        from srctools.vmf import VMF, Entity
        from srctools.keyvalues import Keyvalues
        k = op[0]
        if k == 'newmap':
            self._newmap(VMF())
            return
        if k == 'parse':
            _, spawn_kvs, ents = op
            blocks = [Keyvalues('world', [Keyvalues(a, b) for a, b in spawn_kvs])]
            for kvs, hidden in ents:
                if not hidden:
                    blocks.append(Keyvalues('entity', [Keyvalues(a, b) for a, b in kvs]))
            for kvs, hidden in ents:
                if hidden:
                    blocks.append(Keyvalues('hidden', [Keyvalues('entity', [Keyvalues(a, b) for a, b in kvs])]))
            vmf = VMF.parse(Keyvalues.root(*blocks))
            # object 0 stands for the constructor's placeholder worldspawn, which is unreachable from outside.
            self._newmap(vmf, [None, vmf.spawn, *vmf.entities])
            return
        m = op[1]
        vmf = self.maps[m]
        objs = self.objs[m]
        if k == 'copy':
            _, _, e, m2 = op
            self.objs[m2].append(objs[e].copy(vmf_file=self.maps[m2]))
        elif k == 'new':
            objs.append(Entity(vmf, keys=dict(op[2])))
        elif k == 'create':
            objs.append(None)   # reserve the slot even if create_ent raised after construction
            objs[-1] = vmf.create_ent(op[2], **dict(op[3]))
        elif k == 'add':
            vmf.add_ent(objs[op[2]])
        elif k == 'adds':
            # the iterable is passed in one of the forms callers use: one-shot (generator, iterator, map object)
            # or re-iterable (list, tuple); replays written before round 3 have no form field (= generator)
            form = op[3] if len(op) > 3 else 'gen'
            items = [objs[e] for e in op[2]]
            if form == 'list':
                vmf.add_ents(items)
            elif form == 'tuple':
                vmf.add_ents(tuple(items))
            elif form == 'iter':
                vmf.add_ents(iter(items))
            elif form == 'map':
                vmf.add_ents(map(objs.__getitem__, op[2]))
            else:
                vmf.add_ents(objs[e] for e in op[2])
        elif k == 'rem':
            if op[3]:
                objs[op[2]].remove()
            else:
                vmf.remove_ent(objs[op[2]])
        elif k == 'set':
            objs[op[2]][op[3]] = op[4]
        elif k == 'del':
            del objs[op[2]][op[3]]
        elif k == 'dels':
            del objs[op[2]][tuple(op[3])]
        elif k == 'pop':
            objs[op[2]].pop(op[3])
        elif k == 'popitem':
            objs[op[2]].popitem()
        elif k == 'setdefault':
            objs[op[2]].setdefault(op[3], op[4])
        elif k == 'update':
            objs[op[2]].update(dict(op[3]))
        elif k == 'clear':
            objs[op[2]].clear()
        elif k == 'keyset':
            prop = Entity.__dict__.get('keys')
            if isinstance(prop, property) and prop.fset is not None:
                objs[op[2]].keys = dict(op[3])
            else:      # the deprecated setter is gone: its documented replacement
                objs[op[2]].clear_keys()
                objs[op[2]].update(dict(op[3]))
        elif k == 'uniq':
            objs[op[2]].make_unique(op[3])
        elif k == 'export':
            vmf.export(io.StringIO(), inc_version=False)
        elif k == 'probe':
            (vmf.by_class if op[2] == 'class' else vmf.by_target)[op[3]]   # noqa: B018 - the read is the operation
        else:
            raise AssertionError(op)

    def steps(self, op: tuple):
        """Execute `op`, yielding (model_level_op, error_code) after every model-level step.  An 'iter' operation
        iterates an index (or search()) and applies its sub-operation to every entity yielded; each application is
        one model-level step.  Exceptions of the iteration machinery itself propagate (RuntimeError etc.)."""
        if op[0] != 'iter':
            err = self.apply(op)
            self.flat.append(op)
            yield op, err
            return
        _, m, which, key, sub = op
        vmf = self.maps[m]
        if which in ('class', 'target'):
            # evaluating vmf.by_class[key] is itself a (defaultdict) read: one model-level step
            flat = ('probe', m, which, key)
            self.flat.append(flat)
            yield flat, 0
        if which == 'class':
            it = iter(vmf.by_class[key])
        elif which == 'target':
            it = iter(vmf.by_target[key])
        else:
            it = vmf.search(key)
        n = 0
        self.iter_truncated = False
        self.iter_yields: list[int] = []
        for ent in it:
            e = self.eid(m, ent)
            n += 1
            if e < 0 or n > 50:
                self.iter_truncated = True
                break
            self.iter_yields.append(e)
            if sub[0] == 'spawn_like':
                # the loop body creates another entity with the same class and name: a late addition to the set
                flat = ('create', m, ent['classname'], [('targetname', ent['targetname'])] if ent['targetname'] else [])
            else:
                flat = (sub[0], m, e, *sub[1:])
            err = self.apply(flat)
            self.flat.append(flat)
            yield flat, err

    # ------------------------------------------------------------------ observation
    def observe(self, m: int) -> dict[str, Any]:
        """Canonical observation of map m: entity list, key lists, non-empty index entries (entity numbers)."""
        vmf = self.maps[m]
        objs = self.objs[m]
        def canon(index):
            out = []
            for key, s in list(index.items()):
                ids = sorted(self.eid(m, e) for e in set.__iter__(s))
                if ids:
                    out.append((key, ids))
            out.sort(key=lambda p: (p[0] is not None, p[0] or ''))
            return out
        return {
            'ents': [self.eid(m, e) for e in vmf.entities],
            'spawn': self.eid(m, vmf.spawn),
            'keys': [list(o._keys.items()) if o is not None else [('classname', 'worldspawn')] for o in objs],
            'by_class': canon(vmf.by_class),
            'by_target': canon(vmf.by_target),
        }

    # ------------------------------------------------------------------ the oracle: scan of the entity list
    def scan_problems(self, m: int, queries=()) -> list[tuple[str, str, Any]]:
        """Compare by_class / by_target / search() of map m with a scan of entities + spawn.
        Yields (index, kind, detail) with kind in stale / missing / worldspawn / search-*."""
        vmf = self.maps[m]
        out: list[tuple[str, str, Any]] = []
        present = list(vmf.entities) + [vmf.spawn]
        want_c: dict = {}
        want_t: dict = {}
        for e in present:
            want_c.setdefault(e['classname'].casefold(), set()).add(id(e))
            want_t.setdefault(e['targetname'].casefold() or None, set()).add(id(e))
        for name, index, want in (('by_class', vmf.by_class, want_c), ('by_target', vmf.by_target, want_t)):
            got = {k: {id(e) for e in set.__iter__(s)} for k, s in list(index.items()) if len(s)}
            for k in sorted(set(got) | set(want), key=repr):
                g, w = got.get(k, set()), want.get(k, set())
                if g - w:
                    out.append((name, 'stale', {'key': k, 'entities': sorted(self._name(m, i) for i in g - w)}))
                if w - g:
                    out.append((name, 'missing', {'key': k, 'entities': sorted(self._name(m, i) for i in w - g)}))
        if vmf.spawn['classname'].casefold() != 'worldspawn':
            out.append(('worldspawn', 'reclassed', vmf.spawn['classname']))
        elif not any(e is vmf.spawn for e in set.__iter__(vmf.by_class.get('worldspawn', set()))):
            if not any(p[0] == 'by_class' and p[1] == 'missing' for p in out):
                out.append(('worldspawn', 'unindexed', None))
        for q in queries:
            try:
                got_l = list(itertools.islice(vmf.search(q), 1000))
                if len(got_l) >= 1000:
                    out.append(('search', 'endless', {'query': q}))
                    continue
            except Exception as exc:    # noqa: BLE001
                out.append(('search', 'raised', {'query': q, 'error': repr(exc)}))
                continue
            got_s = {id(e) for e in got_l}
            qf = q.casefold()
            if not q:
                want_s = set()
            elif qf[-1] == '*':
                want_s = {id(e) for e in present if e['targetname'] and e['targetname'].casefold().startswith(qf[:-1])}
            else:
                want_s = {id(e) for e in present if (e['targetname'] and e['targetname'].casefold() == qf)
                          or e['classname'].casefold() == qf}
            if got_s - want_s:
                out.append(('search', 'stale', {'query': q, 'entities': sorted(self._name(m, i) for i in got_s - want_s)}))
            if want_s - got_s:
                out.append(('search', 'missing', {'query': q, 'entities': sorted(self._name(m, i) for i in want_s - got_s)}))
        return out

    def _name(self, m: int, pyid: int) -> str:
        for i, o in enumerate(self.objs[m]):
            if o is not None and id(o) == pyid:
                return f'ent{i}'
        for mm, objs in enumerate(self.objs):
            for i, o in enumerate(objs):
                if o is not None and id(o) == pyid:
                    return f'map{mm}.ent{i}(foreign)'
        return 'unknown-object'
