"""Shared machinery of the srctools Rocq verification checks.

Every check is `checks/cNN.py` with a `run(ck)` function that receives a `Ck` object.  The protocol a
check follows (DESIGN.md section 3):

  1. translators    -> ck.gen(name, text)            (rocq/Gen/<name>.v, write-if-changed)
  2. proofs         -> ck.build([targets])           (full .vo build of Props/CNN.vo and friends)
                       ck.instance_obligations(...)  (boolean obligations over Gen, kernel-checked)
  3. correspondence -> ck.coq_eval(...) / ck.corr(...)   model vs implementation on the same inputs
  4. search         -> oracles on the implementation; ck.violation(key, what, replay)
  5. ck.finish()    -> KNOWN-FINDING / VIOLATION lines, evidence/CNN.json, exit code
"""
from __future__ import annotations

import contextlib
import fcntl
import hashlib
import json
import os
import random
import re
import shutil
import subprocess
import sys
import tempfile
import time
from pathlib import Path
from typing import Any, Callable, Iterable, Sequence

VERIF = Path(os.environ.get('VERIF_ROOT', '/verif'))
REPO = Path(os.environ.get('VERIF_REPO', '/repo'))
SRC = REPO / 'src' / 'srctools'
ROCQ = VERIF / 'rocq'
GEN = ROCQ / 'Gen'
EVID = VERIF / 'evidence'
REPLAYS = VERIF / 'replays'
KNOWN = VERIF / 'known_findings.json'
PY = '/venv/bin/python'
ENV_IMPL = dict(os.environ, PYTHONPATH=f'{REPO}/src:{VERIF}/shim:{VERIF}', PYTHONHASHSEED='0',
                TEAMSPEN210_SRCTOOLS_VERIF='1')

BASE_TRUSTED = [
    'Coq 8.16.1 kernel (coqc full .vo build; vm_compute used for table obligations and in-kernel evaluation '
    'of the model; no native_compute)',
    'translate/*.py (fail-closed Python-ast translators producing rocq/Gen/*.v from /repo/src on every run)',
    'harness/*.py, checks/*.py (correspondence driver, generators, oracles on the implementation)',
    'CPython 3.12 running /repo/src/srctools in pure-Python mode (Cython twins cannot be built here)',
]


def import_guard() -> None:
    """Refuse to verify the wheel in site-packages instead of /repo's working tree."""
    import srctools
    f = os.path.realpath(srctools.__file__)
    if not f.startswith(str(REPO / 'src') + os.sep):
        raise SystemExit(f'INTERNAL: srctools imported from {f}, not /repo/src (set PYTHONPATH)')


class TranslateError(Exception):
    """A translator met source it does not recognise (fail closed)."""


class Ck:
    def __init__(self, pid: str, tier: str, seed: int) -> None:
        self.pid, self.tier, self.seed = pid, tier, seed
        self.t0 = time.time()
        self.rng = random.Random(seed)
        self.obligations: list[dict] = []     # {'name','ok','detail'}
        self.violations: list[dict] = []      # {'key','what','replay','no_input'}
        self.notes: list[str] = []
        self.samples: list[Any] = []
        self.counts: dict[str, int] = {}
        self.nontrivial: set = set()
        self.rule = ''
        self.assumptions: list[str] = []
        self.trusted: list[str] = list(BASE_TRUSTED)
        self.axioms: dict[str, list[str]] = {}
        self.extra: dict[str, Any] = {}
        self.level = 'proof'
        self.checker_cmd = ''
        self.tie_broken: list[str] = []       # names of broken theorem/correspondence ties
        self.distribution: dict[str, Any] = {}
        self.scratch = Path(tempfile.mkdtemp(prefix=f'sv_{pid}_', dir=os.environ.get('VERIF_SCRATCH', '/var/tmp')))
        REPLAYS.mkdir(exist_ok=True)
        EVID.mkdir(exist_ok=True)
        GEN.mkdir(exist_ok=True)

    # ------------------------------------------------------------------ sizes
    @property
    def thorough(self) -> bool:
        return self.tier == 'thorough'

    def budget(self, quick: int, thorough: int) -> int:
        """Case budget; escalated to the thorough budget when a tie is broken (DESIGN 5.4)."""
        return thorough if (self.thorough or self.tie_broken) else quick

    def count(self, key: str, n: int = 1) -> None:
        self.counts[key] = self.counts.get(key, 0) + n

    def hist(self, group: str, key: Any, n: int = 1) -> None:
        d = self.distribution.setdefault(group, {})
        k = str(key)
        d[k] = d.get(k, 0) + n

    def seen(self, case_key: Any) -> None:
        """Record a distinct, non-trivial case (by the check's own stated rule)."""
        if len(self.nontrivial) < 2_000_000:
            self.nontrivial.add(case_key if isinstance(case_key, (str, int, bytes, tuple)) else repr(case_key))

    def sample(self, obj: Any, cap: int = 8) -> None:
        if len(self.samples) < cap:
            self.samples.append(obj)

    # ------------------------------------------------------------------ translators / Gen
    def gen(self, name: str, text: str, side: dict | None = None) -> bool:
        """Write rocq/Gen/<name>.v if its content changed. Returns True if rewritten."""
        p = GEN / f'{name}.v'
        with _lock():
            old = p.read_text() if p.exists() else None
            if old != text:
                p.write_text(text)
                changed = True
            else:
                changed = False
        if side is not None:
            self.extra.setdefault('translated', {})[name] = side
        return changed

    def translate(self, name: str, fn: Callable[[], tuple[str, dict]]) -> bool:
        """Run a translator fail-closed. On failure the tie is broken and recorded."""
        try:
            text, side = fn()
        except TranslateError as e:
            self.obligation(f'translate:{name}', False, f'translator failed closed: {e}')
            self.tie_broken.append(f'translator {name}: {e}')
            return False
        except (OSError, SyntaxError) as e:
            self.obligation(f'translate:{name}', False, f'source unreadable: {e!r}')
            self.tie_broken.append(f'translator {name}: {e!r}')
            return False
        self.gen(name, text, side)
        self.obligation(f'translate:{name}', True, 'source recognised, Gen regenerated')
        return True

    # ------------------------------------------------------------------ Coq
    def build(self, targets: Sequence[str], timeout: int = 1500) -> bool:
        """Full .vo build of the given targets (paths relative to rocq/, e.g. 'Props/C08.vo')."""
        ensure_makefile()
        cmd = ['make', '-C', str(ROCQ), '-j', '8', *targets]
        self.checker_cmd = self.checker_cmd or ('coq_makefile -f _CoqProject -o Makefile && ' + ' '.join(cmd))
        with _lock():
            try:
                r = subprocess.run(cmd, capture_output=True, text=True, timeout=timeout)
                rc, out = r.returncode, r.stdout + r.stderr
            except subprocess.TimeoutExpired as e:
                rc, out = 124, f'timeout after {timeout}s\n{e.stdout}\n{e.stderr}'
        ok = rc == 0
        if not ok:
            m = re.search(r'File "\./([^"]+)", line (\d+)', out)
            where = f'{m.group(1)}:{m.group(2)}' if m else 'unknown'
            tail = '\n'.join(out.strip().splitlines()[-25:])
            self.obligation('build:' + ','.join(targets), False, f'build failed at {where}\n{tail}')
            self.tie_broken.append(f'proof build failed at {where}')
        else:
            self.obligation('build:' + ','.join(targets), True, 'all theorems re-checked by coqc')
        if not getattr(self, '_hygiene_done', False):
            self._hygiene_done = True
            self.hygiene()
        return ok

    def hygiene(self) -> bool:
        """Scan every .v file of the development (Gen included) and _CoqProject for constructs that would make a theorem
        worthless: Admitted/admit/give_up, Axiom/Parameter/Conjecture, Admit Obligations, Variable/Hypothesis/Context outside a
        Section, switched-off kernel checks. Recorded as one obligation; a hit breaks the tie (nothing proved can be believed)."""
        bad = scan_hygiene()
        self.obligation('hygiene:no_admitted_axiom_parameter_or_unchecked_flag', not bad,
                        'all .v files scanned (comments removed): none found' if not bad else '; '.join(bad[:20]))
        if bad:
            self.tie_broken.append('hygiene: ' + '; '.join(bad[:5]))
        return not bad

    def theorems(self, props_file: str) -> list[str]:
        """Count the theorems of a Props file and collect their Print Assumptions output."""
        p = ROCQ / props_file
        txt = p.read_text()
        names = re.findall(r'^\s*(?:Theorem|Lemma|Corollary)\s+([A-Za-z0-9_\']+)', txt, re.M)
        # Print Assumptions: re-run coqc on a scratch file (cheap: everything is compiled).
        mod = 'SV.' + props_file[:-2].replace('/', '.')
        body = f'Require Import {mod}.\n' + ''.join(f'Print Assumptions {n}.\n' for n in names)
        rc, out = self.coq_scratch(body, 'assumptions')
        if rc != 0:
            self.obligation(f'assumptions:{props_file}', False, out[-2000:])
            self.tie_broken.append(f'Print Assumptions failed for {props_file}')
            return names
        blocks = _split_assumptions(out, len(names))
        for n, b in zip(names, blocks):
            self.axioms[n] = b
            self.obligation(f'theorem:{n}', True, 'Qed; axioms: ' + ('none (closed under the global context)' if not b else ', '.join(b)))
        return names

    def coq_scratch(self, body: str, name: str = 'scratch', timeout: int = 600) -> tuple[int, str]:
        d = self.scratch / f'coq_{name}_{len(os.listdir(self.scratch))}'
        d.mkdir()
        f = d / f'{name}.v'
        f.write_text(body)
        try:
            r = subprocess.run(['coqc', '-Q', str(ROCQ), 'SV', '-Q', str(d), 'Scratch', str(f)],
                               capture_output=True, text=True, timeout=timeout, cwd=d,
                               preexec_fn=_unlimit_stack)
            return r.returncode, r.stdout + r.stderr
        except subprocess.TimeoutExpired:
            return 124, f'coqc timeout after {timeout}s'

    def coq_eval(self, imports: Sequence[str], exprs: Sequence[str], name: str = 'eval', timeout: int = 600,
                 preamble: str = '') -> list[str] | None:
        """Evaluate closed Coq expressions with vm_compute inside the kernel's VM; returns their printed values."""
        body = ''.join(f'Require Import {i}.\n' for i in imports) + preamble + '\n'
        body += 'Set Printing Width 1000000.\nSet Printing Depth 1000000.\n'
        for e in exprs:
            body += f'Eval vm_compute in ({e}).\n'
        rc, out = self.coq_scratch(body, name, timeout)
        if rc != 0:
            self.notes.append(f'coq_eval {name} failed: {out[-1500:]}')
            return None
        vals = _split_evals(out)
        if len(vals) != len(exprs):
            self.notes.append(f'coq_eval {name}: expected {len(exprs)} values, got {len(vals)}')
            return None
        return vals

    def instance_obligations(self, imports: Sequence[str], obs: dict[str, str], name: str = 'inst') -> dict[str, bool]:
        """Kernel-check boolean obligations about generated objects: each `expr = true` is closed by
        vm_compute; reflexivity.  Returns name -> discharged.  Failing ones are evaluated separately."""
        names = list(obs)
        vals = self.coq_eval(imports, [obs[n] for n in names], name + '_eval')
        res: dict[str, bool] = {}
        if vals is None:
            for n in names:
                res[n] = False
                self.obligation(f'instance:{n}', False, 'could not be evaluated (model or Gen does not compile)')
            self.tie_broken.append(f'instance obligations {name} could not be evaluated')
            return res
        good = [n for n, v in zip(names, vals) if v == 'true']
        body = ''.join(f'Require Import {i}.\n' for i in imports)
        for k, n in enumerate(good):
            body += f'Theorem inst_{k} : ({obs[n]}) = true.\nProof. vm_compute. reflexivity. Qed.\n'
        rc, out = self.coq_scratch(body, name + '_qed') if good else (0, '')
        for n, v in zip(names, vals):
            ok = (v == 'true') and rc == 0
            res[n] = ok
            self.obligation(f'instance:{n}', ok, f'{obs[n]} = {v}' + ('' if rc == 0 else ' (Qed failed)'))
        return res

    # ------------------------------------------------------------------ results
    def obligation(self, name: str, ok: bool, detail: str = '') -> None:
        self.obligations.append({'name': name, 'ok': bool(ok), 'detail': detail[:4000]})

    def violation(self, key: str, what: str, replay: Any, no_input: bool = False) -> None:
        """Report a violation. `key` names the specific failing input class / call site / history and is
        what known_findings.json is matched on."""
        for v in self.violations:
            if v['key'] == key:
                v['n'] += 1
                return
        self.violations.append({'key': key, 'what': what, 'replay': replay, 'no_input': no_input, 'n': 1})

    def finish(self) -> int:
        known = load_known()
        kmap = {(k['property'], k['key']): k for k in known.get('known', [])}
        lines: list[str] = []
        n_viol = 0
        n_known = 0
        for v in self.violations:
            kf = kmap.get((self.pid, v['key']))
            if kf is not None:
                n_known += 1
                lines.append(f'KNOWN-FINDING: property={self.pid} {v["key"]}: {kf["what"]}')
                continue
            n_viol += 1
            rp = self._write_replay(v)
            lines.append(f'VIOLATION property={self.pid} replay={rp}' + (' no-failing-input-found' if v['no_input'] else ''))
        # A broken proof obligation / correspondence that no concrete (new or known) violation explains:
        # the property is no longer shown to hold.
        unexplained = [o for o in self.obligations if not o['ok'] and not o.get('explained')]
        if unexplained:
            v = {'key': 'tie-broken', 'what': 'proof obligation or correspondence no longer checks; search found no failing input',
                 'replay': {'broken': [{'name': o['name'], 'detail': o['detail']} for o in unexplained],
                            'ties': self.tie_broken}, 'no_input': True, 'n': 1}
            rp = self._write_replay(v)
            n_viol += 1
            lines.append(f'VIOLATION property={self.pid} replay={rp} no-failing-input-found')
        self._write_evidence(n_viol, n_known)
        for ln in lines:
            print(ln)
        ob_ok = sum(1 for o in self.obligations if o['ok'])
        print(f'[{self.pid}] tier={self.tier} seed={self.seed} obligations={ob_ok}/{len(self.obligations)} '
              f'evaluations={sum(self.counts.values())} distinct_nontrivial={len(self.nontrivial)} '
              f'violations={n_viol} known={n_known} wall={time.time() - self.t0:.1f}s')
        for n in self.notes[:20]:
            print('  note:', n[:600])
        shutil.rmtree(self.scratch, ignore_errors=True) if not os.environ.get("VERIF_KEEP") else print("scratch kept:", self.scratch)
        return 1 if n_viol else 0

    def explain(self, ob_prefix: str) -> None:
        """Mark failed obligations whose name starts with ob_prefix as explained by a concrete violation
        (with a replayable input) that this check has reported through ck.violation()."""
        for o in self.obligations:
            if not o['ok'] and o['name'].startswith(ob_prefix):
                o['explained'] = True

    def _write_replay(self, v: dict) -> str:
        h = hashlib.sha1(json.dumps([v['key'], v['what']], sort_keys=True, default=repr).encode()).hexdigest()[:10]
        p = REPLAYS / f'{self.pid}_{re.sub(r"[^A-Za-z0-9_.-]+", "_", v["key"])[:60]}_{h}.json'
        p.write_text(json.dumps({'property': self.pid, 'key': v['key'], 'what': v['what'], 'seed': self.seed,
                                 'tier': self.tier, 'no_failing_input_found': v['no_input'],
                                 'replay': v['replay'], 'occurrences': v['n']}, indent=1, default=repr))
        return str(p)

    def _write_evidence(self, n_viol: int, n_known: int) -> None:
        ob_ok = sum(1 for o in self.obligations if o['ok'])
        axioms = sorted({a for lst in self.axioms.values() for a in lst})
        cov: dict[str, Any] = {
            'obligations': len(self.obligations),
            'discharged': ob_ok,
            'checker_cmd': self.checker_cmd or 'coqc (see DESIGN.md)',
            'trusted_base': self.trusted + ['axioms reported by Print Assumptions: ' + ('none' if not axioms else '; '.join(axioms))],
            'evaluations': max(1, sum(self.counts.values())),
            'distinct_nontrivial': len(self.nontrivial),
            'rule': self.rule,
            'samples': self.samples or ['(no samples recorded)'],
            'counts': self.counts,
            'input_distribution': self.distribution,
            'obligation_list': [{'name': o['name'], 'ok': o['ok'], 'detail': o['detail'][:300]} for o in self.obligations],
            'axioms_per_theorem': self.axioms,
            'ties_broken': self.tie_broken,
            'known_findings_reported': n_known,
        }
        cov.update(self.extra)
        ev = {'property_id': self.pid, 'tier': self.tier, 'seed': self.seed, 'level': self.level,
              'coverage': cov, 'assumptions': self.assumptions, 'wall_s': round(time.time() - self.t0, 2),
              'violations': n_viol}
        (EVID / f'{self.pid}.json').write_text(json.dumps(ev, indent=1, default=repr) + '\n')


# ---------------------------------------------------------------------- helpers

def _unlimit_stack() -> None:
    import resource
    try:
        resource.setrlimit(resource.RLIMIT_STACK, (resource.RLIM_INFINITY, resource.RLIM_INFINITY))
    except (ValueError, OSError):
        pass


@contextlib.contextmanager
def _lock():
    ROCQ.mkdir(exist_ok=True)
    with open(ROCQ / '.lock', 'w') as fh:
        fcntl.flock(fh, fcntl.LOCK_EX)
        try:
            yield
        finally:
            fcntl.flock(fh, fcntl.LOCK_UN)


def coq_files() -> list[str]:
    files = sorted(str(p.relative_to(ROCQ)) for p in ROCQ.rglob('*.v') if 'Gen/' not in str(p.relative_to(ROCQ)))
    gens = sorted(discover_translators())
    return files + [f'Gen/{g}.v' for g in gens]


def ensure_makefile() -> None:
    """(Re)generate _CoqProject and Makefile when the set of .v files changed."""
    with _lock():
        files = coq_files()
        text = '-Q . SV\n-arg -w -arg -notation-overridden,-deprecated-hint-without-locality,-deprecated-instance-without-locality\n' + '\n'.join(files) + '\n'
        cp = ROCQ / '_CoqProject'
        if not cp.exists() or cp.read_text() != text or not (ROCQ / 'Makefile').exists():
            cp.write_text(text)
            subprocess.run(['coq_makefile', '-f', '_CoqProject', '-o', 'Makefile'], cwd=ROCQ, check=True,
                           capture_output=True)


def _split_evals(out: str) -> list[str]:
    """Parse the output of a sequence of `Eval vm_compute in e.` commands."""
    vals = []
    cur: list[str] | None = None
    for line in out.splitlines():
        if line.startswith('     = '):
            if cur is not None:
                vals.append(_strip_type(cur))
            cur = [line[7:]]
        elif cur is not None:
            cur.append(line)
    if cur is not None:
        vals.append(_strip_type(cur))
    return vals


def _strip_type(lines: list[str]) -> str:
    # value lines followed by '     : type' line(s)
    for i, l in enumerate(lines):
        if l.startswith('     : '):
            lines = lines[:i]
            break
    return ' '.join(x.strip() for x in lines).strip()


def _split_assumptions(out: str, n: int) -> list[list[str]]:
    """Parse the output of a sequence of `Print Assumptions` commands (axiom types may continue on further lines)."""
    blocks: list[list[str]] = []
    cur: list[str] | None = None
    for line in out.splitlines():
        if line.startswith('Closed under the global context'):
            if cur is not None:
                blocks.append(cur)
                cur = None
            blocks.append([])
        elif line.startswith('Axioms:'):
            if cur is not None:
                blocks.append(cur)
            cur = []
        elif cur is not None:
            m = re.match(r'^([A-Za-z_][A-Za-z0-9_.\']*)\s*(:|$)', line)
            if m and not line.startswith(' '):
                cur.append(m.group(1))
    if cur is not None:
        blocks.append(cur)
    while len(blocks) < n:
        blocks.append(['<unparsed>'])
    return blocks


def _strip_coq_comments(txt: str) -> str:
    """Remove (nested) comments and string literals, keeping newlines so that line numbers survive."""
    out, i, depth, n = [], 0, 0, len(txt)
    while i < n:
        if txt.startswith('(*', i):
            depth += 1
            i += 2
        elif depth and txt.startswith('*)', i):
            depth -= 1
            i += 2
        elif depth:
            out.append('\n' if txt[i] == '\n' else ' ')
            i += 1
        elif txt[i] == '"':
            j = i + 1
            while j < n and txt[j] != '"':
                j += 1
            out.append('""' + '\n' * txt.count('\n', i, j))
            i = j + 1
        else:
            out.append(txt[i])
            i += 1
    return ''.join(out)


_FORBIDDEN = re.compile(r'\b(Admitted|admit|give_up|Axiom|Axioms|Parameter|Parameters|Conjecture|Conjectures|bypass_check)\b'
                        r'|Admit\s+Obligations|Unset\s+Guard\s+Checking|Unset\s+Positivity\s+Checking|Unset\s+Universe\s+Checking'
                        r'|Unset\s+Universe\s+Polymorphism\s+Checking|type-in-type|impredicative-set')
_SENT = re.compile(r'(?:^|(?<=[.\s]))\s*(?:Local\s+|Global\s+|#\[[^\]]*\]\s*)*'
                   r'(Section|Module\s+Type|Module|End|Variable|Variables|Hypothesis|Hypotheses|Context)\b\s*([A-Za-z0-9_\']*)', re.M)


_KW = re.compile(r"\b(Section|Module\s+Type|Module|End|Variable|Variables|Hypothesis|Hypotheses|Context)\b\s*([A-Za-z0-9_\']*)")
_PRE = re.compile(r'(?:^|(?<=[.\s]))\s*(?:Local\s+|Global\s+|#\[[^\]]*\]\s*)*\Z', re.M)


def sent_finditer(txt: str):
    """The matches of _SENT.finditer(txt) (group 1 = keyword, group 2 = name, same spans of the groups), found from the keyword
    backwards instead of trying the optional prefix at every position of the file (17 s -> 0.3 s over the whole tree; checked equal
    to _SENT.finditer on every file of rocq/ and on adversarial strings by tools/selftest_hygiene.py)."""
    pos = 0
    while True:
        m = _KW.search(txt, pos)
        if m is None:
            return
        # the prefix may not reach back into the previous match (pos); lookbehind and ^ still see the text before pos
        k = m.start()
        if _PRE.search(txt, max(pos, k - 200), k) is not None or (k - 200 > pos and _PRE.search(txt, pos, k) is not None):
            yield m
            pos = m.end() if m.end() > m.start() else m.start() + 1
        else:
            pos = m.start() + 1


def scan_hygiene() -> list[str]:
    bad: list[str] = []
    files = sorted(ROCQ.rglob('*.v'))
    for f in files:
        rel = f.relative_to(ROCQ)
        txt = _strip_coq_comments(f.read_text(errors='replace'))
        for m in _FORBIDDEN.finditer(txt):
            bad.append(f'{rel}:{txt.count(chr(10), 0, m.start()) + 1}: {" ".join(m.group(0).split())}')
        stack: list[str] = []
        for m in sent_finditer(txt):
            kw = ' '.join(m.group(1).split())
            if kw in ('Section', 'Module', 'Module Type'):
                # `Module M := N.` / `Module Import`-style one-liners open nothing
                tail = txt[m.end():txt.find('.', m.end()) + 1]
                if kw != 'Section' and ':=' in tail:
                    continue
                stack.append('S' if kw == 'Section' else 'M')
            elif kw == 'End':
                if stack:
                    stack.pop()
            elif 'S' not in stack:
                bad.append(f'{rel}:{txt.count(chr(10), 0, m.start(1)) + 1}: {kw} outside a Section')
    cp = ROCQ / '_CoqProject'
    if cp.exists():
        for m in _FORBIDDEN.finditer(cp.read_text()):
            bad.append(f'_CoqProject: {m.group(0)}')
    return bad


def load_known() -> dict:
    if KNOWN.exists():
        return json.loads(KNOWN.read_text())
    return {'known': [], 'fixed': []}


def discover_translators() -> dict:
    """Every translate/c*.py module exports GEN = {'<Name>_gen': function}; collect them."""
    import importlib
    reg = {}
    for p in sorted((VERIF / 'translate').glob('c*.py')):
        mod = importlib.import_module('translate.' + p.stem)
        for name, fn in getattr(mod, 'GEN', {}).items():
            reg[name] = fn
    return reg


# ---------------------------------------------------------------------- Coq literal printers

def coq_N_list(xs: Iterable[int]) -> str:
    return '[' + ';'.join(str(int(x)) for x in xs) + ']%N'


def coq_str(s: str) -> str:
    """A Python str as a list of code points (N)."""
    return '[' + ';'.join(str(ord(c)) for c in s) + ']%N'


def coq_bytes(b: bytes) -> str:
    return '[' + ';'.join(str(x) for x in b) + ']%N'


def coq_Z_list(xs: Iterable[int]) -> str:
    return '[' + ';'.join(f'({int(x)})' if int(x) < 0 else str(int(x)) for x in xs) + ']%Z'


def coq_bool(b: bool) -> str:
    return 'true' if b else 'false'


def coq_list(items: Iterable[str]) -> str:
    return '[' + '; '.join(items) + ']'


def parse_coq_N_list(s: str) -> list[int]:
    s = s.strip()
    s = re.sub(r'%[A-Za-z]+', '', s)
    if s in ('[]', 'nil'):
        return []
    assert s[0] == '[' and s[-1] == ']', s[:80]
    return [int(x) for x in s[1:-1].split(';') if x.strip()]


def parse_coq_nested(s: str) -> Any:
    """Parse a printed Coq value made of lists, tuples, numbers, true/false, Some/None into Python."""
    s = re.sub(r'%[A-Za-z]+', '', s)
    toks = re.findall(r'\[|\]|\(|\)|;|,|-?\d+|[A-Za-z_][A-Za-z0-9_\']*', s)
    pos = 0

    def atom():
        nonlocal pos
        t = toks[pos]
        if t == '[':
            pos += 1
            out = []
            if toks[pos] == ']':
                pos += 1
                return out
            while True:
                out.append(expr())
                if toks[pos] == ';':
                    pos += 1
                    continue
                assert toks[pos] == ']', toks[pos:pos + 5]
                pos += 1
                return out
        if t == '(':
            pos += 1
            items = [expr()]
            while toks[pos] == ',':
                pos += 1
                items.append(expr())
            assert toks[pos] == ')', toks[pos:pos + 5]
            pos += 1
            return items[0] if len(items) == 1 else tuple(items)
        pos += 1
        if re.fullmatch(r'-?\d+', t):
            return int(t)
        if t == 'true':
            return True
        if t == 'false':
            return False
        if t == 'None':
            return None
        if t == 'nil':
            return []
        return ('@', t)

    def expr():
        nonlocal pos
        a = atom()
        if isinstance(a, tuple) and len(a) == 2 and a[0] == '@':
            args = []
            while pos < len(toks) and toks[pos] not in (']', ')', ';', ','):
                args.append(atom())
            if a[1] == 'Some' and len(args) == 1:
                return ('Some', args[0])
            return (a[1], *args) if args else a[1]
        return a

    v = expr()
    assert pos == len(toks), (toks[pos:pos + 10])
    return v


def run_impl(code_or_args: Sequence[str], input_text: str | None = None, timeout: int = 900) -> subprocess.CompletedProcess:
    """Run a Python subprocess against /repo/src (for parallel workers or crash simulation)."""
    return subprocess.run([PY, *code_or_args], input=input_text, capture_output=True, text=True, env=ENV_IMPL,
                          timeout=timeout)


def src_text(rel: str) -> str:
    return (SRC / rel).read_text(encoding='utf8')


def ast_digest(node) -> str:
    import ast
    return hashlib.sha1(ast.dump(node, include_attributes=False).encode()).hexdigest()[:12]
