"""C06 helpers: a generator of map *specifications* (plain JSON data), a builder that realises a specification
through the public srctools.vmf API, an observer that turns a VMF object graph into plain data with every number
tagged by its tolerance class, the comparison, the text fixed-point oracle and a generic shrinker.

A specification is JSON so that every violation has a concrete, shrinkable, replayable input.
"""
from __future__ import annotations

import contextlib
import io
import math
import random
import re
import signal
from typing import Any, Callable, Iterator

SEP = '\x1b'

# ------------------------------------------------------------------------------------------------ values
PLAIN = 'abcdefghijklmnopqrstuvwxyzABCDEFGHIJKLMNOPQRSTUVWXYZ0123456789_'
NASTY = ['"', '\\', '\n', '\t', "'", ' ', '  ', '{', '}', '[', ']', '//', '/*', '$', ',', ';', ':', '\r', '\x0b', '\x08',
         '\x0c', '\x07', '\\n', '\\"', '"\\', 'é', '中', 'Ж', '©', '€', '\U0001f600', '?', '/', '=', '(', ')', '#', '%', '\x7f', '+', '-', '.']


def rword(rng: random.Random, lo: int = 1, hi: int = 8) -> str:
    return ''.join(rng.choice(PLAIN) for _ in range(rng.randint(lo, hi)))


def rstr(rng: random.Random, nasty: float = 0.5, forbid: str = '', lo: int = 0) -> str:
    """A string; with probability `nasty` it contains quotes/backslashes/newlines/... `forbid`: characters that the
    field cannot carry by construction of the format (separator characters)."""
    if rng.random() >= nasty:
        return rword(rng, max(lo, 1), 10)
    parts = []
    for _ in range(rng.randint(max(lo, 0), 6)):
        parts.append(rng.choice(NASTY) if rng.random() < 0.55 else rword(rng, 1, 4))
    s = ''.join(parts)
    for ch in forbid:
        s = s.replace(ch, '')
    if len(s) < lo:
        s += rword(rng, lo, lo + 2)
    return s


def rfloat(rng: random.Random) -> float:
    r = rng.random()
    if r < 0.30:
        return float(rng.randint(-2048, 2048))
    if r < 0.45:
        return rng.randint(-4096, 4096) / rng.choice([2, 4, 8, 16, 10, 100, 1000])
    if r < 0.65:
        return round(rng.uniform(-4096, 4096), rng.randint(0, 8))
    if r < 0.80:
        return rng.uniform(-1, 1) * 10 ** rng.randint(-9, 7)
    if r < 0.85:
        return rng.choice([0.0, -0.0, 1e-7, -1e-7, 4.9e-7, 5.1e-7, -4e-7, 0.9999995, 123456.7890125, 1e15, -1e15, 65536.0,
                           16384.5, 1 / 3, -2 / 3, 0.1 + 0.2, 2.5e-6, 359.9999996])
    return rng.uniform(-16384, 16384)


def rvec(rng: random.Random) -> list[float]:
    if rng.random() < 0.2:
        return [float(rng.randint(-512, 512)) for _ in range(3)]
    return [rfloat(rng), rfloat(rng), rfloat(rng)]


def rcolor(rng: random.Random) -> list[float]:
    return [float(rng.randint(0, 255)) for _ in range(3)]


def key_ok(k: str) -> bool:
    """Key names the VMF entity syntax can carry at all (format limits, documented in docs/C06.md): a key that looks
    like replaceNN is by definition an instance fixup, `id` is the entity ID, and keys may not contain a newline
    (Keyvalues.parse(newline_keys=False) is how VMF.parse's callers read files)."""
    f = k.casefold()
    if f.startswith('replace'):
        try:
            int(f[-2:])     # exactly the test Entity.parse applies
            return False
        except ValueError:
            pass
    if f in ('id', 'nodeid', 'mapversion'):
        return False
    return '\n' not in k and '\r' not in k


# ------------------------------------------------------------------------------------------------ spec generator
def gen_output(rng: random.Random, nasty: float) -> dict:
    comma = rng.random() < 0.4
    # the separator in use cannot occur inside target/input/output name (format limit); with the comma form extra
    # commas are allowed in the parameter only; ESC cannot occur anywhere in a comma-form value because its presence
    # selects the ESC form.
    forb = SEP + (',' if comma else '')
    name_forb = forb + '\n\r'      # an output name is a key: Keyvalues.parse refuses LF/CR in keys
    o = {
        'out': rstr(rng, nasty * 0.5, name_forb + ';', lo=1),
        'targ': rstr(rng, nasty, forb),
        'inp': rstr(rng, nasty * 0.5, forb + ';', lo=1),
        'param': rstr(rng, nasty, SEP) if rng.random() < 0.7 else '',
        'delay': rng.choice([0.0, 0.0, 1.0, 0.1, 2.5, rfloat(rng), abs(rfloat(rng)), 1e-5, 123456.789, 1234567.0, 0.000123456789]),
        'times': rng.choice([-1, -1, 1, 1, 0, 5, 100]),
        'comma': comma,
        'inst_out': None, 'inst_in': None,
    }
    if o['out'].casefold().startswith('instance:'):
        o['out'] = 'x' + o['out']
    if o['inp'].casefold().startswith('instance:'):
        o['inp'] = 'x' + o['inp']
    if rng.random() < 0.25:
        o['inst_out'] = rstr(rng, nasty * 0.5, name_forb + ';', lo=1)
    if rng.random() < 0.25:
        o['inst_in'] = rstr(rng, nasty * 0.5, forb + ';', lo=1)
    return o


def gen_disp(rng: random.Random, nasty: float, power: int | None = None) -> dict:
    power = power or rng.choice([1, 1, 2, 2, 3, 4])
    size = 2 ** power + 1
    n = size * size
    rich = rng.random() < 0.6

    def vf() -> float:
        return rfloat(rng) if rich else float(rng.randint(0, 3))
    d: dict[str, Any] = {
        'power': power,
        'pos': rvec(rng),
        'elevation': rng.choice([0.0, 1.0, rfloat(rng)]),
        'coll': rng.randint(0, 7),        # DispFlag collision bits
        'subdiv': rng.random() < 0.3,
        'allowed': [rng.choice([-1, -1, 0, 1, 2 ** 31 - 1, -2 ** 31, rng.randint(-2 ** 31, 2 ** 31 - 1)]) for _ in range(10)],
        'normal': [[vf(), vf(), vf()] for _ in range(n)],
        'distance': [rng.choice([0.0, vf(), rng.uniform(0, 64)]) for _ in range(n)],
        'offset': [[vf(), vf(), vf()] for _ in range(n)],
        'offset_norm': [[vf(), vf(), vf()] for _ in range(n)],
        'alpha': [rng.choice([0.0, 255.0, rng.uniform(0, 255)]) for _ in range(n)],
        'tri': [[rng.choice([0, 1, 9]), rng.choice([0, 1, 9])] for _ in range(n)],
        'multi': None,
    }
    if rng.random() < 0.45:
        kind = rng.choice(['full', 'full', 'nocolors', 'somecolors', 'blend0', 'alpha0'])
        def v4() -> list[float]:
            return [rng.choice([0.0, 1.0, 0.5, rng.random(), rfloat(rng)]) for _ in range(4)]
        m = {'kind': kind, 'blend': [v4() for _ in range(n)], 'alpha': [v4() for _ in range(n)], 'colors': []}
        if kind == 'blend0':
            m['blend'] = [[0.0] * 4 for _ in range(n)]
        if kind == 'alpha0':        # blend weights present, every other member of the group at its default
            m['alpha'] = [[0.0] * 4 for _ in range(n)]
        for i in range(n):
            if kind == 'nocolors' or (kind == 'somecolors' and rng.random() < 0.5):
                m['colors'].append(None)
            else:
                m['colors'].append([[rng.choice([1.0, 0.0, rng.random()]) for _ in range(3)] for _ in range(4)])
        d['multi'] = m
    return d


def gen_side_extra(rng: random.Random, nasty: float) -> dict:
    mat = rng.choice(['tools/toolsnodraw', 'BRICK/BRICKWALL001A', 'dev/dev_measuregeneric01b'])
    if rng.random() < nasty * 0.5:
        mat = rstr(rng, 1.0, lo=1)
    return {
        'mat': mat,
        'rot': rng.choice([0.0, 0.0, 90.0, 45.5, rfloat(rng), 123.456789, 1e-7, 359.99999, 1234567.5]),
        'lightmap': rng.choice([16, 16, 4, 32, 1, 128]),
        'smooth': rng.choice([0, 0, 1, 3, 2 ** 31, 2 ** 32 - 1]),
        'u': [rfloat(rng) if rng.random() < 0.5 else rng.choice([0.0, 1.0, -1.0]) for _ in range(3)] + [rfloat(rng), rng.choice([0.25, 0.25, 0.5, 1.0, rfloat(rng) or 0.25])],
        'v': [rfloat(rng) if rng.random() < 0.5 else rng.choice([0.0, 1.0, -1.0]) for _ in range(3)] + [rfloat(rng), rng.choice([0.25, 0.25, 0.125, rfloat(rng) or 0.25])],
        'points': [rvec(rng) for _ in range(rng.randint(0, 5))] if rng.random() < 0.15 else None,
        'disp': None,
    }


def gen_solid(rng: random.Random, nasty: float, n_vis: int, n_grp: int, world: bool, disp_p: float) -> dict:
    s: dict[str, Any] = {
        'hidden': rng.random() < 0.2,
        'vis_shown': rng.random() < 0.8,
        'vis_auto_shown': rng.random() < 0.8,
        'is_cordon': rng.random() < 0.1,
        'color': rcolor(rng),
        # group / visgroup membership is only representable for world brushes (Hammer's format has no such keys
        # inside a brush entity's solids; Solid.export(include_groups=False) documents that).
        'group': (rng.randrange(n_grp) if (world and n_grp and rng.random() < 0.4) else None),
        'vis': (set_history(rng, n_vis) if (world and n_vis and rng.random() < 0.5) else []),
    }
    if rng.random() < 0.7:
        a = [float(rng.randint(-1024, 1024)) for _ in range(3)]
        s['kind'] = 'prism'
        s['mins'] = a
        s['maxs'] = [x + rng.choice([1.0, 16.0, 64.0, 0.5, 128.25]) for x in a]
        s['set_points'] = rng.random() < 0.15
        s['sides'] = [gen_side_extra(rng, nasty) if rng.random() < 0.5 else None for _ in range(6)]
    else:
        s['kind'] = 'faces'
        s['sides'] = []
        for _ in range(rng.randint(0, 7)):
            e = gen_side_extra(rng, nasty)
            e['planes'] = [rvec(rng), rvec(rng), rvec(rng)]
            s['sides'].append(e)
    for e in s['sides']:
        if e is not None and rng.random() < disp_p:
            e['disp'] = gen_disp(rng, nasty)
    return s


def set_history(rng: random.Random, n: int) -> list:
    """Membership sets are built by an add/discard history (Python set iteration order depends on it).
    Encoded as a list of signed ints: k >= 0 add index k, k < 0 discard index -k-1."""
    h: list[int] = []
    for _ in range(rng.randint(1, 2 + min(n, 6))):
        k = rng.randrange(n)
        h.append(k if rng.random() < 0.75 else -k - 1)
    return h


def gen_entity(rng: random.Random, nasty: float, n_vis: int, n_grp: int, disp_p: float) -> dict:
    keys: dict[str, str] = {'classname': rng.choice(['info_target', 'func_detail', 'func_instance', 'logic_relay', 'prop_static',
                                                     'Func_Door', rstr(rng, nasty)])}
    folded = {'classname'}
    for _ in range(rng.choice([0, 1, 2, 4, 8])):
        k = rng.choice(['origin', 'angles', 'targetname', 'model', 'file', 'spawnflags', 'message', 'Replace', 'replaceme',
                        'ID', 'solid', 'editor', 'connections', rstr(rng, nasty * 0.6, lo=0), rstr(rng, nasty * 0.6, lo=1)])
        if not key_ok(k) or k.casefold() in folded:
            continue
        folded.add(k.casefold())
        r = rng.random()
        if r < 0.25:
            v = ' '.join(format(x, 'g') for x in rvec(rng))
        elif r < 0.35:
            v = str(rng.randint(-5, 4096))
        else:
            v = rstr(rng, nasty)
        keys[k] = v
    if rng.random() < 0.08:
        keys['nodeid'] = '__unique__'      # replaced by a unique positive number at build time
    e: dict[str, Any] = {
        'keys': keys,
        'fixups': [],
        'outputs': [gen_output(rng, nasty) for _ in range(rng.choice([0, 0, 1, 2, 5]))],
        'solids': [],
        'hidden': rng.random() < 0.25,
        'groups': set_history(rng, n_grp) if (n_grp and rng.random() < 0.35) else [],
        'vis': set_history(rng, n_vis) if (n_vis and rng.random() < 0.4) else [],
        'vis_shown': rng.random() < 0.8,
        'vis_auto_shown': rng.random() < 0.8,
        'logical_pos': None if rng.random() < 0.7 else rng.choice(['[0 500]', '[1000 -4000]', rstr(rng, nasty, lo=1)]),
        'color': rcolor(rng),
        'comments': '' if rng.random() < 0.7 else rstr(rng, nasty),
    }
    if rng.random() < 0.3:
        used = set()
        for _ in range(rng.choice([1, 2, 3, 6, 12])):
            # a fixup variable is written as "$var value": the name cannot carry a space or start with $ (format limit)
            var = rstr(rng, nasty * 0.6, ' ', lo=1).lstrip('$') or 'v'
            if var.casefold() in used:
                continue
            used.add(var.casefold())
            e['fixups'].append([var, rstr(rng, nasty)])
    if rng.random() < 0.3:
        e['solids'] = [gen_solid(rng, nasty, n_vis, n_grp, False, disp_p) for _ in range(rng.randint(1, 3))]
    return e


def gen_visgroups(rng: random.Random, nasty: float, depth: int = 0) -> list:
    out = []
    for _ in range(rng.choice([0, 1, 2, 3]) if depth == 0 else rng.choice([0, 0, 1, 2])):
        out.append({'name': rstr(rng, nasty), 'color': rcolor(rng),
                    'children': gen_visgroups(rng, nasty, depth + 1) if depth < 3 else []})
    return out


def count_vis(vs: list) -> int:
    return sum(1 + count_vis(v['children']) for v in vs)


def gen_viewport(rng: random.Random) -> dict:
    if rng.random() < 0.4:
        return {'3d': True, 'pos': rvec(rng), 'ang': [rng.uniform(0, 359.9), float(rng.randint(0, 359)), 0.0]}
    def uv(x: float) -> float:
        return x + 0.5 if abs(x) == 65536.0 else x
    return {'3d': False, 'axis': rng.choice('xyz'),
            # u/v of exactly +-65536 cannot be carried: that value marks the view axis in the file (format limit)
            'u': uv(rng.choice([0.0, 0.0, rfloat(rng), 65535.5])), 'v': uv(rng.choice([0.0, rfloat(rng), -65537.0])),
            'zoom': rng.choice([1.0, 0.5, abs(rfloat(rng)) or 1.0])}


def gen_spec(rng: random.Random, size: str = 'm') -> dict:
    nasty = rng.choice([0.0, 0.3, 0.6, 0.9])
    disp_p = rng.choice([0.0, 0.1, 0.3])
    scale = {'s': 1, 'm': 2, 'l': 4}[size]
    vis = gen_visgroups(rng, nasty)
    n_vis = count_vis(vis)
    n_grp = rng.choice([0, 1, 3, 9])
    spec: dict[str, Any] = {
        'opts': {'minimal': rng.random() < 0.2, 'disp_multiblend': rng.random() < 0.8, 'preserve_ids': rng.random() < 0.5},
        'settings': {
            'map_version': rng.choice([0, 1, 57, 4000]), 'hammer_version': rng.choice([400, 400, 0]),
            'hammer_build': rng.choice([5304, 8000, 1]), 'is_prefab': rng.random() < 0.2,
            'show_grid': rng.random() < 0.5, 'show_3d_grid': rng.random() < 0.5, 'snap_grid': rng.random() < 0.5,
            'show_logic_grid': rng.random() < 0.5, 'grid_spacing': rng.choice([1, 8, 64, 512]),
            'quickhide_count': rng.choice([0, 0, 3]),
            'strata_inst_vis': rng.choice([None, None, 0, 1, 2]),
            'cordon_enabled': rng.random() < 0.4,
            'active_cam': rng.choice([-1, 0, 1, 2]),
        },
        'viewports': [gen_viewport(rng) for _ in range(4)] if rng.random() < 0.25 else None,
        'visgroups': vis,
        'groups': [{'shown': rng.random() < 0.7, 'auto_shown': rng.random() < 0.7, 'color': rcolor(rng)} for _ in range(n_grp)],
        'cameras': [[rvec(rng), rvec(rng)] for _ in range(rng.choice([0, 0, 1, 3]))],
        'cordons': [{'name': rstr(rng, nasty), 'mins': rvec(rng), 'maxs': rvec(rng), 'active': rng.random() < 0.6}
                    for _ in range(rng.choice([0, 0, 1, 2]))],
        'world_keys': {},
        'brushes': [gen_solid(rng, nasty, n_vis, n_grp, True, disp_p) for _ in range(rng.randint(0, 2 * scale))],
        'entities': [gen_entity(rng, nasty, n_vis, n_grp, disp_p) for _ in range(rng.randint(0, 3 * scale))],
    }
    spec['ids'] = gen_ids(rng, spec['opts']['preserve_ids']) if rng.random() < 0.45 else None
    for _ in range(rng.choice([0, 1, 3])):
        k = rng.choice(['skyname', 'detailmaterial', 'maxpropscreenwidth', 'targetname', rstr(rng, nasty * 0.5, lo=1)])
        if key_ok(k) and k.casefold() not in {x.casefold() for x in spec['world_keys']} and k.casefold() != 'classname':
            spec['world_keys'][k] = rstr(rng, nasty)
    return spec


HIST_CONTAINERS = ('brushes', 'entities', 'visgroups', 'groups', 'cameras', 'cordons')
HIST_ENT_CONTAINERS = ('outputs', 'fixups', 'solids')


def gen_history_spec(rng: random.Random) -> dict:
    """A specification with a history: the base map is built, exported and parsed; then spec['history']['edits'] is added to the
    PARSED map through the public API.  Each container the API can add to is empty in the base map with probability 0.6 (so the
    parsed map holds whatever VMF.parse / Entity.parse leave there for an empty container) and receives at least one element."""
    base = gen_spec(rng, 's')
    donor = gen_spec(rng, 's')
    nasty = rng.choice([0.0, 0.3, 0.6])
    base['ids'] = None        # (the base map is exported in full whatever opts['minimal'] says; the option applies to the exports after the edits)
    emptied = [c for c in HIST_CONTAINERS if rng.random() < 0.6]
    for c in emptied:
        base[c] = []
    # format limits (see docs): "cordons enabled" without a cordon and "active camera" without a camera are not written
    if not base['cordons']:
        base['settings']['cordon_enabled'] = False
    if not base['cameras']:
        base['settings']['active_cam'] = -1
    for e in base['entities']:
        for c in HIST_ENT_CONTAINERS:
            if rng.random() < 0.5:
                e[c] = []
    fresh = {
        'brushes': lambda: gen_solid(rng, nasty, 3, 3, True, 0.1),
        'entities': lambda: gen_entity(rng, nasty, 3, 3, 0.1),
        'visgroups': lambda: {'name': rstr(rng, nasty), 'color': rcolor(rng), 'children': []},
        'groups': lambda: {'shown': rng.random() < 0.7, 'auto_shown': rng.random() < 0.7, 'color': rcolor(rng)},
        'cameras': lambda: [rvec(rng), rvec(rng)],
        'cordons': lambda: {'name': rstr(rng, nasty), 'mins': rvec(rng), 'maxs': rvec(rng), 'active': rng.random() < 0.6},
    }
    edits: dict[str, Any] = {}
    for c in HIST_CONTAINERS:
        items = donor[c][:2]
        if not items and (c in emptied or rng.random() < 0.3):
            items = [fresh[c]()]
        edits[c] = items
    for e in edits['entities']:
        if e['logical_pos'] is None:      # the default position is derived from the ID, which differs between the two maps
            e['logical_pos'] = '[0 %d]' % rng.randint(0, 9999)
    edits['ent_edits'] = []
    for i in range(min(2, len(base['entities']))):
        ed: dict[str, Any] = {'index': i}
        if rng.random() < 0.7:
            ed['outputs'] = [gen_output(rng, nasty) for _ in range(rng.randint(1, 2))]
        if rng.random() < 0.7:
            ed['fixups'] = [[rword(rng) + str(i), rstr(rng, nasty)]]
        if rng.random() < 0.7:
            ed['solids'] = [gen_solid(rng, nasty, 0, 0, False, 0.1)]
        edits['ent_edits'].append(ed)
    edits['removals'] = {'brushes': [rng.randrange(8)] if rng.random() < 0.3 else [],
                         'entities': [rng.randrange(8)] if rng.random() < 0.3 else []}
    base['history'] = {
        'emptied': emptied, 'edits': edits,
        'api': {'brush': rng.choice(['add_brush', 'add_brushes', 'append']), 'ent': rng.choice(['add_ent', 'add_ents', 'create_ent']),
                'vis': rng.choice(['append', 'create'])},
    }
    return base


class Timeout(Exception):
    """A call into the implementation did not return in time (a fault that makes it loop): treated as a failing input."""


@contextlib.contextmanager
def time_limit(seconds: int):
    """Alarm around a call into the implementation. Only in the main thread of the check process (SIGALRM)."""
    def handler(signum, frame):
        raise Timeout(f'no answer within {seconds} s')
    try:
        old = signal.signal(signal.SIGALRM, handler)
    except ValueError:          # not in the main thread: no limit
        yield
        return
    signal.alarm(seconds)
    try:
        yield
    finally:
        signal.alarm(0)
        signal.signal(signal.SIGALRM, old)


# ------------------------------------------------------------------------------------------------ ID schemes
# Every block that carries an ID: entity (and worldspawn), solid, side, group, visgroup, and the `nodeid` key of an entity.
# A scheme gives object number i of a kind (file order) the ID  start + step * (i mod wrap)  (wrap None: no wrap-around).
# Hammer counts from 1; generated and hand-edited maps count from 0, leave gaps, use huge numbers and -- when IDs are
# preserved -- repeat numbers.  -1 is the API's "no ID given" (every parse method looks the key up with default -1) and is
# therefore not an ID a map can carry; negative numbers are not IDs either (Entity.parse takes an `id` key as the ID only when
# its value is all digits): the schemes produce naturals.
ID_KINDS = ('ent', 'solid', 'face', 'group', 'vis', 'node')


def scheme_id(sch: list, i: int) -> int:
    start, step, wrap = sch
    return start + step * (i % wrap if wrap else i)


def gen_ids(rng: random.Random, preserve: bool) -> dict:
    """`route` object: the IDs are assigned to the built objects (attribute `id`, references remapped) before the first export;
    `route` text: the first exported text is renumbered consistently and parsed (with the map's preserve_ids option): the
    parsed map is the one under test, and with preserve_ids its export must be the renumbered text itself.
    Without preserve_ids the IDs stay positive and unique (then "consistent renumbering" is well defined)."""
    ids: dict[str, Any] = {'route': rng.choice(['object', 'text'])}
    for kind in ID_KINDS:
        if rng.random() < 0.25:
            continue
        if preserve:
            start = rng.choice([0, 0, 0, 1, 2, 17, 1000000, 2147483647, 4294967296])
            step = rng.choice([1, 1, 2, 7, 1000])
            wrap = rng.choice([None, None, None, 1, 2, 3]) if kind != 'group' else None    # VMF.groups is keyed by ID
        else:
            start = rng.choice([1, 1, 2, 17, 1000000, 2147483647])
            step = rng.choice([1, 2, 7, 1000])
            wrap = None
        ids[kind] = [start, step, wrap]
    return ids


def apply_ids_to_objects(vmf, ids: dict) -> None:
    """Route `object`: give every ID-carrying object its scheme ID through the public attribute, keep references consistent."""
    ents = [vmf.spawn] + list(vmf.entities)
    solids = [s for e in ents for s in e.solids]
    if 'ent' in ids:
        for i, e in enumerate(ents):
            e.id = scheme_id(ids['ent'], i)
    if 'solid' in ids:
        for i, s in enumerate(solids):
            s.id = scheme_id(ids['solid'], i)
    if 'face' in ids:
        for i, f in enumerate(f for s in solids for f in s.sides):
            f.id = scheme_id(ids['face'], i)
    if 'vis' in ids:
        m: dict[int, int] = {}

        def walk(vs: list) -> None:
            for v in vs:
                new = scheme_id(ids['vis'], len(m))
                m[v.id] = new
                v.id = new
                walk(v.child_groups)
        walk(vmf.vis_tree)
        for x in ents + solids:
            x.visgroup_ids = {m.get(k, k) for k in x.visgroup_ids}
    if 'group' in ids:
        g: dict[int, int] = {}
        new_groups = {}
        for i, (k, grp) in enumerate(list(vmf.groups.items())):
            g[k] = grp.id = scheme_id(ids['group'], i)
            new_groups[grp.id] = grp
        vmf.groups.clear()
        vmf.groups.update(new_groups)
        for e in ents:
            e.groups = {g.get(k, k) for k in e.groups}
        for s in solids:
            if s.group_id is not None:
                s.group_id = g.get(s.group_id, s.group_id)


_ID_LINE = re.compile(r'(\s*)"(id|visgroupid|groupid|nodeid)" "(-?\d+)"')


def map_ids(text: str, ren: Callable[[str, str], str | None]) -> str:
    """Rewrite every ID-carrying line of exported text: ren(kind, old) -> new (None: keep).  Kinds: ent, solid, face, group, vis, node."""
    stack: list[str] = []
    last = ''
    out = []
    for line in text.split('\n'):
        s = line.strip()
        if s == '{':
            stack.append(last)
        elif s == '}':
            if stack:
                stack.pop()
        else:
            m = _ID_LINE.fullmatch(line)
            if m:
                key = m.group(2)
                blk = stack[-1] if stack else ''
                if key == 'id':
                    kind = {'solid': 'solid', 'side': 'face', 'entity': 'ent', 'world': 'ent', 'group': 'group'}.get(blk)
                elif key == 'nodeid':
                    kind = 'node' if blk == 'entity' else None
                else:
                    kind = 'vis' if key == 'visgroupid' else 'group'
                new = ren(kind, m.group(3)) if kind else None
                if new is not None:
                    line = f'{m.group(1)}"{key}" "{new}"'
        last = s.strip('"')
        out.append(line)
    return '\n'.join(out)


def id_skeleton(text: str) -> list[tuple]:
    """The ID-carrying lines of a text in file order: ('def:<kind>', value) for the ID of an object, ('ref:<kind>', sorted set of
    values) for a run of membership lines (a membership set has no order and no repetitions)."""
    out: list[tuple] = []
    stack: list[str] = []
    last = ''
    for line in text.split('\n'):
        s = line.strip()
        if s == '{':
            stack.append(last)
        elif s == '}':
            if stack:
                stack.pop()
        else:
            m = _ID_LINE.fullmatch(line)
            if m:
                key, blk = m.group(2), (stack[-1] if stack else '')
                if key == 'id' and blk in ('solid', 'side', 'entity', 'world', 'group'):
                    out.append(('def:' + {'side': 'face', 'entity': 'ent', 'world': 'ent'}.get(blk, blk), int(m.group(3))))
                elif key == 'nodeid' and blk == 'entity':
                    out.append(('def:node', int(m.group(3))))
                elif key == 'visgroupid' and blk == 'visgroup':
                    out.append(('def:vis', int(m.group(3))))
                elif key in ('visgroupid', 'groupid') and blk == 'editor':
                    kind = 'ref:vis' if key == 'visgroupid' else 'ref:group'
                    if out and out[-1][0] == kind and last.startswith(key):
                        out[-1] = (kind, tuple(sorted(set(out[-1][1]) | {int(m.group(3))})))
                    else:
                        out.append((kind, (int(m.group(3)),)))
        last = s.strip('"')
    return out


def rewrite_ids(text: str, ids: dict) -> str:
    """Route `text`: consistent renumbering of the exported text by the schemes (definition and references alike)."""
    maps: dict[str, dict[str, int]] = {}

    def ren(kind: str, old: str) -> str | None:
        if kind not in ids:
            return None
        m = maps.setdefault(kind, {})
        if old not in m:
            m[old] = scheme_id(ids[kind], len(m))
        return str(m[old])
    return map_ids(text, ren)


# ------------------------------------------------------------------------------------------------ builder
def apply_set_history(ids: list[int], hist: list[int]) -> set:
    s: set = set()
    for k in hist:
        if k >= 0:
            s.add(ids[k % len(ids)])
        else:
            s.discard(ids[(-k - 1) % len(ids)])
    return s


def collect_vis_ids(vmf) -> list[int]:
    """IDs of the visgroups of a map in the order `populate` numbers them (children before their parent)."""
    out: list[int] = []

    def walk(g) -> None:
        for c in g.child_groups:
            walk(c)
        out.append(g.id)
    for g in vmf.vis_tree:
        walk(g)
    return out


def build(spec: dict):
    """Realise a specification through the public API. Returns the VMF."""
    from srctools.vmf import VMF, StrataInstanceVisibility, Strata2DViewport, Strata3DViewport
    from srctools.math import Vec, Angle
    st = spec['settings']
    vmf = VMF(
        preserve_ids=False,
        map_version=st['map_version'], hammer_version=st['hammer_version'], hammer_build=st['hammer_build'],
        is_prefab=st['is_prefab'], show_grid=st['show_grid'], show_3d_grid=st['show_3d_grid'], snap_grid=st['snap_grid'],
        show_logic_grid=st['show_logic_grid'], grid_spacing=st['grid_spacing'], quickhide_count=st['quickhide_count'],
        cordon_enabled=st['cordon_enabled'], active_cam=st['active_cam'],
        strata_inst_visibility=None if st['strata_inst_vis'] is None else StrataInstanceVisibility(st['strata_inst_vis']),
    )
    if spec.get('viewports') is not None:
        vps = []
        for vp in spec['viewports']:
            if vp['3d']:
                vps.append(Strata3DViewport(Vec(vp['pos']), Angle(vp['ang'])))
            else:
                vps.append(Strata2DViewport(vp['axis'], vp['u'], vp['v'], vp['zoom']))
        vmf.strata_viewports = vps
    populate(vmf, spec)
    ids = spec.get('ids')
    if ids and ids.get('route') == 'object':
        apply_ids_to_objects(vmf, ids)
    return vmf


def populate(vmf, spec: dict, api: dict | None = None) -> None:
    """Add the content of a (partial) specification to an existing map through the public API.  `api` chooses between the
    equivalent public ways of adding: brush: add_brush | add_brushes | append (to VMF.brushes); ent: add_ent | add_ents |
    create_ent; vis: append (to VMF.vis_tree) | create (create_visgroup, for visgroups without children).
    `spec['ent_edits']` edits entities the map already has: outputs (add_out), fixups, solids (appended to Entity.solids);
    `spec['removals']` removes brushes (remove_brush / Solid.remove) and entities (remove_ent) by position afterwards."""
    from srctools.vmf import (Entity, Solid, Side, Output, EntityGroup, VisGroup, Camera, Cordon, UVAxis, DispFlag,
                              TriangleTag, Vec4)
    from srctools.math import Vec
    from array import array
    api = api or {}
    vis_ids: list[int] = collect_vis_ids(vmf)
    old_ents = list(vmf.entities)

    def mk_vis(v: dict) -> VisGroup:
        kids = [mk_vis(c) for c in v['children']]
        g = VisGroup(vmf, v['name'], -1, Vec(v['color']), kids)
        vis_ids.append(g.id)
        return g
    for v in spec.get('visgroups', ()):
        if api.get('vis') == 'create' and not v['children']:
            vis_ids.append(vmf.create_visgroup(v['name'], Vec(v['color'])).id)
        else:
            vmf.vis_tree.append(mk_vis(v))
    grp_ids: list[int] = list(vmf.groups)
    for g in spec.get('groups', ()):
        grp = EntityGroup(vmf, -1, g['shown'], g['auto_shown'], Vec(g['color']))
        vmf.groups[grp.id] = grp
        grp_ids.append(grp.id)
    for pos, targ in spec.get('cameras', ()):
        Camera(vmf, Vec(pos), Vec(targ))
    for c in spec.get('cordons', ()):
        Cordon(vmf, Vec(c['mins']), Vec(c['maxs']), c['active'], c['name'])
    for k, v in spec.get('world_keys', {}).items():
        vmf.spawn[k] = v

    def mk_out(o: dict) -> Output:
        return Output(o['out'], o['targ'], o['inp'], o['param'], o['delay'], times=o['times'],
                      inst_out=o['inst_out'], inst_in=o['inst_in'], comma_sep=o['comma'])

    def apply_side(side: Side, e: dict | None) -> None:
        if e is None:
            return
        side.mat = e['mat']
        side.ham_rot = e['rot']
        side.lightmap = e['lightmap']
        side.smooth = e['smooth']
        side.uaxis = UVAxis(*e['u'])
        side.vaxis = UVAxis(*e['v'])
        if e.get('points') is not None:
            side.strata_points = [Vec(p) for p in e['points']]

    def mk_disp(planes, e: dict) -> Side:
        d = e['disp']
        side = Side(vmf, planes, disp_power=d['power'])
        apply_side(side, e)
        side.disp_pos = Vec(d['pos'])
        side.disp_elevation = d['elevation']
        fl = DispFlag(d['coll'])
        if d['subdiv']:
            fl |= DispFlag.SUBDIV
        side.disp_flags = fl
        side.disp_allowed_vert = array('i', d['allowed'])
        size = side.disp_size
        for i in range(size * size):
            vert = side[i % size, i // size]
            vert.normal = Vec(d['normal'][i])
            vert.distance = d['distance'][i]
            vert.offset = Vec(d['offset'][i])
            vert.offset_norm = Vec(d['offset_norm'][i])
            vert.alpha = d['alpha'][i]
            vert.triangle_a = TriangleTag(d['tri'][i][0])
            vert.triangle_b = TriangleTag(d['tri'][i][1])
            m = d.get('multi')
            if m is not None:
                vert.multi_blend = Vec4(*m['blend'][i])
                vert.multi_alpha = Vec4(*m['alpha'][i])
                vert.multi_colors = None if m['colors'][i] is None else [Vec(c) for c in m['colors'][i]]
        return side

    def mk_solid(s: dict) -> Solid:
        if s['kind'] == 'prism':
            pr = vmf.make_prism(Vec(s['mins']), Vec(s['maxs']), set_points=s.get('set_points', False))
            solid = pr.solid
            for i, e in enumerate(s['sides'][:len(solid.sides)]):
                if e is not None and e.get('disp') is not None:
                    old = solid.sides[i]
                    new = mk_disp([p.copy() for p in old.planes], e)
                    solid.sides[i] = new
                else:
                    apply_side(solid.sides[i], e)
            del pr
        else:
            sides = []
            for e in s['sides']:
                if e is None:
                    continue
                planes = [Vec(p) for p in e['planes']]
                if e.get('disp') is not None:
                    sides.append(mk_disp(planes, e))
                else:
                    sd = Side(vmf, planes)
                    apply_side(sd, e)
                    sides.append(sd)
            solid = Solid(vmf, -1, sides)
        solid.hidden = s['hidden']
        solid.vis_shown = s['vis_shown']
        solid.vis_auto_shown = s['vis_auto_shown']
        solid.is_cordon = s['is_cordon']
        solid.editor_color = Vec(s['color'])
        if s.get('group') is not None and grp_ids:
            solid.group_id = grp_ids[s['group'] % len(grp_ids)]
        if s.get('vis') and vis_ids:
            solid.visgroup_ids = apply_set_history(vis_ids, s['vis'])
        return solid

    brushes = [mk_solid(s) for s in spec.get('brushes', ())]
    if api.get('brush') == 'add_brushes':
        vmf.add_brushes(iter(brushes))
    elif api.get('brush') == 'append':
        for b in brushes:
            vmf.brushes.append(b)
    else:
        for b in brushes:
            vmf.add_brush(b)
    node = 1 + sum(1 for e in old_ents if 'nodeid' in e)
    new_ents = []
    for e in spec.get('entities', ()):
        keys = dict(e['keys'])
        if keys.get('nodeid') == '__unique__':
            keys['nodeid'] = str(node)
            node += 1
        solids = [mk_solid(s) for s in e['solids']]
        groups = apply_set_history(grp_ids, e['groups']) if (e['groups'] and grp_ids) else ()
        vis = apply_set_history(vis_ids, e['vis']) if (e['vis'] and vis_ids) else ()
        if api.get('ent') == 'create_ent' and 'classname' in keys and e['logical_pos'] is not None:
            rest = {k: v for k, v in keys.items() if k != 'classname'}
            ent = vmf.create_ent(keys['classname'], **rest)
            ent.solids.extend(solids)
            ent.hidden = e['hidden']
            ent.groups.update(groups)
            ent.visgroup_ids.update(vis)
            ent.vis_shown, ent.vis_auto_shown = e['vis_shown'], e['vis_auto_shown']
            ent.logical_pos = e['logical_pos']
            ent.editor_color = Vec(e['color'])
            ent.comments = e['comments']
        else:
            ent = Entity(
                vmf, keys=keys, solids=solids, hidden=e['hidden'], groups=groups, vis_ids=vis,
                vis_shown=e['vis_shown'], vis_auto_shown=e['vis_auto_shown'],
                logical_pos=e['logical_pos'], editor_color=Vec(e['color']), comments=e['comments'],
            )
            if api.get('ent') == 'add_ents':
                new_ents.append(ent)
            else:
                vmf.add_ent(ent)
        for var, val in e['fixups']:
            ent.fixup[var] = val
        for o in e['outputs']:
            ent.add_out(mk_out(o))
    if new_ents:
        vmf.add_ents(iter(new_ents))
    for ed in spec.get('ent_edits', ()):
        if not old_ents:
            break
        ent = old_ents[ed['index'] % len(old_ents)]
        for o in ed.get('outputs', ()):
            ent.add_out(mk_out(o))
        for var, val in ed.get('fixups', ()):
            ent.fixup[var] = val
        for s in ed.get('solids', ()):
            ent.solids.append(mk_solid(s))
    # removals through the public API (after the additions): remove_brush / Solid.remove, remove_ent
    rm = spec.get('removals') or {}
    for i in rm.get('brushes', ()):
        if vmf.brushes:
            b = vmf.brushes[i % len(vmf.brushes)]
            if i % 2:
                b.remove()
            else:
                vmf.remove_brush(b)
    for i in rm.get('entities', ()):
        if vmf.entities:
            vmf.remove_ent(vmf.entities[i % len(vmf.entities)])


# ------------------------------------------------------------------------------------------------ observer
class Num:
    """A number with its tolerance class: 'c' coordinate (|d| <= 5e-7), 'g' six significant digits, 'x' exact."""
    __slots__ = ('v', 'cls')

    def __init__(self, v: float, cls: str) -> None:
        self.v, self.cls = float(v), cls

    def __repr__(self) -> str:
        return f'{self.v!r}~{self.cls}'


def num_close(a: Num, b: Num) -> bool:
    x, y = a.v, b.v
    if math.isnan(x) or math.isnan(y):
        return math.isnan(x) and math.isnan(y)
    if a.cls == 'x':
        return x == y
    if x == y:
        return True
    if a.cls == 'c':
        return abs(x - y) <= 5e-7 + 4 * math.ulp(max(abs(x), abs(y)))
    if a.cls == 'g':
        return abs(x - y) <= 5e-6 * abs(x) * (1 + 1e-9) + 4 * math.ulp(abs(x))
    raise AssertionError(a.cls)


def C(v) -> Num:
    return Num(v, 'c')


def vec_c(v) -> list:
    return [C(v.x), C(v.y), C(v.z)]


def obs_side(s, opts: dict) -> dict:
    o: dict[str, Any] = {
        'id': s.id, 'planes': [vec_c(p) for p in s.planes], 'mat': s.mat, 'rot': Num(s.ham_rot, 'g'),
        'lightmap': s.lightmap, 'smooth': s.smooth,
        'uaxis': [C(s.uaxis.x), C(s.uaxis.y), C(s.uaxis.z), C(s.uaxis.offset), C(s.uaxis.scale)],
        'vaxis': [C(s.vaxis.x), C(s.vaxis.y), C(s.vaxis.z), C(s.vaxis.offset), C(s.vaxis.scale)],
        'strata_points': None if s.strata_points is None else [vec_c(p) for p in s.strata_points],
        'disp_power': s.disp_power,
    }
    if s.disp_power > 0:
        size = s.disp_size
        verts = s._disp_verts
        from srctools.vmf import DispFlag
        o['disp'] = {
            'pos': vec_c(s.disp_pos), 'elevation': Num(s.disp_elevation, 'x'),
            'coll': (s.disp_flags & DispFlag.COLL_ALL).value, 'subdiv': DispFlag.SUBDIV in s.disp_flags,
            'allowed_verts': list(s.disp_allowed_vert),
            'normals': [vec_c(v.normal) for v in verts],
            'distances': [Num(v.distance, 'x') for v in verts],
            'offsets': [vec_c(v.offset) for v in verts],
            'offset_normals': [vec_c(v.offset_norm) for v in verts],
            'alphas': [Num(v.alpha, 'x') for v in verts],
            # per quad: the last row and column carry no triangles (documented on DispVertex)
            'triangle_tags': [[v.triangle_a.value, v.triangle_b.value] for v in verts if v.x < size - 1 and v.y < size - 1],
        }
        has_multi = any(v.multi_blend for v in verts)
        if opts.get('disp_multiblend', True):
            # Multiblend data is written when any vertex has a non-zero blend (the format's presence flag).
            o['disp']['has_multiblend'] = has_multi
            if has_multi:
                from srctools.math import Vec
                o['disp']['multiblend'] = [[Num(c, 'g') for c in (v.multi_blend.x, v.multi_blend.y, v.multi_blend.z, v.multi_blend.w)] for v in verts]
                o['disp']['alphablend'] = [[Num(c, 'g') for c in (v.multi_alpha.x, v.multi_alpha.y, v.multi_alpha.z, v.multi_alpha.w)] for v in verts]
                # a vertex without colours means the default colour (1 1 1) in all four channels
                o['disp']['multiblend_colors'] = [[vec_c(c) for c in (v.multi_colors or [Vec(1, 1, 1)] * 4)] for v in verts]
    return o


def obs_solid(s, opts: dict, in_world: bool) -> dict:
    o = {
        'id': s.id, 'hidden': s.hidden, 'vis_shown': s.vis_shown, 'vis_auto_shown': s.vis_auto_shown,
        'is_cordon': s.is_cordon, 'editor_color': vec_c(s.editor_color),
        'sides': [obs_side(x, opts) for x in s.sides],
    }
    if in_world:
        o['group_id'] = s.group_id
        o['visgroup_ids'] = sorted(s.visgroup_ids)
    return o


def obs_output(o) -> dict:
    return {'output': o.output, 'inst_out': o.inst_out or None, 'target': o.target, 'input': o.input, 'inst_in': o.inst_in or None,
            'params': o.params, 'delay': Num(o.delay, 'g'), 'times': o.times, 'comma_sep': o.comma_sep}


def obs_entity(e, opts: dict, world: bool = False, solids: Any = None) -> dict:
    keys = dict(e._keys)
    if world:
        keys = {k: v for k, v in keys.items() if k.casefold() != 'mapversion'}
    o = {
        'id': e.id, 'keys': keys,
        'fixups': sorted((f.id, f.var, f.value) for f in (e._fixup._fixup.values() if e._fixup is not None else ())),
        'outputs': [obs_output(x) for x in e.outputs],
        'solids': [obs_solid(s, opts, world) for s in (e.solids if solids is None else solids)],
        'editor_color': vec_c(e.editor_color), 'comments': e.comments,
    }
    if not world:
        o.update(hidden=e.hidden, groups=sorted(e.groups), visgroup_ids=sorted(e.visgroup_ids), vis_shown=e.vis_shown,
                 vis_auto_shown=e.vis_auto_shown, logical_pos=e.logical_pos)
    return o


def obs_vis(v) -> dict:
    return {'id': v.id, 'name': v.name, 'color': vec_c(v.color), 'children': [obs_vis(c) for c in v.child_groups]}


def observe(vmf, opts: dict) -> dict:
    from srctools.vmf import Strata3DViewport
    o: dict[str, Any] = {
        'versioninfo': {'hammer_ver': vmf.hammer_ver, 'hammer_build': vmf.hammer_build, 'map_ver': vmf.map_ver,
                        'format_ver': vmf.format_ver, 'is_prefab': vmf.is_prefab},
        'visgroups': [obs_vis(v) for v in vmf.vis_tree],
        'groups': {str(k): {'id': g.id, 'shown': g.shown, 'auto_shown': g.auto_shown, 'color': vec_c(g.color)}
                   for k, g in sorted(vmf.groups.items())},
        # the world brushes of a map are what its public view shows (VMF.brushes: add_brush / add_brushes / remove_brush /
        # iter_wbrushes work on it); export() writes spawn.solids -- the two are meant to be one list object
        'world': obs_entity(vmf.spawn, opts, True, solids=list(vmf.iter_wbrushes(world=True, detail=False))),
        'entities': [obs_entity(e, opts) for e in vmf.entities],
        'quickhide_count': vmf.quickhide_count,
    }
    if not opts.get('minimal'):
        o['viewsettings'] = {'snap_grid': vmf.snap_grid, 'show_grid': vmf.show_grid, 'show_logic_grid': vmf.show_logic_grid,
                             'grid_spacing': vmf.grid_spacing, 'show_3d_grid': vmf.show_3d_grid,
                             'strata_instance_vis': None if vmf.strata_instance_vis is None else vmf.strata_instance_vis.value}
        if vmf.strata_viewports is None:
            o['viewports'] = None
        else:
            vp = []
            for p in vmf.strata_viewports:
                if isinstance(p, Strata3DViewport):
                    vp.append({'3d': True, 'pos': vec_c(p.position), 'ang': [C(p.angle.pitch), C(p.angle.yaw), C(p.angle.roll)]})
                else:
                    vp.append({'3d': False, 'axis': p.axis, 'u': C(p.u), 'v': C(p.v), 'zoom': C(p.zoom)})
            o['viewports'] = vp
        o['cameras'] = {'active': vmf.active_cam, 'list': [{'pos': vec_c(c.pos), 'target': vec_c(c.target)} for c in vmf.cameras]}
        o['cordons'] = {'enabled': vmf.cordon_enabled,
                        'list': [{'name': c.name, 'active': c.active, 'mins': vec_c(c.bounds_min), 'maxs': vec_c(c.bounds_max)}
                                 for c in vmf.cordons]}
    return o


def diff(a: Any, b: Any, path: tuple = ()) -> Iterator[tuple[tuple, Any, Any]]:
    """Yield (path, a, b) for every leaf difference. Indexes inside lists are part of the path."""
    if isinstance(a, Num) and isinstance(b, Num):
        if not num_close(a, b):
            yield path, a, b
    elif isinstance(a, dict) and isinstance(b, dict):
        for k in a.keys() | b.keys():
            if k not in a or k not in b:
                yield path + (k,), a.get(k, '<absent>'), b.get(k, '<absent>')
            else:
                yield from diff(a[k], b[k], path + (k,))
    elif isinstance(a, (list, tuple)) and isinstance(b, (list, tuple)):
        if len(a) != len(b):
            # one cause, one key: after a difference in length the elements are misaligned (a lost solid shifts all later
            # ones), comparing them pairwise only produces noise -- unless the elements are plain leaves (numbers of a row)
            yield path + ('len',), len(a), len(b)
            if any(isinstance(x, (dict, list, tuple)) for x in list(a) + list(b)):
                return
        for i, (x, y) in enumerate(zip(a, b)):
            yield from diff(x, y, path + (i,))
    elif type(a) is not type(b) or a != b:
        yield path, a, b


def path_class(path: tuple) -> str:
    """Field class of a difference: the path without list indexes and without user-chosen key names."""
    out = []
    prev = None
    for p in path:
        if isinstance(p, int):
            prev = p
            continue
        if prev in ('keys', 'groups') and len(out) and out[-1] == prev:
            out.append('*')
        else:
            out.append(str(p))
        prev = p
    # one cause, one key: nested visgroups and solids of the world / of entities share their field classes
    dedup = [x for i, x in enumerate(out) if not (x == 'children' and i and out[i - 1] == 'children')]
    if len(dedup) > 1 and dedup[0] in ('world', 'entities') and dedup[1] == 'solids':
        dedup = dedup[1:]
    return '.'.join(dedup)


# ------------------------------------------------------------------------------------------------ text oracle
def export_text(vmf, opts: dict) -> str:
    return vmf.export(inc_version=False, minimal=opts.get('minimal', False), disp_multiblend=opts.get('disp_multiblend', True))


def parse_text(text: str, opts: dict):
    from srctools.keyvalues import Keyvalues
    from srctools.vmf import VMF
    return VMF.parse(Keyvalues.parse(text), preserve_ids=opts.get('preserve_ids', False))


_BLOCK_WORDS = {'{', '}', '<eof>', 'versioninfo', 'visgroups', 'visgroup', 'viewsettings', 'views', 'v0', 'v1', 'v2', 'v3', 'world',
                'entity', 'hidden', 'solid', 'side', 'editor', 'group', 'connections', 'dispinfo', 'normals', 'distances', 'offsets',
                'offset_normals', 'alphas', 'triangle_tags', 'allowed_verts', 'multiblend', 'alphablend', 'multiblend_color_0',
                'multiblend_color_1', 'multiblend_color_2', 'multiblend_color_3', 'cameras', 'camera', 'cordons', 'cordon', 'box',
                'quickhide', 'point_data'}
_KNOWN_KEYS: set = set()


def _known_keys() -> set:
    """Literal keys the exporters write (from the translator); anything else in a key position is user text."""
    if not _KNOWN_KEYS:
        try:
            from translate import c06_vmf
            for _, _, k, pref in c06_vmf.analyse()['written']:
                if k:
                    _KNOWN_KEYS.add(re.sub(r'\d+', 'N', k) + ('N' if pref else ''))
        except Exception:
            pass
        _KNOWN_KEYS.update({'id', 'classname', 'rowN', 'replaceN', 'replaceNN'})
    return _KNOWN_KEYS


_LINE = re.compile(r'^\s*"((?:[^"\\]|\\.)*)" "')


def text_diff_class(t1: str, t2: str) -> tuple[str, dict]:
    """Locate the first differing line and name it by its block path and key."""
    l1, l2 = t1.split('\n'), t2.split('\n')
    stack: list[str] = []
    last = ''
    n = min(len(l1), len(l2))
    i = 0
    for i in range(n):
        a = l1[i]
        if a != l2[i]:
            break
        s = a.strip()
        if s == '{':
            stack.append(last)
        elif s == '}':
            if stack:
                stack.pop()
        last = s.strip('"')
    else:
        i = n
    a = l1[i] if i < len(l1) else '<eof>'
    b = l2[i] if i < len(l2) else '<eof>'

    def keyof(line: str) -> str:
        m = _LINE.match(line)
        if m:
            k = m.group(1)
            k = re.sub(r'\d+', 'N', k)
            return k if k.casefold() in _known_keys() else '<key>'
        s = line.strip()
        return s if s in _BLOCK_WORDS else '<text>'
    # the class names the innermost two blocks; 'hidden' wrappers are dropped so that one cause gives one key
    blocks = '/'.join([re.sub(r'\d+', 'N', x) if x in _BLOCK_WORDS or re.fullmatch(r'(row|v|multiblend_color_)\d+', x) else '<blk>'
                       for x in stack if x != 'hidden'][-2:])
    ka, kb = keyof(a), keyof(b)
    cls = f'{blocks}:{ka}' if ka == kb else f'{blocks}:{ka}|{kb}'
    return cls, {'line': i + 1, 'first': a[:300], 'second': b[:300]}


def renumber(text: str, positional: tuple = ()) -> str:
    """Canonical renumbering of all IDs by first appearance per kind (for parse without preserve_ids).  Kinds listed in
    `positional` (kinds that are never referred to by number: ent, solid, face) are numbered by the position of the defining
    line instead, so that two texts can be compared whatever numbers -- repeated ones included -- their objects carry."""
    stack: list[str] = []
    last = ''
    maps: dict[str, dict[str, int]] = {}
    count: dict[str, int] = {}
    out = []

    def ren(kind: str, val: str) -> str:
        if kind in positional:
            count[kind] = count.get(kind, 0) + 1
            return str(count[kind])
        m = maps.setdefault(kind, {})
        return str(m.setdefault(val, len(m) + 1))
    for line in text.split('\n'):
        s = line.strip()
        if s == '{':
            stack.append(last)
        elif s == '}':
            if stack:
                stack.pop()
        else:
            m = re.fullmatch(r'(\s*)"(id|visgroupid|groupid|group)" "(-?\d+)"', line)
            if m:
                key = m.group(2)
                blk = stack[-1] if stack else ''
                if key == 'id':
                    kind = {'solid': 'solid', 'side': 'face', 'entity': 'ent', 'world': 'ent', 'group': 'group'}.get(blk)
                elif key == 'visgroupid':
                    kind = 'vis'
                else:
                    kind = 'group'
                if kind:
                    line = f'{m.group(1)}"{key}" "{ren(kind, m.group(3))}"'
        last = s.strip('"')
        out.append(line)
    return '\n'.join(out)


# ------------------------------------------------------------------------------------------------ the oracle
def err_class(e: BaseException) -> str:
    if type(e).__name__ in ('KeyValError', 'TokenSyntaxError'):
        return type(e).__name__ + ':exported text is not valid keyvalues syntax'
    msg = str(e)
    if msg.startswith('Bad output value'):
        return f'{type(e).__name__}:Bad output value'
    msg = re.sub(r'"[^"]*"', '"…"', msg)
    msg = re.sub(r"'[^']*'", "'…'", msg)
    msg = re.sub(r'-?\d+(\.\d+)?', 'N', msg)
    msg = re.sub(r'\s+', ' ', msg)[:70]
    return f'{type(e).__name__}:{msg}'


NEGZERO = re.compile(r'(?<![0-9A-Za-z_.+\-])-0(?![0-9A-Za-z_.])')


def check_vmf(vmf, opts: dict) -> list[tuple[str, str, dict]]:
    """Round-trip oracles on one VMF object. Returns a list of (key, what, detail)."""
    out: list[tuple[str, str, dict]] = []
    try:
        t1 = export_text(vmf, opts)
    except Exception as e:
        return [('export-error:' + err_class(e), f'VMF.export raised {type(e).__name__}: {e}', {})]
    before = observe(vmf, opts)
    try:
        v2 = parse_text(t1, opts)
    except Exception as e:
        return [('parse-error:' + err_class(e), f'parsing the exported text raised {type(e).__name__}: {e}', {'text_len': len(t1)})]
    after = observe(v2, opts)
    alt = alt_forms(vmf, t1, after, opts)      # before `after` is normalised below
    seen = set()
    # Entities that merely changed their order are reported once as such and then compared pairwise. Candidate
    # alignments: by ID (when the IDs survived) and "visible first, then hidden" (the two-pass reader); the one that
    # leaves the fewest differences wins, the identity included.
    ignore = not opts.get('preserve_ids')

    def n_diffs(ents: list) -> int:
        return sum(1 for p, _, _ in diff(before['entities'], ents) if not (ignore and p and p[-1] == 'id'))
    ids_b = [e['id'] for e in before['entities']]
    ids_a = [e['id'] for e in after['entities']]
    cands: list[tuple[int, str, list]] = [(n_diffs(after['entities']), '', after['entities'])]
    if cands[0][0] and len(ids_a) == len(ids_b):
        hid = [e['hidden'] for e in before['entities']]
        inversion = any(h and not h2 for i, h in enumerate(hid) for h2 in hid[i + 1:])
        if ids_b != ids_a and sorted(ids_b) == sorted(ids_a) and len(set(ids_b)) == len(ids_b):
            by_id = {e['id']: e for e in after['entities']}
            al = [by_id[i] for i in ids_b]
            cands.append((n_diffs(al), 'hidden-before-visible' if inversion else 'other', al))
        if inversion:
            order = [i for i, h in enumerate(hid) if not h] + [i for i, h in enumerate(hid) if h]   # position k of `after` holds before[order[k]]
            al2: list = [None] * len(hid)
            for k, i in enumerate(order):
                al2[i] = after['entities'][k]
            cands.append((n_diffs(al2), 'hidden-before-visible', al2))
        # A re-ordering is accepted as the explanation only when it explains *everything* (no difference is left), or
        # when the IDs were preserved (then the alignment by ID is ground truth whatever else differs).  Picking the
        # alignment with the fewest differences is wrong: when one entity lost a lot of data (say 100 displacement
        # vertices) pairing it with a different entity can leave fewer differing paths than the true pairing.
        best = cands[0]
        for c in cands[1:]:
            if c[0] == 0 or (c[1] and not ignore and c[2] is not cands[0][2] and c[0] <= cands[0][0]
                             and sorted(ids_b) == sorted(ids_a) and ids_b != ids_a):
                best = c
                break
        if best[1]:
            out.append((f'order:entities:{best[1]}', f'VMF.entities changed order after export->parse: ids {ids_b} became {ids_a}',
                        {'before': ids_b, 'after': ids_a}))
            after['entities'] = best[2]
    if (not opts.get('minimal') and before['cordons']['enabled'] and not before['cordons']['list']
            and not after['cordons']['enabled']):
        # Normalisation, not a violation: VMF.export deliberately writes "active" "0" when the map has no cordon at all
        # (the else-branch in VMF.export), exactly as it resets active_cam to -1 when there is no camera. "Cordoning is
        # on" has no content without a cordon, the text is a fixed point, and nothing of the map is lost.
        after['cordons']['enabled'] = True
    ignore_ids = not opts.get('preserve_ids')
    for path, a, b in diff(before, after):
        pc = path_class(path)
        if ignore_ids and (pc.endswith('.id') or pc == 'id'):
            continue
        if pc in seen:
            continue
        seen.add(pc)
        out.append(('field:' + pc, f'field {".".join(map(str, path))} differs after export->parse: {a!r} became {b!r}',
                    {'path': list(path), 'before': repr(a)[:300], 'after': repr(b)[:300]}))
    out.extend(alt)
    try:
        t2 = export_text(v2, opts)
    except Exception as e:
        out.append(('reexport-error:' + err_class(e), f're-export raised {type(e).__name__}: {e}', {}))
        return out
    if t1 != t2 and not opts.get('preserve_ids'):
        t1, t2 = renumber(t1), renumber(t2)
    if t1 != t2 and any(k.startswith('order:entities') for k, _, _ in out):
        cls, det = text_diff_class(t1, t2)
        out.append(('text:entity-order', f'export->parse->export is not a fixed point (entity order): line {det["line"]}: '
                    f'{det["first"]!r} became {det["second"]!r}', det))
        return out
    if t1 != t2 and NEGZERO.sub('0', t1) == NEGZERO.sub('0', t2):
        cls, det = text_diff_class(t1, t2)
        out.append(('text-negative-zero', f'a number exported as "-0" re-reads as -0.0 and is exported as "0" the second time: '
                    f'line {det["line"]}: {det["first"]!r} became {det["second"]!r}', det))
    elif t1 != t2:
        cls, det = text_diff_class(NEGZERO.sub('0', t1), NEGZERO.sub('0', t2))
        out.append(('text:' + cls, f'export->parse->export is not a fixed point: line {det["line"]}: {det["first"]!r} became {det["second"]!r}', det))
    return out


def alt_forms(vmf, t1: str, after: dict, opts: dict) -> list[tuple[str, str, dict]]:
    """The other public forms of the same two calls (round 5): export INTO a file object must write what export() returns as
    a string, and VMF.parse(<file name>) must give the map VMF.parse(<Keyvalues tree>) gives.  The file-name form opens the
    file as cp1251 text with universal newlines: it is exercised when the text is encodable and holds no bare CR."""
    import os
    import tempfile
    from srctools.vmf import VMF
    out: list[tuple[str, str, dict]] = []
    try:
        buf = io.StringIO()
        ret = vmf.export(buf, inc_version=False, minimal=opts.get('minimal', False), disp_multiblend=opts.get('disp_multiblend', True))
        if ret is not None or buf.getvalue() != t1:
            cls, det = text_diff_class(t1, buf.getvalue()) if buf.getvalue() != t1 else ('return-value', {'line': 0, 'first': 'None', 'second': repr(ret)[:80]})
            out.append(('export:file-object-form:' + cls, 'VMF.export(file) wrote something else than VMF.export() returns: '
                        f'line {det["line"]}: {det["first"]!r} became {det["second"]!r}', det))
    except Exception as e:
        out.append(('export-error:file-object-form:' + err_class(e), f'VMF.export(file) raised {type(e).__name__}: {e}', {}))
    try:
        data = t1.encode('cp1251')
    except UnicodeEncodeError:
        return out
    if '\r' in t1 or len(t1) % 2:        # every other text (by the parity of its length: deterministic), to keep the quick tier cheap
        return out
    try:
        with tempfile.TemporaryDirectory(dir='/var/tmp', prefix='c06_file_') as d:
            path = os.path.join(d, 'map.vmf')
            with open(path, 'wb') as fh:
                fh.write(data)
            v3 = VMF.parse(path, preserve_ids=opts.get('preserve_ids', False))
    except Exception as e:
        out.append(('parse-error:file-name-form:' + err_class(e), f'VMF.parse(<file name>) raised {type(e).__name__}: {e} '
                    '(VMF.parse(<Keyvalues tree>) of the same text works)', {}))
        return out
    seen = set()
    for path_, a, b in diff(after, observe(v3, opts)):
        pc = path_class(path_)
        if pc not in seen:
            seen.add(pc)
            out.append(('parse:file-name-form:' + pc, f'VMF.parse(<file name>) and VMF.parse(<Keyvalues tree>) of the same text differ in '
                        f'{".".join(map(str, path_))}: {b!r} instead of {a!r}', {'path': list(path_)}))
    return out


SPEC_LIMIT = 150      # seconds per specification; the largest generated map takes about 2 s on a loaded machine


def check_spec(spec: dict) -> list[tuple[str, str, dict]]:
    """Build, (renumber,) export, parse, compare, export again -- under an alarm: a fault that makes the implementation
    loop ends as a violation with this specification as the failing input, not as a hung check."""
    try:
        with time_limit(SPEC_LIMIT):
            return _check_spec(spec)
    except Timeout as e:
        return [('hang:round-trip', f'building / exporting / parsing the map did not finish: {e}', {})]


def _check_history(spec: dict) -> list[tuple[str, str, dict]]:
    """History  build -> export -> parse -> API edits -> export -> parse.  The map under test is the PARSED map after the
    edits of spec['history'] (made through the public API, starting from containers that are typically empty in the parsed
    map); the reference is the map built through the API that received the same edits.  Oracles: both export the same text
    (after canonical renumbering), and the ordinary round-trip oracles on the edited parsed map."""
    hist = spec['history']
    opts = spec['opts']
    try:
        ref = build(spec)
        t0 = export_text(ref, dict(opts, minimal=False))
        populate(ref, hist['edits'], hist.get('api'))
        tr = export_text(ref, opts)
    except Exception as e:   # the public API refused the specification: not a round-trip matter
        return [('build-error:' + err_class(e), f'building the reference map raised {type(e).__name__}: {e}', {})]
    try:
        test = parse_text(t0, opts)
    except Exception as e:
        return [('parse-error:' + err_class(e), f'parsing the exported text raised {type(e).__name__}: {e}', {'text_len': len(t0)})]
    try:
        populate(test, hist['edits'], hist.get('api'))
    except Exception as e:
        return [('history:edit-error:' + err_class(e), f'API edits that work on the map built through the API raised on the parsed map: '
                 f'{type(e).__name__}: {e}', {})]
    out: list[tuple[str, str, dict]] = []
    try:
        tt = export_text(test, opts)
    except Exception as e:
        return [('export-error:' + err_class(e), f'VMF.export of the edited parsed map raised {type(e).__name__}: {e}', {})]
    # entity / solid / face numbers are compared by position: which number a NEW object gets is the ID managers' business
    # (C08), not content of the map; group and visgroup numbers are referred to by members and are renumbered by value
    pos = ('ent', 'solid', 'face')
    a, b = NEGZERO.sub('0', renumber(tr, pos)), NEGZERO.sub('0', renumber(tt, pos))
    if a != b:
        cls, det = text_diff_class(a, b)
        out.append(('history:text:' + cls.rsplit(':', 1)[0], 'the same API edits on the map built through the API and on the parsed map export differently '
                    f'(parse, then add, then export): line {det["line"]}: {det["first"]!r} (built) became {det["second"]!r} (parsed)', det))
    return out + check_vmf(test, opts)


def _check_spec(spec: dict) -> list[tuple[str, str, dict]]:
    if spec.get('history'):
        return _check_history(spec)
    try:
        vmf = build(spec)
    except Exception as e:   # the public API refused the specification: not a round-trip matter
        return [('build-error:' + err_class(e), f'building the map raised {type(e).__name__}: {e}', {})]
    opts = spec['opts']
    pre: list[tuple[str, str, dict]] = []
    ids = spec.get('ids')
    if ids and ids.get('route') == 'text':
        # the map under test is the one parsed from the consistently renumbered text; when IDs are to be preserved its export
        # is that text itself (every ID-carrying line keeps its number), otherwise it is that text up to renumbering
        try:
            t0 = rewrite_ids(export_text(vmf, opts), ids)
        except Exception as e:
            return [('export-error:' + err_class(e), f'VMF.export raised {type(e).__name__}: {e}', {})]
        try:
            vmf = parse_text(t0, opts)
            t1 = export_text(vmf, opts)
        except Exception as e:
            return [('parse-error:' + err_class(e), f'parsing / re-exporting the renumbered text raised {type(e).__name__}: {e}', {})]
        a, b = (t0, t1) if opts.get('preserve_ids') else (renumber(t0), renumber(t1))
        sa, sb = id_skeleton(a), id_skeleton(b)
        if sa != sb:
            i = next((i for i, (x, y) in enumerate(zip(sa, sb)) if x != y), min(len(sa), len(sb)))
            x = sa[i] if i < len(sa) else '<end>'
            y = sb[i] if i < len(sb) else '<end>'
            kind = (x if x != '<end>' else y)[0]
            pre.append((f'ids:{kind}', f'parse(preserve_ids={bool(opts.get("preserve_ids"))}) of a text, then export: ID-carrying line number {i} '
                        f'(kind, value(s)) {x!r} became {y!r}', {'index': i, 'first': repr(x), 'second': repr(y)}))
    return pre + check_vmf(vmf, opts)


# ------------------------------------------------------------------------------------------------ shrinking
def _children(x: Any) -> Iterator[tuple[Any, Callable[[Any], Any]]]:
    """Candidate one-step reductions of a JSON value."""
    if isinstance(x, list):
        if len(x) > 1:
            yield x[:len(x) // 2]
            yield x[len(x) // 2:]
        for i in range(len(x)):
            yield x[:i] + x[i + 1:]
    elif isinstance(x, dict):
        pass
    elif isinstance(x, str):
        if len(x) > 1:
            yield x[:len(x) // 2]
            yield x[len(x) // 2:]
            for i in range(len(x)):
                yield x[:i] + x[i + 1:]
        elif x and x not in 'a':
            yield 'a'
            yield ''
    elif isinstance(x, bool):
        pass
    elif isinstance(x, float):
        if x != 0.0:
            yield 0.0
            if x != float(int(x)):
                yield float(int(x))


# keys of a spec whose lists have a fixed length (per-vertex arrays, vectors) and must not lose elements
_FIXED = {'normal', 'distance', 'offset', 'offset_norm', 'alpha', 'tri', 'blend', 'colors', 'allowed', 'pos', 'mins', 'maxs',
          'color', 'u', 'v', 'planes', 'ang', 'viewports'}


def shrink_spec(spec: dict, pred: Callable[[dict], bool], budget: int = 250) -> dict:
    """Greedy structural shrinking: repeatedly try to delete list elements / dict entries / simplify strings anywhere in
    the specification while `pred` keeps holding."""
    import copy
    cur = copy.deepcopy(spec)
    calls = 0

    def paths(x: Any, p: tuple = ()) -> Iterator[tuple]:
        yield p
        if isinstance(x, dict):
            for k in x:
                yield from paths(x[k], p + (k,))
        elif isinstance(x, list):
            for i in range(len(x)):
                yield from paths(x[i], p + (i,))

    def get(x: Any, p: tuple) -> Any:
        for k in p:
            x = x[k]
        return x

    def put(x: Any, p: tuple, v: Any) -> Any:
        x = copy.deepcopy(x)
        if not p:
            return v
        y = x
        for k in p[:-1]:
            y = y[k]
        y[p[-1]] = v
        return x

    changed = True
    while changed and calls < budget:
        changed = False
        for p in sorted(paths(cur), key=len):
            try:
                val = get(cur, p)
            except (KeyError, IndexError, TypeError):
                continue
            fixed = any(isinstance(k, str) and k in _FIXED for k in p[-2:]) if p else False
            cands: list[Any] = []
            if isinstance(val, list) and not fixed:
                cands = list(_children(val))
            elif isinstance(val, str):
                cands = [] if (p and p[-1] in ('axis', 'kind')) else list(_children(val))[:12]
            elif isinstance(val, dict) and p and p[-1] in ('keys', 'world_keys'):
                cands = [{k: v for k, v in val.items() if k != d} for d in val if d != 'classname']
            elif isinstance(val, dict) and p and p[-1] in ('disp', 'multi') :
                cands = [None]
            elif isinstance(val, float) and not fixed:
                cands = list(_children(val))
            for c in cands:
                if calls >= budget:
                    break
                trial = put(cur, p, c)
                calls += 1
                try:
                    ok = pred(trial)
                except Exception:
                    ok = False
                if ok:
                    cur = trial
                    changed = True
                    break
            if changed:
                break
    return cur
