"""C09 helpers: generators of map objects, object-graph walker, export observation, in-place mutations.

Everything is driven by a `random.Random`; a case is fully determined by (kind, case_seed, variant) so that a
replay file can regenerate it.
"""
from __future__ import annotations

import copy as _copy
import pickle
import io
import random
import re
import struct
import warnings
from array import array as Array
from enum import Enum
from typing import Any, Callable, Iterator

from srctools.keyvalues import Keyvalues
from srctools.math import Angle, FrozenAngle, FrozenMatrix, FrozenVec, Matrix, Vec
from srctools.vmf import (
    VMF, Camera, Cordon, DispFlag, DispVertex, Entity, EntityFixup, EntityGroup, FixupValue, Output, Side, Solid,
    TriangleTag, UVAxis, Vec4, VisGroup,
)

KINDS = ['Entity', 'Solid', 'Side', 'Output', 'VisGroup', 'EntityGroup', 'Camera', 'Cordon', 'EntityFixup',
         'UVAxis', 'Keyvalues']

# ------------------------------------------------------------------------------------------------ generators
NUMS = [-128.0, -64.0, -1.0, 0.0, 0.5, 1.0, 16.0, 37.25, 64.0, 128.0, 255.0, 1024.0]
WORDS = ['alpha', 'Beta', 'GAMMA', 'door_1', 'relay', '@glob', 'a b', 'x', 'Trigger', 'tools/toolsnodraw',
         'brick/wall01', 'DEV/dev_measuregeneric01', 'on', '$var', 'wait 1']


def g_vec(r: random.Random) -> Vec:
    return Vec(r.choice(NUMS), r.choice(NUMS), r.choice(NUMS))


def g_word(r: random.Random) -> str:
    return r.choice(WORDS)


def g_uvaxis(r: random.Random) -> UVAxis:
    return UVAxis(r.choice([0.0, 1.0, -1.0, 0.5]), r.choice([0.0, 1.0, -1.0]), r.choice([0.0, 1.0, -1.0, 0.25]),
                  r.choice([0.0, 16.0, -32.5, 7.0]), r.choice([0.25, 0.5, 1.0, 2.0]))


def g_side(r: random.Random, vmf: VMF, disp: int | None = None) -> Side:
    if disp is None:
        disp = r.choice([0, 0, 0, 1, 1, 2])
    s = Side(vmf, [g_vec(r), g_vec(r), g_vec(r)], -1, r.choice([8, 16, 32]), r.choice([0, 1, 6]), g_word(r),
             r.choice([0.0, 90.0, 12.5]), g_uvaxis(r), g_uvaxis(r), disp)  # type: ignore[arg-type]
    if disp:
        s.disp_pos = g_vec(r)
        s.disp_elevation = r.choice([0.0, 4.0, 0.5])
        s.disp_flags = r.choice([DispFlag.COLL_ALL, DispFlag.COLL_PHYSICS, DispFlag.COLL_ALL | DispFlag.SUBDIV,
                                 DispFlag(0)])
        if r.random() < 0.8:
            s.disp_allowed_vert = Array('i', [r.choice([-1, -1, 0, 7, 1023, -2]) for _ in range(10)])
        multi = r.random() < 0.6
        colors = r.random() < 0.7
        assert s._disp_verts is not None
        for v in s._disp_verts:
            if r.random() < 0.7:
                v.normal = g_vec(r)
                v.distance = r.choice(NUMS)
            if r.random() < 0.5:
                v.offset = g_vec(r)
                v.offset_norm = g_vec(r)
            v.alpha = r.choice([0.0, 255.0, 127.5])
            v.triangle_a = r.choice(list(TriangleTag)[:4]) if r.random() < 0.3 else TriangleTag.FLAT
            v.triangle_b = r.choice(list(TriangleTag)[:4]) if r.random() < 0.3 else TriangleTag.FLAT
            if multi:
                v.multi_blend = Vec4(r.choice([0.0, 0.5, 1.0]), r.choice([0.0, 1.0]), r.choice([0.0, 0.25]), 1.0)
                v.multi_alpha = Vec4(r.choice([0.0, 0.5, 1.0]), 0.0, r.choice([0.0, 0.25]), r.choice([0.0, 1.0]))
                if colors:
                    v.multi_colors = [g_vec(r), g_vec(r), g_vec(r), g_vec(r)]
    if r.random() < 0.4:
        s.strata_points = [g_vec(r) for _ in range(r.choice([3, 4, 6]))]
    return s


def g_solid(r: random.Random, vmf: VMF, disp: bool = True) -> Solid:
    sides = [g_side(r, vmf, None if disp else 0) for _ in range(r.choice([1, 2, 4, 6]))]
    return Solid(vmf, -1, sides, {r.randint(1, 9) for _ in range(r.choice([0, 0, 1, 3]))}, r.random() < 0.2,
                 r.choice([None, None, 3, 7]), r.random() < 0.8, r.random() < 0.8, r.random() < 0.1,
                 Vec(r.randint(0, 255), r.randint(0, 255), r.randint(0, 255)))


def g_output(r: random.Random) -> Output:
    if r.random() < 0.3:
        # a plain output: every optional part at its constructor default, or exactly one of them set (the pickling code
        # and as_keyvalue() have a short form for these)
        extra = r.choice([{}, {}, {}, {}, {'param': 'x'}, {'delay': 0.5}, {'times': 1}, {'inst_out': 'inner_relay'}, {'inst_in': 'inner_door'}])
        return Output(r.choice(['OnTrigger', 'OnUser1']), g_word(r), r.choice(['Trigger', 'Kill']), **extra)
    return Output(r.choice(['OnTrigger', 'OnUser1', 'onpressed']), g_word(r), r.choice(['Trigger', 'FireUser1', 'Kill']),
                  r.choice(['', '1', 'a,b', 'hello world']), r.choice([0.0, 0.5, 2.0]), times=r.choice([-1, 1, 3]),
                  inst_out=r.choice([None, None, 'inner_relay']), inst_in=r.choice([None, None, 'inner_door']),
                  comma_sep=r.random() < 0.3)


def g_fixups(r: random.Random) -> list[FixupValue]:
    n = r.choice([0, 1, 2, 4])
    return [FixupValue(f'{r.choice(["var", "Count", "TARGET", "skin"])}{i}', g_word(r), r.choice([i + 1, i + 1, 0, 2]))
            for i in range(n)]


def g_entity(r: random.Random, vmf: VMF) -> Entity:
    keys = {'classname': r.choice(['info_target', 'func_detail', 'logic_relay', 'func_instance', 'prop_static'])}
    for _ in range(r.choice([0, 2, 5])):
        keys[r.choice(['origin', 'angles', 'targetname', 'Model', 'SKIN', 'spawnflags', 'file', 'rendercolor', 'parentname'])] = \
            r.choice([g_word(r), str(g_vec(r)), '0 90 0', '255 128 0'])
    ent = Entity(
        vmf, keys, g_fixups(r), -1, [g_output(r) for _ in range(r.choice([0, 0, 1, 3]))],
        [g_solid(r, vmf) for _ in range(r.choice([0, 0, 1, 2]))], r.random() < 0.2,
        {r.randint(1, 6) for _ in range(r.choice([0, 0, 2]))}, {r.randint(1, 6) for _ in range(r.choice([0, 0, 1, 3]))},
        r.random() < 0.8, r.random() < 0.8, r.choice([None, '[0 500]', '[3 1000]']),
        r.choice([(255, 255, 255), (0, 128, 255), Vec(220, 30, 220)]), r.choice(['', 'a comment', 'multi\nline']),
    )
    if r.random() < 0.4:
        ent.fixup[r.choice(['late', 'Var0', 'other'])] = g_word(r)
    return ent


def g_visgroup(r: random.Random, vmf: VMF, depth: int = 0) -> VisGroup:
    kids = [g_visgroup(r, vmf, depth + 1) for _ in range(r.choice([0, 1, 2]) if depth < 2 else 0)]
    return VisGroup(vmf, g_word(r), -1, Vec(r.randint(0, 255), r.randint(0, 255), r.randint(0, 255)), kids)


def g_kv(r: random.Random, depth: int = 0) -> Keyvalues:
    if depth >= 3 or (depth > 0 and r.random() < 0.5):
        return Keyvalues(g_word(r), r.choice(['', 'value', '1 2 3', 'with "quote"', 'line\nbreak']))
    return Keyvalues(g_word(r), [g_kv(r, depth + 1) for _ in range(r.choice([0, 1, 2, 4]))])


def g_kv_root(r: random.Random) -> Keyvalues:
    with warnings.catch_warnings():
        warnings.simplefilter('ignore')
        return Keyvalues.root(*[g_kv(r, 1) for _ in range(r.choice([0, 1, 3]))])


def generate(kind: str, r: random.Random, vmf: VMF) -> Any:
    if kind == 'Entity':
        return g_entity(r, vmf)
    if kind == 'Solid':
        return g_solid(r, vmf)
    if kind == 'Side':
        return g_side(r, vmf)
    if kind == 'Output':
        return g_output(r)
    if kind == 'VisGroup':
        return g_visgroup(r, vmf)
    if kind == 'EntityGroup':
        return EntityGroup(vmf, -1, r.random() < 0.5, r.random() < 0.5, Vec(r.randint(0, 255), 9, r.randint(0, 255)))
    if kind == 'Camera':
        return Camera(vmf, g_vec(r), g_vec(r))
    if kind == 'Cordon':
        return Cordon(vmf, g_vec(r), g_vec(r), r.random() < 0.5, g_word(r))
    if kind == 'EntityFixup':
        fx = EntityFixup(g_fixups(r))
        if r.random() < 0.5:
            fx[r.choice(['late', 'var0'])] = g_word(r)
        return fx
    if kind == 'UVAxis':
        return g_uvaxis(r)
    if kind == 'Keyvalues':
        return g_kv(r, 0) if r.random() < 0.7 else g_kv_root(r)
    raise ValueError(kind)


# variants of making the copy, per kind: name -> (function(obj, other_vmf) -> copy, completeness is expected?)
def copy_variants(kind: str) -> dict[str, tuple[Callable[[Any, VMF], Any], bool]]:
    out = _copy_variants(kind)
    # a class that defines its own __copy__ hook (not inherited) offers copy.copy(x) as a further way to copy the object
    cls = {'Entity': Entity, 'Solid': Solid, 'Side': Side, 'VisGroup': VisGroup, 'EntityGroup': EntityGroup}.get(kind)
    if cls is not None and '__copy__' in vars(cls) and 'copy.copy' not in out:
        out['copy.copy'] = (lambda o, m: _copy.copy(o), True)
    return out


def _copy_variants(kind: str) -> dict[str, tuple[Callable[[Any, VMF], Any], bool]]:
    if kind in ('Entity', 'Solid'):
        return {
            'copy()': (lambda o, m: o.copy(), True),
            'copy(vmf_file=other)': (lambda o, m: o.copy(vmf_file=m), True),
            'copy(keep_vis=False)': (lambda o, m: o.copy(keep_vis=False), False),
            'copy(des_id=77)': (lambda o, m: o.copy(des_id=77), True),
        }
    if kind == 'Side':
        return {'copy()': (lambda o, m: o.copy(), True),
                'copy(vmf_file=other)': (lambda o, m: o.copy(vmf_file=m), True),
                'copy(des_id=55)': (lambda o, m: o.copy(des_id=55), True)}
    if kind == 'VisGroup':
        return {'copy()': (lambda o, m: o.copy(), True),
                'copy(vmf=other,mapping)': (lambda o, m: o.copy(m, {}), True)}
    if kind == 'EntityGroup':
        return {'copy()': (lambda o, m: o.copy(), True), 'copy(vmf=other)': (lambda o, m: o.copy(m), True)}
    if kind == 'EntityFixup':
        return {'EntityFixup(copy_values())': (lambda o, m: EntityFixup(o.copy_values()), True),
                'copy.copy': (lambda o, m: _copy.copy(o), True),
                'copy.deepcopy': (lambda o, m: _copy.deepcopy(o), True),
                'pickle': (lambda o, m: pickle.loads(pickle.dumps(o)), True)}
    if kind == 'Keyvalues':
        return {'copy()': (lambda o, m: o.copy(), True), 'copy.deepcopy': (lambda o, m: _copy.deepcopy(o), True),
                'pickle': (lambda o, m: pickle.loads(pickle.dumps(o)), True)}
    if kind == 'Output':
        # Output defines __getstate__ / __setstate__: copy.copy, copy.deepcopy and pickle all go through that pair
        return {'copy()': (lambda o, m: o.copy(), True), 'copy.copy': (lambda o, m: _copy.copy(o), True),
                'copy.deepcopy': (lambda o, m: _copy.deepcopy(o), True),
                'pickle': (lambda o, m: pickle.loads(pickle.dumps(o)), True)}
    return {'copy()': (lambda o, m: o.copy(), True)}


# ------------------------------------------------------------------------------------------------ observation
_ID_LINE = re.compile(r'^(\s*)"id" "-?\d+"$', re.M)
_VISID_LINE = re.compile(r'^(\s*)"visgroupid" "-?\d+"$', re.M)


def observe(obj: Any, mask_ids: bool = False) -> str:
    """The export text of an object (what the property observes)."""
    buf = io.StringIO()
    with warnings.catch_warnings():
        warnings.simplefilter('ignore')
        if isinstance(obj, (Entity, Solid, Side, VisGroup, Camera, Cordon, Output)):
            obj.export(buf, '')
        elif isinstance(obj, (EntityGroup, EntityFixup)):
            obj.export(buf, '')
        elif isinstance(obj, UVAxis):
            buf.write(str(obj) + '\n')
        elif isinstance(obj, Keyvalues):
            buf.write(obj.serialise())
            buf.write(f'#name={obj._real_name!r}\n')
        else:
            raise TypeError(type(obj))
    text = buf.getvalue()
    if isinstance(obj, Output):
        text += obj.as_keyvalue()
    # visgroup / group membership is a set: iteration order is not part of the value
    text = _sort_runs(text)
    if mask_ids:
        text = _ID_LINE.sub(r'\1"id" "#"', text)
        if isinstance(obj, VisGroup):
            text = _VISID_LINE.sub(r'\1"visgroupid" "#"', text)
    return text


def _sort_runs(text: str) -> str:
    lines = text.split('\n')
    out: list[str] = []
    run: list[str] = []
    for ln in lines:
        st = ln.strip()
        if st.startswith('"visgroupid"') or st.startswith('"groupid"') or st.startswith('"group"'):
            run.append(ln)
        else:
            out.extend(sorted(run))
            run = []
            out.append(ln)
    out.extend(sorted(run))
    return '\n'.join(out)


def first_diff(a: str, b: str) -> tuple[str, str, str]:
    """(block path / key of the first differing line, line of a, line of b)."""
    la, lb = a.split('\n'), b.split('\n')
    stack: list[str] = []
    prev = ''
    for i in range(max(len(la), len(lb))):
        x = la[i] if i < len(la) else '<end>'
        y = lb[i] if i < len(lb) else '<end>'
        if x != y:
            m = re.match(r'\s*"([^"]*)"', x) or re.match(r'\s*"([^"]*)"', y)
            key = m.group(1) if m else (x.strip() or y.strip())
            key = re.sub(r'\d+', '', key)
            return '/'.join(stack + [key]), x.strip(), y.strip()
        st = x.strip()
        if st == '{':
            stack.append(re.sub(r'\d+', '', prev.strip('"')))
        elif st == '}':
            if stack:
                stack.pop()
        prev = st
    return '', '', ''


# ------------------------------------------------------------------------------------------------ graph walk
_IMMUTABLE = (str, int, float, bool, bytes, type(None), Enum, FrozenVec, FrozenAngle, FrozenMatrix, Vec4, re.Pattern,
              type, complex, range)


def is_context(o: Any) -> bool:
    return isinstance(o, VMF)


def is_immutable_leaf(o: Any) -> bool:
    return isinstance(o, _IMMUTABLE) or callable(o) and not hasattr(o, '__slots__') and not hasattr(o, '__dict__')


def is_mutable(o: Any) -> bool:
    if isinstance(o, (tuple, frozenset)):
        return False
    return not is_immutable_leaf(o)


def _slots(o: Any) -> Iterator[str]:
    for cls in type(o).__mro__:
        sl = cls.__dict__.get('__slots__', ())
        if isinstance(sl, str):
            sl = (sl,)
        for s in sl:
            if s not in ('__weakref__', '__dict__'):
                yield s


def children(o: Any) -> list[tuple[str, Any]]:
    if isinstance(o, (list, tuple)):
        return [('[]', x) for x in o]
    if isinstance(o, (set, frozenset)):
        return [('{}', x) for x in sorted(o, key=repr)]
    if isinstance(o, dict):
        out = []
        for k, v in o.items():
            out.append(('{key}', k))
            out.append(('{}', v))
        return out
    if isinstance(o, Array):
        return []
    out = []
    seen = set()
    for s in _slots(o):
        if s in seen:
            continue
        seen.add(s)
        try:
            out.append(('.' + s, getattr(o, s)))
        except AttributeError:
            pass
    d = getattr(o, '__dict__', None)
    if isinstance(d, dict):
        for k, v in d.items():
            out.append(('.' + k, v))
    return out


def walk(root: Any) -> dict[int, tuple[Any, str]]:
    """id -> (object, path) for every non-leaf object reachable from root (the VMF back pointer is context)."""
    seen: dict[int, tuple[Any, str]] = {}
    stack = [(root, type(root).__name__)]
    while stack:
        o, path = stack.pop()
        if is_context(o) or is_immutable_leaf(o):
            continue
        if id(o) in seen:
            continue
        seen[id(o)] = (o, path)
        for lab, ch in children(o):
            stack.append((ch, path + lab))
    return seen


def shared_mutables(a: Any, b: Any) -> list[tuple[str, str, str]]:
    """(path in a, path in b, type name) of every mutable object reachable from both."""
    wa, wb = walk(a), walk(b)
    out = []
    for i, (o, pa) in wa.items():
        if i in wb and is_mutable(o):
            out.append((pa, wb[i][1], type(o).__name__))
    return sorted(out)


def export_heap(a: Any, b: Any) -> tuple[list[tuple[int, bool, list]], int, int, list[int], list[int]]:
    """The object graphs of a and b as a finite heap for the Coq certificate checker:
    nodes (loc, mutable, fields) with fields ('A', atom_no) | ('R', loc); locations of a and b; reach sets."""
    wa, wb = walk(a), walk(b)
    locs: dict[int, int] = {}
    objs: list[Any] = []
    for w in (wa, wb):
        for i, (o, _p) in w.items():
            if i not in locs:
                locs[i] = len(locs) + 1
                objs.append(o)
    atoms: dict[str, int] = {}
    nodes = []
    for o in objs:
        fields = []
        kids = children(o)
        if isinstance(o, Array):
            kids = [('[]', x) for x in o]
        for _lab, ch in kids:
            if id(ch) in locs and not is_context(ch) and not is_immutable_leaf(ch):
                fields.append(('R', locs[id(ch)]))
            else:
                key = 'ctx' if is_context(ch) else f'{type(ch).__name__}:{ch!r}'
                fields.append(('A', atoms.setdefault(key, len(atoms))))
        nodes.append((locs[id(o)], is_mutable(o), fields))
    return nodes, locs[id(a)], locs[id(b)], [locs[i] for i in wa], [locs[i] for i in wb]


# ------------------------------------------------------------------------------------------------ mutations
def _vec_inplace(r: random.Random, v: Vec) -> str:
    k = r.choice(['+=', '-=', '*=', 'x=', '@=', 'localise', 'max', '/=', 'neg-axis'])
    if k == '+=':
        v += Vec(1.5, -2, 3)
    elif k == '-=':
        v -= (0.25, 4, -8)
    elif k == '*=':
        v *= 3
        v += (1, 1, 1)
    elif k == '/=':
        v /= 4
        v += (0.5, 0, 0)
    elif k == 'x=':
        v.x = v.x + 11
        v[2] = v.z - 7
    elif k == '@=':
        v @= Angle(0, 90, 0)
        v += (2, 0, 0)
    elif k == 'localise':
        v.localise(Vec(8, 16, 24), Angle(0, 90, 0))
    elif k == 'max':
        v.max(Vec(4096, 4096, 4096))
    else:
        v.y = -v.y - 13
    return 'Vec ' + k


def generic_mutation(r: random.Random, root: Any) -> str | None:
    """Mutate in place one random mutable object reachable from root (never through the map)."""
    w = [(o, p) for o, p in walk(root).values() if is_mutable(o)]
    r.shuffle(w)
    for o, p in w:
        if isinstance(o, Vec):
            return f'{p}: {_vec_inplace(r, o)}'
        if isinstance(o, Array) and len(o):
            i = r.randrange(len(o))
            o[i] = o[i] + 5
            return f'{p}[{i}] += 5'
        if isinstance(o, UVAxis):
            o.offset += 3.5
            o.scale *= 2
            o.x = o.x + 1
            return f'{p}: UVAxis edit'
        if isinstance(o, DispVertex):
            o.alpha += 1.0
            o.distance += 2.0
            o.triangle_a = TriangleTag.WALKABLE if o.triangle_a != TriangleTag.WALKABLE else TriangleTag.BUILDABLE
            o.multi_blend = Vec4(0.125, 0.5, 0.75, 1.0)
            if o.multi_colors is not None:
                o.multi_colors[1] = Vec(9, 9, 9)
            return f'{p}: DispVertex edit'
        if isinstance(o, FixupValue):
            o.value = o.value + '_m'
            return f'{p}: FixupValue.value edit'
        if isinstance(o, Output):
            o.target = o.target + '_m'
            o.delay += 1
            o.params = 'mut'
            return f'{p}: Output edit'
        if isinstance(o, Keyvalues):
            if isinstance(o._value, list):
                if o._value and r.random() < 0.5:
                    o._value.pop(r.randrange(len(o._value)))
                    return f'{p}: Keyvalues child removed'
                o.append(Keyvalues('mut', 'ated'))
                return f'{p}: Keyvalues child appended'
            o.value = o.value + '_m'
            if o._real_name is not None:
                o.name = o._real_name + '_M'
            return f'{p}: Keyvalues leaf edit'
        if isinstance(o, list) and r.random() < 0.5:
            if o and type(o[0]).__name__ in ('Vec',):
                o.reverse()
                o[0] = o[0] + (5, 5, 5)
                return f'{p}: list reversed, item replaced'
            # only lists whose length is free (a Side needs 3 planes, size*size vertices, 4 multiblend colours)
            if o and p.endswith(('.outputs', '.solids', '.sides', '.child_groups', '.strata_points', '._value')):
                o.pop(r.randrange(len(o)))
                return f'{p}: list item removed'
        if isinstance(o, set):
            o.add(r.randint(20, 40))
            return f'{p}: set.add'
        if isinstance(o, dict) and o and all(isinstance(v, str) for v in o.values()):
            k = r.choice(sorted(o))
            o[k] = o[k] + '_m'
            return f'{p}: dict[{k!r}] edit'
    return None


def api_mutation(r: random.Random, o: Any) -> str | None:
    """One mutation through the public API of the object."""
    if isinstance(o, Entity):
        k = r.choice(['setkey', 'delkey', 'fixup-set', 'fixup-existing', 'fixup-del', 'add_out', 'out-edit', 'color',
                      'visgroup', 'solid-translate', 'solid-localise', 'comments', 'clear_keys', 'fixup-clear'])
        if k == 'setkey':
            o[r.choice(['origin', 'TargetName', 'newkey', 'angles'])] = r.choice(['1 2 3', 'renamed', '0 45 0'])
        elif k == 'delkey':
            if len(o) < 2:
                return None
            del o[r.choice(sorted(x for x in o if x.casefold() != 'classname') or ['nokey'])]
        elif k == 'fixup-set':
            o.fixup['newvar'] = 'nv'
        elif k == 'fixup-existing':
            if not len(o.fixup):
                return None
            var = r.choice(sorted(o.fixup))
            o.fixup[var] = o.fixup[var] + '_m'
        elif k == 'fixup-del':
            if not len(o.fixup):
                return None
            del o.fixup[r.choice(sorted(o.fixup))]
        elif k == 'fixup-clear':
            if not len(o.fixup):
                return None
            o.fixup.clear()
        elif k == 'add_out':
            o.add_out(Output('OnMut', 'targ', 'Mutate'))
        elif k == 'out-edit':
            if not o.outputs:
                return None
            out = r.choice(o.outputs)
            out.target += '_m'
            out.times = 7
        elif k == 'color':
            o.editor_color.x = (o.editor_color.x + 17) % 256
        elif k == 'visgroup':
            o.visgroup_ids.add(31)
            o.groups.add(32)
        elif k in ('solid-translate', 'solid-localise'):
            if not o.solids:
                return None
            s = r.choice(o.solids)
            if k == 'solid-translate':
                s.translate(Vec(16, -8, 4))
            else:
                s.localise(Vec(64, 0, 8), Angle(0, 90, 0))
        elif k == 'comments':
            o.comments += ' mutated'
            o.hidden = not o.hidden
            o.logical_pos = '[9 9]'
        elif k == 'clear_keys':
            o.clear_keys()
        return 'Entity ' + k
    if isinstance(o, Solid):
        k = r.choice(['translate', 'localise', 'color', 'visgroup', 'side-mat', 'flags', 'sides-pop'])
        if k == 'translate':
            o.translate(Vec(16, -8, 4))
        elif k == 'localise':
            o.localise(Vec(64, 0, 8), Angle(0, 90, 0))
        elif k == 'color':
            o.editor_color.y = (o.editor_color.y + 17) % 256
        elif k == 'visgroup':
            o.visgroup_ids.add(33)
        elif k == 'side-mat':
            if not o.sides:
                return None
            s = r.choice(o.sides)
            s.mat += '_m'
            s.uaxis.offset += 1
            s.scale = 0.75
        elif k == 'flags':
            o.hidden = not o.hidden
            o.group_id = 12
        else:
            if len(o.sides) < 2:
                return None
            o.sides.pop()
        return 'Solid ' + k
    if isinstance(o, Side):
        k = r.choice(['translate', 'localise', 'plane', 'uv', 'disp-vert', 'allowed', 'strata', 'mat', 'disp-pos'])
        if k == 'translate':
            o.translate(Vec(16, -8, 4))
        elif k == 'localise':
            o.localise(Vec(64, 0, 8), Angle(0, 90, 0))
        elif k == 'plane':
            o.planes[r.randrange(3)] += (1, 2, 3)
        elif k == 'uv':
            o.uaxis.offset += 2
            o.vaxis.scale *= 2
            o.offset = 5.0
        elif k == 'disp-vert':
            if not o.is_disp:
                return None
            v = o[r.randrange(o.disp_size), r.randrange(o.disp_size)]
            v.normal.z += 1
            v.offset += (1, 0, 0)
            v.offset_norm *= 2
            v.alpha += 3
            if v.multi_colors is not None:
                v.multi_colors[0].x += 0.5
        elif k == 'allowed':
            if o.disp_allowed_vert is None:
                return None
            o.disp_allowed_vert[r.randrange(10)] ^= 0x55
        elif k == 'strata':
            if not o.strata_points:
                return None
            o.strata_points[0] += (0, 0, 1)
            o.strata_points.append(Vec(1, 1, 1))
        elif k == 'mat':
            o.mat += '_m'
            o.lightmap += 1
            o.ham_rot += 5
        else:
            if o.disp_pos is None:
                return None
            o.disp_pos.x += 2
            o.disp_elevation += 1
        return 'Side ' + k
    if isinstance(o, VisGroup):
        k = r.choice(['color', 'name', 'child', 'child-color'])
        if k == 'color':
            o.color.z = (o.color.z + 9) % 256
        elif k == 'name':
            o.name += '_m'
        elif k == 'child':
            if o.child_groups and r.random() < 0.5:
                o.child_groups.pop()
            else:
                o.child_groups.append(VisGroup(o.vmf, 'added'))
        else:
            if not o.child_groups:
                return None
            o.child_groups[0].color.x = (o.child_groups[0].color.x + 9) % 256
            o.child_groups[0].name += '_m'
        return 'VisGroup ' + k
    if isinstance(o, EntityGroup):
        o.color.x = (o.color.x + 9) % 256
        o.shown = not o.shown
        return 'EntityGroup color/shown'
    if isinstance(o, Camera):
        o.pos += (1, 2, 3)
        o.target.localise(Vec(1, 1, 1), Angle(0, 90, 0))
        return 'Camera pos/target'
    if isinstance(o, Cordon):
        o.bounds_min -= (1, 1, 1)
        o.bounds_max.z += 4
        o.name += '_m'
        return 'Cordon bounds/name'
    if isinstance(o, Output):
        o.target += '_m'
        o.delay += 0.5
        o.inst_in = 'x'
        return 'Output edit'
    if isinstance(o, UVAxis):
        o.offset += 1
        o.x += 1
        return 'UVAxis edit'
    if isinstance(o, EntityFixup):
        k = r.choice(['set-new', 'set-existing', 'del', 'clear', 'setdefault'])
        if k == 'set-new':
            o['brandnew'] = 'v'
        elif k == 'set-existing':
            if not len(o):
                return None
            var = r.choice(sorted(o))
            o['$' + var.upper()] = o[var] + '_m'
        elif k == 'del':
            if not len(o):
                return None
            del o[r.choice(sorted(o))]
        elif k == 'clear':
            if not len(o):
                return None
            o.clear()
        else:
            o.setdefault('dflt', 'd')
        return 'EntityFixup ' + k
    if isinstance(o, Keyvalues):
        with warnings.catch_warnings():
            warnings.simplefilter('ignore')
            if isinstance(o._value, list):
                k = r.choice(['append', 'set_key', '+=', 'clear', 'child-edit', 'name', 'del'])
                if k == 'append':
                    o.append(Keyvalues('appended', 'x'))
                elif k == 'set_key':
                    o.set_key(('deep', 'path', 'key'), 'val')
                elif k == '+=':
                    o += [Keyvalues('iadd', 'y')]
                elif k == 'clear':
                    if not o._value:
                        return None
                    o.clear()
                elif k == 'child-edit':
                    leaves = [c for c in o.iter_tree(blocks=False)]
                    if not leaves:
                        return None
                    c = r.choice(leaves)
                    c.value = c.value + '_m'
                    c.name = 'renamed'
                elif k == 'name':
                    if o._real_name is None:
                        return None
                    o.name = o._real_name + '_m'
                else:
                    if not o._value:
                        return None
                    del o[0]
                return 'Keyvalues ' + k
            o.value = o.value + '_m'
            return 'Keyvalues leaf value'
    return None


# ------------------------------------------------------------------------------------------------ float bits
def bits(x: Any) -> Any:
    """Bit-exact snapshot of a math value / scalar / tuple."""
    if isinstance(x, float):
        return struct.pack('<d', x)
    if isinstance(x, (int, str, bool, type(None))):
        return x
    if isinstance(x, (tuple, list)):
        return tuple(bits(v) for v in x)
    if hasattr(x, '_x'):
        return (type(x).__name__, bits(x._x), bits(x._y), bits(x._z))
    if hasattr(x, '_pitch'):
        return (type(x).__name__, bits(x._pitch), bits(x._yaw), bits(x._roll))
    if hasattr(x, '_aa'):
        return (type(x).__name__,) + tuple(bits(getattr(x, '_' + a + b)) for a in 'abc' for b in 'abc')
    raise TypeError(type(x))


# ------------------------------------------------------------------------------------------------ export read tracing
_TRACE_LOG: set[tuple[str, str]] = set()
_TRACED: dict[type, type] = {}


def _traced_class(cls: type) -> type:
    """A layout-compatible subclass whose attribute reads are logged (used only while one export runs)."""
    t = _TRACED.get(cls)
    if t is None:
        name = cls.__name__

        def __getattribute__(self, attr, _name=name):  # noqa: N807
            _TRACE_LOG.add((_name, attr))
            return object.__getattribute__(self, attr)
        t = type(cls.__name__, (cls,), {'__slots__': (), '__getattribute__': __getattribute__, '__del__': lambda self: None})
        _TRACED[cls] = t
    return t


def traced_export_reads(obj: Any) -> set[tuple[str, str]]:
    """Run the export of `obj` with every reachable map object (Entity, Solid, Side, DispVertex, ...) switched to a
    logging subclass; returns the (class name, attribute) pairs really read.  Classes are restored afterwards."""
    classes = (Entity, Solid, Side, DispVertex, UVAxis, Output, VisGroup, EntityGroup, Camera, Cordon, EntityFixup,
               FixupValue, Keyvalues)
    swapped: list[tuple[Any, type]] = []
    for o, _path in walk(obj).values():
        if type(o) in classes:
            try:
                cls = type(o)
                o.__class__ = _traced_class(cls)
                swapped.append((o, cls))
            except TypeError:
                pass
    _TRACE_LOG.clear()
    try:
        observe(obj)
        return set(_TRACE_LOG)
    finally:
        for o, cls in swapped:
            object.__setattr__(o, '__class__', cls) if False else setattr(o, '__class__', cls)
        _TRACE_LOG.clear()
