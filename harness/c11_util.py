"""C11 oracle helpers: generate the contents of every structured BSP lump as one consistent object graph, assign it
to the views of a base BSP in a chosen layout / static-prop version, save, re-read and compare field by field.

Well-formedness rules used by the generator (values outside them are not claimed to round-trip; each is a property of
the file format or of the reader, not of the writer):
  * numbers destined for `f` fields are float32-representable; coordinates stored in integer fields are integral;
  * visibility rows have exactly ceil(clusters/8) bytes; Overlay.face_count == len(faces);
  * texture names are distinct after casefold, < 128 chars, without NUL; model names do not end in NUL;
  * split faces carry the texinfo / hammer_id of their original face (the reader copies them onto it), hammer ids are
    1..65535 (0 means "none" on disk), original faces nobody refers to have texinfo None; HDR faces are absent or
    parallel to the LDR faces; BModel.phys_keyvalues is None exactly when there are no physics solids;
  * static-prop fields that a format version does not store hold the value its reader substitutes;
  * entity values with exactly four commas that would parse as an output are not used as plain keyvalues, output
    delays have at most 6 significant digits (text format `%g`); they are floats, Python ints or bools (the constructor does not
    convert them), times are Python ints.
"""
from __future__ import annotations

import contextlib
import io
import math
import os
import random
import shutil
import struct
from typing import Any, Callable


def f32(x: float) -> float:
    return struct.unpack('<f', struct.pack('<f', x))[0]


CONFIGS = ['v19', 'v20', 'v21', 'l4d2', 'infra', 'chaos', 'vitamin']
PROP_VERSIONS = ['V4', 'V5', 'V6', 'V7', 'V8', 'V9', 'V10', 'V11', 'V_LIGHTMAP_v7', 'V_LIGHTMAP_v10', 'V_LIGHTMAP_MESA',
                 'V_CHAOS_V12', 'V_CHAOS_V13']
VIEWS = ['textures', 'texinfo', 'planes', 'vertexes', 'surfedges', 'primitives', 'orig_faces', 'faces', 'hdr_faces',
         'brushes', 'water_leaf_info', 'visleafs', 'nodes', 'visibility', 'bmodels', 'cubemaps', 'overlays', 'props',
         'detail_props', 'ents']
# features a generated world may contain; a failing world is shrunk to the features it needs
FEATURES = ['shape_detail', 'sprite_detail', 'model_detail', 'water', 'tail_overlap', 'fresh_objects', 'shared_objects',
            'long_names', 'hdr', 'physics', 'outputs', 'special_text', 'big_runs', 'hi_bytes', 'many', 'float_bounds',
            'near_duplicates', 'grafted', 'resave']


def make_base(src_bsp: str, dst: str) -> None:
    """A small base file: the repository's test map with its entity lump and pakfile emptied."""
    import srctools.bsp as B
    from srctools.vmf import VMF
    b = B.BSP(src_bsp)
    vmf = VMF()
    vmf.spawn['classname'] = 'worldspawn'
    b.ents = vmf
    b.lumps[B.BSP_LUMPS.PAKFILE].data = b''
    with contextlib.redirect_stdout(io.StringIO()):
        b.save(dst)
    # the file just written is the base of every generated world: it must be readable, view by view
    b2 = B.BSP(dst)
    for v in VIEWS:
        getattr(b2, v)


def apply_config(b: Any, cfg: str) -> None:
    import srctools.bsp as B
    V, G = B.VERSIONS, B.GameVersion
    b.game_ver = G.NORMAL
    if cfg == 'v19':
        b.version, b.lump_layout = V.HL2, B.LUMP_LAYOUT_V19
    elif cfg == 'v20':
        b.version, b.lump_layout = V.HL2_EP1, B.LUMP_LAYOUT_STANDARD
    elif cfg == 'v21':
        b.version, b.lump_layout = V.L4D2, B.LUMP_LAYOUT_STANDARD
    elif cfg == 'l4d2':
        b.version, b.lump_layout, b.game_ver = V.L4D2, B.LUMP_LAYOUT_STANDARD, G.L4D2
    elif cfg == 'infra':
        b.version, b.lump_layout = V.INFRA, B.LUMP_LAYOUT_INFRA
    elif cfg == 'chaos':
        b.version, b.lump_layout = V.CHAOSSOURCE, B.LUMP_LAYOUT_CHAOS
    elif cfg == 'vitamin':
        b.version, b.lump_layout, b.game_ver = V.VITAMINSOURCE, B.LUMP_LAYOUT_VITAMIN, G.VITAMINSOURCE
    else:
        raise ValueError(cfg)


class Gen:
    """One generated world."""

    def __init__(self, seed: int, cfg: str, prop_ver: str, feats: set[str], size: int) -> None:
        self.seed, self.cfg, self.prop_ver, self.feats, self.size = seed, cfg, prop_ver, set(feats), size
        self.vit = cfg == 'vitamin'
        self.chaos = cfg == 'chaos'

    # Each part draws from its own generator so that switching a feature off does not change the other parts.
    def rng(self, part: str) -> random.Random:
        return random.Random(f'{self.seed}/{part}')

    def n(self, r: random.Random, hi: int | None = None) -> int:
        hi = self.size if hi is None else hi
        if 'many' in self.feats and r.random() < 0.3:
            hi *= 6
        return r.choice([0, 1, 1, 2, hi, r.randint(0, hi)])

    @staticmethod
    def fl(r: random.Random) -> float:
        k = r.random()
        if k < 0.3:
            return float(r.randint(-64, 64))
        if k < 0.6:
            return r.randint(-4096, 4096) / 8.0
        if k < 0.7:
            return r.choice([0.0, -0.0, 1.0, -1.0, -99999.0, 3.4028234663852886e+38, 1.401298464324817e-45, math.inf, -math.inf])
        while True:
            v = struct.unpack('<f', struct.pack('<I', r.getrandbits(32)))[0]
            if v == v:
                return v

    def vec(self, r: random.Random):
        from srctools.math import Vec
        return Vec(self.fl(r), self.fl(r), self.fl(r))

    def fvec(self, r: random.Random):
        """finite, mostly fractional float32 coordinates"""
        from srctools.math import Vec
        return Vec(r.randint(-80000, 80000) / 8.0, r.randint(-80000, 80000) / 16.0, f32(r.uniform(-30000, 30000)))

    def ivec(self, r: random.Random, lo: int, hi: int):
        from srctools.math import Vec
        return Vec(float(r.randint(lo, hi)), float(r.randint(lo, hi)), float(r.randint(lo, hi)))

    def name(self, r: random.Random, maxlen: int = 40) -> str:
        alpha = 'abcdefghijklmnopqrstuvwxyzABCDEFGHIJKLMNOPQRSTUVWXYZ0123456789_/-. '
        if 'hi_bytes' in self.feats:
            alpha += '\udc80\udcff\udca9'
        ln = r.choice([1, 3, 8, r.randint(1, maxlen)])
        if 'long_names' in self.feats and r.random() < 0.4:
            ln = r.choice([126, 127])
        return ''.join(r.choice(alpha) for _ in range(ln)).rstrip('\0') or 'x'

    # ------------------------------------------------------------------ build
    def build(self) -> dict[str, Any]:
        import srctools.bsp as B
        from srctools.const import BSPContents, SurfFlags
        from srctools.math import Angle, Vec
        F = self.feats
        w: dict[str, Any] = {}
        r = self.rng('tex')
        names: list[str] = []
        seen: set[str] = set()
        for _ in range(1 + self.n(r)):
            nm = self.name(r)
            if nm.casefold() in seen:
                continue
            # a name that is a proper suffix of another one exercises NUL-terminated sub-string reuse
            if names and r.random() < 0.3 and len(names[0]) > 1 and names[0][1:].casefold() not in seen:
                nm = names[0][1:]
            seen.add(nm.casefold())
            names.append(nm)
        texdata = [B.TexData(nm, self.vec(r), r.randint(0, 4096), r.randint(0, 4096)) for nm in names]
        texinfo = []
        for _ in range(1 + self.n(r)):
            texinfo.append(B.TexInfo(self.vec(r), self.fl(r), self.vec(r), self.fl(r), self.vec(r), self.fl(r), self.vec(r), self.fl(r),
                                     SurfFlags(r.choice([0, 1, 0x80, r.getrandbits(31)])), r.choice(texdata)))
        if 'near_duplicates' in F:
            # DISTINCT objects that agree with an existing one in part of their attributes (or in all of them): every one
            # must keep its own record, whatever the writer's index tables use as key.  (A separate generator, so that the
            # world without the feature is unchanged.)
            rd = self.rng('near_dup_tex')
            for _ in range(1 + rd.randint(0, 2)):
                src = rd.choice(texdata)
                k = rd.random()
                if k < 0.4:      # same material, own reflectivity and size
                    cp = B.TexData(src.mat, self.vec(rd), rd.randint(0, 4096), rd.randint(0, 4096))
                elif k < 0.6:    # same material and size, own reflectivity
                    cp = B.TexData(src.mat, self.vec(rd), src.width, src.height)
                elif k < 0.8:    # same material and reflectivity, own size
                    cp = B.TexData(src.mat, src.reflectivity.copy(), src.width + 1, src.height)
                else:            # equal in every attribute
                    cp = B.TexData(src.mat, src.reflectivity.copy(), src.width, src.height)
                texdata.append(cp)
                ti = rd.choice(texinfo)
                # a texinfo with the vectors of an existing one that points at the copy, and one that differs only in its flags
                texinfo.insert(rd.randint(0, len(texinfo)),
                               B.TexInfo(ti.s_off.copy(), ti.s_shift, ti.t_off.copy(), ti.t_shift, ti.lightmap_s_off.copy(), ti.lightmap_s_shift,
                                         ti.lightmap_t_off.copy(), ti.lightmap_t_shift, ti.flags, cp))
                texinfo.append(B.TexInfo(ti.s_off.copy(), ti.s_shift, ti.t_off.copy(), ti.t_shift, ti.lightmap_s_off.copy(), ti.lightmap_s_shift,
                                         ti.lightmap_t_off.copy(), ti.lightmap_t_shift, SurfFlags(ti.flags.value ^ 1), rd.choice(texdata)))
        w['textures'] = list(names) if r.random() < 0.7 else names[:1]
        w['texinfo'] = texinfo
        r = self.rng('planes')
        planes = [B.Plane(self.vec(r), self.fl(r), B.PlaneType(r.randint(0, 5))) for _ in range(1 + self.n(r))]
        if 'near_duplicates' in F:
            rd = self.rng('near_dup_planes')
            for _ in range(1 + rd.randint(0, 2)):
                src = rd.choice(planes)
                k = rd.random()
                planes.insert(rd.randint(0, len(planes)),
                              B.Plane(src.normal.copy(), self.fl(rd), src.type) if k < 0.3 else         # same normal, own distance
                              B.Plane(self.vec(rd), src.dist, src.type) if k < 0.5 else                 # same distance, own normal
                              B.Plane(src.normal.copy(), src.dist, B.PlaneType((src.type.value + 1) % 6)) if k < 0.75 else   # own type only
                              B.Plane(src.normal.copy(), src.dist, src.type))                           # equal in every attribute
        w['planes'] = planes
        r = self.rng('verts')
        verts = [self.vec(r) for _ in range(2 + self.n(r))]
        if r.random() < 0.5:
            verts.insert(r.randint(0, len(verts)), Vec())
        if 'near_duplicates' in F:
            rd = self.rng('near_dup_verts')
            for _ in range(1 + rd.randint(0, 2)):
                src = rd.choice(verts)
                verts.insert(rd.randint(0, len(verts)), src.copy() if rd.random() < 0.5 else Vec(src.x, src.y, self.fl(rd)))
        w['vertexes'] = verts

        def fresh(kind: str, rr: random.Random) -> bool:
            return 'fresh_objects' in F and rr.random() < 0.25

        r = self.rng('edges')
        surf: list[Any] = []
        for _ in range(self.n(r, self.size * 2)):
            if surf and r.random() < 0.3:
                e = r.choice(surf)
                surf.append(e.opposite)
            else:
                a = self.vec(r) if fresh('v', r) else r.choice(verts)
                b_ = self.vec(r) if fresh('v', r) else r.choice(verts)
                surf.append(B.Edge(a, b_))
        if 'near_duplicates' in F and surf:
            rd = self.rng('near_dup_edges')
            for _ in range(1 + rd.randint(0, 2)):
                src = rd.choice(surf)
                if type(src) is B.Edge:      # a second edge between the same two vertex objects / sharing one end
                    surf.insert(rd.randint(0, len(surf)), B.Edge(src.a, src.b) if rd.random() < 0.5 else B.Edge(src.a, rd.choice(verts)))
        w['surfedges'] = surf

        def sublist(rr: random.Random, table: list, make: Callable[[], Any], tag: str) -> list:
            """A list of table entries the way real lumps refer to them: mostly a contiguous run."""
            k = rr.random()
            if not table or k < 0.15:
                return []
            if 'tail_overlap' in F and k < 0.45 and make is not None:
                return [table[-1], make()]
            if 'fresh_objects' in F and k < 0.55 and make is not None:
                return [make() for _ in range(rr.randint(1, 3))]
            if 'shared_objects' in F and k < 0.7 and not (tag == 'f' and 'hdr' in F):
                # (with HDR faces the face table must not grow: the FACEIDS lump is shared by both face lumps)
                return [rr.choice(table) for _ in range(rr.randint(1, 3))]
            i = rr.randrange(len(table))
            return table[i:i + rr.randint(1, 4)]

        r = self.rng('prims')
        prims = []
        if not self.vit:
            for _ in range(self.n(r)):
                prims.append(B.Primitive(r.random() < 0.5, [r.randint(0, 65535) for _ in range(self.n(r, 5))],
                                         [self.vec(r) for _ in range(self.n(r, 4))]))
        w['primitives'] = prims

        r = self.rng('faces')

        def mk_edge() -> Any:
            return B.Edge(r.choice(verts), r.choice(verts))

        def mk_face(orig: Any, texi: Any, hid: Any) -> Any:
            if self.vit:
                return B.Face(r.choice(planes), False, False, sublist(r, surf, mk_edge, 'e'), r.choice(texinfo), r.randint(-5, 5), 0,
                              b'\0\0\0\0', 0, 0, (r.randint(-9, 9), r.randint(-9, 9)), (r.randint(0, 99), r.randint(0, 99)),
                              None, [], False, 0, None, r.randint(0, 255))
            return B.Face(r.choice(planes), r.random() < 0.5, r.random() < 0.5, sublist(r, surf, mk_edge, 'e'), texi,
                          r.randint(-1, 300), r.randint(-1, 300), bytes(r.randint(0, 255) for _ in range(4)),
                          r.randint(-1, 1 << 20), self.fl(r), (r.randint(-900, 900), r.randint(-900, 900)),
                          (r.randint(0, 999), r.randint(0, 999)), orig,
                          sublist(r, prims, None, 'p') if prims else [], r.random() < 0.5, r.getrandbits(32), hid,
                          0)
        orig_faces: list[Any] = []
        faces: list[Any] = []
        hdr: list[Any] = []
        if self.vit:
            faces = [mk_face(None, None, None) for _ in range(self.n(r))]
        else:
            for _ in range(self.n(r)):
                orig_faces.append(mk_face(None, None, None))
            if orig_faces:
                for _ in range(self.n(r)):
                    o = r.choice(orig_faces)
                    if o.texinfo is None:
                        o.texinfo = r.choice(texinfo)
                        o.hammer_id = r.randint(1, 65535)
                    faces.append(mk_face(o, o.texinfo, o.hammer_id))
                if 'hdr' in F and faces:
                    hdr = [mk_face(f.orig_face, f.texinfo, f.hammer_id) for f in faces]
        w['orig_faces'], w['faces'], w['hdr_faces'] = orig_faces, faces, hdr

        r = self.rng('brushes')
        brushes = []
        shared_sides: list[Any] = []
        for _ in range(self.n(r)):
            def mk_side() -> Any:
                if self.vit:
                    return B.BrushSide(r.choice(planes), r.choice(texinfo), r.randint(-3, 3), r.random() < 0.5, r.randint(0, 255))
                return B.BrushSide(r.choice(planes), r.choice(texinfo), r.randint(-3, 300), r.random() < 0.5, r.choice([0, 0, 2, 0xFFFE, r.randint(0, 0x7FFF) * 2]))
            sides = [mk_side() for _ in range(self.n(r, 6))]
            if 'tail_overlap' in F and shared_sides and r.random() < 0.5:
                sides = [shared_sides[-1], mk_side()]
            if 'shared_objects' in F and shared_sides and r.random() < 0.3:
                sides = list(brushes[-1].sides)
            shared_sides += sides
            brushes.append(B.Brush(BSPContents(r.choice([0, 1, 0x20, r.getrandbits(31)])), sides))
        w['brushes'] = brushes

        r = self.rng('water')
        water = []
        if 'water' in F:
            water = [B.LeafWaterInfo(self.fl(r), self.fl(r), r.choice(texinfo)) for _ in range(1 + self.n(r, 3))]
        w['water_leaf_info'] = water

        r = self.rng('leafs')
        leafs = []
        for _ in range(1 + self.n(r)):
            if self.vit:
                mins, maxes = self.ivec(r, 0, 70000), self.ivec(r, 0, 70000)
            elif self.chaos and 'float_bounds' in F:
                mins, maxes = self.fvec(r), self.fvec(r)
            else:
                mins, maxes = self.ivec(r, -32768, 32767), self.ivec(r, -32768, 32767)
            area = r.randint(0, 255) if not self.chaos else r.randint(0, (1 << 14) - 1)
            flags = B.VisLeafFlags(r.randint(0, 127))
            if self.vit:
                area = r.randint(-32768, 32767)
                flags = B.VisLeafFlags(r.randint(0, 127))
            lf = [r.choice(faces) for _ in range(self.n(r, 3))] if faces else []
            lb = [r.choice(brushes) for _ in range(self.n(r, 3))] if brushes else []
            amb = bytes(r.randint(0, 255) for _ in range(24)) if self.cfg == 'v19' else bytes(24)
            cl = r.randint(-1, 32767) if not self.chaos else r.randint(-1, 1 << 20)
            leafs.append(B.VisLeaf(BSPContents(r.choice([0, 1, r.getrandbits(31)])), cl, area, flags, mins, maxes, lf, lb,
                                   r.randint(-1, max(-1, len(water) - 1)), amb, r.randint(0, 65535)))
        w['visleafs'] = leafs

        r = self.rng('nodes')
        nodes = []
        nn = self.n(r)
        for _ in range(nn):
            if self.chaos and 'float_bounds' in F:
                mins, maxes = self.fvec(r), self.fvec(r)
            elif self.vit:
                mins, maxes = self.ivec(r, -(1 << 20), 1 << 20), self.ivec(r, -(1 << 20), 1 << 20)
            else:
                mins, maxes = self.ivec(r, -32768, 32767), self.ivec(r, -32768, 32767)
            nodes.append(B.VisTree(r.choice(planes), mins, maxes, sublist(r, faces, None, 'f') if faces else [], r.randint(-1, 300)))
        for i, nd in enumerate(nodes):
            # children: later nodes or leafs (a DAG, so the comparison terminates)
            for side in ('child_neg', 'child_pos'):
                later = nodes[i + 1:]
                setattr(nd, side, r.choice(later) if later and r.random() < 0.5 else r.choice(leafs))
        w['nodes'] = nodes

        r = self.rng('vis')
        vis = None
        if r.random() < 0.8:
            nc = r.choice([0, 1, 7, 8, 9, 16, 17, r.randint(1, 40)])
            if 'big_runs' in F:
                nc = r.choice([2041, 2048, 4100, 9000])
            nb = (nc + 7) // 8

            def row() -> bytearray:
                out = bytearray()
                while len(out) < nb:
                    k = r.random()
                    run = r.choice([1, 1, 2, 3, 254, 255, 256, 300, 510, 511, 600]) if 'big_runs' in F else r.randint(1, 4)
                    out += bytes(run) if k < 0.5 else bytes(r.randint(1, 255) for _ in range(run))
                return out[:nb]
            vis = B.Visibility([row() for _ in range(nc)], [row() for _ in range(nc)])
        w['visibility'] = vis

        # entities + brush models
        r = self.rng('ents')
        from srctools.vmf import VMF, Entity, Output
        vmf = VMF()
        vmf.spawn['classname'] = 'worldspawn'
        vmf.spawn['mapversion'] = str(r.randint(0, 9999))
        vmf.map_ver = int(vmf.spawn['mapversion'])
        comma = r.random() < 0.5
        w['out_comma_sep'] = comma if 'outputs' in F else None

        def text(rr: random.Random) -> str:
            alpha = 'abcXYZ019 _-./:;[]{}()#@!$%^&*+=|<>?~\''
            if 'special_text' in F:
                alpha += '"\\\n\t' + ('' if comma else ',')
            if 'hi_bytes' in F:
                alpha += '\udc80\udcff'
            return ''.join(rr.choice(alpha) for _ in range(rr.choice([0, 1, 5, rr.randint(0, 30)])))
        ents = []
        for _ in range(self.n(r)):
            e = Entity(vmf, {'classname': r.choice(['info_target', 'func_brush', 'logic_relay', 'prop_dynamic'])})
            for _k in range(self.n(r, 5)):
                key = ''.join(r.choice('abcdefgXYZ_0123' + ('"\\ \tn' if 'special_text' in F else '')) for _ in range(r.randint(1, 10)))
                if key.casefold() in ('model', 'classname'):
                    continue
                val = text(r)
                if val.count(',') == 4:
                    val = val.replace(',', ';')
                e[key] = val
            if 'outputs' in F:
                for _k in range(self.n(r, 3)):
                    e.add_out(Output(r.choice(['OnTrigger', 'OnUser1', 'OnMapSpawn']), r.choice(['relay1', '!self', 'a b']),
                                     r.choice(['Trigger', 'FireUser1', 'Kill']), text(r).replace('\x1b', '').replace(',', ';') if comma else text(r),
                                     r.choice([0.0, 1.0, 0.5, 2.25, 10.0, 0.125, 100.0, 0, 1, 10, 100, 30, 7, True]), times=r.choice([-1, 1, 5, 0, 10]), comma_sep=comma))
            vmf.add_ent(e)
            ents.append(e)
        w['ents'] = vmf
        r = self.rng('bmodels')
        from weakref import WeakKeyDictionary
        from srctools.keyvalues import Keyvalues
        bm: Any = None
        if nodes:
            bm = WeakKeyDictionary()
            owners = [vmf.spawn] + [e for e in ents if r.random() < 0.5]
            models: list[Any] = []
            for o in owners:
                if models and 'shared_objects' in F and r.random() < 0.3:
                    bm[o] = r.choice(models)
                    continue
                solids: list[bytes] = []
                kv = None
                if 'physics' in F and r.random() < 0.6:
                    solids = [bytes(r.randint(0, 255) for _ in range(r.randint(0, 12))) for _ in range(r.randint(1, 3))]
                    kv = Keyvalues.root(Keyvalues('staticsolid', [Keyvalues('index', str(r.randint(0, 9))), Keyvalues('contents', '1')]),
                                        Keyvalues('materialtable', []))
                m = B.BModel(self.vec(r), self.vec(r), self.vec(r), r.choice(nodes), sublist(r, faces, None, 'f') if faces else [], kv, solids)
                models.append(m)
                bm[o] = m
        w['bmodels'] = bm
        w['_keep'] = ents

        r = self.rng('cubemaps')
        w['cubemaps'] = [B.Cubemap(self.ivec(r, -(1 << 31), (1 << 31) - 1), r.randint(-(1 << 31), (1 << 31) - 1)) for _ in range(self.n(r))]
        r = self.rng('overlays')
        ovs = []
        for _ in range(self.n(r)):
            fc = r.choice([0, 1, 2, 63, 64, r.randint(0, 64)])
            fl = [r.randint(-(1 << 31), (1 << 31) - 1) for _ in range(fc)]
            ovs.append(B.Overlay(r.randint(-(1 << 31), (1 << 31) - 1), self.vec(r), self.vec(r), r.choice(texinfo), fc, fl, r.randint(0, 3),
                                 self.fl(r), self.fl(r), self.fl(r), self.fl(r), self.vec(r), self.vec(r), self.vec(r), self.vec(r),
                                 self.fl(r), self.fl(r), r.randint(0, 254), r.randint(0, 254), r.randint(0, 254), r.randint(0, 254)))
        w['overlays'] = ovs

        r = self.rng('props')
        ver = B.StaticPropVersion[self.prop_ver]
        vnum = 7 if ver.is_lightmap else ver.version
        props = []
        mdl_names = [self.name(r, 100) for _ in range(3)]
        if 'near_duplicates' in F:
            # model names that differ only in case / only in their last character: each is its own dictionary entry
            rd = self.rng('near_dup_models')
            src = rd.choice(mdl_names)
            mdl_names += [src.swapcase() if src.swapcase() != src else src + 'X', src[:-1] + ('a' if src[-1] != 'a' else 'b')]
        for _ in range(self.n(r)):
            p = B.StaticProp(r.choice(mdl_names), self.vec(r), Angle(self.ang(r), self.ang(r), self.ang(r)))
            p.visleafs = set(r.sample(leafs, r.randint(0, min(3, len(leafs)))))
            p.solidity = r.randint(0, 255)
            flags = r.randint(0, 255)
            if ver.is_lightmap:
                flags = r.getrandbits(32) if ver is not B.StaticPropVersion.V_LIGHTMAP_MESA else r.getrandbits(32)
            elif vnum >= 10:
                flags = r.getrandbits(40)
            p.flags = B.StaticPropFlags(flags)
            p.skin = r.randint(-(1 << 31), (1 << 31) - 1)
            p.min_fade, p.max_fade = self.fl(r), self.fl(r)
            p.lighting = self.vec(r)
            p.fade_scale = self.fl(r) if vnum >= 5 else 1
            if vnum in (6, 7):
                p.min_dx_level, p.max_dx_level = r.randint(0, 65535), r.randint(0, 65535)
            if vnum >= 8:
                p.min_cpu_level, p.max_cpu_level, p.min_gpu_level, p.max_gpu_level = [r.randint(0, 255) for _ in range(4)]
            if ver.is_lightmap:
                p.lightmap_x, p.lightmap_y = r.randint(0, 65535), r.randint(0, 65535)
            if vnum >= 7 and not ver.is_sdk_2013:
                p.tint = Vec(float(r.randint(0, 255)), float(r.randint(0, 255)), float(r.randint(0, 255)))
                p.renderfx = r.randint(0, 255)
            if vnum >= 9 and not ver.is_lightmap:
                p.disable_on_xbox = r.random() < 0.5
            if ver is B.StaticPropVersion.V_CHAOS_V13:
                p.scaling = self.vec(r)
            elif vnum >= 11:
                s = self.fl(r)
                p.scaling = Vec(s, s, s) if r.random() < 0.5 else s
            props.append(p)
        w['props'] = props

        r = self.rng('detail')
        kinds = [k for k in ('model_detail', 'sprite_detail', 'shape_detail') if k in F]
        det = []
        for _ in range(self.n(r) if kinds else 0):
            k = r.choice(kinds)
            base = (self.vec(r), Angle(self.ang(r), self.ang(r), self.ang(r)), B.DetailPropOrientation(r.randint(0, 2)), r.randint(0, 65535),
                    tuple(r.randint(0, 255) for _ in range(4)), (r.getrandbits(32), r.randint(0, 255)), r.randint(0, 255))
            spr = (self.fl(r), (self.fl(r), self.fl(r)), (self.fl(r), self.fl(r)), (self.fl(r), self.fl(r)), (self.fl(r), self.fl(r)))
            if k == 'model_detail':
                det.append(B.DetailPropModel(*base, r.choice(mdl_names)))
            elif k == 'sprite_detail':
                det.append(B.DetailPropSprite(*base, *spr))
            else:
                det.append(B.DetailPropShape(*base, *spr, r.random() < 0.5, r.randint(0, 255), r.randint(0, 255)))
        w['detail_props'] = det
        if 'grafted' in F:
            self.graft(w)
        return w

    def graft(self, w: dict[str, Any], part: str = 'graft') -> None:
        """Objects that are reachable ONLY through references of other objects, at depth >= 2, and are in no owning list:
        the writers are documented to add referenced objects themselves (find_or_insert / find_or_extend append what they do
        not know yet), so every one of them must get an index, a record, and be read back where it was referred to.
        node -> node -> node -> leaf -> face -> original face -> texinfo -> texdata -> texture name; leaf -> brush -> side ->
        plane; face -> edges -> vertexes, primitives; brush model -> node, faces; static prop -> leaf; water info / overlay ->
        texinfo.  A separate generator: the world without the feature is unchanged."""
        import srctools.bsp as B
        from srctools.const import BSPContents, SurfFlags
        r = self.rng(part)
        F = self.feats
        planes, verts, leafs, nodes = w['planes'], w['vertexes'], w['visleafs'], w['nodes']
        count = [0]

        def g_texinfo() -> Any:
            count[0] += 1
            td = B.TexData(f'{part}/{self.seed % 1000}_{count[0]}', self.vec(r), r.randint(0, 4096), r.randint(0, 4096))
            return B.TexInfo(self.vec(r), self.fl(r), self.vec(r), self.fl(r), self.vec(r), self.fl(r), self.vec(r), self.fl(r),
                             SurfFlags(r.choice([0, 1, 0x80])), td)

        def g_plane() -> Any:
            return B.Plane(self.vec(r), self.fl(r), B.PlaneType(r.randint(0, 5)))

        def g_edges() -> list:
            return [B.Edge(self.vec(r), r.choice(verts)), B.Edge(self.vec(r), self.vec(r))][:r.randint(1, 2)]

        def g_face(depth: int) -> Any:
            if self.vit:
                return B.Face(g_plane(), False, False, g_edges(), g_texinfo(), r.randint(-5, 5), 0, b'\0\0\0\0', 0, 0,
                              (r.randint(-9, 9), r.randint(-9, 9)), (r.randint(0, 99), r.randint(0, 99)), None, [], False, 0, None,
                              r.randint(0, 255))
            orig = None
            ti, hid = g_texinfo(), r.randint(1, 65535)
            if depth > 0:
                orig = g_face(0)
                orig.texinfo, orig.hammer_id = ti, hid
            prims = [B.Primitive(r.random() < 0.5, [r.randint(0, 65535) for _ in range(r.randint(0, 3))], [self.vec(r) for _ in range(r.randint(0, 2))])
                     for _ in range(r.randint(0, 2))]
            return B.Face(g_plane() if r.random() < 0.7 else r.choice(planes), r.random() < 0.5, r.random() < 0.5, g_edges(),
                          ti if depth > 0 else None, r.randint(-1, 300), r.randint(-1, 300), bytes(r.randint(0, 255) for _ in range(4)),
                          r.randint(-1, 1 << 20), self.fl(r), (r.randint(-900, 900), r.randint(-900, 900)), (r.randint(0, 999), r.randint(0, 999)),
                          orig, prims, r.random() < 0.5, r.getrandbits(32), hid if depth > 0 else None, 0)

        def g_brush() -> Any:
            sides = []
            for _ in range(r.randint(1, 3)):
                if self.vit:
                    sides.append(B.BrushSide(g_plane(), g_texinfo(), r.randint(-3, 3), r.random() < 0.5, r.randint(0, 255)))
                else:
                    sides.append(B.BrushSide(g_plane(), g_texinfo(), r.randint(-3, 300), r.random() < 0.5, r.choice([0, 2, 0xFFFE])))
            return B.Brush(BSPContents(r.choice([0, 1, 0x20])), sides)

        # (with HDR faces the face table must not grow: the FACEIDS lump is shared by both face lumps)
        may_face = 'hdr' not in F

        def g_leaf() -> Any:
            if self.vit:
                mins, maxes = self.ivec(r, 0, 70000), self.ivec(r, 0, 70000)
            elif self.chaos and 'float_bounds' in F:
                mins, maxes = self.fvec(r), self.fvec(r)
            else:
                mins, maxes = self.ivec(r, -32768, 32767), self.ivec(r, -32768, 32767)
            area = r.randint(-32768, 32767) if self.vit else r.randint(0, (1 << 14) - 1) if self.chaos else r.randint(0, 255)
            amb = bytes(r.randint(0, 255) for _ in range(24)) if self.cfg == 'v19' else bytes(24)
            cl = r.randint(-1, 32767) if not self.chaos else r.randint(-1, 1 << 20)
            return B.VisLeaf(BSPContents(r.choice([0, 1, r.getrandbits(31)])), cl, area, B.VisLeafFlags(r.randint(0, 127)), mins, maxes,
                             [g_face(1) for _ in range(r.randint(0, 2))] if may_face else [], [g_brush() for _ in range(r.randint(0, 2))],
                             -1, amb, r.randint(0, 65535))

        def g_node(depth: int) -> Any:
            if self.chaos and 'float_bounds' in F:
                mins, maxes = self.fvec(r), self.fvec(r)
            elif self.vit:
                mins, maxes = self.ivec(r, -(1 << 20), 1 << 20), self.ivec(r, -(1 << 20), 1 << 20)
            else:
                mins, maxes = self.ivec(r, -32768, 32767), self.ivec(r, -32768, 32767)
            nd = B.VisTree(g_plane(), mins, maxes, [g_face(1) for _ in range(r.randint(0, 2))] if may_face and r.random() < 0.5 else [],
                           r.randint(-1, 300))
            kids = [g_node(depth - 1) if depth > 0 else g_leaf(), g_leaf() if r.random() < 0.6 else r.choice(leafs)]
            if r.random() < 0.5:
                kids.reverse()
            nd.child_neg, nd.child_pos = kids
            return nd

        # 1. a sub-tree of new nodes below an existing node (or the tree of a brush model)
        if nodes:
            host = r.choice(nodes)
            setattr(host, r.choice(['child_neg', 'child_pos']), g_node(r.choice([1, 2, 3])))
            if r.random() < 0.5:      # ... and a new leaf directly below another listed node
                setattr(r.choice(nodes), r.choice(['child_neg', 'child_pos']), g_leaf())
        bm = w['bmodels']
        if bm is not None and len(bm) and r.random() < 0.6:
            m = r.choice(list(bm.values()))
            m.node = g_node(r.choice([0, 1, 2]))
            if may_face and r.random() < 0.5:
                m.faces = [g_face(1) for _ in range(r.randint(1, 2))]
        # 2. new faces / brushes below listed leafs, new original faces behind listed faces
        for lf in leafs[:2]:
            if r.random() < 0.5:
                lf.brushes = list(lf.brushes) + [g_brush()]
            if may_face and r.random() < 0.5:
                lf.faces = list(lf.faces) + [g_face(1)]
        if w['brushes'] and r.random() < 0.7:       # a listed brush with sides that sit on new planes / texinfo
            b0 = r.choice(w['brushes'])
            b0.sides = list(b0.sides) + g_brush().sides
        if may_face and not self.vit and w['faces'] and r.random() < 0.5:      # ('hdr' off: hdr_faces is empty)
            f0 = r.choice(w['faces'])
            old = f0.orig_face
            o = g_face(0)
            o.texinfo, o.hammer_id = f0.texinfo, f0.hammer_id
            f0.orig_face = o
            if not any(x.orig_face is old for x in w['faces']):
                old.texinfo = old.hammer_id = None      # (rule: original faces nobody refers to carry no texinfo / id)
        # 3. references from the other lumps
        if w['props'] and r.random() < 0.7:
            p = r.choice(w['props'])
            p.visleafs = set(p.visleafs) | {g_leaf()}
        if w['water_leaf_info'] and r.random() < 0.7:
            r.choice(w['water_leaf_info']).surface_texinfo = g_texinfo()
        if w['overlays'] and r.random() < 0.7:
            r.choice(w['overlays']).texture = g_texinfo()

    def ang(self, r: random.Random) -> float:
        # Angle normalises into [0, 360): use float32 values that are already in range
        return f32(r.choice([0.0, 90.0, 45.5, 359.5, r.randint(0, 2879) / 8.0]))


# ---------------------------------------------------------------------------------------------------- canonical forms
def cv(v: Any) -> tuple:
    return (v.x, v.y, v.z)


class Canon:
    """Deep value of the objects of one BSP (object references resolved to values)."""

    def __init__(self, vit: bool) -> None:
        self.vit = vit
        self.memo: dict[int, Any] = {}

    def texinfo(self, t: Any) -> Any:
        if t is None:
            return None
        i = t._info
        return ('TI', cv(t.s_off), t.s_shift, cv(t.t_off), t.t_shift, cv(t.lightmap_s_off), t.lightmap_s_shift, cv(t.lightmap_t_off),
                t.lightmap_t_shift, t.flags.value, (i.mat, cv(i.reflectivity), i.width, i.height))

    def plane(self, p: Any) -> Any:
        return ('PL', cv(p.normal), p.dist, p.type.value)

    def edge(self, e: Any) -> Any:
        return (cv(e.a), cv(e.b))

    def prim(self, p: Any) -> Any:
        return ('PR', int(p.is_tristrip), list(p.indexed_verts), [cv(v) for v in p.verts])

    def face(self, f: Any, with_orig: bool = True) -> Any:
        if f is None:
            return None
        key = (id(f), with_orig)
        if key in self.memo:
            return self.memo[key]
        out = ('FA', self.plane(f.plane), bool(f.same_dir_as_plane), bool(f.on_node), [self.edge(e) for e in f.edges],
               self.texinfo(f.texinfo), f._dispinfo_ind, f.surf_fog_volume_id, bytes(f.light_styles), f._lightmap_off, f.area,
               tuple(f.lightmap_mins), tuple(f.lightmap_size), self.face(f.orig_face, False) if with_orig else None,
               [self.prim(p) for p in f.primitives], bool(f.dynamic_shadows), f.smoothing_groups, f.hammer_id, f.vitamin_flags)
        self.memo[key] = out
        return out

    def side(self, s: Any) -> Any:
        return ('BS', self.plane(s.plane), self.texinfo(s.texinfo), s._dispinfo, bool(s.is_bevel_plane), s._unknown_bevel_bits)

    def brush(self, b: Any) -> Any:
        return ('BR', b.contents.value, [self.side(s) for s in b.sides])

    def leaf(self, l: Any) -> Any:
        if id(l) in self.memo:
            return self.memo[id(l)]
        out = ('LF', l.contents.value, l.cluster_id, l.area, l.flags.value, cv(l.mins), cv(l.maxes), [self.face(f) for f in l.faces],
               [self.brush(b) for b in l.brushes], l.water_id, bytes(l._ambient), l.min_water_dist)
        self.memo[id(l)] = out
        return out

    def node(self, n: Any) -> Any:
        import srctools.bsp as B
        if id(n) in self.memo:
            return self.memo[id(n)]

        def child(c: Any) -> Any:
            return self.leaf(c) if isinstance(c, B.VisLeaf) else self.node(c)
        out = ('ND', self.plane(n.plane), cv(n.mins), cv(n.maxes), [self.face(f) for f in n.faces], n.area_ind, child(n.child_neg), child(n.child_pos))
        self.memo[id(n)] = out
        return out

    def kv(self, k: Any) -> Any:
        if k is None:
            return None
        if k.has_children():
            return (k.real_name, [self.kv(c) for c in k])
        return (k.real_name, k.value)

    def bmodel(self, m: Any) -> Any:
        return ('BM', cv(m.mins), cv(m.maxes), cv(m.origin), self.node(m.node), [self.face(f) for f in m.faces], self.kv(m.phys_keyvalues),
                [bytes(s) for s in m._phys_solids])

    def overlay(self, o: Any) -> Any:
        return ('OV', o.id, cv(o.origin), cv(o.normal), self.texinfo(o.texture), o.face_count, list(o.faces), o.render_order, o.u_min, o.u_max,
                o.v_min, o.v_max, cv(o.uv1), cv(o.uv2), cv(o.uv3), cv(o.uv4), o.fade_min_sq, o.fade_max_sq, o.min_cpu, o.max_cpu, o.min_gpu, o.max_gpu)

    def prop(self, p: Any, ver: Any) -> Any:
        from srctools.math import Vec
        sc = p.scaling
        if not isinstance(sc, Vec):
            sc = Vec(sc, sc, sc)
        import srctools.bsp as B
        if ver is not B.StaticPropVersion.V_CHAOS_V13:
            sc = Vec(sc.x, sc.x, sc.x)
        return ('SP', p.model, cv(p.origin), (p.angles.pitch, p.angles.yaw, p.angles.roll), cv(sc), sorted(repr(self.leaf(l)) for l in p.visleafs),
                p.solidity, p.flags.value, p.skin, p.min_fade, p.max_fade, cv(p.lighting), p.fade_scale, p.min_dx_level, p.max_dx_level,
                p.min_cpu_level, p.max_cpu_level, p.min_gpu_level, p.max_gpu_level, cv(p.tint), p.renderfx, bool(p.disable_on_xbox),
                p.lightmap_x, p.lightmap_y)

    def detail(self, d: Any) -> Any:
        import srctools.bsp as B
        base = (type(d).__name__, cv(d.origin), (d.angles.pitch, d.angles.yaw, d.angles.roll), d.orientation.value, d.leaf, tuple(d.lighting),
                tuple(d._light_styles), d.sway_amount)
        if isinstance(d, B.DetailPropModel):
            return base + (d.model,)
        out = base + (d.sprite_scale, tuple(d.dims_upper_left), tuple(d.dims_lower_right), tuple(d.texcoord_upper_left), tuple(d.texcoord_lower_right))
        if isinstance(d, B.DetailPropShape):
            out += (bool(d.is_cross), d.shape_angle, d.shape_size)
        return out

    def ent(self, e: Any, skip_model: bool) -> Any:
        kvs = sorted((k.casefold(), v) for k, v in e.items() if not (skip_model and k.casefold() == 'model'))
        outs = [(o.output, o.inst_out, o.target, o.input, o.inst_in, o.params, o.delay, o.times) for o in e.outputs]
        return ('EN', kvs, outs)


def canon_views(bsp_or_world: Any, get: Callable[[str], Any], vit: bool, prop_ver: Any) -> dict[str, Any]:
    """Canonical value of every view. `get(name)` returns the view's value."""
    c = Canon(vit)
    out: dict[str, Any] = {}
    out['textures'] = list(get('textures'))
    out['texinfo'] = [c.texinfo(t) for t in get('texinfo')]
    out['planes'] = [c.plane(p) for p in get('planes')]
    out['vertexes'] = [cv(v) for v in get('vertexes')]
    out['surfedges'] = [c.edge(e) for e in get('surfedges')]
    out['primitives'] = [c.prim(p) for p in get('primitives')]
    # the reader completes original faces (texinfo, hammer id) while it reads the split faces: read those first
    faces = get('faces')
    hdr = get('hdr_faces')
    out['orig_faces'] = [c.face(f, False) for f in get('orig_faces')]
    out['faces'] = [c.face(f) for f in faces]
    out['hdr_faces'] = [c.face(f) for f in hdr]
    out['brushes'] = [c.brush(b) for b in get('brushes')]
    out['water_leaf_info'] = [(i.surface_z, i.min_z, c.texinfo(i.surface_texinfo)) for i in get('water_leaf_info')]
    out['visleafs'] = [c.leaf(l) for l in get('visleafs')]
    out['nodes'] = [c.node(n) for n in get('nodes')]
    vis = get('visibility')
    out['visibility'] = None if vis is None else ([bytes(r) for r in vis.potentially_visible], [bytes(r) for r in vis.potentially_audible])
    vmf = get('ents')
    bm = get('bmodels')
    if bm is None:
        out['bmodels'] = None
    else:
        lst = [('worldspawn', c.bmodel(bm[vmf.spawn]))] if vmf.spawn in bm else []
        for i, e in enumerate(vmf.entities):
            if e in bm:
                lst.append((i, c.bmodel(bm[e])))
        out['bmodels'] = lst
    out['ents'] = (c.ent(vmf.spawn, True), [c.ent(e, True) for e in vmf.entities], vmf.map_ver)
    out['cubemaps'] = [(cv(x.origin), x.size) for x in get('cubemaps')]
    out['overlays'] = [c.overlay(o) for o in get('overlays')]
    out['props'] = [c.prop(p, prop_ver) for p in get('props')]
    out['detail_props'] = [c.detail(d) for d in get('detail_props')]
    return out


# views whose tables legitimately grow at the end when other writers add the objects they refer to
GROWING = {'textures', 'texinfo', 'planes', 'vertexes', 'surfedges', 'primitives', 'orig_faces', 'faces', 'brushes', 'visleafs', 'nodes'}


def first_diff(a: Any, b: Any, path: str = '') -> str | None:
    if type(a) is not type(b) and not (isinstance(a, (list, tuple)) and isinstance(b, (list, tuple))):
        if a == b:
            return None
        return f'{path}: {a!r:.80} != {b!r:.80}'
    if isinstance(a, (list, tuple)):
        if len(a) != len(b):
            return f'{path}: length {len(a)} != {len(b)}'
        for i, (x, y) in enumerate(zip(a, b)):
            d = first_diff(x, y, f'{path}[{i}]')
            if d:
                return d
        return None
    if isinstance(a, float) and isinstance(b, float):
        return None if (a == b or (a != a and b != b)) else f'{path}: {a!r} != {b!r}'
    return None if a == b else f'{path}: {a!r:.80} != {b!r:.80}'


class ImplTimeout(BaseException):
    """A call into the implementation did not return in time (BaseException: an `except Exception` inside the implementation
    must not swallow it)."""


@contextlib.contextmanager
def time_limit(seconds: float):
    """Bound a call into the implementation: a fault that makes a writer or reader loop for ever (a work list that never
    empties, a decoder that does not advance) must end as a failing input, not as a hung check.  Uses SIGALRM/setitimer; outside
    the main thread (or without signals) it does nothing."""
    import signal
    import threading
    if threading.current_thread() is not threading.main_thread() or not hasattr(signal, 'setitimer'):
        yield
        return

    def on_alarm(_sig, _frm):
        raise ImplTimeout(f'no result after {seconds:g} s')
    import time
    old = signal.signal(signal.SIGALRM, on_alarm)
    outer, _ = signal.setitimer(signal.ITIMER_REAL, seconds)      # (nests: an enclosing limit keeps running afterwards)
    t0 = time.monotonic()
    try:
        yield
    finally:
        signal.setitimer(signal.ITIMER_REAL, 0)
        signal.signal(signal.SIGALRM, old)
        if outer:
            signal.setitimer(signal.ITIMER_REAL, max(outer - (time.monotonic() - t0), 0.01))


# one save or re-read of a generated world takes 0.02-0.2 s, the largest ('many', 'big_runs') worlds below 1 s on a loaded machine;
# a writer that loops for ever usually also grows a buffer (~100 MB/s): the limit keeps that below a few GB
IMPL_TIME_LIMIT = 20.0
# worlds with the feature 'big_runs' (visibility rows for thousands of clusters, run-length coded in pure Python) take up to 10 s per
# save / re-read at load average 60
IMPL_TIME_LIMIT_BIG = 300.0


def ambiguous_prop_version(cfg: str, ver_name: str) -> bool:
    """Header number 11 with 80-byte records exists twice: CS:GO's V11 and Black Mesa's variant of the lightmapped format. A file
    says which one it holds only through its BSP version (20 = the branch Black Mesa is on, anything else = not Black Mesa); the two
    other combinations (V11 records in a v20 file, Mesa records elsewhere) cannot be told from the file and are not claimed to be
    detected - there the caller names the format, as the API allows (`bsp.static_prop_version = ...`)."""
    return (ver_name == 'V11') == (cfg == 'v20') if ver_name in ('V11', 'V_LIGHTMAP_MESA') else False


# views that the history `from_empty` empties in the file that is read first (nothing else refers to their objects)
EMPTIED = ['props', 'detail_props', 'overlays', 'cubemaps']


def from_empty(base: str, workdir: str, cfg: str, hdr: int, seed: int, feats: set[str], size: int,
               read_first: bool = True, named: str | None = None) -> tuple[dict[str, str], Gen | None, str]:
    """History: a file whose static-prop / detail-prop / overlay / cubemap tables are EMPTY (static-prop header number `hdr`) is read -
    every view, so that whatever a reader records about the file is recorded -, then a generated world is assigned to the SAME BSP
    object, saved and re-read by a fresh object. Nobody names the static-prop format: the object that read the empty table chooses
    it (public attribute `static_prop_version`), the world is generated for that choice, and the fresh reader has to arrive at the
    same format from the file alone.  Returns (view -> difference, the generated world's Gen, name of the chosen format).
    With read_first=False the object that opens the file reads NOTHING before the world is assigned: no format is recorded, the
    writer falls back to its default (the world is generated for it; what was used is read off the object after the save).
    With `named` the caller names the format (`bsp.static_prop_version = ...`) BEFORE the empty lump is read: reading must not
    change it."""
    import srctools.bsp as B
    path = os.path.join(workdir, 'hist.bsp')
    shutil.copy(base, path)
    res: dict[str, str] = {}
    exp_ver = {'l4d2': B.GameVersion.L4D2, 'vitamin': B.GameVersion.VITAMINSOURCE}.get(cfg)

    def assign(b: Any, w: dict[str, Any]) -> None:
        b.out_comma_sep = w['out_comma_sep']
        for v in ['ents'] + [v for v in VIEWS if v != 'ents']:
            if not (v == 'bmodels' and w[v] is None):
                setattr(b, v, w[v])
    try:
        with contextlib.redirect_stdout(io.StringIO()), time_limit(IMPL_TIME_LIMIT):
            b0 = B.BSP(path)
            apply_config(b0, cfg)
            for k in range(40):     # (a world without nodes has no brush models: the base file's models would dangle)
                w0 = Gen((seed ^ 0x5A5A) + k, cfg, 'V5', {'physics'}, 2).build()
                if w0['bmodels'] is not None:
                    break
            for v in EMPTIED:
                w0[v] = []
            assign(b0, w0)
            # the file to start from: an empty static-prop lump under header number `hdr` (named through a format of that number;
            # the header field is also set directly, for a writer that leaves it alone)
            b0.static_prop_version = next(v for v in B.StaticPropVersion if v.version == hdr and v.name in PROP_VERSIONS)
            b0.game_lumps[b'sprp'].version = hdr
            b0.save(path)
            b1 = B.BSP(path, exp_ver)
            if b1.game_lumps[b'sprp'].version != hdr:
                res['!save'] = (f'file with empty tables: saved with static_prop_version = {b0.static_prop_version.name}, the static-prop lump has '
                                f'header number {b1.game_lumps[b"sprp"].version}, not {hdr}')
                return res, None, '?'
            if named is not None:
                b1.static_prop_version = B.StaticPropVersion[named]
            for v in VIEWS if read_first else []:
                val = getattr(b1, v)
                if v in EMPTIED and len(val):
                    res[v] = f'{v}: the table written empty is read back with {len(val)} entries'
                    return res, None, '?'
            chosen = b1.static_prop_version if read_first else B.StaticPropVersion.DEFAULT
    except (Exception, ImplTimeout) as e:      # noqa: BLE001
        res['!save'] = f'file with empty tables: {type(e).__name__}: {e}'[:300]
        return res, None, '?'
    if named is not None and chosen.name != named:
        res['props'] = f'the format named by the caller ({named}) is {chosen.name} after the empty static-prop lump (header number {hdr}) was read'
        return res, None, chosen.name
    if chosen.name not in PROP_VERSIONS:
        res['props'] = f'after reading an empty static-prop lump with header number {hdr} the format is {chosen.name}'
        return res, None, chosen.name
    g = None
    for k in range(40):     # a world with at least one static prop and one detail prop
        g = Gen(seed + k, cfg, chosen.name, set(feats) | {'model_detail', 'sprite_detail', 'shape_detail'}, size)
        w = g.build()
        if w['props'] and w['detail_props'] and w['bmodels'] is not None:
            break
    expect = canon_views(w, lambda n: w[n], g.vit, chosen)
    try:
        with contextlib.redirect_stdout(io.StringIO()), time_limit(IMPL_TIME_LIMIT):
            assign(b1, w)
            b1.save(path)
    except (Exception, ImplTimeout) as e:      # noqa: BLE001
        res['!save'] = f'{type(e).__name__}: {e}'[:300]
        return res, g, chosen.name
    if not read_first and b1.static_prop_version is not chosen:
        res['props'] = f'nothing was read and no format named: the writer used {b1.static_prop_version.name}, not the documented default {chosen.name}'
        return res, g, b1.static_prop_version.name
    try:
        with time_limit(IMPL_TIME_LIMIT):
            b2 = B.BSP(path, exp_ver)
            if named is not None and ambiguous_prop_version(cfg, named):
                b2.static_prop_version = chosen
            got = canon_views(b2, lambda n: getattr(b2, n), g.vit, chosen)
            if b2.static_prop_version is not chosen:
                res['props'] = (f'props written in the format chosen when the empty lump was read ({chosen.name}; header number {hdr}, BSP version '
                                f'{b2.version}) are re-read as {b2.static_prop_version.name}')
    except (Exception, ImplTimeout, RecursionError) as e:      # noqa: BLE001
        res['!read'] = f'{type(e).__name__}: {e}'[:300]
        return res, g, chosen.name
    for v in VIEWS:
        a, c = expect[v], got[v]
        if v in GROWING and isinstance(a, list) and isinstance(c, list) and len(c) >= len(a):
            c = c[:len(a)]
        d = first_diff(a, c, v)
        if d and v not in res:
            res[v] = d
        elif d:
            res[v] += '; first difference: ' + d
    return res, g, chosen.name


# attribute of the first object of a view that is pushed out of its on-disk field (value that must be rejected by save())
BREAKABLE = {'props': ('solidity', 256), 'cubemaps': ('size', 1 << 31), 'overlays': ('id', 1 << 31), 'visleafs': ('cluster_id', 40000),
             'planes': ('dist', 1e40), 'nodes': ('area_ind', 40000), 'detail_props': ('leaf', 70000)}


def retry_after_reject(base: str, workdir: str, g: Gen, view: str) -> dict[str, str] | None:
    """Error path: a world is assigned, one value of `view` does not fit its field, save() raises - the caller repairs the value IN
    PLACE and saves the same BSP object again.  The second save must write the world (nothing may have been dropped when the first
    one gave up half-way); re-read by a fresh object and compared view by view.  None: the world has no object in `view`, or the
    value was not rejected (that is the business of the rejection probes)."""
    import srctools.bsp as B
    w = g.build()
    if not w[view]:
        return None
    attr, bad = BREAKABLE[view]
    obj = w[view][0]
    good = getattr(obj, attr)
    path = os.path.join(workdir, 'retry.bsp')
    shutil.copy(base, path)
    ver = B.StaticPropVersion[g.prop_ver]
    expect = canon_views(w, lambda n: w[n], g.vit, ver)
    res: dict[str, str] = {}
    exp_ver = {'l4d2': B.GameVersion.L4D2, 'vitamin': B.GameVersion.VITAMINSOURCE}.get(g.cfg)
    with contextlib.redirect_stdout(io.StringIO()), time_limit(IMPL_TIME_LIMIT):
        b = B.BSP(path)
        apply_config(b, g.cfg)
        b.static_prop_version = ver
        b.out_comma_sep = w['out_comma_sep']
        for v in ['ents'] + [v for v in VIEWS if v != 'ents']:
            if not (v == 'bmodels' and w[v] is None):
                setattr(b, v, w[v])
        try:
            setattr(obj, attr, bad)
            b.save(path)
        except Exception:      # noqa: BLE001 - rejected (on assignment or on save), as it must be
            pass
        else:
            return None
        finally:
            setattr(obj, attr, good)
    try:
        with contextlib.redirect_stdout(io.StringIO()), time_limit(IMPL_TIME_LIMIT):
            b.save(path)
    except (Exception, ImplTimeout) as e:      # noqa: BLE001
        return {'!save': f'second save, after the rejected value was repaired in place: {type(e).__name__}: {e}'[:300]}
    try:
        with time_limit(IMPL_TIME_LIMIT):
            b2 = B.BSP(path, exp_ver)
            if ambiguous_prop_version(g.cfg, g.prop_ver):
                b2.static_prop_version = ver
            got = canon_views(b2, lambda n: None if (n == 'bmodels' and w['bmodels'] is None) else getattr(b2, n), g.vit, ver)
    except (Exception, ImplTimeout, RecursionError) as e:      # noqa: BLE001
        return {'!read': f'file of the second save: {type(e).__name__}: {e}'[:300]}
    for v in VIEWS:
        if v == 'bmodels' and w[v] is None:
            continue
        a, c = expect[v], got[v]
        if v in GROWING and isinstance(a, list) and isinstance(c, list) and len(c) >= len(a):
            c = c[:len(a)]
        d = first_diff(a, c, v)
        if d:
            res[v] = d
    return res


def roundtrip(base: str, workdir: str, g: Gen, only: list[str] | None = None) -> dict[str, str]:
    """Assign the generated world to a copy of the base file, save, re-read, compare. Returns view -> difference.
    The special key '!save' / '!read' reports an exception."""
    import srctools.bsp as B
    w = g.build()
    path = os.path.join(workdir, 'case.bsp')
    shutil.copy(base, path)
    ver = B.StaticPropVersion[g.prop_ver]
    expect = canon_views(w, lambda n: w[n], g.vit, ver)
    limit = IMPL_TIME_LIMIT_BIG if 'big_runs' in g.feats else IMPL_TIME_LIMIT
    res: dict[str, str] = {}
    try:
        with contextlib.redirect_stdout(io.StringIO()), time_limit(limit):
            b = B.BSP(path)
            apply_config(b, g.cfg)
            b.static_prop_version = ver
            b.game_lumps[b'sprp'].version = ver.version
            b.out_comma_sep = w['out_comma_sep']
            for v in ['ents'] + [v for v in VIEWS if v != 'ents']:
                if only is not None and v not in only:
                    continue
                if v == 'bmodels' and w[v] is None:
                    continue
                setattr(b, v, w[v])
            b.save(path)
    except (Exception, ImplTimeout) as e:      # noqa: BLE001 - any exception on a well-formed value is a finding
        res['!save'] = f'{type(e).__name__}: {e}'[:300]
        return res
    try:
        exp_ver = {'l4d2': B.GameVersion.L4D2, 'vitamin': B.GameVersion.VITAMINSOURCE}.get(g.cfg)
        with time_limit(limit):
            b2 = B.BSP(path, exp_ver)
            if b2.lump_layout is not b.lump_layout:
                res['!read'] = 'layout of the re-read file differs from the layout written'
                return res
            # the re-read file has to say by itself which static-prop format it is in (header number + record size + BSP version);
            # only the one pair of formats the file cannot tell apart is named by the caller (see ambiguous_prop_version)
            if ambiguous_prop_version(g.cfg, g.prop_ver):
                b2.static_prop_version = ver
            got = canon_views(b2, lambda n: None if (n == 'bmodels' and w['bmodels'] is None) else getattr(b2, n), g.vit, ver)
            if w['props'] and b2.static_prop_version is not ver and (only is None or 'props' in only):
                res['props'] = (f'static-prop format detected on re-read is {b2.static_prop_version.name}, written as {ver.name} '
                                f'(header number {b2.game_lumps[b"sprp"].version}, BSP version {b2.version})')
    except (Exception, ImplTimeout, RecursionError) as e:      # noqa: BLE001
        res['!read'] = f'{type(e).__name__}: {e}'[:300]
        return res
    def compare(expect: dict, got: dict, note: str) -> None:
        for v in VIEWS:
            if only is not None and v not in only:
                continue
            if v == 'bmodels' and w[v] is None:
                continue
            a, c = expect[v], got[v]
            if v in GROWING and isinstance(a, list) and isinstance(c, list) and len(c) >= len(a):
                c = c[:len(a)]
            d = first_diff(a, c, v)
            if d and v not in res:
                res[v] = note + d
    compare(expect, got, '')
    if 'resave' in g.feats and not res and only is None:
        # the other way of using the API: the objects of a file that was READ are changed in place (new objects hung below
        # them, reachable only through references) and the same BSP object is saved again - state left behind by the first
        # round (lumps already rebuilt, tables grown by the writers) must not leak into the second
        get2 = lambda n: None if (n == 'bmodels' and w['bmodels'] is None) else getattr(b2, n)      # noqa: E731
        w2 = {v: get2(v) for v in VIEWS}
        if 'grafted' in g.feats:
            g.graft(w2, 'graft2')
        expect2 = canon_views(b2, lambda n: w2[n], g.vit, ver)
        try:
            with contextlib.redirect_stdout(io.StringIO()), time_limit(limit):
                b2.save(path)
        except (Exception, ImplTimeout) as e:      # noqa: BLE001
            res['!save'] = f'second save of the re-read file: {type(e).__name__}: {e}'[:300]
            return res
        try:
            with time_limit(limit):
                b3 = B.BSP(path, exp_ver)
                if ambiguous_prop_version(g.cfg, g.prop_ver):
                    b3.static_prop_version = ver
                got3 = canon_views(b3, lambda n: None if (n == 'bmodels' and w['bmodels'] is None) else getattr(b3, n), g.vit, ver)
        except (Exception, ImplTimeout, RecursionError) as e:      # noqa: BLE001
            res['!read'] = f'after the second save: {type(e).__name__}: {e}'[:300]
            return res
        compare(expect2, got3, 'after changing the re-read objects in place and saving again: ')
    return res
