"""C20 helper: generators (as plain JSON-able *specs*), builders, writers, readers and canonical forms for the
secondary formats (cmdseq, smd, sndscript, vmt, pcf, choreo text / binary, scenes.image), plus a generic spec shrinker.

A *spec* is a nested structure of dict / list / str / int / float / bool / None.  `build(spec)` makes the srctools
object, `write(obj)` produces the file (bytes or str), `read(data)` parses it with the module's own reader and
`canon(obj)` maps an object to nested plain data that is compared with `==` (and diffed to name the failing field).

Every generator only produces values inside the format's *representable alphabet* (documented per format below and in
docs/C20.md); what is left outside is listed there too.
"""
from __future__ import annotations

import io
import math
import random
import struct
from typing import Any, Callable

# ------------------------------------------------------------------------------------------------ generic helpers

PRINTABLE = ''.join(chr(c) for c in range(32, 127))


def f32(x: float) -> float:
    return struct.unpack('<f', struct.pack('<f', x))[0]


def rstr(rng: random.Random, alphabet: str, lo: int = 0, hi: int = 8) -> str:
    return ''.join(rng.choice(alphabet) for _ in range(rng.randint(lo, hi)))


def collide(rng: random.Random, s: str, case_ok: bool = True) -> str:
    """A string that differs from `s` but collides with it under a normalisation somebody might apply to a key: letter case
    (swapcase / upper / lower / title), surrounding or inner whitespace (strip, split-join).  May return `s` itself when the
    transformation is the identity on it (callers that need distinct names check that anyway)."""
    ops = ['lead', 'trail', 'inner']
    if case_ok:
        ops += ['swap', 'upper', 'lower', 'title', 'swap', 'first']
    op = rng.choice(ops)
    if op == 'lead':
        return ' ' + s
    if op == 'trail':
        return s + ' '
    if op == 'inner':
        i = s.find(' ')
        return s[:i] + ' ' + s[i:] if i >= 0 else s + '  '
    if op == 'swap':
        return s.swapcase()
    if op == 'upper':
        return s.upper()
    if op == 'lower':
        return s.lower()
    if op == 'first':
        return s[:1].swapcase() + s[1:]
    return s.title()


def new_bag(rng: random.Random) -> None:
    """Start a new *name bag* on the generator: the strings handed out by `pick_str` for one spec.  Later picks re-use them
    (the identical string: equal values in several places of one file) or derive a colliding variant (`collide`), so that every
    table a writer keys by a name, or by an object that compares by name, sees keys that are distinct but equal after
    casefold / strip, and keys that are equal."""
    rng._c20_bag = []          # type: ignore[attr-defined]


def pick_str(rng: random.Random, alphabet: str, specials: list[str], lo: int = 1, hi: int = 8, case_ok: bool = True) -> str:
    """Mostly short random strings over `alphabet`, sometimes one of the special (tricky but representable) strings, sometimes a
    string already used in this spec or a variant of one that collides with it under casefold / strip (`case_ok=False`: only
    whitespace variants, for names the format itself compares ignoring case)."""
    bag = getattr(rng, '_c20_bag', None)
    r = rng.random()
    out = None
    if bag and r < 0.22 and lo >= 1:
        base = rng.choice(bag)
        cand = base if r < 0.04 else collide(rng, base, case_ok)
        if lo <= len(cand) <= hi + 4 and all(c in alphabet for c in cand):
            out = cand
    if out is None:
        if specials and rng.random() < 0.25:
            out = rng.choice(specials)
        else:
            out = rstr(rng, alphabet, lo, hi)
    if bag is not None and out and len(bag) < 40:
        bag.append(out)
    return out


def diff_path(a: Any, b: Any, path: str = '') -> str | None:
    """First differing path between two canonical values (list indexes replaced by *)."""
    if type(a) is not type(b) and not (isinstance(a, (int, float)) and isinstance(b, (int, float))
                                       and not isinstance(a, bool) and not isinstance(b, bool)):
        return path or '.'
    if isinstance(a, dict):
        for k in sorted(set(a) | set(b), key=str):
            if k not in a or k not in b:
                return f'{path}.{k}'
            d = diff_path(a[k], b[k], f'{path}.{k}')
            if d is not None:
                return d
        return None
    if isinstance(a, (list, tuple)):
        if len(a) != len(b):
            return f'{path}.len'
        for x, y in zip(a, b):
            d = diff_path(x, y, path + '.*')
            if d is not None:
                return d
        return None
    if isinstance(a, float) or isinstance(b, float):
        if a != b and not (isinstance(a, float) and isinstance(b, float) and math.isnan(a) and math.isnan(b)):
            return path or '.'
        if a == 0 and b == 0 and math.copysign(1, a) != math.copysign(1, b):
            return None     # -0.0 and 0.0 are equal values
        return None
    return None if a == b else (path or '.')


def get_at(v: Any, path: str) -> Any:
    return v


def shrink_spec(spec: Any, fails: Callable[[Any], bool], budget: int = 400) -> Any:
    """Greedy structural shrinking of a spec: drop list elements, empty/shorten strings, zero numbers,
    None-out optional dict fields (those whose key ends with '?')."""
    import copy
    cur = copy.deepcopy(spec)
    tries = 0

    def cands(v: Any):
        """Yield (setter applied copy) candidates, smaller first."""
        if isinstance(v, list):
            for i in range(len(v)):
                yield ('del', i)
            for i in range(len(v)):
                for c in cands(v[i]):
                    yield ('in', i, c)
        elif isinstance(v, dict):
            for k in v:
                if k.endswith('?') and v[k] is not None:
                    yield ('set', k, None)
                for c in cands(v[k]):
                    yield ('in', k, c)
        elif isinstance(v, str):
            if len(v) > 1:
                yield ('val', v[:len(v) // 2])
                yield ('val', v[len(v) // 2:])
                yield ('val', v[1:])
                yield ('val', v[:-1])
            if v not in ('a', '') and not v.startswith('E:'):
                yield ('val', 'a')
        elif isinstance(v, bool):
            pass
        elif isinstance(v, int):
            if v not in (0, 1):
                yield ('val', 0)
                yield ('val', 1)
        elif isinstance(v, float):
            if v not in (0.0, 1.0):
                yield ('val', 0.0)
                yield ('val', 1.0)

    def apply(v: Any, c: tuple) -> Any:
        if c[0] == 'del':
            return v[:c[1]] + v[c[1] + 1:]
        if c[0] == 'set':
            d = dict(v)
            d[c[1]] = c[2]
            return d
        if c[0] == 'val':
            return c[1]
        if c[0] == 'in':
            if isinstance(v, list):
                w = list(v)
                w[c[1]] = apply(v[c[1]], c[2])
                return w
            d = dict(v)
            d[c[1]] = apply(v[c[1]], c[2])
            return d
        raise AssertionError(c)

    progress = True
    while progress and tries < budget:
        progress = False
        for c in cands(cur):
            tries += 1
            if tries >= budget:
                break
            try:
                nxt = apply(cur, c)
                if fails(nxt):
                    cur = nxt
                    progress = True
                    break
            except Exception:
                continue
    return cur


def canon_any(o: Any) -> Any:
    """Canonical plain form of attrs objects / enums / containers (used for choreo)."""
    import attrs
    import enum
    if isinstance(o, enum.Enum):
        return f'{type(o).__name__}.{o.name}' if o.name is not None else f'{type(o).__name__}({o.value})'
    if isinstance(o, bool) or o is None or isinstance(o, (int, str, bytes)):
        return o
    if isinstance(o, float):
        return o
    if isinstance(o, (list, tuple)):
        return [canon_any(x) for x in o]
    if isinstance(o, dict):
        return {str(k): canon_any(v) for k, v in o.items()}
    if attrs.has(type(o)):
        d = {'_class': type(o).__name__}
        for f in attrs.fields(type(o)):
            if f.name.startswith('_'):
                continue
            d[f.name] = canon_any(getattr(o, f.name))
        return d
    raise TypeError(f'cannot canonicalise {type(o)}')


# ------------------------------------------------------------------------------------------------ cmdseq
# Alphabet: 7-bit ASCII without NUL, at most the field width (128 for sequence names, 260 for exe / args / ensure-file),
# booleans for the flags, all four SpecialCommand members, ensure_file None or a string; sequence names distinct.

CMD_ASCII = ''.join(chr(c) for c in range(1, 128))


def cmdseq_gen(rng: random.Random) -> dict:
    def s(width: int) -> str:
        r = rng.random()
        if r < 0.08:
            return ''
        if r < 0.16:
            return rstr(rng, CMD_ASCII, width, width)          # exactly the field width: no terminator
        if r < 0.22:
            return rstr(rng, CMD_ASCII, width - 1, width - 1)
        return rstr(rng, CMD_ASCII if rng.random() < 0.3 else PRINTABLE, 1, 24)
    seqs = []
    names: set[str] = set()
    for _ in range(rng.choice([0, 1, 1, 2, 3])):
        name = s(128)
        if names and rng.random() < 0.5:
            # the file is a dict keyed by the exact name: names that differ only in case / surrounding blanks are different sequences
            name = collide(rng, rng.choice(sorted(names)))[:128]
        if name in names:
            continue
        names.add(name)
        cmds = []
        for _ in range(rng.choice([0, 1, 2, 3])):
            cmds.append({
                'exe': rng.choice([256, 257, 258, 259]) if rng.random() < 0.3 else s(260),
                'args': s(260),
                'enabled': rng.random() < 0.6,
                'ensure?': s(260) if rng.random() < 0.5 else None,
                'proc': rng.random() < 0.5,
                'nowait': rng.random() < 0.5,
            })
        seqs.append({'name': name, 'cmds': cmds})
    return {'seqs': seqs}


def cmdseq_build(spec: dict):
    from srctools.cmdseq import Command, SpecialCommand
    out = {}
    for sq in spec['seqs']:
        out[sq['name']] = [
            Command(SpecialCommand(c['exe']) if isinstance(c['exe'], int) else c['exe'], c['args'],
                    enabled=c['enabled'], ensure_file=c['ensure?'], use_proc_win=c['proc'], no_wait=c['nowait'])
            for c in sq['cmds']]
    return out


def cmdseq_write(obj) -> bytes:
    from srctools import cmdseq
    f = io.BytesIO()
    cmdseq.write(obj, f)
    return f.getvalue()


def cmdseq_read(data: bytes):
    from srctools import cmdseq
    return cmdseq.parse(io.BytesIO(data))


def cmdseq_canon(obj) -> Any:
    from srctools.cmdseq import SpecialCommand
    return [[name, [[c.exe.value if isinstance(c.exe, SpecialCommand) else c.exe, c.args, c.enabled, c.ensure_file,
                     c.use_proc_win, c.no_wait] for c in cmds]] for name, cmds in obj.items()]


# ------------------------------------------------------------------------------------------------ smd
# Alphabet: bone names printable ASCII without '"' and without the comment starters '#', ';', '//';
# material names over [A-Za-z0-9_/-] and inner spaces (the reader strips a file extension, so no '.'), not the keyword
# 'end'; positions/normals/UV/weights are multiples of 1/64 (exact in '%.6f'); rotations are degrees(k/10^6) so that the
# radian text round-trips exactly; a vertex with a single link has weight 1.0 (the format has no place for it).

SMD_BONE_ALPHA = ''.join(c for c in PRINTABLE if c not in '"#;/')
SMD_MAT_ALPHA = 'abcdefghijklmnopqrstuvwxyzABCDEFGHIJKLMNOPQRSTUVWXYZ0123456789_-/'


def _smd_rot(rng: random.Random) -> float:
    for _ in range(50):
        k = rng.choice([0, 0, rng.randrange(0, 6283185)])
        r = k / 1e6
        d = math.degrees(r)
        if 0 <= d < 360 and math.degrees(float('%.6f' % math.radians(d))) == d:
            return d
    return 0.0


def _rot_ok(d: float) -> bool:
    return 0 <= d < 360 and math.degrees(float('%.6f' % math.radians(d))) == d


def _q64(rng: random.Random, lim: int = 64 * 200) -> float:
    return rng.choice([0.0, 1.0, -1.0, rng.randint(-lim, lim) / 64.0])


def smd_gen(rng: random.Random) -> dict:
    new_bag(rng)
    nb = rng.choice([1, 1, 2, 3, 5, 9])
    bones = []
    names: set[str] = set()
    while len(bones) < nb:
        nm = pick_str(rng, SMD_BONE_ALPHA, ['root', 'ValveBiped.Bip01 L Arm', ' lead', 'trail ', 'a{b}', "it's"], 1, 10)
        if nm in names or '//' in nm:
            continue
        names.add(nm)
        bones.append({'name': nm, 'parent': -1 if not bones else rng.randrange(-1, len(bones))})
    # present the bones to the mesh in a shuffled order (children may come before parents in the dict)
    order = list(range(nb))
    if rng.random() < 0.5:
        rng.shuffle(order)
    anim = []
    for t in sorted(set(rng.choice([0, 0, 1, 2, 5, 30, -1]) for _ in range(rng.choice([1, 1, 2, 3])))):
        frames = [{'bone': rng.randrange(nb), 'pos': [_q64(rng), _q64(rng), _q64(rng)],
                   'rot': [_smd_rot(rng), _smd_rot(rng), _smd_rot(rng)]} for _ in range(rng.choice([0, 1, nb]))]
        anim.append({'time': t, 'frames': frames})
    tris = []
    for _ in range(rng.choice([0, 1, 1, 2, 4])):
        verts = []
        for _ in range(3):
            nl = rng.choice([1, 1, 1, 2, 3])
            if nl == 1:
                links = [[rng.randrange(nb), 1.0]]
            else:
                links = [[rng.randrange(nb), rng.randint(1, 64) / 64.0] for _ in range(nl)]
            verts.append({'pos': [_q64(rng), _q64(rng), _q64(rng)], 'norm': [_q64(rng, 64), _q64(rng, 64), _q64(rng, 64)],
                          'u': _q64(rng, 128), 'v': _q64(rng, 128), 'links': links})
        mat = pick_str(rng, SMD_MAT_ALPHA, ['models/props/metal01', 'tools/toolsnodraw', 'my mat', 'ending', 'END'], 1, 10)
        mat = mat.strip('/ ') or 'm'
        if mat == 'end':
            mat = 'end_'
        tris.append({'mat': mat, 'verts': verts})
    # 'copy': the mesh is deep-copied before it is written, so frames, links and parents refer to Bone objects that are equal to
    # the ones in Mesh.bones but not identical (Bone.__deepcopy__ makes a new object per reference)
    return {'bones': bones, 'order': order, 'anim': anim, 'tris': tris, 'copy': rng.random() < 0.25}


def smd_build(spec: dict):
    from srctools.smd import Mesh, Bone, BoneFrame, Vertex, Triangle
    from srctools.math import Vec, Angle
    bl = []
    used: set[str] = set()
    for b in spec['bones']:
        p = b['parent']
        nm = b['name']
        while nm in used:             # bone names are the identity of a bone
            nm += '_'
        used.add(nm)
        bl.append(Bone(nm, bl[p] if 0 <= p < len(bl) else None))
    if not bl:
        bl.append(Bone('root', None))
    order = [i for i in spec.get('order', []) if i < len(bl)]
    order += [i for i in range(len(bl)) if i not in order]
    bones = {bl[i].name: bl[i] for i in order}
    nb = len(bl)
    anim = {}
    for a in spec['anim']:
        anim[a['time']] = [BoneFrame(bl[f['bone'] % nb], Vec(*(f['pos'] + [0.0] * 3)[:3]), Angle(*[x if _rot_ok(x) else 0.0 for x in (f['rot'] + [0.0] * 3)[:3]])) for f in a['frames']]
    tris = []
    for t in spec['tris']:
        def links(v):
            ls = [(bl[li % nb], w) for li, w in (v['links'] or [[0, 1.0]])]
            return [(ls[0][0], 1.0)] if len(ls) == 1 else ls      # a single link has no weight field in the format
        vs = [Vertex(Vec(*(v['pos'] + [0.0] * 3)[:3]), Vec(*(v['norm'] + [0.0] * 3)[:3]), v['u'], v['v'], links(v)) for v in t['verts']]
        while len(vs) < 3:
            vs.append(Vertex(Vec(), Vec(), 0.0, 0.0, [(bl[0], 1.0)]))
        mat = t['mat']
        while '//' in mat:                      # '//' starts a comment
            mat = mat.replace('//', '/')
        mat = mat.strip('/ ') or 'm'            # the reader strips the line and trailing slashes
        tris.append(Triangle('end_' if mat == 'end' else mat, *vs[:3]))
    mesh = Mesh(bones, anim, tris)
    if spec.get('copy'):
        import copy
        mesh = copy.deepcopy(mesh)
    return mesh


def smd_write(mesh) -> bytes:
    f = io.BytesIO()
    mesh.export(f)
    return f.getvalue()


def smd_read(data: bytes):
    from srctools.smd import Mesh
    return Mesh.parse_smd(io.BytesIO(data))


def smd_canon(mesh) -> Any:
    return {
        'bones': sorted([k, b.name, b.parent.name if b.parent is not None else None] for k, b in mesh.bones.items()),
        'anim': [[t, [[f.bone.name, list(f.position), list(f.rotation)] for f in fr]]
                 for t, fr in sorted(mesh.animation.items())],
        'tris': [[t.mat, [[list(v.pos), list(v.norm), v.tex_u, v.tex_v, [[b.name, w] for b, w in v.links]]
                          for v in t]] for t in mesh.triangles],
    }


# ------------------------------------------------------------------------------------------------ soundscripts
# Reader = Keyvalues.parse (default options) + Sound.parse.  Alphabet for names / wave file names: printable ASCII without
# '"' and '\' (the writer emits them raw between quotes, the KV reader un-escapes; Valve's format has no escapes);
# entry names distinct ignoring case; volumes / pitches / levels: finite floats or the enum constants, any pair;
# channel: an enum member or an integer; operator stacks: small KV trees over a safe alphabet; force_v2 flag.

SND_ALPHA = ''.join(c for c in PRINTABLE if c not in '"\\')
SAFE_WORD = 'abcdefghijklmnopqrstuvwxyzABCDEFGHIJKLMNOPQRSTUVWXYZ0123456789_.'


def _kv_gen(rng: random.Random, depth: int, alpha: str, leaf_alpha: str) -> dict:
    if depth <= 0 or rng.random() < 0.6:
        return {'name': rstr(rng, alpha, 1, 6), 'value': rstr(rng, leaf_alpha, 0, 8)}
    return {'name': rstr(rng, alpha, 1, 6), 'value': [_kv_gen(rng, depth - 1, alpha, leaf_alpha) for _ in range(rng.choice([0, 1, 2, 3]))]}


def _kv_build(spec: dict):
    from srctools.keyvalues import Keyvalues
    v = spec['value']
    if isinstance(v, list):
        return Keyvalues(spec['name'], [_kv_build(c) for c in v])
    return Keyvalues(spec['name'], v)


def kv_canon(kv) -> Any:
    if kv.has_children():
        return [kv.real_name, [kv_canon(c) for c in kv]]
    return [kv.real_name, kv.value]


def _snd_num(rng: random.Random, enum_names: list[str]) -> Any:
    r = rng.random()
    if r < 0.35:
        return 'E:' + rng.choice(enum_names)
    if r < 0.6:
        return float(rng.choice([0, 1, 50, 75, 100, 120, 150]))
    if r < 0.8:
        return rng.randint(0, 2000) / 10.0
    return rng.uniform(0.0, 200.0)


def snd_gen(rng: random.Random) -> dict:
    from srctools import sndscript as S
    levels = [l.name for l in S.Level]
    pitches = [p.name for p in S.Pitch]
    chans = [c.name for c in S.Channel]
    sounds = []
    names: set[str] = set()
    new_bag(rng)
    for _ in range(rng.choice([1, 1, 2, 3])):
        nm = pick_str(rng, SND_ALPHA, ['Weapon_Pistol.Single', 'has space', 'a{b', '//x', 'x//y', '[flag]', '#inc', 'semi;colon'], 1, 10, case_ok=False)
        if nm.casefold() in names:
            continue
        names.add(nm.casefold())

        def pair(en):
            a = _snd_num(rng, en)
            return [a, a] if rng.random() < 0.5 else [a, _snd_num(rng, en)]
        stacks = None
        if rng.random() < 0.3:
            stacks = {k: [_kv_gen(rng, 2, SAFE_WORD, SAFE_WORD + ' ') for _ in range(rng.choice([0, 1, 2]))]
                      for k in ('start', 'update', 'stop')}
        sounds.append({
            'name': nm,
            'wavs': [pick_str(rng, SND_ALPHA, ['weapons/pistol/fire1.wav', ')ambient/wind 1.wav', '*music/a.mp3', '#x.wav', '//server/x.wav'], 1, 12)
                     for _ in range(rng.choice([0, 1, 1, 2, 3]))],
            'volume': pair(['VOL_NORM']),
            'channel': ('E:' + rng.choice(chans)) if rng.random() < 0.8 else rng.randint(0, 200),
            'level': pair(levels),
            'pitch': pair(pitches),
            'stacks?': stacks,
            'force_v2': rng.random() < 0.2,
        })
    return {'sounds': sounds}


def _snd_val(v: Any, enum_cls) -> Any:
    if isinstance(v, str) and v.startswith('E:'):
        return enum_cls[v[2:]]
    return v


def snd_build(spec: dict):
    from srctools import sndscript as S
    from srctools.keyvalues import Keyvalues
    out = []
    used: set[str] = set()
    for s in spec['sounds']:
        s = dict(s)
        while s['name'].casefold() in used:     # a soundscript file is a dict keyed by the casefolded name
            s['name'] += '_'
        used.add(s['name'].casefold())
        st = s['stacks?']
        kw = {}
        if st is not None:
            kw = {f'stack_{k}': Keyvalues(f'{k}_stack', [_kv_build(c) for c in st.get(k, [])]) for k in ('start', 'update', 'stop')}
        ch = s['channel']
        out.append(S.Sound(
            s['name'], list(s['wavs']),
            volume=tuple(_snd_val(v, S.VOLUME) for v in s['volume']),
            channel=S.Channel[ch[2:]] if isinstance(ch, str) else ch,
            level=tuple(_snd_val(v, S.Level) for v in s['level']),
            pitch=tuple(_snd_val(v, S.Pitch) for v in s['pitch']),
            force_v2=s['force_v2'], **kw))
    return out


def snd_write(sounds) -> str:
    f = io.StringIO()
    for s in sounds:
        s.export(f)
    return f.getvalue()


def snd_read(text: str):
    from srctools.keyvalues import Keyvalues
    from srctools.sndscript import Sound
    return list(Sound.parse(Keyvalues.parse(text)).values())


def snd_canon(sounds) -> Any:
    import enum
    from srctools.sndscript import Pitch

    def num(v):
        if isinstance(v, Pitch):
            return float(v.value)        # Pitch members ARE floats (PITCH_NORM == 100.0)
        if isinstance(v, enum.Enum):
            return 'E:' + v.name
        return float(v)

    out = []
    for s in sounds:
        stacks = [[kv_canon(c) for c in (st or [])] for st in (s._stack_start, s._stack_update, s._stack_stop)]
        out.append({
            'name': s.name, 'wavs': list(s.sounds), 'volume': [num(v) for v in s.volume],
            'channel': ('E:' + s.channel.name) if isinstance(s.channel, enum.Enum) else int(s.channel),
            'level': [num(v) for v in s.level], 'pitch': [num(v) for v in s.pitch],
            'stacks': stacks, 'v2': bool(s.force_v2 or any(stacks)),
        })
    return out


# ------------------------------------------------------------------------------------------------ vmt
# Reader = Material.parse (escapes off, [] are flags).  Alphabet: shader name over bare-safe word characters; parameter
# names non-empty printable ASCII without '"'; values printable ASCII without '"' (may be empty, may contain spaces,
# braces, '\', '//' ...); parameter names distinct ignoring case; sub-blocks and proxies are KV trees (blocks only at the
# top) over printable ASCII without '"'.

VMT_ALPHA = ''.join(c for c in PRINTABLE if c != '"')


def vmt_gen(rng: random.Random) -> dict:
    params = []
    seen: set[str] = set()
    new_bag(rng)
    for _ in range(rng.choice([0, 1, 2, 3, 5])):
        nm = pick_str(rng, VMT_ALPHA, ['$basetexture', '$envmapmask', '%keywords', '$a b', '>=dx90?$x', '/slash', '#hash', '$x[0]'], 1, 8, case_ok=False)
        if nm.casefold() in seen or not nm.strip():
            continue
        seen.add(nm.casefold())
        val = pick_str(rng, VMT_ALPHA, ['', 'models\\props\\tex', 'models/props/tex', '[1 0.5 .25]', '{255 0 0}', '//net/share', '/abs/path',
                                        '#define', 'center .5 .5 scale 1 1 rotate 0 translate 0 0', "it's", 'a=b', 'x;y', 'http://a/b',
                                        '/*c*/', 'a /* b'], 0, 10)
        params.append([nm, val])

    def blk(depth: int = 2) -> dict:
        return {'name': pick_str(rng, VMT_ALPHA, ['>=dx90', 'insert', 'replace', '<dx90_20b', 'a b'], 1, 6),
                'value': [_kv_gen(rng, depth, VMT_ALPHA, VMT_ALPHA) for _ in range(rng.choice([0, 1, 2]))]}
    return {
        'shader': pick_str(rng, SAFE_WORD, ['LightmappedGeneric', 'VertexLitGeneric', 'patch', 'Water_DX60'], 1, 10),
        'params': params,
        'blocks': [blk() for _ in range(rng.choice([0, 0, 1, 2]))],
        'proxies': [blk(1) for _ in range(rng.choice([0, 0, 1, 2]))],
    }


def vmt_build(spec: dict):
    from srctools.vmt import Material
    m = Material(spec['shader'] or 's')
    for k, v in spec['params']:
        m[k] = v
    m.blocks = [_kv_build(b) if isinstance(b['value'], list) else _kv_build({'name': b['name'], 'value': []}) for b in spec['blocks']]
    m.proxies = [_kv_build(b) if isinstance(b['value'], list) else _kv_build({'name': b['name'], 'value': []}) for b in spec['proxies']]
    return m


def vmt_write(m) -> str:
    f = io.StringIO()
    m.export(f)
    return f.getvalue()


def vmt_read(text: str):
    from srctools.vmt import Material
    return Material.parse(text)


def vmt_canon(m) -> Any:
    return {'shader': m.shader, 'params': [[v.name, v.value] for v in m._params.values()],
            'blocks': [kv_canon(b) for b in m.blocks], 'proxies': [kv_canon(b) for b in m.proxies]}


# ------------------------------------------------------------------------------------------------ pcf (particles)
# Writer = Particle.export -> Element.export_binary(fmt 'pcf' v2, binary version 5); reader = Particle.parse(file).
# Alphabet: names ASCII printable; option types int32, float32, bool, string, vec2/3/4 (float32 components), color
# (bytes); system names distinct ignoring case; option names distinct ignoring case and different from the reserved keys;
# children refer to systems of the same file by their exact name.  Element UUIDs are fresh random values on every
# export (Particle has no UUID field): the second-generation comparison replaces srctools.dmx.get_uuid by a counter.

PCF_RESERVED = {'renderers', 'operators', 'initializers', 'emitters', 'forces', 'constraints', 'children', 'functionname', 'name'}
PCF_ALPHA = ''.join(c for c in PRINTABLE)


def _pcf_opts(rng: random.Random) -> list:
    out = []
    seen: set[str] = set()
    for _ in range(rng.choice([0, 1, 2, 4])):
        nm = pick_str(rng, PCF_ALPHA, ['max_particles', 'animation rate', 'Visibility Proxy Radius', 'color', 'radius'], 1, 10, case_ok=False)
        if nm.casefold() in seen or nm.casefold() in PCF_RESERVED:
            continue
        seen.add(nm.casefold())
        ty = rng.choice(['int', 'float', 'bool', 'string', 'vec2', 'vec3', 'vec4', 'color'])
        if ty == 'int':
            val: Any = rng.choice([0, 1, -1, rng.randint(-2 ** 31, 2 ** 31 - 1)])
        elif ty == 'float':
            val = f32(rng.choice([0.0, 1.0, 0.75, rng.uniform(-1e4, 1e4)]))
        elif ty == 'bool':
            val = rng.random() < 0.5
        elif ty == 'string':
            val = pick_str(rng, PCF_ALPHA, ['', 'editor\\cone_helper.mdl', 'a "quoted" one'], 0, 10)
        elif ty == 'color':
            val = [rng.randrange(256) for _ in range(4)]
        else:
            val = [f32(rng.uniform(-100, 100)) for _ in range(int(ty[3]))]
        out.append([nm, ty, val])
    return out


def pcf_gen(rng: random.Random) -> dict:
    systems = []
    seen: set[str] = set()
    new_bag(rng)
    for _ in range(rng.choice([1, 1, 2, 3])):
        nm = pick_str(rng, PCF_ALPHA, ['test_part', 'Explosion Core', 'UPPER'], 1, 10, case_ok=False)
        if nm.casefold() in seen:
            continue
        seen.add(nm.casefold())
        sysd: dict = {'name': nm, 'options': _pcf_opts(rng), 'children': []}
        for kind in ('renderers', 'operators', 'initializers', 'emitters', 'forces', 'constraints'):
            sysd[kind] = [{'name': pick_str(rng, PCF_ALPHA, ['sprite_anim', 'Alpha Fade'], 1, 8),
                           'function': pick_str(rng, PCF_ALPHA, ['render_animated_sprites', 'Render models'], 1, 8),
                           'options': _pcf_opts(rng)} for _ in range(rng.choice([0, 0, 1, 2]))]
        systems.append(sysd)
    for sysd in systems:
        sysd['children'] = [rng.randrange(len(systems)) for _ in range(rng.choice([0, 0, 1, 2]))]
    return {'systems': systems}


def _pcf_attr(nm: str, ty: str, val: Any):
    from srctools.dmx import Attribute, Color
    from srctools.math import Vec
    if ty == 'int':
        return Attribute.int(nm, val)
    if ty == 'float':
        return Attribute.float(nm, val)
    if ty == 'bool':
        return Attribute.bool(nm, val)
    if ty == 'string':
        return Attribute.string(nm, val)
    if ty == 'color':
        return Attribute.color(nm, *val)
    if ty == 'vec2':
        return Attribute.vec2(nm, *val)
    if ty == 'vec3':
        return Attribute.vec3(nm, *val)
    if ty == 'vec4':
        return Attribute.vec4(nm, *val)
    raise ValueError(ty)


def pcf_build(spec: dict):
    from srctools.particles import Particle, Operator, Child
    systems = []
    used: set[str] = set()
    for s in spec['systems']:
        s = dict(s)
        while s['name'].casefold() in used:
            s['name'] += '_'
        used.add(s['name'].casefold())
        s['options'] = [o for o in s['options'] if o[0].casefold() not in PCF_RESERVED]
        for kind in ('renderers', 'operators', 'initializers', 'emitters', 'forces', 'constraints'):
            s[kind] = [dict(o, options=[x for x in o['options'] if x[0].casefold() not in PCF_RESERVED]) for o in s.get(kind, [])]
        systems.append(s)
    out = []
    for s in systems:
        def ops(kind):
            return [Operator(o['name'], o['function'], {n.casefold(): _pcf_attr(n, t, v) for n, t, v in o['options']})
                    for o in s.get(kind, [])]
        out.append(Particle(
            s['name'], {n.casefold(): _pcf_attr(n, t, v) for n, t, v in s['options']},
            ops('renderers'), ops('operators'), ops('initializers'), ops('emitters'), ops('forces'), ops('constraints'),
            [Child(systems[i % len(systems)]['name']) for i in s['children']]))
    return out


class _UuidCounter:
    def __init__(self) -> None:
        self.n = 0

    def __call__(self):
        from uuid import UUID
        self.n += 1
        return UUID(int=self.n)


def pcf_write(parts) -> bytes:
    from srctools import dmx
    from srctools.particles import Particle
    old = dmx.get_uuid
    dmx.get_uuid = _UuidCounter()
    try:
        root = Particle.export(parts)
        f = io.BytesIO()
        root.export_binary(f, fmt_name='pcf', fmt_ver=2)
        return f.getvalue()
    finally:
        dmx.get_uuid = old


def pcf_read(data: bytes):
    from srctools.particles import Particle
    return list(Particle.parse(io.BytesIO(data)).values())


def _attr_canon(a) -> Any:
    v = a._value if not a.is_array else list(a._value)

    def one(x):
        if isinstance(x, (bool, int, float, str, bytes)) or x is None:
            return x
        try:
            return [one(y) for y in x]
        except TypeError:
            return repr(x)
    return [a.name, a.type.name, one(v)]


def pcf_canon(parts) -> Any:
    def ops(l):
        return [[o.name, o.function, sorted(([k] + _attr_canon(a) for k, a in o.options.items()), key=lambda t: t[0])] for o in l]
    return [{'name': p.name, 'options': sorted(([k] + _attr_canon(a) for k, a in p.options.items()), key=lambda t: t[0]),
             'renderers': ops(p.renderers), 'operators': ops(p.operators), 'initializers': ops(p.initializers),
             'emitters': ops(p.emitters), 'forces': ops(p.forces), 'constraints': ops(p.constraints),
             'children': [c.particle for c in p.children]} for p in parts]


# ------------------------------------------------------------------------------------------------ choreo scenes
# mode 'text': Scene.export_text / Scene.parse_text(Tokenizer(text)).  Alphabet: strings printable ASCII (quotes and
# backslashes allowed where the writer escapes); times multiples of 1/64 (exact in '%.6f'); distance-to-target a
# multiple of 1/4 (exact in '%.2f'); ramp / tag values any finite float (written with repr); binary-only fields at their
# defaults (text_crc 0); fps within [10, 240]; time_zoom_lookup empty (never written).
# mode 'binary': Scene.export_binary(pool) / Scene.parse_binary.  Alphabet: times, ranges, distances float32; ramp and tag
# values k/255 (absolute tags k/4096, kept <= 1 because AbsoluteTag inherits Tag's validator); text-only fields at their
# defaults; relative tag either absent or both names given; use_combined_file only with captions enabled.

CHO_ALPHA = PRINTABLE
CHO_ALPHA_RAW = ''.join(c for c in PRINTABLE if c not in '"\\')     # for fields the text writer does not escape


def _curve_type(rng: random.Random) -> list:
    if rng.random() < 0.6:
        return [0, 0]
    return [rng.randrange(16), rng.randrange(16)]


def _cho_time(rng: random.Random, mode: str) -> float:
    if mode == 'text':
        return rng.randint(0, 64 * 30) / 64.0
    return f32(rng.choice([0.0, 1.0, rng.uniform(0, 30)]))


def _samples(rng: random.Random, mode: str, with_curve: bool, n_max: int = 3) -> list:
    out = []
    for _ in range(rng.choice([0, 0, 1, 2, n_max])):
        val = rng.randrange(256) / 255.0 if mode == 'binary' else rng.choice([0.0, 1.0, 0.5, rng.random()])
        out.append({'time': _cho_time(rng, mode), 'value': val, 'curve': _curve_type(rng) if with_curve else [0, 0]})
    return out


def _edge(rng: random.Random, mode: str) -> Any:
    if mode == 'binary' or rng.random() < 0.7:
        return None
    return {'curve': _curve_type(rng), 'zero': rng.choice([0.0, 1.0, 0.25])}


def _curve(rng: random.Random, mode: str) -> dict:
    return {'ramp': _samples(rng, mode, mode == 'text'), 'left?': _edge(rng, mode), 'right?': _edge(rng, mode)}


def _tags(rng: random.Random, mode: str, factor: int, timing: bool = False) -> list:
    out = []
    for _ in range(rng.choice([0, 0, 0, 1, 2])):
        k = rng.randrange(0, min(factor, 4096) + 1)
        t = [pick_str(rng, CHO_ALPHA, ['a_tag', 'tag "q"', 'x\\y'], 1, 6), k / float(factor) if mode == 'binary' else rng.choice([0.0, 1.0, k / float(factor)])]
        if timing:
            t.append(mode == 'text' and rng.random() < 0.5)
        out.append(t)
    return out


def _event(rng: random.Random, mode: str, flex_p: float) -> dict:
    from srctools.choreo import EventType
    plain = [t.name for t in EventType if t.name not in ('Loop', 'Speak', 'Gesture')]
    kind = rng.choice(['event', 'event', 'gesture', 'loop', 'speak'])
    start = _cho_time(rng, mode)
    end = -1.0 if rng.random() < 0.4 else (start + _cho_time(rng, mode) if mode == 'text' else f32(start + _cho_time(rng, mode)))
    ev: dict = {
        'kind': kind, 'type': rng.choice(plain),
        'name': pick_str(rng, CHO_ALPHA, ['npc_gman.welcome', 'a "b"', 'back\\slash', 'some loop', '{', '//c'], 1, 8),
        'flags': rng.choice([8, 8, 8, 0, rng.randrange(64)]),
        'params': [pick_str(rng, CHO_ALPHA, ['noaction', '!enemy', '0.8', 'q"q', ''], 0, 6),
                   rng.choice(['', '', pick_str(rng, CHO_ALPHA, ['Run'], 1, 5)]), rng.choice(['', '', pick_str(rng, CHO_ALPHA, ['!target2'], 1, 5)])],
        'start': start, 'end': end,
        'ramp': _curve(rng, mode),
        'tag?': None if rng.random() < 0.7 else [pick_str(rng, CHO_ALPHA, ['tagname'], 1, 5), pick_str(rng, CHO_ALPHA, ['wav.name'], 1, 5)],
        'dist': rng.choice([0.0, 0.0, 59.0, rng.randint(0, 4000) / 4.0]),
        'rel_tags': _tags(rng, mode, 255), 'timing_tags': _tags(rng, mode, 255, True),
        'abs_play': _tags(rng, mode, 4096), 'abs_shift': _tags(rng, mode, 4096),
        'flex': [],
        'pitch': rng.choice([0, 0, 61, -47, -100, 100]) if mode == 'text' else 0,
        'yaw': rng.choice([0, 0, 30, -100]) if mode == 'text' else 0,
        'gest_dur': rng.choice([0.0, 1.5, _cho_time(rng, 'binary')]),
        'loop_count': rng.choice([0, -1, 8, 127, -128]),
        'cc_type': rng.choice(['Master', 'Slave', 'Disabled']),
        'cc_token': pick_str(rng, CHO_ALPHA, ['', 'glados.line01', 'with space', 'q"t', 'b\\s'], 0, 6),
        'supp': rng.random() < 0.3, 'comb': rng.random() < 0.3, 'gender': rng.random() < 0.3,
    }
    if ev['cc_type'] == 'Disabled':
        ev['comb'] = False
    if not ev['ramp']['ramp'] and mode == 'text':
        # the event ramp's edges are only written together with samples
        ev['ramp']['left?'] = ev['ramp']['right?'] = None
    if rng.random() < flex_p:
        for _ in range(rng.choice([1, 2])):
            ev['flex'].append({
                'name': pick_str(rng, CHO_ALPHA, ['lid_raiser', 'jaw drop'], 1, 6), 'active': rng.random() < 0.7,
                'min': f32(rng.choice([0.0, 0.0, rng.uniform(-1, 0)])), 'max': f32(rng.choice([1.0, 1.0, rng.uniform(0, 2)])),
                'mag': _samples(rng, mode, True), 'dir?': _samples(rng, mode, True) if rng.random() < 0.4 else None,
                'left?': _edge(rng, mode), 'right?': _edge(rng, mode),          # text only (None in binary mode)
            })
        if mode == 'text' and rng.random() < 0.4:
            ev['def_curve'] = _curve_type(rng)      # written as defaultcurvetype=... on the flexanimations line; samples of that type omit it
            for f in ev['flex']:
                for smp in f['mag'] + (f['dir?'] or []):
                    if rng.random() < 0.5:
                        smp['curve'] = list(ev['def_curve'])        # a sample of exactly the default type: written without a type
    return ev


def scene_gen(rng: random.Random, mode: str, flex_p: float = 0.15, bag: bool = True) -> dict:
    if bag:
        new_bag(rng)

    def evs(nmax):
        return [_event(rng, mode, flex_p) for _ in range(rng.choice([0, 1, 1, 2, nmax]))]
    actors = []
    for _ in range(rng.choice([0, 1, 1, 2])):
        actors.append({
            'name': pick_str(rng, CHO_ALPHA, ['an_Actor', '!target1', 'a "q"'], 1, 6), 'active': rng.random() < 0.8,
            'faceposer': pick_str(rng, CHO_ALPHA, ['models\\gman.mdl', 'models/alyx.mdl'], 1, 8) if mode == 'text' and rng.random() < 0.3 else '',
            'channels': [{'name': pick_str(rng, CHO_ALPHA, ['first_channel', 'audio'], 1, 6), 'active': rng.random() < 0.8, 'events': evs(3)}
                         for _ in range(rng.choice([0, 1, 2]))],
        })
    sc: dict = {'mode': mode, 'events': evs(3), 'actors': actors, 'ramp': _curve(rng, mode), 'ignore_phonemes': rng.random() < 0.3,
                'text_crc': 0, 'map_name': '', 'fps': 60, 'snap': False, 'scale': []}
    if mode == 'text':
        sc['map_name'] = rng.choice(['', 'maps\\d1_trainstation_01.vmf', pick_str(rng, CHO_ALPHA, [], 1, 8)])
        sc['fps'] = rng.choice([60, 10, 240, 30, rng.randint(10, 240)])
        sc['snap'] = rng.random() < 0.3
        sc['scale'] = [[k, pick_str(rng, CHO_ALPHA, ['100'], 1, 4)] for k in rng.sample(['CChoreoView', 'ExpressionTool', 'GestureTool', 'RampTool', 'SceneRampTool', 'my "tool"'], rng.choice([0, 2, 5]))]
    else:
        sc['text_crc'] = rng.choice([0, 1, 0xFFFFFFFF, rng.getrandbits(32)])
    return sc


def _ct(c: list):
    from srctools.choreo import CurveType, Interpolation
    return CurveType(Interpolation(c[0] % 16), Interpolation(c[1] % 16))


def _mk_samples(l: list) -> list:
    from srctools.choreo import ExpressionSample
    return [ExpressionSample(s['time'], s['value'], _ct(s['curve'])) for s in l]


def _mk_edge(e: Any):
    from srctools.choreo import CurveEdge
    if e is None:
        return CurveEdge(False)
    return CurveEdge(True, e['zero'], _ct(e['curve']))


def _mk_curve(c: dict):
    from srctools.choreo import Curve
    return Curve(_mk_samples(c['ramp']), _mk_edge(c['left?']), _mk_edge(c['right?']))


def _clamp01(x: float) -> float:
    return min(1.0, max(0.0, x))


def _mk_event(e: dict):
    from srctools import choreo as C
    common = dict(
        name=e['name'], flags=C.EventFlags(e['flags'] % 64), parameters=tuple((e['params'] + ['', '', ''])[:3]),
        start_time=e['start'], end_time=e['end'], ramp=_mk_curve(e['ramp']),
        tag_name=e['tag?'][0] if e['tag?'] else None, tag_wav_name=e['tag?'][1] if e['tag?'] else None,
        dist_to_targ=e['dist'],
        relative_tags=[C.Tag(t[0], _clamp01(t[1])) for t in e['rel_tags']],
        timing_tags=[C.TimingTag(t[0], _clamp01(t[1]), bool(t[2]) if len(t) > 2 else False) for t in e['timing_tags']],
        absolute_playback_tags=[C.AbsoluteTag(t[0], _clamp01(t[1])) for t in e['abs_play']],
        absolute_shifted_tags=[C.AbsoluteTag(t[0], _clamp01(t[1])) for t in e['abs_shift']],
        flex_anim_tracks=[C.FlexAnimTrack(name=f['name'], active=f['active'], min=f['min'], max=f['max'], mag_track=_mk_samples(f['mag']),
                                          dir_track=_mk_samples(f['dir?']) if f['dir?'] is not None else None,
                                          left=_mk_edge(f.get('left?')), right=_mk_edge(f.get('right?'))) for f in e['flex']],
        default_curve_type=_ct(e.get('def_curve') or [0, 0]),
        pitch=max(-100, min(100, e['pitch'])), yaw=max(-100, min(100, e['yaw'])),
    )
    k = e['kind']
    if k == 'gesture':
        return C.GestureEvent(gesture_sequence_duration=e['gest_dur'], **common)
    if k == 'loop':
        return C.LoopEvent(loop_count=max(-128, min(127, e['loop_count'])), **common)
    if k == 'speak':
        return C.SpeakEvent(caption_type=C.CaptionType[e['cc_type']], cc_token=e['cc_token'], suppress_caption_attenuation=e['supp'],
                            use_combined_file=e['comb'] and e['cc_type'] != 'Disabled', use_gender_token=e['gender'], **common)
    return C.Event(type=C.EventType[e['type']], **common)


def scene_build(spec: dict):
    from srctools import choreo as C
    return C.Scene(
        events=[_mk_event(e) for e in spec['events']],
        actors=[C.Actor(a['name'], a['active'], [C.Channel(c['name'], c['active'], [_mk_event(e) for e in c['events']]) for c in a['channels']],
                        a['faceposer']) for a in spec['actors']],
        ramp=_mk_curve(spec['ramp']), ignore_phonemes=spec['ignore_phonemes'], text_crc=spec['text_crc'] % 2 ** 32,
        map_name=spec['map_name'], fps=max(10, min(240, spec['fps'])), use_frame_snap=spec['snap'],
        scale_settings={k: v for k, v in spec['scale']},
    )


def scene_text_write(sc) -> str:
    f = io.StringIO()
    sc.export_text(f)
    return f.getvalue()


def scene_text_read(text: str):
    from srctools.choreo import Scene
    from srctools.tokenizer import Tokenizer
    return Scene.parse_text(Tokenizer(text))


def scene_bin_write(sc) -> bytes:
    """A self-contained file for the binary scene: the string pool (json) then the BVCD block, as tests/test_choreo does."""
    import json
    from srctools import binformat
    pool: list[str] = []
    data = sc.export_binary(binformat.find_or_insert(pool, lambda x: x))
    head = json.dumps(pool).encode('utf8')
    return struct.pack('<I', len(head)) + head + data


def scene_bin_read(blob: bytes):
    import json
    from srctools.choreo import Scene
    [n] = struct.unpack_from('<I', blob)
    pool = json.loads(blob[4:4 + n].decode('utf8'))
    return Scene.parse_binary(io.BytesIO(blob[4 + n:]), pool)


def scene_canon(sc) -> Any:
    return canon_any(sc)


# ------------------------------------------------------------------------------------------------ scenes.image
# Entries are made with Entry.from_scene(filename, scene) from binary-mode scenes with non-negative times; file names
# ASCII with distinct checksums; container version 2 or 3 (version 2 has no last-speak field: the reader substitutes
# the duration).  The scene file name is not stored (only its CRC).

def image_gen(rng: random.Random) -> dict:
    entries = []
    names: set[str] = set()
    new_bag(rng)        # one bag for the whole image: the scenes share one string pool
    for _ in range(rng.choice([0, 1, 2, 3, 5])):
        nm = rng.choice(['scenes/', 'SCENES\\', '', 'scenes/npc/']) + rstr(rng, SAFE_WORD, 1, 8) + '.vcd'
        if nm.lower() in names:
            continue
        names.add(nm.lower())
        entries.append({'filename': nm, 'scene': scene_gen(rng, 'binary', flex_p=0.1, bag=False)})
    return {'version': rng.choice([2, 3]), 'entries': entries}


def image_build(spec: dict):
    from srctools.choreo import Entry
    ents = []
    seen: set[int] = set()
    for e in spec['entries']:
        ent = Entry.from_scene(e['filename'] or 'x.vcd', scene_build(e['scene']))
        if ent.checksum in seen:      # an image is a dict keyed by checksum: equal checksums are one entry
            continue
        seen.add(ent.checksum)
        ents.append(ent)
    return spec['version'] if spec['version'] in (2, 3) else 3, ents


def image_write(obj) -> bytes:
    from srctools.choreo import save_scenes_image_sync
    version, entries = obj
    f = io.BytesIO()
    save_scenes_image_sync(f, entries, version=version)
    return f.getvalue()


def image_read(data: bytes):
    from srctools.choreo import parse_scenes_image
    [version] = struct.unpack_from('<i', data, 4)
    img = parse_scenes_image(io.BytesIO(data))
    return version, list(img.values())


def image_canon(obj) -> Any:
    version, entries = obj
    out = []
    for e in sorted(entries, key=lambda e: e.checksum):
        out.append({'crc': e.checksum, 'duration_ms': e.duration_ms,
                    'last_speak_ms': e.last_speak_ms if version == 3 else e.duration_ms,
                    'sounds': list(e.sounds), 'scene': scene_canon(e.data)})
    return {'version': version, 'entries': out}


def image_table_crcs(data: bytes) -> list[int]:
    """The CRC column of the entry table as stored (independent of the reader)."""
    magic, version, n, nstr, off = struct.unpack_from('<4s4i', data)
    return [struct.unpack_from('<I', data, off + 16 * i)[0] for i in range(n)]


# ------------------------------------------------------------------------------------------------ registry

class Fmt:
    def __init__(self, name, gen, build, write, read, canon) -> None:
        self.name, self.gen, self.build, self.write, self.read, self.canon = name, gen, build, write, read, canon


FORMATS = {
    'cmdseq': Fmt('cmdseq', cmdseq_gen, cmdseq_build, cmdseq_write, cmdseq_read, cmdseq_canon),
    'smd': Fmt('smd', smd_gen, smd_build, smd_write, smd_read, smd_canon),
    'sndscript': Fmt('sndscript', snd_gen, snd_build, snd_write, snd_read, snd_canon),
    'vmt': Fmt('vmt', vmt_gen, vmt_build, vmt_write, vmt_read, vmt_canon),
    'pcf': Fmt('pcf', pcf_gen, pcf_build, pcf_write, pcf_read, pcf_canon),
    'vcd-text': Fmt('vcd-text', lambda r: scene_gen(r, 'text'), scene_build, scene_text_write, scene_text_read, scene_canon),
    'vcd-binary': Fmt('vcd-binary', lambda r: scene_gen(r, 'binary'), scene_build, scene_bin_write, scene_bin_read, scene_canon),
    'scenes-image': Fmt('scenes-image', image_gen, image_build, image_write, image_read, image_canon),
}


class ImplTimeout(Exception):
    """A call into the implementation did not return within its time limit (treated as a failing input, never as slowness of the
    check: the limit is more than a hundred times what the slowest call takes on a loaded machine)."""


IMPL_LIMIT_S = 60.0
IMPL_LIMIT_AFTER_FIRST_S = 6.0      # once a call has hung, the next hanging inputs cost less
TIMEOUTS = [0]                       # number of ImplTimeout raised so far in this process


def limited(fn: Callable, *args: Any, seconds: float | None = None) -> Any:
    """fn(*args) under an interval timer (main thread only; elsewhere it is a plain call): a fault that makes a writer or reader
    loop forever (`while todo:` without progress, a tokenizer that does not advance) ends as ImplTimeout instead of a hung check."""
    import signal
    import threading
    import time
    if threading.current_thread() is not threading.main_thread():
        return fn(*args)
    if seconds is None:
        seconds = IMPL_LIMIT_S if TIMEOUTS[0] == 0 else IMPL_LIMIT_AFTER_FIRST_S

    def on_alarm(signum, frame):
        TIMEOUTS[0] += 1
        raise ImplTimeout(f'{getattr(fn, "__name__", "call")} did not return within {seconds:.0f} s')
    old = signal.signal(signal.SIGALRM, on_alarm)
    outer_left, _ = signal.setitimer(signal.ITIMER_REAL, seconds)      # nests: an outer limit is re-armed with what is left of it
    t0 = time.monotonic()
    try:
        return fn(*args)
    finally:
        signal.setitimer(signal.ITIMER_REAL, 0)
        signal.signal(signal.SIGALRM, old)
        if outer_left > 0:
            signal.setitimer(signal.ITIMER_REAL, max(0.05, outer_left - (time.monotonic() - t0)))


def roundtrip(fmt: Fmt, spec: Any) -> tuple[str, str, Any] | None:
    """Run write -> read -> compare -> write again on one spec.  Returns None if the property holds, otherwise
    (stage, detail, info) where stage is one of build-error / write-error / read-error / value-diff / rewrite-error /
    regen-diff and detail names the exception type or the first differing field."""
    try:
        obj = limited(fmt.build, spec)
        want = limited(fmt.canon, obj)
    except ImplTimeout as e:
        return ('write-error', 'ImplTimeout', 'building the value: ' + str(e))
    except Exception as e:   # the spec is outside what the constructors accept: not a finding
        return ('build-error', type(e).__name__, repr(e)[:300])
    try:
        out1 = limited(fmt.write, obj)
    except Exception as e:
        return ('write-error', type(e).__name__, repr(e)[:300])
    try:
        obj2 = limited(fmt.read, out1)
        got = limited(fmt.canon, obj2)
    except Exception as e:
        return ('read-error', type(e).__name__, repr(e)[:300])
    d = diff_path(want, got)
    if d is not None:
        return ('value-diff', d, {'first_difference_at': d})
    try:
        out2 = limited(fmt.write, obj2)
    except Exception as e:
        return ('rewrite-error', type(e).__name__, repr(e)[:300])
    if out1 != out2:
        n = next((i for i, (a, b) in enumerate(zip(out1, out2)) if a != b), min(len(out1), len(out2)))
        return ('regen-diff', 'bytes', {'first_difference_offset': n, 'first': repr(out1[max(0, n - 30):n + 30]), 'second': repr(out2[max(0, n - 30):n + 30])})
    return None


def brace_balance(fmt: Fmt, spec: Any) -> tuple[str, str, Any] | None:
    """Text formats: the written file must be well-bracketed at token level (braces inside quoted strings do not count) -- checked with
    the tokenizer alone, independently of the format's parser (which may stop early, or not implement a block)."""
    from srctools.tokenizer import Tokenizer, Token, TokenSyntaxError
    try:
        text = limited(fmt.write, limited(fmt.build, spec))
    except Exception:
        return None                 # reported by the round trip
    if not isinstance(text, str):
        return None
    depth = 0
    try:
        for tok, _ in Tokenizer(text, allow_escapes=fmt.name != 'vmt'):
            if tok is Token.BRACE_OPEN:
                depth += 1
            elif tok is Token.BRACE_CLOSE:
                depth -= 1
                if depth < 0:
                    return ('unbalanced-braces', 'closed-too-often', {'written': text[-400:]})
    except TokenSyntaxError:
        return None                 # reported by the round trip
    if depth != 0:
        return ('unbalanced-braces', 'never-closed', {'open_blocks_at_end_of_file': depth, 'written': text[-400:]})
    return None


# ------------------------------------------------------------------------------------------------ flexanimations (text scenes)
# Known finding of C20: Event.export_text writes the `flexanimations` block, Scene.parse_text raises NotImplementedError on it.  So the
# round trip of a text scene with a flex track ends there.  Everything else is still checked: (1) the scene WITHOUT its flex tracks
# goes through the ordinary round trip (search_format), (2) the file of the full scene, with every flexanimations block cut out at
# token level, must be token for token the file of the stripped scene (the block disturbs nothing around it), and (3) every block
# is read by the check's own reader below (written from the grammar the writer emits: options after the keyword, per track the
# name, options, one or two sample blocks; numbers by float(), curve names by CurveType.parse_text) and must give the tracks and the
# default curve type of its event: the written text determines the value, which is the writer's half of the property.

def scene_spec_events(spec: dict) -> list[dict]:
    """event specs in the order Scene.export_text writes them"""
    return list(spec.get('events', [])) + [e for a in spec.get('actors', []) for c in a['channels'] for e in c['events']]


def has_flex(spec: Any) -> bool:
    return isinstance(spec, dict) and any(e.get('flex') for e in scene_spec_events(spec))


def strip_flex(spec: dict) -> dict:
    import copy
    out = copy.deepcopy(spec)
    for e in scene_spec_events(out):
        e['flex'] = []
        e.pop('def_curve', None)        # without tracks the line carrying the default curve type is not written
    return out


def _collapse_newlines(toks: list) -> list:
    from srctools.tokenizer import Token
    out: list = []
    for t in toks:
        if t[0] is Token.NEWLINE and out and out[-1][0] is Token.NEWLINE:
            continue
        out.append(t)
    return out


def read_flex_block(toks: list, i: int) -> tuple[Any, list, int]:
    """toks[i] is the keyword `flexanimations` at the start of a line.  Returns (default curve type or None, tracks, index after the
    closing brace); raises ValueError where the text is not of the shape the writer is meant to produce."""
    from srctools import choreo as C
    from srctools.tokenizer import Token

    def need(kind, what):
        nonlocal i
        if i >= len(toks) or toks[i][0] is not kind:
            raise ValueError(f'{what} expected at token {i}, got {toks[i] if i < len(toks) else "end of file"}')
        i += 1
        return toks[i - 1][1]

    def skip_nl():
        nonlocal i
        while i < len(toks) and toks[i][0] is Token.NEWLINE:
            i += 1

    def samples(default):
        nonlocal i
        skip_nl()
        need(Token.BRACE_OPEN, 'sample block')
        out = []
        while True:
            skip_nl()
            if i < len(toks) and toks[i][0] is Token.BRACE_CLOSE:
                i += 1
                return out
            t, v = float(need(Token.STRING, 'sample time')), float(need(Token.STRING, 'sample value'))
            if i < len(toks) and toks[i][0] is Token.STRING:
                out.append(C.ExpressionSample(t, v, C.CurveType.parse_text(need(Token.STRING, 'curve'))))
            else:
                need(Token.NEWLINE, 'end of the sample line')
                out.append(C.ExpressionSample(t, v, default))

    def edge():
        curve = C.CurveType.parse_text(need(Token.STRING, 'edge curve'))
        return C.CurveEdge(True, float(need(Token.STRING, 'edge zero position')), curve)
    i += 1
    default = None
    while i < len(toks) and toks[i][0] is not Token.NEWLINE:
        opt = need(Token.STRING, 'option of flexanimations').casefold()
        if opt == 'defaultcurvetype':
            need(Token.EQUALS, '=')
            default = C.CurveType.parse_text(need(Token.STRING, 'default curve type'))
        elif opt != 'samples_use_time':
            raise ValueError(f'unknown option {opt!r} after flexanimations')
    skip_nl()
    need(Token.BRACE_OPEN, 'block of tracks')
    tracks = []
    while True:
        skip_nl()
        if i < len(toks) and toks[i][0] is Token.BRACE_CLOSE:
            return default, tracks, i + 1
        name = need(Token.STRING, 'track name')
        kw: dict = dict(active=True, min=0.0, max=1.0, left=C.CurveEdge(False), right=C.CurveEdge(False))
        combo = False
        while i < len(toks) and toks[i][0] is Token.STRING:
            opt = need(Token.STRING, 'track option').casefold()
            if opt == 'disabled':
                kw['active'] = False
            elif opt == 'combo':
                combo = True
            elif opt == 'range':
                kw['min'], kw['max'] = float(need(Token.STRING, 'range minimum')), float(need(Token.STRING, 'range maximum'))
            elif opt == 'leftedge':
                kw['left'] = edge()
            elif opt == 'rightedge':
                kw['right'] = edge()
            else:
                raise ValueError(f'unknown track option {opt!r}')
        cur = default if default is not None else C.CURVE_DEFAULT
        mag = samples(cur)
        tracks.append(C.FlexAnimTrack(name=name, mag_track=mag, dir_track=samples(cur) if combo else None, **kw))


def flex_oracle(fmt: 'Fmt', spec: Any) -> tuple[str, str, Any] | None:
    """Text scenes with flex tracks (see the comment above): None if the flexanimations blocks of the written file give back the
    tracks of their events and the rest of the file is the file of the scene without flex tracks."""
    from srctools.tokenizer import Tokenizer, Token
    from srctools import choreo as C
    try:
        obj = limited(fmt.build, spec)
        text = limited(fmt.write, obj)
        bare = limited(fmt.write, limited(fmt.build, strip_flex(spec)))
        toks = limited(lambda: list(Tokenizer(text)))
        want_rest = limited(lambda: list(Tokenizer(bare)))
    except Exception:
        return None                 # reported by the round trip / the brace oracle
    events = [e for e in obj.iter_events() if e.flex_anim_tracks]
    rest: list = []
    blocks: list = []
    i = 0
    while i < len(toks):
        t = toks[i]
        if t[0] is Token.STRING and t[1].casefold() == 'flexanimations' and i > 0 and toks[i - 1][0] is Token.NEWLINE:
            try:
                default, tracks, i = read_flex_block(toks, i)
            except (ValueError, KeyError) as e:
                return ('flex-block', 'not-the-grammar-of-the-block', {'error': repr(e)[:300], 'written': text[:1500]})
            blocks.append((default, tracks))
            continue
        rest.append(t)
        i += 1
    a, b = _collapse_newlines(rest), _collapse_newlines(want_rest)
    if a != b:
        n = next((k for k, (x, y) in enumerate(zip(a, b)) if x != y), min(len(a), len(b)))
        return ('flex-block', 'changes-the-rest-of-the-file', {'first_differing_token': n, 'with_block': repr(a[max(0, n - 4):n + 4]),
                                                               'without_flex_tracks': repr(b[max(0, n - 4):n + 4])})
    if len(blocks) != len(events):
        return ('flex-block', 'number-of-blocks', {'blocks_in_file': len(blocks), 'events_with_tracks': len(events)})
    for k, ((default, tracks), ev) in enumerate(zip(blocks, events)):
        got = {'default_curve_type': canon_any(default if default is not None else C.CURVE_DEFAULT), 'tracks': canon_any(tracks)}
        want = {'default_curve_type': canon_any(ev.default_curve_type), 'tracks': canon_any(ev.flex_anim_tracks)}
        d = diff_path(want, got)
        if d is not None:
            return ('flex-block', 'value-diff' + d, {'block': k, 'first_difference_at': d})
    return None


# ------------------------------------------------------------------------------------------------ observer effect
# A writer must not depend on whether somebody LOOKED at the value before: lazily created attributes (Sound.stack_start stores an
# empty block on first read, Entry.data parses the blob on first read), caches, repr().  `observe` reads every property of every
# srctools object reachable from a value (and calls repr / bool / len on it); `observer_check` compares what is written with and
# without that, for a freshly built value and for the value read back from the first output, and writes the same object twice.

def _children(o: Any) -> list:
    if isinstance(o, (list, tuple, set, frozenset)):
        return list(o)
    if isinstance(o, dict):
        return list(o.values())
    if type(o).__module__.split('.')[0] != 'srctools' or isinstance(o, type):
        return []
    out = []
    names: list[str] = []
    for k in type(o).__mro__:
        sl = k.__dict__.get('__slots__', ())
        names += [sl] if isinstance(sl, str) else list(sl)
    names += list(getattr(o, '__dict__', {}))
    for n in names:
        try:
            out.append(object.__getattribute__(o, n))
        except AttributeError:
            pass
    return out


def reachable(o: Any, limit: int = 4000) -> list:
    """srctools objects reachable from a value, in a deterministic order."""
    seen: set[int] = set()
    out = []
    todo = [o]
    while todo and len(seen) < limit:
        x = todo.pop()
        if id(x) in seen or isinstance(x, (str, bytes, int, float, bool, type(None))):
            continue
        seen.add(id(x))
        if type(x).__module__.split('.')[0] == 'srctools' and not isinstance(x, type):
            out.append(x)
        todo.extend(reversed(_children(x)))
    return out


def observable_names(o: Any) -> list[str]:
    import functools
    import enum
    if isinstance(o, enum.Enum):
        return []
    names = []
    for n in dir(type(o)):
        if n.startswith('__'):
            continue
        try:
            d = inspect_static(type(o), n)
        except AttributeError:
            continue
        if isinstance(d, (property, functools.cached_property)):
            names.append(n)
    for n in ('__repr__', '__bool__', '__len__'):
        if getattr(type(o), n, None) is not None and getattr(type(o), n) is not getattr(object, n, None):
            names.append(n)
    return names


def inspect_static(cls: type, name: str) -> Any:
    import inspect
    return inspect.getattr_static(cls, name)


def observe(obj: Any, only: tuple[str, str] | None = None) -> list[tuple[str, str]]:
    """Read every property (and repr / bool / len) of every reachable srctools object; exceptions of a getter are ignored (the
    observer is a bystander).  Returns the (class, name) pairs read.  only = restrict to one pair."""
    done = []
    for o in reachable(obj):
        for n in observable_names(o):
            key = (type(o).__name__, n)
            if only is not None and key != only:
                continue
            try:
                if n == '__repr__':
                    repr(o)
                elif n == '__bool__':
                    bool(o)
                elif n == '__len__':
                    len(o)
                else:
                    getattr(o, n)
            except Exception:
                pass
            if key not in done:
                done.append(key)
    return done


def observer_check(fmt: 'Fmt', spec: Any) -> tuple[str, str, Any] | None:
    """None if looking at the value never changes what is written; else (stage, detail, info):
    observer-effect:<Class.prop>:built / :read-back, or same-object-rewrite-diff."""
    if TIMEOUTS[0] >= 3:
        return None                       # a writer / reader hangs: reported by the plain round trip, do not pile up waiting time
    try:
        a = limited(fmt.build, spec)
        out_a = limited(fmt.write, a)
    except Exception:
        return None                       # the plain round trip reports these
    try:
        if fmt.write(a) != out_a:
            return ('same-object-rewrite-diff', 'built', {'what': 'writing the same object twice gives two different files'})
    except Exception as e:
        return ('same-object-rewrite-error', type(e).__name__, repr(e)[:300])

    def culprit(make) -> str:
        pairs = observe(make())
        for p in pairs:
            o = make()
            observe(o, only=p)
            try:
                if fmt.write(o) != out_a:
                    return f'{p[0]}.{p[1]}'
            except Exception:
                return f'{p[0]}.{p[1]}'
        return 'several-reads'
    for stage, make in (('built', lambda: fmt.build(spec)), ('read-back', lambda: fmt.read(out_a))):
        try:
            b = make()
        except Exception:
            return None
        observe(b)
        try:
            out_b = fmt.write(b)
        except Exception as e:
            return ('observer-effect', f'{culprit(make)}:{stage}', {'what': f'after reading its properties the value cannot be written: {e!r}'[:300]})
        if out_b != out_a:
            n = next((i for i, (x, y) in enumerate(zip(out_a, out_b)) if x != y), min(len(out_a), len(out_b)))
            return ('observer-effect', f'{culprit(make)}:{stage}',
                    {'what': 'the written file differs when the properties of the value were read first', 'first_difference_offset': n,
                     'untouched': repr(out_a[max(0, n - 40):n + 60]), 'looked_at': repr(out_b[max(0, n - 40):n + 60])})
    return None
