"""setup_cmd: regenerate every Gen file from /repo/src, then a clean full .vo build of the Rocq development."""
from __future__ import annotations

import importlib
import json
import subprocess
import sys
import time

from harness.common import GEN, ROCQ, VERIF, TranslateError, discover_translators, ensure_makefile, import_guard


def main() -> int:
    import_guard()
    t0 = time.time()
    GEN.mkdir(exist_ok=True)
    rc = 0
    for name, fn in sorted(discover_translators().items()):
        try:
            text, _side = fn()
            p = GEN / f'{name}.v'
            if not p.exists() or p.read_text() != text:
                p.write_text(text)
            print(f'translated {name}')
        except TranslateError as e:
            print(f'TRANSLATOR FAILED CLOSED {name}: {e}')
            rc = 1
    ensure_makefile()
    if '--clean' in sys.argv:
        subprocess.run(['make', '-C', str(ROCQ), 'clean'], capture_output=True)
    r = subprocess.run(['make', '-C', str(ROCQ), '-j', '16', '-k'], capture_output=True, text=True)
    print(r.stdout[-3000:])
    if r.returncode != 0:
        print(r.stderr[-6000:])
        rc = 1
    print(f'setup done in {time.time() - t0:.0f}s rc={rc}')
    return rc


if __name__ == '__main__':
    sys.exit(main())
