"""Helpers shared by checks/c02.py and checks/c03.py (text layer): running the real Tokenizer into the canonical
number encoding of rocq/Text/TokEnum.v, the 63-bit checksum mirrored from that file, parallel coqc evaluation and
parallel implementation runs."""
from __future__ import annotations

import contextlib
import itertools
import multiprocessing as mp
import os
import re
import resource  # noqa: F401 - imported HERE so that harness.common._unlimit_stack (a preexec_fn, run in a forked child of a threaded process) finds it in sys.modules
import signal
import subprocess
import threading
import time
from concurrent.futures import ThreadPoolExecutor
from typing import Any, Iterable, Sequence

from harness.common import ROCQ, Ck, _split_evals, _unlimit_stack

IMPORTS = ['Coq.Lists.List', 'Coq.NArith.NArith', 'SV.Text.Str', 'SV.Text.Prog', 'SV.Text.Escape', 'SV.Text.EscapeProofs',
           'SV.Text.Tokenizer', 'SV.Text.TokGen', 'SV.Text.TokEnum']
PRE = 'Import ListNotations. Open Scope N_scope.\n'

OPTION_NAMES = ['string_bracket', 'string_parens', 'allow_escapes', 'allow_star_comments', 'preserve_comments',
                'colon_operator', 'plus_operator']      # bit i of an option vector = OPTION_NAMES[i] (TokEnum.opts_of_bits)
M63 = (1 << 63) - 1
HP = 1099511628211
H0 = 1469598103934665603
HF = 0x3F58476D1CE4E5B9

# Error sites of Text/Tokenizer.v <- message texts of tokenizer.py (matched loosely; an unknown message gets id 99
# and therefore disagrees with the model).
_ERR = [
    (1, re.compile(r'^Unterminated string!$')),
    (2, re.compile(r'^No character to escape!$')),
    (3, re.compile(r'^Reached end of line without closing "\]"!$')),
    (4, re.compile(r'^Cannot nest \[\] brackets!$')),
    (5, re.compile(r'^Unterminated property flag!', re.S)),
    (6, re.compile(r'^Cannot nest \(\) brackets!$')),
    (7, re.compile(r'^Unterminated parentheses!$')),
    (8, re.compile(r'^No open \[\] to close with "\]"!$')),
    (9, re.compile(r'^No open \(\) to close with "\)"!$')),
    (10, re.compile(r'^Unexpected character "(.*)"!$', re.S)),
    (11, re.compile(r'^Unclosed /\* comment \(starting on line (\d+)\)!$')),
    (12, re.compile(r'^/\*\*/-style comments are not allowed!$')),
    (13, re.compile(r'^Single slash found, instead of two for a comment \(// or /\* \*/\)!$')),
    (14, re.compile(r'^Single slash found, instead of two for a comment \(//\)!$')),
]
ERR_NAMES = {1: 'unterminated-string', 2: 'no-char-to-escape', 3: 'eol-in-bracket', 4: 'nested-bracket', 5: 'unterminated-flag',
             6: 'nested-paren', 7: 'unterminated-paren', 8: 'stray-close-bracket', 9: 'stray-close-paren',
             10: 'unexpected-char', 11: 'unclosed-star-comment', 12: 'star-comment-not-allowed',
             13: 'single-slash(star)', 14: 'single-slash', 99: 'unknown-message'}


def err_code(mess: str) -> tuple[int, list[int]]:
    for i, rx in _ERR:
        m = rx.match(mess)
        if m:
            if i == 10:
                return i, [ord(c) for c in m.group(1)]
            if i == 11:
                return i, [int(m.group(1))]
            return i, []
    return 99, []


_OPTS = [{n: bool(b >> i & 1) for i, n in enumerate(OPTION_NAMES)} for b in range(128)]
_TK: list = []


def opts_of_bits(bits: int) -> dict[str, bool]:
    return _OPTS[bits]


def _tk():
    if not _TK:
        from srctools.tokenizer import Tokenizer, TokenSyntaxError
        _TK.extend([Tokenizer, TokenSyntaxError])
    return _TK


def impl_results(data: Any, bits: int, ncalls: int, via: str = 'ctor') -> list[int]:
    """Run the real Tokenizer `ncalls` times (or until it raises); encode as TokEnum.enc_results does.
    A foreign exception (anything that is not the tokenizer's TokenSyntaxError) is encoded as [4, ...] and never
    matches the model."""
    Tokenizer, TokenSyntaxError = _tk()
    try:
        with time_limit():
            return _impl_results(Tokenizer, TokenSyntaxError, data, bits, ncalls, via)
    except ImplTimeout:
        note_hang('Tokenizer', (data if isinstance(data, str) else '<chunks>', _OPTS[bits], ncalls, via))
        return list(HANG)


ALL_OPTS = 127


def make_tokenizer(Tokenizer, data: Any, bits: int, via: str = 'ctor', filename: Any = None):
    """A tokenizer with the option vector `bits`.  via='ctor': options passed to the constructor; via='attr': constructed with
    EVERY option the other way round, then each option set through its public (documented, settable) attribute - an option that
    is cached at construction time (a private attribute derived from it in __init__) then behaves as its opposite."""
    if via == 'ctor':
        return Tokenizer(data, filename, **_OPTS[bits])
    tk = Tokenizer(data, filename, **_OPTS[bits ^ ALL_OPTS])
    for k, v in _OPTS[bits].items():
        setattr(tk, k, v)
    return tk


def _impl_results(Tokenizer, TokenSyntaxError, data: Any, bits: int, ncalls: int, via: str = 'ctor') -> list[int]:
    tk = make_tokenizer(Tokenizer, data, bits, via)
    out: list[int] = []
    for _ in range(ncalls):
        try:
            t, v = tk()
        except TokenSyntaxError as e:
            i, args = err_code(e.mess)
            ln = e.line_num if isinstance(e.line_num, int) else 0
            out += [2, i, ln, len(args), *args]
            if type(e) is not TokenSyntaxError or ln != tk.line_num:
                out += [4, 1]
            break
        except BaseException as e:  # noqa: BLE001 - the property says nothing else may escape
            out += [4, 0, *map(ord, type(e).__name__)]
            break
        out += [1, t.value, tk.line_num, int(tk._last_was_cr), len(v), *map(ord, v)]
    return out


def tok_case(bits: int, s: str, data: Any = None) -> list[int]:
    return [bits, len(s), *map(ord, s), *impl_results(s if data is None else data, bits, len(s) + 2)]


def hash_list(xs: Iterable[int]) -> int:
    h = H0
    for x in xs:
        h = (h * HP + x + 1) & M63
    h1 = ((h ^ (h >> 29)) * HF) & M63
    return h1 ^ (h1 >> 32)


def strings_upto(alpha: Sequence[str], n: int) -> Iterable[str]:
    for k in range(n + 1):
        for t in itertools.product(alpha, repeat=k):
            yield ''.join(t)


def decode_results(xs: list[int]) -> list:
    """Human-readable form of an encoded result list (for replays / samples)."""
    out = []
    i = 0
    while i < len(xs):
        if xs[i] == 1:
            n = xs[i + 4]
            out.append({'tok': xs[i + 1], 'line': xs[i + 2], 'last_was_cr': xs[i + 3], 'value': ''.join(map(chr, xs[i + 5:i + 5 + n]))})
            i += 5 + n
        elif xs[i] == 2:
            n = xs[i + 3]
            out.append({'error': ERR_NAMES.get(xs[i + 1], xs[i + 1]), 'line': xs[i + 2], 'args': xs[i + 4:i + 4 + n]})
            i += 4 + n
        elif xs[i] == 3:
            out.append('MODEL-OUT-OF-FUEL')
            i += 1
        else:
            out.append({'foreign': xs[i:]})
            break
    return out



# ------------------------------------------------------------------------------------------------ robustness of the check itself
class Inconclusive(RuntimeError):
    """The checking machine failed (fork / thread / memory / a coqc process killed or timed out), not the source under test.
    Propagates out of run(): the harness prints INTERNAL-ERROR (exit 2, "nothing is claimed") - never a VIOLATION."""


class ImplTimeout(BaseException):
    """A call into the implementation did not return within its time limit (BaseException: `except Exception` in the code under
    test must not swallow it)."""


IMPL_LIMIT_S = 2.0             # CPU seconds (ITIMER_PROF): independent of the load of the machine; a call needs < 1 ms of CPU
_LIMIT_ACTIVE = [False]
_STRIKES = [0]


def current_limit() -> float:
    """The limit shrinks once calls have been seen to hang in this process: a fault that makes every other input loop must not turn
    a 30 s stage into hours (3 strikes at 2 s, 17 at 0.2 s, 80 at 0.03 s, then 4 ms of CPU per call - one timer tick, still many
    times what a call on these short texts needs; only reached in a run that has already seen 100 hangs)."""
    n = _STRIKES[0]
    return IMPL_LIMIT_S if n < 3 else IMPL_LIMIT_S / 10 if n < 20 else IMPL_LIMIT_S / 66 if n < 100 else IMPL_LIMIT_S / 500


def _on_prof(signum, frame):
    if _LIMIT_ACTIVE[0]:
        _STRIKES[0] += 1
        raise ImplTimeout()


_HANDLER_PID = [0]


@contextlib.contextmanager
def time_limit(seconds: float | None = None):
    """Bound the CPU time of one call into the implementation (a fault could make it loop). Only in a main thread (signals);
    elsewhere, and inside another time_limit, unbounded (the outer limit applies).  The SIGPROF handler is installed once per
    process; per call only the interval timer is armed and disarmed."""
    if _LIMIT_ACTIVE[0] or threading.current_thread() is not threading.main_thread():
        yield
        return
    if _HANDLER_PID[0] != os.getpid():
        signal.signal(signal.SIGPROF, _on_prof)
        _HANDLER_PID[0] = os.getpid()
    _LIMIT_ACTIVE[0] = True
    signal.setitimer(signal.ITIMER_PROF, seconds if seconds is not None else current_limit())
    try:
        yield
    finally:
        signal.setitimer(signal.ITIMER_PROF, 0)
        _LIMIT_ACTIVE[0] = False


class TooManyHangs(Exception):
    """So many calls into the implementation ran into their time limit that going on is pointless: the check stops and reports
    the first of them as a violation (with what has been found so far)."""
    def __init__(self, fn: str, args_repr: str) -> None:
        super().__init__(fn, args_repr)
        self.fn, self.args_repr = fn, args_repr


HANG_ABORT = 300
_FIRST_HANG: list = []


def note_hang(fn: str, args: Any) -> None:
    if not _FIRST_HANG:
        _FIRST_HANG.append((fn, repr(args)[:600]))
    if _STRIKES[0] >= HANG_ABORT:
        raise TooManyHangs(*_FIRST_HANG[0])


def bounded(on_timeout):
    """Decorator: the call is bounded by time_limit(); when the limit strikes the function returns `on_timeout` (a value that
    never matches the model / is reported as a failing input); after HANG_ABORT strikes in one process TooManyHangs stops the check."""
    import functools

    def deco(fn):
        @functools.wraps(fn)
        def wrapper(*a, **k):
            try:
                with time_limit():
                    return fn(*a, **k)
            except ImplTimeout:
                note_hang(fn.__name__, (a, k))
                return on_timeout
        return wrapper
    return deco


HANG = [4, 9, *map(ord, 'no result within the time limit')]


def stage_bounded(ck: Ck, key: str, fn, *args, seconds: float = 60.0) -> None:
    """A whole oracle stage on small fixed inputs under one CPU-time limit; a timeout is a violation (the stage needs < 1 s)."""
    try:
        with time_limit(seconds):
            fn(*args)
    except ImplTimeout:
        ck.violation(f'hang:{key}', f'{key}: the implementation did not return within {seconds:.0f} s of CPU time on the fixed inputs of this oracle',
                     {'kind': 'hang', 'stage': key})


def _run_coqc(cmd: Sequence[str], cwd, timeout: int, what: str) -> subprocess.CompletedProcess:
    """coqc with retries on failures of the machine: fork/exec errors (EAGAIN, ENOMEM), an exception in the preexec_fn, the
    process killed by a signal (OOM killer).  A timeout or a persistent failure is Inconclusive, never a failed obligation."""
    last = ''
    for attempt in range(3):
        try:
            r = subprocess.run(list(cmd), capture_output=True, text=True, timeout=timeout, cwd=cwd, preexec_fn=_unlimit_stack)
        except subprocess.TimeoutExpired:
            raise Inconclusive(f'{what}: coqc did not finish within {timeout} s (overloaded machine?)') from None
        except (OSError, subprocess.SubprocessError, MemoryError) as e:
            last = repr(e)
            time.sleep(2 * (attempt + 1))
            continue
        if r.returncode < 0:
            last = f'coqc killed by signal {-r.returncode}'
            time.sleep(2 * (attempt + 1))
            continue
        return r
    raise Inconclusive(f'{what}: {last} (3 attempts)')


def harden(ck: Ck) -> None:
    """Route ck.coq_scratch (used by coq_eval / instance_obligations / theorems) through _run_coqc."""
    if getattr(ck, '_hardened', False):
        return
    ck._hardened = True         # type: ignore[attr-defined]
    lock = threading.Lock()

    def coq_scratch(body: str, name: str = 'scratch', timeout: int = 600) -> tuple[int, str]:
        with lock:              # the directory name is derived from the number of entries: two threads must not count at the same time
            d = ck.scratch / f'coq_{name}_{len(os.listdir(ck.scratch))}'
            d.mkdir()
        f = d / f'{name}.v'
        f.write_text(body)
        r = _run_coqc(['coqc', '-Q', str(ROCQ), 'SV', '-Q', str(d), 'Scratch', str(f)], d, timeout, f'coqc {name}')
        return r.returncode, r.stdout + r.stderr
    ck.coq_scratch = coq_scratch        # type: ignore[method-assign]


def guarded(pid: str, body, ck: Ck) -> None:
    """run(ck) of a check: infrastructure failures end as a clearly marked INCONCLUSIVE + the harness's INTERNAL-ERROR."""
    harden(ck)
    del POOL_NOTES[:]
    try:
        body(ck)
        ck.notes.extend(POOL_NOTES)
    except TooManyHangs as e:
        ck.violation(f'hang:{e.fn}', f'more than {HANG_ABORT} calls into the implementation did not return within their CPU-time limit '
                     f'(2 s for the first ones); the check was stopped; first: {e.fn}{e.args_repr}',
                     {'kind': 'hang', 'function': e.fn, 'arguments': e.args_repr})
        ck.explain('instance:')
        ck.explain('correspondence:')
        ck.explain('translate:')
    except Inconclusive as e:
        print(f'INCONCLUSIVE property={pid}: {e} - the checking machine failed, not the source under test; no VIOLATION is claimed, re-run the check')
        raise
    except (BlockingIOError, MemoryError) as e:
        print(f'INCONCLUSIVE property={pid}: {e!r} - resource exhaustion on the checking machine; no VIOLATION is claimed, re-run the check')
        raise


# ------------------------------------------------------------------------------------------------ parallel coqc
def coq_eval_many(ck: Ck, jobs: Sequence[Sequence[str]], name: str, imports: Sequence[str] = IMPORTS, preamble: str = PRE,
                  timeout: int = 800, workers: int = 12) -> list[list[str] | None]:
    """Evaluate several lists of closed expressions with vm_compute, one coqc process per list, in parallel."""
    root = ck.scratch / f'par_{name}_{len(os.listdir(ck.scratch))}'
    root.mkdir()

    def one(k: int) -> list[str] | None:
        d = root / f'j{k}'
        d.mkdir()
        body = ''.join(f'Require Import {i}.\n' for i in imports) + preamble + '\nSet Printing Width 1000000.\nSet Printing Depth 1000000.\n'
        for e in jobs[k]:
            body += f'Eval vm_compute in ({e}).\n'
        f = d / f'{name}.v'
        f.write_text(body)
        r = _run_coqc(['coqc', '-Q', str(ROCQ), 'SV', '-Q', str(d), 'Scratch', str(f)], d, timeout, f'coq_eval_many {name}[{k}]')
        if r.returncode != 0:
            ck.notes.append(f'coq_eval_many {name}[{k}] failed: {(r.stdout + r.stderr)[-800:]}')
            return None
        vals = _split_evals(r.stdout + r.stderr)
        if len(vals) != len(jobs[k]):
            ck.notes.append(f'coq_eval_many {name}[{k}]: expected {len(jobs[k])} values, got {len(vals)}')
            return None
        return vals

    try:
        with ThreadPoolExecutor(max_workers=workers) as ex:
            return list(ex.map(one, range(len(jobs))))
    except RuntimeError as e:            # "can't start new thread": do it one after the other
        if 'thread' not in str(e):
            raise
        ck.notes.append(f'coq_eval_many {name}: {e}; evaluated sequentially')
        return [one(k) for k in range(len(jobs))]


def parse_int63(v: str) -> int:
    v = v.strip()
    v = re.sub(r'%[A-Za-z0-9_]+$', '', v)
    return int(v, 16) if v.startswith('0x') else int(v)


POOL_TIMEOUT_S = 1500
POOL_NOTES: list[str] = []


def pool_map(fn, items: Sequence, workers: int = 14, chunksize: int = 1) -> list:
    """Deterministic parallel map over forked workers (results in input order).  The result does not depend on the pool: if the
    pool cannot be created (fork: EAGAIN / ENOMEM), a worker dies or the map does not finish in time (a forked child of a
    threaded process can inherit a held lock), the items are computed in this process instead."""
    if len(items) <= 1:
        return [fn(x) for x in items]
    try:
        ctx = mp.get_context('fork')
        pool = ctx.Pool(min(workers, len(items)))
    except (OSError, MemoryError, RuntimeError) as e:
        POOL_NOTES.append(f'pool_map: no pool ({e!r}); computed sequentially')
        return [fn(x) for x in items]
    try:
        res = pool.map_async(fn, items, chunksize).get(POOL_TIMEOUT_S)
        pool.close()
        pool.join()
        return res
    except mp.TimeoutError:
        pool.terminate()
        POOL_NOTES.append(f'pool_map: no result after {POOL_TIMEOUT_S} s; computed sequentially')
        return [fn(x) for x in items]
    except (OSError, MemoryError, EOFError, BrokenPipeError) as e:
        pool.terminate()
        POOL_NOTES.append(f'pool_map: pool failed ({e!r}); computed sequentially')
        return [fn(x) for x in items]
    except BaseException:
        pool.terminate()
        raise


def coq_chars(cs: Iterable[int]) -> str:
    return '[' + ';'.join(str(int(c)) for c in cs) + ']%N'


def model_eval(exprs: Sequence[str], timeout: int = 120, imports: Sequence[str] | None = None) -> list[str] | None:
    """Evaluate expressions against the compiled model outside a Ck (used by --replay). None if it cannot be done."""
    import shutil
    import tempfile
    d = tempfile.mkdtemp(prefix='sv_replay_', dir=os.environ.get('VERIF_SCRATCH', '/var/tmp'))
    try:
        body = ''.join(f'Require Import {i}.\n' for i in (imports or IMPORTS)) + PRE + 'Set Printing Width 1000000.\nSet Printing Depth 1000000.\n'
        body += ''.join(f'Eval vm_compute in ({e}).\n' for e in exprs)
        f = os.path.join(d, 'replay.v')
        with open(f, 'w') as fh:
            fh.write(body)
        r = subprocess.run(['coqc', '-Q', str(ROCQ), 'SV', '-Q', d, 'Scratch', f], capture_output=True, text=True, timeout=timeout, cwd=d)
        if r.returncode != 0:
            return None
        vals = _split_evals(r.stdout + r.stderr)
        return vals if len(vals) == len(exprs) else None
    except (OSError, subprocess.TimeoutExpired):
        return None
    finally:
        shutil.rmtree(d, ignore_errors=True)


def theorems_in_background(ck: Ck, props_file: str):
    """`ck.theorems` (one coqc run printing the assumptions of every theorem: single-threaded, 10-15 s of CPU for the lia-heavy
    proofs) started in a thread, so that it overlaps with the instance obligations and the correspondences of the main thread."""
    ex = ThreadPoolExecutor(1)
    return ex, ex.submit(ck.theorems, props_file)


def _reorder(ck: Ck, names_in_order: Sequence[str], after_prefixes: tuple[str, ...] | None) -> None:
    """Move the obligations with the given names (in that order) to one place: directly after the last entry whose name starts with
    one of `after_prefixes`, or (None) to where the first of them stands now."""
    order = {n: i for i, n in enumerate(names_in_order)}
    mine = sorted((o for o in ck.obligations if o['name'] in order), key=lambda o: order[o['name']])
    if not mine:
        return
    if after_prefixes is None:
        first = next(k for k, o in enumerate(ck.obligations) if o['name'] in order)
        i = sum(1 for o in ck.obligations[:first] if o['name'] not in order)
    rest = [o for o in ck.obligations if o['name'] not in order]
    if after_prefixes is not None:
        i = max((k + 1 for k, o in enumerate(rest) if o['name'].startswith(after_prefixes)), default=len(rest))
    ck.obligations[:] = rest[:i] + mine + rest[i:]


def join_theorems(ck: Ck, started) -> None:
    """Wait for `theorems_in_background`; then (no other thread appends any more) put its obligations where a sequential call would
    have put them (directly after the build / hygiene entries) and the entries of `instance_obligations_parallel` in the order of
    its groups, so that the evidence file does not depend on timing."""
    ex, fut = started
    fut.result()
    ex.shutdown()
    for names in getattr(ck, '_parallel_instance_orders', []):
        _reorder(ck, names, None)
    _reorder(ck, [o['name'] for o in ck.obligations if o['name'].startswith(('theorem:', 'assumptions:'))], ('build:', 'hygiene:'))


def instance_obligations_parallel(ck: Ck, groups: Sequence[tuple]) -> dict[str, bool]:
    """Several `ck.instance_obligations(imports, obs, name)` groups at once (each group is two sequential coqc runs that mostly
    wait for the library to load).  The order of the `instance:` entries is restored by `join_theorems` (which must be called
    later; nothing is reordered while another thread may still append).  Group names must differ (they name the scratch
    directories)."""
    assert len({g[2] for g in groups}) == len(groups)
    with ThreadPoolExecutor(len(groups)) as ex:
        parts = list(ex.map(lambda g: ck.instance_obligations(g[0], g[1], name=g[2]), groups))
    if not hasattr(ck, '_parallel_instance_orders'):
        ck._parallel_instance_orders = []       # type: ignore[attr-defined]
    ck._parallel_instance_orders.append([f'instance:{n}' for g in groups for n in g[1]])     # type: ignore[attr-defined]
    out: dict[str, bool] = {}
    for p_ in parts:
        out.update(p_)
    return out


# ------------------------------------------------------------------------------------------------ _get_token / _handle_comment as decision trees
GT_IMPORTS = IMPORTS + ['SV.Text.HsTable', 'SV.Text.HsGen', 'SV.Text.GtTable', 'SV.Text.GtGen']
_GT_ROLES = ['dispatch', 'bracket loop', 'paren loop', 'directive loop', 'bare loop', 'star comment loop', 'line comment loop', '_handle_comment entry']
_GT_ENV = ['class', 'class of second', 'in _OPERATORS', 'in BARE_DISALLOWED', '_last_was_cr', 'line_num == 1', 'string_bracket', 'string_parens',
           'allow_star_comments', 'preserve_comments', 'colon_operator', 'plus_operator']
GT_WITNESS_ALPHA = [34, 13, 10, 32, 47, 42, 91, 93, 40, 41, 35, 58, 43, 120, 123, 0xFEFF]
GT_WITNESS_BITS = [6, 127, 0, 89]


def translate_get_token_trees(ck: Ck) -> bool:
    """(resets the census-only flag of an earlier run in this process)
    Gen/GtTrees_gen.v: the decision trees of Tokenizer._get_token / _handle_comment and the state census of the three
    functions.  When the translator fails closed, invalid trees are written so that everything else still builds."""
    from translate import c02_gettoken
    _CENSUS_ONLY.clear()
    ok = ck.translate('GtTrees_gen', c02_gettoken.translate)
    if not ok:
        ck.gen('GtTrees_gen', c02_gettoken.EMPTY_GEN, {'failed_closed': True})
        return False
    side = ck.extra.get('translated', {}).get('GtTrees_gen', {})
    if side.get('trees_failed_closed'):
        # the census was read, the trees were not: a named obligation of its own; the census obligations are still evaluated
        ck.obligation('translate:get_token_trees', False, f'tree executor failed closed: {side["trees_failed_closed"]} (the state census was still read)')
        ck.tie_broken.append(f'translator _get_token/_handle_comment trees: {side["trees_failed_closed"]}')
        _CENSUS_ONLY.append(True)
        return False
    ck.obligation('translate:get_token_trees', True, '_get_token / _handle_comment executed into decision trees')
    return True


_CENSUS_ONLY: list[bool] = []      # set by translate_get_token_trees of this run: trees failed closed, census available
CENSUS_OBLIGATIONS = ['tokenizer_class_binds_no_shared_data_attribute', 'tokenizer_functions_read_only_modelled_state',
                      'tokenizer_functions_write_only_modelled_state', 'tokenizer_options_are_read_from_the_public_attribute_at_call_time']


def get_token_tree_group(translated: bool, hs_rows: bool = False, next_char: bool = False, c02_property: bool = False) -> tuple | None:
    """(imports, obligations, name) for ck.instance_obligations / instance_obligations_parallel; None when the translator failed."""
    if not translated:
        if _CENSUS_ONLY:      # the trees are invalid, the census is real: its obligations are evaluated on their own
            return (GT_IMPORTS, {k: k for k in CENSUS_OBLIGATIONS}, 'gtinst')
        return None          # translate:GtTrees_gen is already a failed obligation; the invalid trees carry no information
    obs = {}
    if hs_rows:
        obs.update({'handle_string_rows_are_the_model': 'handle_string_rows_are_the_model',
                    'handle_string_flag_starts_false': 'handle_string_flag_starts_false'})
    obs.update({
        'get_token_dispatch_is_the_model': 'get_token_dispatch_is_the_model',
        'bracket_loop_is_the_model': 'bracket_loop_is_the_model',
        'paren_loop_is_the_model': 'paren_loop_is_the_model',
        'directive_loop_is_the_model': 'directive_loop_is_the_model',
        'bare_loop_is_the_model': 'bare_loop_is_the_model',
        'star_comment_loop_is_the_model': 'star_comment_loop_is_the_model',
        'line_comment_loop_is_the_model': 'line_comment_loop_is_the_model',
        'handle_comment_entry_is_the_model': 'handle_comment_entry_is_the_model',
        'tokenizer_class_binds_no_shared_data_attribute': 'tokenizer_class_binds_no_shared_data_attribute',
        'tokenizer_functions_read_only_modelled_state': 'tokenizer_functions_read_only_modelled_state',
        'tokenizer_functions_write_only_modelled_state': 'tokenizer_functions_write_only_modelled_state',
        'tokenizer_options_are_read_from_the_public_attribute_at_call_time': 'tokenizer_options_are_read_from_the_public_attribute_at_call_time',
    })
    if next_char:
        obs['next_char_rows_are_the_model'] = 'next_char_rows_are_the_model'
    if c02_property:
        obs['c02_property_hypotheses_hold_for_todays_source'] = 'c02_property_hypotheses_hold_for_todays_source'
    return (GT_IMPORTS + (['SV.Text.NextChar', 'SV.Text.NextCharGen'] if next_char else []), obs, 'gtinst')


def get_token_tree_obligations(ck: Ck, translated: bool, hs_rows: bool = False, res: dict | None = None, c02_property: bool = False) -> None:
    """Instance obligations about the trees read from _get_token / _handle_comment (one per segment) and the state census.  When
    a tree differs from the model's function, the differing environments and (small scope, inside Coq) texts on which the
    code's trees and the hand model give different traces are reported; each such text is run on the implementation.
    `res`: results of the group when it was already evaluated (in parallel with other groups)."""
    from harness.common import parse_coq_nested
    if not translated:
        if _CENSUS_ONLY:
            if res is None:
                g = get_token_tree_group(False)
                res = ck.instance_obligations(g[0], g[1], name=g[2])
            if not all(res.get(n, True) for n in CENSUS_OBLIGATIONS):
                side = ck.extra.get('translated', {}).get('GtTrees_gen', {})
                cen = {k: v for k, v in side.get('state_census', {}).items() if v}
                ck.tie_broken.append(f'state census of _get_token/_handle_comment/_handle_string: {cen}')
                ck.notes.append(f'state census: {cen}')
        return
    if res is None:
        g = get_token_tree_group(translated, hs_rows, c02_property=c02_property)
        res = ck.instance_obligations(g[0], g[1], name=g[2])
    if res.get('next_char_rows_are_the_model') is False:
        ck.tie_broken.append('the table read from Tokenizer._next_char is not the table of the model Text/NextChar.v')
        ck.notes.append(f'_next_char rows: {ck.extra.get("translated", {}).get("NextChar_gen", {})}')
    side = ck.extra.get('translated', {}).get('GtTrees_gen', {})
    ck.count('get_token_tree_leaves', side.get('leaves', 0))
    bad_census = [n for n in res if n.startswith('tokenizer_') and not res[n]]
    if bad_census:
        cen = {k: v for k, v in side.get('state_census', {}).items() if v}
        ck.tie_broken.append(f'state census of _get_token/_handle_comment/_handle_string: {cen}')
        ck.notes.append(f'state census: {cen}')
    if all(v for n, v in res.items() if not n.startswith(('tokenizer_', 'handle_string_', 'next_char_', 'c02_property_'))):
        return
    ck.tie_broken.append('the decision trees read from Tokenizer._get_token/_handle_comment are not those of the model Text/Tokenizer.v')
    vals = ck.coq_eval(GT_IMPORTS, ['map (fun p => (fst p, firstn 6 (snd p), length (snd p))) gen_tree_diffs',
                                    f'firstn 8 (gt_tree_witnesses {coq_chars(GT_WITNESS_BITS)} {coq_chars(GT_WITNESS_ALPHA)} 3)'],
                       name='gtdiff', preamble=PRE)
    if vals is None:
        return
    diffs = []
    for role, rows, n in parse_coq_nested(vals[0]):
        for env, got, want in rows:
            diffs.append({'segment': _GT_ROLES[role], 'differing_environments': n,
                          'environment': {k: v for k, v in zip(_GT_ENV, env) if v},
                          'source (second read, (push back, line increments, _last_was_cr, appends, end, a1, a2))': got, 'model': want})
    wit = []
    for bits, w, a, b in parse_coq_nested(vals[1]):
        text = ''.join(map(chr, w))
        impl = impl_results(text, bits, len(text) + 2)
        wit.append({'text': text, 'option_bits': bits, 'trees_of_the_source': decode_results(list(a)), 'hand_model': decode_results(list(b)),
                    'implementation': decode_results(impl), 'implementation_follows_the_trees': impl == list(a)})
    ck.extra['get_token_trees'] = {'differing_leaves': diffs[:16], 'witness_texts': wit}
    ck.notes.append(f'_get_token/_handle_comment: first differing leaf: {diffs[0] if diffs else None}; '
                    f'first text on which the trees and the model differ: {wit[0] if wit else "none up to length 3"}')


# ------------------------------------------------------------------------------------------------ options set through the public attributes
BITS_DEFAULT = 0b0000110      # string_parens + allow_escapes
SYNTAX_ALPHA = ['"', '\\', 'n', '[', ']', '(', ')', '#', '/', '*', ':', '+', '\n', 'x', ' ']


def _by_attribute_shard(bits: int) -> tuple[int, list]:
    bad = []
    cnt = 0
    for w in strings_upto(SYNTAX_ALPHA, 3):
        cnt += 1
        a = impl_results(w, bits, len(w) + 2)
        b = impl_results(w, bits, len(w) + 2, via='attr')
        if a != b and len(bad) < 3:
            bad.append((bits, w, a, b))
    return cnt, bad


def corr_options_by_attribute(ck: Any) -> None:
    """The model takes the option vector as a parameter of every call (`get_token T o ...`); the class reads seven public,
    documented, settable attributes.  Tie: a tokenizer whose options were set through the attributes after construction (every
    option was the other way round in the constructor) gives the same trace as one that got them as constructor arguments - all
    texts over a 15-character syntax alphabet up to length 3, for the default vector, each single-option change of it, all on,
    all off and six random vectors (thorough: all 128)."""
    if ck.thorough:
        vecs = list(range(128))
    else:
        rng = ck.rng
        vecs = sorted({BITS_DEFAULT, 0, 127} | {BITS_DEFAULT ^ (1 << i) for i in range(7)} | {rng.randrange(128) for _ in range(6)})
    res = pool_map(_by_attribute_shard, vecs)
    bad = [b for _, bs in res for b in bs]
    n = sum(c for c, _ in res)
    ck.count('options_by_attribute_cases', n)
    ck.hist('correspondence', f'options by attribute vs by constructor: {len(vecs)} option vectors x texts up to length 3 over {len(SYNTAX_ALPHA)} characters', n)
    detail = ''
    if bad:
        bits, w, a, b = bad[0]
        opts = opts_of_bits(bits)
        detail = (f'; first: text={w!r} options={ {k: v for k, v in opts.items()} } by constructor: {decode_results(a)} '
                  f'set by attribute afterwards: {decode_results(b)}')
        ck.extra['options_by_attribute_disagreements'] = [{'text': w, 'option_bits': bits, 'by_constructor': decode_results(a),
                                                           'by_attribute': decode_results(b)} for bits, w, a, b in bad[:10]]
        ck.tie_broken.append('a Tokenizer whose options are set through the public attributes after construction behaves differently from one '
                             'that got them as constructor arguments (the model takes the options as a parameter of every call)')
    ck.obligation('correspondence:options_by_attribute', not bad,
                  f'Tokenizer(text, **opts) vs Tokenizer(text, **opposite) followed by setattr of every option: {n} cases '
                  f'({len(vecs)} option vectors, token kind/value/line_num/_last_was_cr/error): ' + ('agree' if not bad else f'{len(bad)} disagreements (capped)' + detail))
