"""C10 helpers: an independent BSP container encoder/decoder and a synthesiser of small, internally consistent BSP
files for every supported layout.  Nothing here calls BSP.save or a _lmp_write_* function: the container is encoded
by hand from the documented structure (header, 64-entry lump table in either field order, map revision, game-lump
directory), the lump payloads from the struct formats of the layout tables.  LZMA payloads use
srctools.binformat.compress_lzma (input generation only).
"""
from __future__ import annotations

import io
import random
import struct
import zipfile
from typing import Any

LUMP_COUNT = 64
LAYOUTS = {
    # name: (magic, bsp version, l4d2 field order, layout table name)
    'v19': (b'VBSP', 19, False, 'LUMP_LAYOUT_V19'),
    'v20': (b'VBSP', 20, False, 'LUMP_LAYOUT_STANDARD'),
    'v21': (b'VBSP', 21, False, 'LUMP_LAYOUT_STANDARD'),
    'l4d2': (b'VBSP', 21, True, 'LUMP_LAYOUT_STANDARD'),
    'infra': (b'VBSP', 22, False, 'LUMP_LAYOUT_INFRA'),
    'chaos': (b'VBSP', 25, False, 'LUMP_LAYOUT_CHAOS'),
    'vitamin': (b'FART', 43, False, 'LUMP_LAYOUT_VITAMIN'),
}


# ---------------------------------------------------------------------------------------------- container
def encode_container(magic: bytes, version: int, l4d2: bool, map_revision: int,
                     lumps: dict[int, tuple[int, bytes, bool]],
                     game_lumps: list[tuple[bytes, int, int, bytes]], order: list[int] | None = None,
                     align: bool = True, odd_lzma: bool = False) -> bytes:
    """lumps: index -> (lump version, data, lzma?); game_lumps: (id, flags, version, data), flags&1 = lzma.
    align=False with the default order reproduces the layout BSP.save is expected to write: lumps in index order with
    the pakfile last, no padding, one NUL between game lumps, a dummy directory entry after a compressed last one."""
    from srctools.binformat import compress_lzma
    if odd_lzma == 'source':
        compress_lzma = compress_lzma_source
    elif odd_lzma:
        compress_lzma = compress_lzma_odd
    buf = io.BytesIO()
    buf.write(struct.pack('<4si', magic, version))
    buf.write(bytes(16 * LUMP_COUNT))
    buf.write(struct.pack('<i', map_revision))
    table: dict[int, tuple[int, int, int, int]] = {}
    for idx in (order or [i for i in range(LUMP_COUNT) if i != 40] + [40]):
        ver, data, comp = lumps.get(idx, (0, b'', False))
        if idx == 35:
            start = buf.tell()
            dummy = 1 if (game_lumps and game_lumps[-1][1] & 1) else 0
            buf.write(struct.pack('<i', len(game_lumps) + dummy))
            dir_pos = buf.tell()
            buf.write(bytes(16 * (len(game_lumps) + dummy)))
            entries = []
            for k, (gid, flags, gver, gdata) in enumerate(game_lumps):
                payload = compress_lzma(gdata) if flags & 1 else gdata
                entries.append(struct.pack('<4sHHii', gid[::-1], flags, gver, buf.tell(), len(gdata)))
                buf.write(payload)
                if k != len(game_lumps) - 1:
                    buf.write(b'\0')
            if dummy:
                entries.append(struct.pack('<4sHHii', b'\0\0\0\0', 0, 0, buf.tell(), 0))
            end = buf.tell()
            buf.seek(dir_pos)
            buf.write(b''.join(entries))
            buf.seek(end)
            table[idx] = (start, end - start, ver, 0)
            continue
        if comp and (data or not align) and idx != 40:
            payload = compress_lzma(data)
            table[idx] = (buf.tell(), len(payload), ver, len(data))
        else:
            payload = data
            table[idx] = (buf.tell(), len(payload), ver, 0)
        buf.write(payload)
        if idx != 40 and align:
            buf.write(bytes(-buf.tell() % 4))   # lumps are 4-aligned in real files (gaps are legal)
    end = buf.tell()
    buf.seek(8)
    for idx in range(LUMP_COUNT):
        off, ln, ver, four = table[idx]
        buf.write(struct.pack('<4i', ver, off, ln, four) if l4d2 else struct.pack('<4i', off, ln, ver, four))
    buf.seek(end)
    return buf.getvalue()


def compress_lzma_odd(data: bytes) -> bytes:
    """A valid Source LZMA blob that srctools' own writer would never produce: other literal/position bits (lc=0, lp=2,
    pb=1 instead of 3/0/2), a dictionary size field below the minimum (decoders clamp it to 4096) and one trailing NUL
    after the stream (seen in TF2 maps).  Written with CPython's lzma only."""
    import lzma
    filt = {'id': lzma.FILTER_LZMA1, 'dict_size': 4096, 'lc': 0, 'lp': 2, 'pb': 1}
    comp = lzma.compress(data, lzma.FORMAT_RAW, filters=[filt])
    props = (filt['pb'] * 5 + filt['lp']) * 9 + filt['lc']
    return struct.pack('<4sIIBI', b'LZMA', len(data), len(comp), props, 1024) + comp + b'\0'


def compress_lzma_source(data: bytes) -> bytes:
    """The blob the Source compilers write (lc=3, lp=0, pb=2, 16 MiB dictionary, the header naming exactly these), made with
    CPython's lzma only: inputs built with it do not depend on srctools' own compressor (round 6)."""
    import lzma
    filt = {'id': lzma.FILTER_LZMA1, 'dict_size': 1 << 24, 'lc': 3, 'lp': 0, 'pb': 2}
    comp = lzma.compress(data, lzma.FORMAT_RAW, filters=[filt])
    return struct.pack('<4sIIBI', b'LZMA', len(data), len(comp), (2 * 5 + 0) * 9 + 3, 1 << 24) + comp


def long_range(rng: random.Random, size: int) -> bytes:
    """`size` incompressible bytes in which one 600-byte block occurs at the start, at distances 4600 and 66000 (where they fit)
    and at the very end: the last copy is further back than every power of two below `size` (sizes used: 5200, 70000, 200000,
    none a power of two), so a decoder needs a dictionary larger than the largest power of two <= size."""
    block = rng.randbytes(600)
    out = bytearray(block + rng.randbytes(size - 1200) + block)
    for at in (4600, 66000):
        if at + 600 < size - 600:
            out[at:at + 600] = block
    return bytes(out)


def decode_container(blob: bytes) -> dict[str, Any]:
    try:
        return _decode_container(blob)
    except Exception as e:      # noqa: BLE001 - a malformed container is an observation, not a crash
        return {'error': f'{type(e).__name__}: {e}'}


def _decode_container(blob: bytes) -> dict[str, Any]:
    """Independent reader of the container (no srctools code except LZMA decompression)."""
    from srctools.binformat import decompress_lzma
    magic, version = struct.unpack_from('<4si', blob, 0)
    rows = [struct.unpack_from('<4i', blob, 8 + 16 * i) for i in range(LUMP_COUNT)]
    (rev,) = struct.unpack_from('<i', blob, 8 + 16 * LUMP_COUNT)
    l4d2 = version == 21 and blob[8:12] != b'\0\0\0\0' and False
    # L4D2 order is recognised like BSPSource does: lump 0 (entities) never has version != 0 at offset 8.
    if version == 21 and struct.unpack_from('<i', blob, 8)[0] == 0:
        l4d2 = True
    lumps = {}
    for i, r in enumerate(rows):
        if l4d2:
            ver, off, ln, four = r
        else:
            off, ln, ver, four = r
        raw = blob[off:off + ln]
        lumps[i] = {'version': ver, 'offset': off, 'length': ln, 'fourcc': four,
                    'data': decompress_lzma(raw) if four > 0 else raw}
    g = lumps[35]
    games = []
    if g['length'] >= 4:
        (cnt,) = struct.unpack_from('<i', blob, g['offset'])
        ents = [struct.unpack_from('<4sHHii', blob, g['offset'] + 4 + 16 * k) for k in range(cnt)]
        for k, (gid, flags, gver, off, ln) in enumerate(ents):
            if gid == b'\0\0\0\0':
                continue
            if flags & 1:
                nxt = ents[k + 1][3] - 1 if k + 1 < cnt and ents[k + 1][0] != b'\0\0\0\0' else \
                    (ents[k + 1][3] if k + 1 < cnt else g['offset'] + g['length'])
                data = decompress_lzma(blob[off:nxt])
            else:
                data = blob[off:off + ln]
            games.append({'id': gid[::-1], 'flags': flags, 'version': gver, 'data': data})
    return {'magic': magic, 'version': version, 'l4d2': l4d2, 'map_revision': rev, 'lumps': lumps, 'game_lumps': games}


# ---------------------------------------------------------------------------------------------- synthesiser
def _f(rng: random.Random) -> float:
    """A float32-representable number."""
    return rng.randint(-2048, 2048) / 8.0


def synth(rng: random.Random, layout: str = 'v20', *, compress: tuple = (), origin_vertex: bool = True,
          faceids: str = 'full', water: bool = True, overlay_aux: bool = True, vis: bool = True,
          n_extra: int = 1, extra_game: bool = False, compress_game: tuple = (), fractional_bounds: bool = False,
          detail_shapes: bool = False, hdr: bool = True, bad: tuple = (), aux: str = 'normal',
          adv: bool = True, sprp: Any = 'layout', empty: bool = False, odd_lzma: bool = False, big: tuple = (),
          case_names: str = '') -> tuple[bytes, dict]:
    """Build one consistent BSP. Returns (file bytes, description).
    `adv` (default on) makes the contents of every table a writer rebuilds or de-duplicates adversarial but valid:
    texture names that are a prefix / an inner substring / a tail of an EARLIER name (storage the string-pool search may
    or may not share), two table entries naming the same string, a name of the maximal length 127, an exact duplicate and
    a near duplicate (same name, other reflectivity) of a texdata record, an exact duplicate of a texinfo record, an exact
    duplicate and a near duplicate (same normal and distance, other axis type) of a plane, a duplicate vertex, an edge
    stored in both directions, surfedges naming them, a static-prop model name that is a prefix of another and one that no
    prop uses.  `adv=False` gives the plain tables of rounds 1-3.
    `sprp` chooses the static-prop game lump version (record layout): 4, 5, 6, 7, 8, 9, 10, 11, 'lm7', 'lm10' (the Source 2013
    lightmapped layouts, lump versions 7 and 10 with 72-byte records), 'mesa' (Black Mesa: version 11 in a v20 file, lightmapped + tint + second flag word; a plain 11 needs a v21 file), 12, 13 (Chaos); default: the usual one of the layout.
    `empty` leaves the tables that are often empty in real maps empty: no static props (the model and leaf dictionaries
    stay), no detail props, no overlays, no cubemaps.  `odd_lzma` compresses with compress_lzma_odd.
    `aux` puts the contents of the side lumps (the lumps a view clears besides its main lump, which only the view's
    writer can restore) at the values where they LOOK unused: 'zero' = every record of OVERLAY_FADES,
    OVERLAY_SYSTEM_LEVELS, LEAFMINDISTTOWATER, LEAFFACES, LEAFBRUSHES, PRIMINDICES, PRIMVERTS, BRUSHSIDES, TEXDATA and
    TEXDATA_STRING_TABLE is all zero bytes (fade distances (0.0, 0.0), index 0, one texture name ...); 'default' =
    the values the reader substitutes for an absent lump (fades (-1.0, 0.0), levels 0, distance 65535); 'mixed' = the
    first record zero, the others as usual; 'maxed' = all bits set where that is a legal value; 'absent' = the
    optional side lumps are not there at all (LEAFMINDISTTOWATER, OVERLAY_FADES, OVERLAY_SYSTEM_LEVELS empty: an older
    compiler).
    `big` (round 6) = (size of LIGHTING, size of LIGHTING_HDR, size of the extra game lump `xtra`, number of extra vertexes): these
    lumps get long_range() content (a block repeated at distances 4 KB, 64 KB and beyond every power of two below the length; the
    vertex array gets a run of 50 unused vertexes repeated after `n` others) and every compressed lump of the file is compressed
    with compress_lzma_source (CPython lzma with the compilers' parameters), not with srctools' compress_lzma.
    `case_names` (round 6): texture names that differ from another name of the table ONLY in letter case, each stored in full:
    'table' = in the string table only (no texdata refers to them), 'texdata' = each also has a texdata record (and texinfos).
    `bad` makes lumps malformed so that looking at their view raises: 'sprp_version' (static props of the unknown
    version 14: the reader raises at once), 'sprp_size' (3 stray bytes: the reader raises after it looked at visleafs),
    'ents' (last entity not terminated), 'bmodel_ref' (an entity naming a brush model that does not exist: the bmodels
    reader raises after it took the "model" key out of the brush entities of the cached ents view), 'texinfo' (a texinfo naming a texdata that does not exist), 'dprp' (detail
    prop lump cut short), 'overlays' (lump cut in the middle of a record), 'phys_empty' / 'phys_noterm' / 'phys_cut' / 'phys_dup' /
    'phys_model' / 'phys_kv' / 'phys_kvsyntax' (a PHYSCOLLIDE lump the physics half of the bmodels reader rejects: no
    terminator, cut inside a header, two definitions for one model, a block for a missing model, non-ASCII / unclosed
    keyvalue text), 'face_plane' / 'hdr_face_plane' (the last record of FACES / FACES_HDR names a plane that does not exist:
    the face reader raises after it changed the shared orig_faces objects)."""
    import srctools.bsp as B
    magic, version, l4d2, layname = LAYOUTS[layout]
    L = getattr(B, layname)
    vit = layout == 'vitamin'
    chaos = layout == 'chaos'
    P = B.BSP_LUMPS
    d: dict[str, bytes] = {}
    n = 1 + n_extra       # multiplicity knob

    # textures / texdata / texinfo
    names = ['TOOLS/TOOLSNODRAW', 'brick/wall01', 'NATURE/water_canals01', 'wall01'][:3 + (n_extra > 0)]
    if adv:
        # every later name below is a prefix (P), an inner substring (I) or a tail (T) of an earlier one; each is stored
        # in full in the file (a writer may share the tails, nothing else); 127 characters is the longest legal name
        names = ['TOOLS/TOOLSNODRAWPORTALABLE', 'maps/synth/brick/wall01_-64_0_32', 'NATURE/water_canals01a',
                 'TOOLS/TOOLSNODRAW',            # P of 0
                 'brick/wall01',                 # I of 1
                 'wall01_-64_0_32',              # T of 1
                 'NATURE/water_canals01',        # P of 2
                 'L/' + 'o' * 124 + 'g',         # 127 characters
                 'o' * 124,                      # I of the long one
                 ][:5 + 2 * n_extra]
    if aux == 'zero':
        names = names[:1]       # a single name: the string table is [0]
    case_extra = [names[0].swapcase(), names[-1].upper() if names[-1] != names[-1].upper() else names[-1].lower(), names[0].title()]
    if case_names == 'texdata':
        names = names + case_extra
    sdata = b''
    offs = []
    for nm in names:
        offs.append(len(sdata))
        sdata += nm.encode() + b'\0'
    if adv and aux != 'zero':
        offs.append(offs[1])     # two table entries naming the same stored string
        names = names + [names[1]]
    d['TEXDATA_STRING_DATA'] = sdata
    d['TEXDATA_STRING_TABLE'] = b''.join(struct.pack('<i', o) for o in offs)
    td = []
    for i in range(len(names)):
        w, h = 64 << (i % 3), 128
        if aux == 'zero' or (aux == 'mixed' and i == 0):
            td.append(bytes(24 if vit else 32))
        elif vit:
            td.append(struct.pack('<3f3i', 0.25, 0.5, 0.125 * i, i, w, h))
        else:
            td.append(struct.pack('<3f5i', 0.25, 0.5, 0.125 * i, i, w, h, w, h))
    if adv and aux not in ('zero', 'mixed'):
        td.append(td[1])                                    # exact duplicate of texdata 1
        td.append(struct.pack('<3f', 0.75, 0.5, 0.125) + td[1][12:])      # near duplicate: same name and size, other reflectivity
    d['TEXDATA'] = b''.join(td)
    if case_names == 'table':      # spellings that no texdata record refers to: the table may hold unused names
        for nm in case_extra:
            d['TEXDATA_STRING_TABLE'] += struct.pack('<i', len(d['TEXDATA_STRING_DATA']))
            d['TEXDATA_STRING_DATA'] += nm.encode() + b'\0'
    n_ti = len(td) + 1
    ti = [struct.pack('<16fii', *[_f(rng) for _ in range(16)], rng.choice([0, 4, 0x80, 0x400]), i % len(td)) for i in range(n_ti)]
    if adv:
        ti.append(ti[0])                                    # exact duplicate of texinfo 0
        n_ti += 1
    d['TEXINFO'] = b''.join(ti)
    # planes, vertexes, edges, surfedges
    n_pl = 4
    pl = [struct.pack('<ffffi', *(1.0, 0.0, 0.0) if i % 2 else (0.0, 0.0, 1.0), _f(rng), (0, 2, 3, 5)[i % 4]) for i in range(n_pl)]
    if adv:
        pl.append(pl[0])                                    # exact duplicate of plane 0 (brush side 4 names it)
        pl.append(pl[1][:16] + struct.pack('<i', 4))        # near duplicate of plane 1: other axis type
        n_pl = 6
    d['PLANES'] = b''.join(pl)
    verts = [(0.0, 0.0, 0.0) if origin_vertex else (8.0, 0.0, 0.0)] + [(_f(rng), _f(rng), 16.0 + i) for i in range(5)]
    edges = [(0, 0), (1, 2), (2, 3), (3, 1), (3, 4), (4, 5)]
    surfedges = [1, 2, 3, -1, 4, -3, 5, -5]
    if adv:
        verts.append(verts[1])                              # a second vertex at the position of vertex 1
        edges += [(6, 2), (2, 1)]                           # an edge from the duplicate vertex; edge 1 stored reversed as well
        surfedges += [6, 7, -6, -7]
    d['VERTEXES'] = b''.join(struct.pack('<fff', *v) for v in verts)
    d['EDGES'] = b''.join(L['EDGE'].pack(a, b) for a, b in edges)
    d['SURFEDGES'] = b''.join(struct.pack('i', s) for s in surfedges)
    # primitives
    if not vit:
        d['PRIMVERTS'] = b''.join(struct.pack('<fff', _f(rng), _f(rng), _f(rng)) for _ in range(3))
        d['PRIMINDICES'] = b''.join(L['PRIMINDEX'].pack(i) for i in (0, 1, 2, 2, 1))
        if aux == 'zero':
            d['PRIMVERTS'] = bytes(len(d['PRIMVERTS']))
            d['PRIMINDICES'] = bytes(len(d['PRIMINDICES']))
        d['PRIMITIVES'] = L['PRIMITIVE'].pack(0, 0, 3, 0, 2) + L['PRIMITIVE'].pack(1, 3, 2, 2, 1)
    # faces
    n_faces = 2 + n_extra

    def face(i: int, orig: int) -> bytes:
        first, cnt = [(0, 3), (3, 3), (5, 3), (2, 4)][i % 4]
        if vit:
            return L['FACE'].pack(i % n_pl, i % n_ti, -1, first, cnt, 0, 0, 3, 5, i % 4)
        prim_num, prim_first = [(1, 0), (0x8000 | 1, 1), (0x8000, 0), (2, 0)][i % 4]
        vals = [i % n_pl, bool(i % 2), not i % 2, first, cnt, i % n_ti, -1, -1, bytes([0, 255, 255, 255]), 128 * i,
                32.0 + i, 0, 0, 3, 5, orig, prim_num, prim_first, 1 << i]
        return L['FACE'].pack(*vals)

    if vit:
        d['FACES'] = b''.join(face(i, -1) for i in range(n_faces))
    else:
        d['ORIGINALFACES'] = b''.join(face(i, 0) for i in range(2))
        d['FACES'] = b''.join(face(i, i % 2) for i in range(n_faces))
        if hdr:
            d['FACES_HDR'] = b''.join(face(i, i % 2) for i in range(n_faces))
    if faceids == 'full':
        d['FACEIDS'] = b''.join(L['FACEID'].pack(100 + i) for i in range(n_faces))
    elif faceids == 'zeros':
        d['FACEIDS'] = b''.join(L['FACEID'].pack(0) for i in range(n_faces))
    elif faceids == 'short':        # fewer ids than faces: the reader gives the surplus faces hammer_id None
        d['FACEIDS'] = b''.join(L['FACEID'].pack(100 + i) for i in range(n_faces - 1))
    elif faceids == 'long':         # more ids than faces: the surplus is never looked at
        d['FACEIDS'] = b''.join(L['FACEID'].pack(100 + i) for i in range(n_faces + 2))
    # brushes
    n_br = 2
    if vit:
        d['BRUSHSIDES'] = b''.join(L['BRUSHSIDE'].pack(i % n_pl, i % n_ti, 0, i % 2, 0) for i in range(6 if adv else 5))
    else:
        d['BRUSHSIDES'] = b''.join(L['BRUSHSIDE'].pack(i % n_pl, i % n_ti, 0, (i % 2) | (2 if i == 3 else 0)) for i in range(6 if adv else 5))
    if aux == 'zero':
        d['BRUSHSIDES'] = bytes(len(d['BRUSHSIDES']))
    d['BRUSHES'] = struct.pack('<iii', 0, 3, 1) + struct.pack('<iii', 3, 3 if adv else 2, 32 if water else 1)      # adv: side 5 lies on the near-duplicate plane
    # leafs
    n_leaf = 3
    leafs = []
    for i in range(n_leaf):
        contents, cluster = (1, -1) if i == 0 else (0 if i == 1 or not water else 32, i - 1)
        area, flags = i, (0, 1, 6)[i]
        fr = 0.5 if (fractional_bounds and chaos) else 0
        mins, maxs = (16 * i + fr, 0, 8), (16 * i + 16, 32 + fr, 64)
        wid = 0 if (i == 2 and water) else -1
        ff, nf, fb, nb = [(0, 0, 0, 0), (0, 2, 0, 1), (2, 1, 1, 1)][i]
        if vit:
            leafs.append(L['LEAF'].pack(contents, cluster, area, *mins, *maxs, ff, nf, fb, nb, wid, flags))
        elif layout == 'v19':
            leafs.append(L['LEAF'].pack(contents, cluster, area << L['LEAF_AREA_OFFSET'] | flags, *mins, *maxs, ff, nf, fb, nb, wid,
                                        bytes(rng.randrange(256) for _ in range(24))))
        else:
            leafs.append(L['LEAF'].pack(contents, cluster, area << L['LEAF_AREA_OFFSET'] | flags, *mins, *maxs, ff, nf, fb, nb, wid))
    d['LEAFS'] = b''.join(leafs)
    d['LEAFFACES'] = b''.join(L['LEAFFACE'].pack(i) for i in (0, 1, 1))
    d['LEAFBRUSHES'] = b''.join(L['LEAFBRUSH'].pack(i) for i in (0, 1))
    d['LEAFMINDISTTOWATER'] = b''.join(struct.pack('<H', x) for x in (65535, 12, 0))
    if aux == 'zero':
        d['LEAFFACES'], d['LEAFBRUSHES'] = bytes(len(d['LEAFFACES'])), bytes(len(d['LEAFBRUSHES']))
        d['LEAFMINDISTTOWATER'] = bytes(len(d['LEAFMINDISTTOWATER']))
    elif aux in ('default', 'maxed'):
        d['LEAFMINDISTTOWATER'] = b'\xff' * len(d['LEAFMINDISTTOWATER'])
    if water:
        d['LEAFWATERDATA'] = L['LEAFWATERDATA'].pack(48.0, 8.0, min(2, n_ti - 1))
    # nodes: node0 -> (node1, leaf0); node1 -> (leaf1, leaf2)
    d['NODES'] = (L['NODE'].pack(0, 1, -1 - 0, 0, 0, 0, 64, 64, 64, 0, 2, 0)
                  + L['NODE'].pack(1, -1 - 1, -1 - 2, 0, 0, 0, 32, 64, 64, 1, 1, 1))
    # models + physcollide
    d['MODELS'] = (struct.pack('<9fiii', -64, -64, -64, 64, 64, 64, 0, 0, 0, 0, 0, 2)
                   + struct.pack('<9fiii', -8, -8, -8, 8, 8, 8, 4, 4, 4, 1, 1, 1))
    solid = bytes(rng.randrange(256) for _ in range(37))
    kv = b'solid {\n"index" "0"\n"mass" "1.000000"\n"surfaceprop" "default"\n}\n\x00'
    d['PHYSCOLLIDE'] = (struct.pack('<iiii', 0, len(solid) + 4, len(kv), 1) + struct.pack('<i', len(solid)) + solid + kv
                        + struct.pack('<iiii', -1, -1, 0, 0))
    # entities
    sep = ',' if layout in ('v19', 'v20') else '\x1b'
    d['ENTITIES'] = (
        '{\n"classname" "worldspawn"\n"mapversion" "7"\n"skyname" "sky_day01_01"\n"world_mins" "-64 -64 -64"\n}\n'
        '{\n"classname" "func_brush"\n"model" "*1"\n"origin" "4 4 4"\n"targetname" "br"\n}\n'
        '{\n"classname" "logic_relay"\n"targetname" "rl"\n"origin" "0 0 16"\n'
        f'"OnTrigger" "br{sep}Kill{sep}{sep}0.5{sep}-1"\n"OnTrigger" "!self{sep}FireUser1{sep}a b{sep}0{sep}1"\n}}\n'
        '{\n"classname" "info_target"\n"message" "a, b"\n"angles" "0 90 0"\n}\n'
        # adv: text that the entity writer has to escape again (quote, backslash-n, backslash, tab), blanks at both ends,
        # braces inside a value, an empty value
        + ('{\n"classname" "env_message"\n"message" "say \\"hi\\"\\n now"\n"path" "a\\\\b"\n"tabbed" "a\tb"\n"lead" " x "\n'
           '"brace" "a { b } c"\n"empty" ""\n}\n' if adv else '')
    ).encode('ascii') + b'\x00'
    # visibility (2 clusters; rows of 1 byte, run-length coded)
    if vis:
        rows = [b'\x03', b'\x01', b'\x02', b'\x03']
        head = struct.pack('i', 2) + struct.pack('ii', 20, 21) + struct.pack('ii', 22, 23)
        d['VISIBILITY'] = head + b''.join(rows)
    # overlays
    ov = []
    for i in range(0 if empty else n):
        faces_arr = [0, 1][:1 + i % 2]
        ov.append(struct.pack('<ihH', 7 + i, i % n_ti, (i % 4) << 14 | len(faces_arr))
                  + struct.pack(f'<{len(faces_arr)}i{4 * (64 - len(faces_arr))}x', *faces_arr)
                  + struct.pack('<4f', 0.0, 1.0, 0.0, 1.0) + struct.pack('<18f', *[_f(rng) for _ in range(18)]))
    d['OVERLAYS'] = b''.join(ov)
    if overlay_aux and not empty:
        d['OVERLAY_FADES'] = b''.join(struct.pack('<ff', -1.0, 4.0 * i) for i in range(n))
        d['OVERLAY_SYSTEM_LEVELS'] = b''.join(struct.pack('<4B', 0, 3, 1, 2) for i in range(n))
        if aux == 'zero':
            d['OVERLAY_FADES'], d['OVERLAY_SYSTEM_LEVELS'] = bytes(8 * n), bytes(4 * n)
        elif aux == 'default':      # what the reader substitutes when the lumps are absent
            d['OVERLAY_FADES'], d['OVERLAY_SYSTEM_LEVELS'] = struct.pack('<ff', -1.0, 0.0) * n, bytes(4 * n)
        elif aux == 'mixed':
            d['OVERLAY_FADES'] = bytes(8) + d['OVERLAY_FADES'][8:]
            d['OVERLAY_SYSTEM_LEVELS'] = bytes(4) + d['OVERLAY_SYSTEM_LEVELS'][4:]
        elif aux == 'maxed':
            d['OVERLAY_FADES'], d['OVERLAY_SYSTEM_LEVELS'] = struct.pack('<ff', 0.0, 1.0) * n, b'\xff' * (4 * n)
    d['CUBEMAPS'] = b''.join(struct.pack('<iiii', 16 * i, -16, 72, i % 8) for i in range(0 if empty else n + 1))
    # pakfile
    zb = io.BytesIO()
    with zipfile.ZipFile(zb, 'w', zipfile.ZIP_STORED) as zf:
        zf.writestr(zipfile.ZipInfo('materials/maps/synth/c0_0_0.vmt', (2004, 10, 1, 0, 0, 0)), b'"LightmappedGeneric"\n{\n}\n')
        zf.writestr(zipfile.ZipInfo('scripts/soundscapes_synth.txt', (2004, 10, 1, 0, 0, 0)), bytes(rng.randrange(256) for _ in range(40)))
    d['PAKFILE'] = zb.getvalue()
    # lumps without a structured view: arbitrary bytes
    for nm in ('LIGHTING', 'OCCLUSION', 'WORLDLIGHTS', 'AREAS', 'AREAPORTALS', 'DISPINFO', 'PHYSDISP', 'VERTNORMALS',
               'VERTNORMALINDICES', 'DISP_VERTS', 'CLIPPORTALVERTS', 'LEAF_AMBIENT_INDEX', 'LEAF_AMBIENT_LIGHTING',
               'LIGHTING_HDR', 'WORLDLIGHTS_HDR', 'MAP_FLAGS', 'DISP_TRIS', 'PHYSLEVEL'):
        d[nm] = bytes(rng.randrange(256) for _ in range(rng.choice([4, 12, 60, 200])))
    d['LIGHTING'] = b'LZMA' + d['LIGHTING']      # raw data that merely looks like a compressed blob
    if big:
        d['LIGHTING'] = long_range(rng, big[0])
        d['LIGHTING_HDR'] = long_range(rng, big[1])
        run = b''.join(struct.pack('<fff', _f(rng), _f(rng), 64.0 + i) for i in range(50))        # 600 bytes
        d['VERTEXES'] += run + b''.join(struct.pack('<fff', _f(rng), _f(rng), 128.0) for _ in range(big[3])) + run
    # game lumps
    leaf_fmt = L['STATICPROPLEAF']
    model_names = ['models/props/a.mdl', 'models/props_c17/b.mdl']
    if adv:     # a name that is a prefix of another; the last one is used by no prop
        model_names = ['models/props/a.mdl_lod1', 'models/props/a.mdl', 'models/props_c17/b.mdl']
    sp = io.BytesIO()
    sp.write(struct.pack('<i', len(model_names)))
    for nm in model_names:
        sp.write(struct.pack('<128s', nm.encode()))
    leaf_arr = [2, 1, 1]
    sp.write(struct.pack('<i', len(leaf_arr)))
    for x in leaf_arr:
        sp.write(leaf_fmt.pack(x))
    n_props = 0 if empty else n
    sp.write(struct.pack('<i', n_props))
    if sprp != 'layout':
        sp_ver = sprp
    elif chaos:
        sp_ver = 12
    else:
        sp_ver = {'v19': 5, 'v20': 6, 'v21': 9, 'l4d2': 9, 'infra': 10, 'vitamin': 6}[layout]
    lightmapped = sp_ver in ('lm7', 'lm10', 'mesa')
    sdk2013 = sp_ver in ('lm7', 'lm10')
    mesa = sp_ver == 'mesa'
    lay = 7 if lightmapped else sp_ver          # the version number the record layout follows
    for i in range(n_props):
        first, cnt = [(0, 2), (2, 1)][i % 2]
        rec = struct.pack('<3f3fH', _f(rng), _f(rng), _f(rng), 0.0, 90.0 * i, 0.0, i % 2)
        rec += struct.pack('<HHBBiff', first, cnt, 6, 0 if (lay >= 9 or lightmapped) else 0x04, i, -1.0, 0.0)
        rec += struct.pack('<fff', _f(rng), _f(rng), _f(rng))
        if lay >= 5:
            rec += struct.pack('<f', 1.0)
        if lay in (6, 7):
            rec += struct.pack('<HH', 0, 0)
        if lay >= 8:
            rec += struct.pack('<BBBB', 0, 0, 1, 3)
        if lightmapped:
            rec += struct.pack('<IHH', 0x04, 16 << i, 32)
        if lay >= 7 and not sdk2013:
            rec += struct.pack('<BBBB', 255, 128, 64 + i, 255)
        if lay >= 9 and not lightmapped:
            rec += struct.pack('<?xxx', bool(i % 2))
        if lay >= 10 or mesa:
            rec += struct.pack('<I', 0)
        if lay == 13:
            rec += struct.pack('<fff', 1.5, 1.0, 0.5)
        elif lay >= 11:
            rec += struct.pack('<f', 1.5)
        sp.write(rec)
    if lightmapped:
        sp_ver = {'lm7': 7, 'lm10': 10, 'mesa': 11}[sp_ver]
    dp = io.BytesIO()
    dp.write(struct.pack('<i', 2 if adv else 1) + struct.pack('<128s', b'models/props_foliage/grass.mdl'))
    if adv:     # a second dictionary entry (a prefix of the first) that no detail prop uses
        dp.write(struct.pack('<128s', b'models/props_foliage/grass'))
    sprite = struct.pack('<8f', -8, 16, 8, 0, 0.0, 0.0, 0.5, 0.5)
    dp.write(struct.pack('<i', 2 if adv else 1) + sprite + (sprite if adv else b''))      # adv: the same sprite twice
    kinds = [] if empty else [0, 1] + ([2, 3] if detail_shapes else [])
    dp.write(struct.pack('<i', len(kinds)))
    for k in kinds:
        dp.write(struct.pack('<3f3fHH4BI5B3xB3xf', _f(rng), _f(rng), 8.0, 0.0, 45.0, 0.0, 0, 1 + k % 2, 255, 200, 100, 255,
                             0, 0, 3, 30 if k >= 2 else 0, 20 if k >= 2 else 0, k % 3, k, 1.25))
    sp_data, dp_data = sp.getvalue(), dp.getvalue()
    if 'sprp_version' in bad:
        sp_ver = 14
    if 'sprp_size' in bad:
        sp_data += b'\x01\x02\x03'
    if 'dprp' in bad:
        dp_data = dp_data[:-7]
    if 'ents' in bad:
        d['ENTITIES'] = d['ENTITIES'][:-3] + b'\x00'          # the closing brace of the last entity is gone
    if 'bmodel_ref' in bad:      # a second brush entity naming brush model 9 (there are 2): the bmodels reader raises IndexError
        d['ENTITIES'] = d['ENTITIES'][:-1] + b'{\n"classname" "func_door"\n"model" "*9"\n"targetname" "dr"\n}\n\x00'
    # PHYSCOLLIDE blocks that the container loads but the physics half of the bmodels reader rejects (layout as modelled by
    # C11, Fmt/BspPhys*.v: header <iiii> model, data size, keyvalue size, solid count; per solid <i> size + bytes; keyvalue
    # text; terminator header with model -1).  The reader gets there after it parsed MODELS, nodes, faces (and, depending on
    # the statement order, after it looked at the entities).
    def phys_block(model: int, body: bytes, text: bytes) -> bytes:
        return struct.pack('<iiii', model, len(body) + 4, len(text), 1) + struct.pack('<i', len(body)) + body + text
    phys_end = struct.pack('<iiii', -1, -1, 0, 0)
    if 'phys_empty' in bad:         # no terminator at all: struct.error on the first header
        d['PHYSCOLLIDE'] = b''
    if 'phys_noterm' in bad:        # a complete block, then the lump ends
        d['PHYSCOLLIDE'] = phys_block(0, solid, kv)
    if 'phys_cut' in bad:           # the lump ends inside the header of the second block
        d['PHYSCOLLIDE'] = phys_block(0, solid, kv) + phys_block(1, solid[::-1], kv)[:7]
    if 'phys_dup' in bad:           # two definitions for brush model 1: ValueError
        d['PHYSCOLLIDE'] = phys_block(1, solid, kv) + phys_block(1, solid[::-1], kv) + phys_end
    if 'phys_model' in bad:         # a block for brush model 5 (there are 2): IndexError
        d['PHYSCOLLIDE'] = phys_block(0, solid, kv) + phys_block(5, solid[::-1], kv) + phys_end
    if 'phys_kv' in bad:            # keyvalue text that is not ASCII: UnicodeDecodeError
        d['PHYSCOLLIDE'] = phys_block(0, solid, kv) + phys_block(1, solid[::-1], kv.replace(b'default', b'd\xe9fault')) + phys_end
    if 'phys_kvsyntax' in bad:      # keyvalue text whose block is never closed: the keyvalues parser raises
        d['PHYSCOLLIDE'] = phys_block(1, solid, kv.replace(b'}\n', b'')) + phys_end
    # a face record naming a plane that does not exist: the face reader raises IndexError in the middle of the array, after
    # it set texinfo / hammer_id on the shared objects of the orig_faces view for this face and the earlier ones
    if 'face_plane' in bad and not vit:
        rec = L['FACE'].size
        d['FACES'] = d['FACES'][:-rec] + struct.pack('<H', 99) + d['FACES'][-rec + 2:]
    if 'hdr_face_plane' in bad and not vit and 'FACES_HDR' in d:
        rec = L['FACE'].size
        d['FACES_HDR'] = d['FACES_HDR'][:-rec] + struct.pack('<H', 99) + d['FACES_HDR'][-rec + 2:]
    if 'texinfo' in bad:
        d['TEXINFO'] = d['TEXINFO'][:-4] + struct.pack('<i', 77)
    if 'overlays' in bad:
        d['OVERLAYS'] = d['OVERLAYS'][:-9]
    if aux == 'absent':
        for nm in ('LEAFMINDISTTOWATER', 'OVERLAY_FADES', 'OVERLAY_SYSTEM_LEVELS'):
            d.pop(nm, None)
    games: list[tuple[bytes, int, int, bytes]] = [(b'sprp', 1 if 'sprp' in compress_game else 0, sp_ver, sp_data)]
    if extra_game:
        games.append((b'xtra', (1 if 'xtra' in compress_game else 0) | 0x4, 3,
                      long_range(rng, big[2]) if big else bytes(rng.randrange(256) for _ in range(77))))
    games.append((b'dprp', 1 if 'dprp' in compress_game else 0, 4, dp_data))
    lumps: dict[int, tuple[int, bytes, bool]] = {}
    for nm, data in d.items():
        idx = P[nm].value
        lver = {'LEAFS': 0 if layout == 'v19' else (2 if chaos else 1), 'FACES': 1, 'FACES_HDR': 1, 'LIGHTING': 1}.get(nm, rng.choice([0, 0, 0, 1, 2]))
        if l4d2 and nm == 'ENTITIES':
            lver = 0     # L4D2 field order is recognised by a zero first field of lump 0
        lumps[idx] = (lver, data, nm in compress and nm != 'PAKFILE')
    lumps[35] = (0, b'', False)
    rev = rng.randint(1, 5000)
    blob = encode_container(magic, version, l4d2, rev, lumps, games, odd_lzma='source' if big else odd_lzma)
    desc = dict(layout=layout, compress=sorted(compress), compress_game=sorted(compress_game), origin_vertex=origin_vertex,
                faceids=faceids, water=water, overlay_aux=overlay_aux, vis=vis, n_extra=n_extra, extra_game=extra_game,
                fractional_bounds=fractional_bounds, detail_shapes=detail_shapes, hdr=hdr, bad=sorted(bad), aux=aux, adv=adv, sprp=sprp, empty=empty, odd_lzma=odd_lzma, big=list(big), case_names=case_names, map_revision=rev, size=len(blob))
    desc['_parts'] = dict(magic=magic, version=version, l4d2=l4d2, map_revision=rev, lumps=lumps, games=games)
    return blob, desc
