(** C15 — the whole property in one statement over the objects regenerated from the source (round 5).

    [c15_generated_objects_ok cd q canon] is the conjunction of the boolean premises of the part theorems, instantiated with
    TODAY'S generated objects (record formats and flag expressions of the container, side lists, loop nests, effect tables
    and exits by exception of the Frame methods, chain configuration, pixel paths, bounds tests, filter terms) and one
    generated codec [cd] with its specification [q] and canonical form [canon].  The check discharges it in the kernel for
    every writable format (instance obligation `all_premises_of_c15_property_hold_for_the_generated_objects`), so
    [whole_property] is about the objects the translators read from vtf.py / _py_vtf_readwrite.py on this run.
    What stays outside (semantic hypotheses, visible in the statement): the file is one that fits its fields
    ([vfile_fits]), its image part is the frames in save()'s loop order, pixels are bytes - and, outside the statement, that
    [encode_file]/[decode_file] are faithful models of VTF.save/VTF.read (tie: sites, flag trees, event order, example
    files, two-way correspondence) and that the translators classify the source correctly. *)
From Coq Require Import ZArith NArith List Bool String.
From SV Require Import Fmt.VtfPixelExpr Fmt.VtfPixelExprProofs Fmt.VtfLayout Fmt.VtfLayoutProofs.
From SV Require Import Gen.PixelCodecs_gen Gen.VtfLayout_gen Fmt.VtfGenProofs.
From SV Require Import Fmt.VtfFrameSM Fmt.VtfFrameSMProofs Gen.VtfFrameSM_gen.
From SV Require Import Fmt.VtfFrameRaise Fmt.VtfFrameRaiseProofs.
From SV Require Import Bin.Struct Fmt.VtfContainer Fmt.VtfContainerProofs Gen.VtfContainer_gen.
From SV Require Import Fmt.VtfSides Fmt.VtfSidesProofs.
From SV Require Import Fmt.VtfWholeFile Fmt.VtfWholeFileProofs.
From SV Require Import Fmt.VtfAccess Fmt.VtfAccessProofs Gen.VtfAccess_gen Fmt.VtfAccessGenProofs.
From SV Require Import Fmt.VtfFrameCodec Fmt.VtfFrameCodecProofs Fmt.VtfPixelsInFileProofs.
Import ListNotations.

Definition gen_F : cfmts := cfmts_of_sites gen_version gen_header gen_depth gen_res_count gen_entry_inline (fst gen_block_len_r).
Definition mutators : list string := ["load"; "clear"; "fill"; "copy_from"; "rescale_from"; "__setitem__"]%string.

Definition container_ok : bool :=
  fmts_wf gen_F && flags_ok gen_flagcfg && sides_ok gen_sidescfg && lorder_eqb gen_save_order gen_read_order.
Definition codec_ok (cd : codec) (q canon : list expr) : bool := rt_ok cd q && sf_ok cd canon && Nat.ltb 0 (bpp cd).
Definition lifecycle_ok : bool :=
  efftable_eqb gen_eff_load ideal_load && efftable_eqb gen_eff_rescale_from ideal_rescale && chain_ok gen_chaincfg
  && forallb (method_raises_cleanly gen_raise_tables) mutators.
Definition access_ok : bool := forallb path_ok gen_paths && bounds_exact getitem_reject && bounds_exact setitem_reject.
Definition mipmaps_ok : bool := terms_eqb bilinear_terms block_terms && Z.eqb bilinear_div 4.

Definition c15_generated_objects_ok (cd : codec) (q canon : list expr) : bool :=
  container_ok && codec_ok cd q canon && lifecycle_ok && access_ok && mipmaps_ok.

(** metadata exact, thumbnail where the directory says, every frame's pixels = the documented quantisation of the input *)
Definition file_round_trip_73 (cd : codec) (q : list expr) : Prop :=
  forall v low_size file, (3 <= v_minor v)%Z -> vfile_fits gen_F gen_flagcfg v = true ->
  forall envmap object depth mips frames (pixels : key -> list (list N)) (npix : nat -> nat),
    (forall k, Forall bytes (pixels k)) -> (forall k, List.length (pixels k) = npix (k_mip k)) ->
    v_high v = map (fun k => encode_frame cd (pixels k)) (walk gen_save_order mips frames (save_sides gen_sidescfg envmap object (v_minor v) depth) key0) ->
    encode_file gen_F gen_flagcfg v = Some file ->
    decode_file gen_F gen_flagcfg low_size file
    = Some (v_minor v, set_header_size (v_header v) (hs73 gen_F v), v_depth v, map norm (v_res v), v_sheet v, low_off73 gen_F v, high_off73 gen_F v)
    /\ slice file (low_off73 gen_F v) (List.length (v_low v)) = v_low v
    /\ Forall (fun ok => decode_frame cd (slice file (fst ok) (bpp cd * npix (k_mip (snd ok)))) = map (run q) (pixels (snd ok)))
              (read_table gen_read_order mips frames (read_sides gen_sidescfg envmap (v_minor v) depth) (fun m => (bpp cd * npix m)%nat) (high_off73 gen_F v)).
Definition file_round_trip_pre73 (cd : codec) (q : list expr) : Prop :=
  forall v file, (v_minor v < 3)%Z -> vfile_fits_old gen_F v = true ->
  forall envmap object depth mips frames (pixels : key -> list (list N)) (npix : nat -> nat),
    (forall k, Forall bytes (pixels k)) -> (forall k, List.length (pixels k) = npix (k_mip k)) ->
    v_high v = map (fun k => encode_frame cd (pixels k)) (walk gen_save_order mips frames (save_sides gen_sidescfg envmap object (v_minor v) depth) key0) ->
    encode_file gen_F gen_flagcfg v = Some file ->
    decode_file gen_F gen_flagcfg (List.length (v_low v)) file
    = Some (v_minor v, set_header_size (v_header v) (hs_old gen_F v), v_depth v, [], None, hs_old gen_F v, (hs_old gen_F v + List.length (v_low v))%nat)
    /\ slice file (hs_old gen_F v) (List.length (v_low v)) = v_low v
    /\ Forall (fun ok => decode_frame cd (slice file (fst ok) (bpp cd * npix (k_mip (snd ok)))) = map (run q) (pixels (snd ok)))
              (read_table gen_read_order mips frames (read_sides gen_sidescfg envmap (v_minor v) depth) (fun m => (bpp cd * npix m)%nat)
                          (hs_old gen_F v + List.length (v_low v))%nat).
(** storing what was loaded changes nothing *)
Definition stored_again_unchanged (cd : codec) : Prop :=
  forall p, bytes p -> run (save_e cd) (run (load_e cd) (run (save_e cd) p)) = run (save_e cd) p.
(** what save() writes for the levels of one (frame, side): the file's bytes for levels still in the file, the data, or the
    average of the level above for cleared levels; and a call that raised in between changes this no more than load() does *)
Definition lifecycle_statement : Prop :=
  forall pix fbytes blank decode encode scale,
    (forall chain,
       save_chain pix fbytes blank decode encode scale gen_eff_load gen_eff_rescale_from gen_chaincfg chain
       = map (fun p => Some (encode p)) (final_chain pix fbytes blank decode scale chain))
    /\ (forall name, In name mutators ->
        forall (chain : list (fstate pix fbytes)) m newd scaled modf o,
          (forall st, nth_error chain m = Some st -> In o (find_row (raise_table_of gen_raise_tables name) (present (f_data st)) (present (f_src st)))) ->
          let after := upd chain m (apply_outcome pix fbytes o (blank m) decode newd scaled modf) in
          (forall st, nth_error chain m = Some st ->
             view pix fbytes (blank m) decode (apply_outcome pix fbytes o (blank m) decode newd scaled modf st) = view pix fbytes (blank m) decode st)
          /\ (save_chain pix fbytes blank decode encode scale gen_eff_load gen_eff_rescale_from gen_chaincfg after
                = save_chain pix fbytes blank decode encode scale gen_eff_load gen_eff_rescale_from gen_chaincfg chain
              \/ save_chain pix fbytes blank decode encode scale gen_eff_load gen_eff_rescale_from gen_chaincfg after
                = save_chain pix fbytes blank decode encode scale gen_eff_load gen_eff_rescale_from gen_chaincfg
                    (upd chain m (load pix fbytes (blank m) decode)))).
(** every pixel access path accepts exactly the coordinates inside the frame and addresses the same 4 bytes inside the array *)
Definition access_statement : Prop :=
  forall w h p, In p gen_paths -> forall f x y c, (0 <= c < 4)%Z ->
    (rejects getitem_reject x y w h = false <-> path_accepts p w h f x y c = true)
    /\ (rejects setitem_reject x y w h = false <-> path_accepts p w h f x y c = true)
    /\ (rejects getitem_reject x y w h = false <-> (0 <= x < w /\ 0 <= y < h)%Z)
    /\ path_off p w h f x y c = (getitem_off x y w h + c)%Z
    /\ path_off p w h f x y c = (setitem_off x y w h + c)%Z
    /\ (path_accepts p w h f x y c = true -> (0 <= path_off p w h f x y c < 4 * w * h)%Z).
(** generated mipmaps: halved dimensions, every texel the floor of the mean of its 2x2 parent block *)
Definition mipmap_statement : Prop :=
  (forall a b i, (i < Nat.min a b)%nat ->
     (2 * 2 ^ N.of_nat (a - S i) = 2 ^ N.of_nat (a - i) /\ 2 * 2 ^ N.of_nat (b - S i) = 2 ^ N.of_nat (b - i))%N)
  /\ (forall src w h x y ch, (0 < w)%Z -> (0 < h)%Z -> (0 <= x < w)%Z -> (0 <= y < h)%Z ->
        let sw := (2 * w)%Z in let sh := (2 * h)%Z in
        bilinear gen_scalecfg bilinear_terms bilinear_div src sw sh w h x y ch
        = ((src (texel_off sw (2 * x) (2 * y) + ch) + src (texel_off sw (2 * x + 1) (2 * y) + ch)
            + src (texel_off sw (2 * x) (2 * y + 1) + ch) + src (texel_off sw (2 * x + 1) (2 * y + 1) + ch)) / 4)%Z).

Lemma andb5 : forall a b c d e, a && b && c && d && e = true -> a = true /\ b = true /\ c = true /\ d = true /\ e = true.
Proof. intros a b c d e H. repeat (apply andb_true_iff in H; destruct H as [H ?]). auto. Qed.

Theorem whole_property : pixel_offsets_spec -> scale_strides_spec -> forall cd q canon, c15_generated_objects_ok cd q canon = true ->
  file_round_trip_73 cd q /\ file_round_trip_pre73 cd q /\ stored_again_unchanged cd
  /\ lifecycle_statement /\ access_statement /\ mipmap_statement.
Proof.
  intros Hoffs Hstrides cd q canon H. apply andb5 in H. destruct H as (Hc & Hk & Hl & Ha & Hm).
  unfold container_ok in Hc.
  apply andb_prop in Hc. destruct Hc as [Hc HO]. apply andb_prop in Hc. destruct Hc as [Hc HS].
  apply andb_prop in Hc. destruct Hc as [HF HG].
  unfold codec_ok in Hk. apply andb_prop in Hk. destruct Hk as [Hk Hb]. apply andb_prop in Hk. destruct Hk as [Hrt Hsf].
  apply Nat.ltb_lt in Hb.
  unfold lifecycle_ok in Hl. apply andb_prop in Hl. destruct Hl as [Hl Hraise]. apply andb_prop in Hl. destruct Hl as [Hl Hchain].
  apply andb_prop in Hl. destruct Hl as [HtL HtR].
  unfold access_ok in Ha. apply andb_prop in Ha. destruct Ha as [Ha Hset]. apply andb_prop in Ha. destruct Ha as [Hp Hget].
  unfold mipmaps_ok in Hm. apply andb_prop in Hm. destruct Hm as [Hterms Hdiv].
  assert (Hlen : forall (pixels : key -> list (list N)) (npix : nat -> nat),
             (forall k, Forall bytes (pixels k)) -> (forall k, List.length (pixels k) = npix (k_mip k)) ->
             forall k, List.length (encode_frame cd (pixels k)) = (bpp cd * npix (k_mip k))%nat).
  { intros pixels npix Hpx Hn k. destruct (frame_load_of_save cd q Hrt Hb (pixels k) (Hpx k)) as [_ [_ L]]. rewrite L, Hn. reflexivity. }
  split; [|split; [|split; [|split; [|split]]]].
  - intros v low_size file Hv Hfit envmap object depth mips frames pixels npix Hpx Hn Hhigh Henc.
    destruct (whole_file_with_frames_73 gen_F gen_flagcfg v low_size file gen_sidescfg gen_save_order gen_read_order HF HG Hv Hfit HS HO
                envmap object depth mips frames (fun k => encode_frame cd (pixels k)) (fun m => (bpp cd * npix m)%nat)
                (Hlen pixels npix Hpx Hn) Hhigh Henc) as [D [T1 T]].
    split; [exact D|]. split; [exact T1|].
    eapply Forall_impl; [|exact T]. intros ok E. cbn beta in E. rewrite E.
    destruct (frame_load_of_save cd q Hrt Hb (pixels (snd ok)) (Hpx (snd ok))) as [R _]. exact R.
  - intros v file Hv Hfit envmap object depth mips frames pixels npix Hpx Hn Hhigh Henc.
    destruct (whole_file_with_frames_pre73 gen_F gen_flagcfg v file gen_sidescfg gen_save_order gen_read_order HF Hv Hfit HS HO
                envmap object depth mips frames (fun k => encode_frame cd (pixels k)) (fun m => (bpp cd * npix m)%nat)
                (Hlen pixels npix Hpx Hn) Hhigh Henc) as [D [T1 T]].
    split; [exact D|]. split; [exact T1|].
    eapply Forall_impl; [|exact T]. intros ok E. cbn beta in E. rewrite E.
    destruct (frame_load_of_save cd q Hrt Hb (pixels (snd ok)) (Hpx (snd ok))) as [R _]. exact R.
  - exact (proj2 (sf_sound cd canon Hsf)).
  - intros pix fbytes blank decode encode scale. split.
    + apply chain_written_gen; assumption.
    + intros name Hname chain m newd scaled modf o Hin.
      assert (Hclean : method_raises_cleanly gen_raise_tables name = true).
      { rewrite forallb_forall in Hraise. apply Hraise. exact Hname. }
      split.
      * intros st Hst. apply (rejected_call_shows_the_same_pixels_gen gen_raise_tables name Hclean). apply Hin. exact Hst.
      * apply (rejected_call_then_save_gen pix fbytes blank decode encode scale gen_eff_load gen_eff_rescale_from gen_chaincfg
                 HtL HtR Hchain gen_raise_tables name Hclean chain m newd scaled modf o Hin).
  - intros w h p Hp' f x y c Hc'.
    destruct (gen_every_pixel_path_agrees Hoffs Hp Hget Hset w h) as [_ A].
    destruct (A p Hp' f x y c Hc') as (A1 & A2 & A3 & A4 & A5).
    split; [exact A1|]. split; [exact A2|]. split; [apply (item_accepts_exactly getitem_reject Hget x y w h)|].
    split; [exact A3|]. split; [exact A4|]. exact A5.
  - split.
    + exact ideal_levels_halved.
    + intros src w h x y ch Hw Hh Hx Hy. apply (gen_bilinear_is_block_mean Hstrides); assumption.
Qed.
