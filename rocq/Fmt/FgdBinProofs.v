(** C16 — proofs about Fmt/FgdBin.v *)
From Coq Require Import List NArith Arith Bool String Lia.
From SV Require Import Fmt.FgdBin.
Import ListNotations.
Open Scope N_scope.

(** * Order tables *)
Lemma mem_str_In v l : mem_str v l = true <-> In v l.
Proof.
  induction l as [|x r IH]; cbn [mem_str In]; [split; [discriminate|tauto]|].
  rewrite orb_true_iff, IH, String.eqb_eq. tauto.
Qed.

Lemma index_last_aux_spec v l : forall i best r,
  index_last_aux v l i best = Some r -> best = Some r \/ exists k, r = (i + k)%nat /\ nth_error l k = Some v.
Proof.
  induction l as [|x t IH]; intros i best r; cbn [index_last_aux]; [auto|].
  intros H. apply IH in H. destruct H as [H|[k [-> Hk]]].
  - destruct (String.eqb x v) eqn:E; [|auto]. apply String.eqb_eq in E. subst x. injection H as <-.
    right. exists 0%nat. split; [lia|reflexivity].
  - right. exists (S k). split; [lia|exact Hk].
Qed.
Lemma index_last_aux_keeps v l : forall i r0, exists r, index_last_aux v l i (Some r0) = Some r.
Proof.
  induction l as [|x t IH]; intros i r0; cbn [index_last_aux]; [eauto|]. destruct (String.eqb x v); apply IH.
Qed.
Lemma index_last_aux_some v l : In v l -> forall i best, exists r, index_last_aux v l i best = Some r.
Proof.
  induction l as [|x t IH]; cbn [In index_last_aux]; [tauto|]. intros [->|H] i best.
  - rewrite String.eqb_refl. apply index_last_aux_keeps.
  - apply IH, H.
Qed.

(** decoding inverts encoding for every member of the enum (duplicates in the order list are harmless) *)
Theorem order_roundtrip order all v : order_ok order all = true -> In v all ->
  exists i, encode_type order v = Some i /\ decode_type order i = Some v /\ (i < 128)%nat.
Proof.
  unfold order_ok. intros H Hv. apply andb_true_iff in H. destruct H as [H Hlen].
  apply andb_true_iff in H. destruct H as [Hall _]. rewrite forallb_forall in Hall.
  apply Nat.ltb_lt in Hlen. specialize (Hall v Hv). apply mem_str_In in Hall.
  destruct (index_last_aux_some v order Hall 0%nat None) as [r Hr]. exists r.
  unfold encode_type, decode_type, index_last. split; [exact Hr|].
  apply index_last_aux_spec in Hr. destruct Hr as [Hr|[k [-> Hk]]]; [discriminate|]. cbn [Nat.add].
  split; [exact Hk|]. assert (k < List.length order)%nat by (apply nth_error_Some; congruence). lia.
Qed.
(** every index that can be read back denotes a member of the enum *)
Theorem order_decodes_members order all i v : order_ok order all = true -> decode_type order i = Some v -> In v all.
Proof.
  unfold order_ok, decode_type. intros H Hi. apply andb_true_iff in H. destruct H as [H _].
  apply andb_true_iff in H. destruct H as [_ Hord]. rewrite forallb_forall in Hord.
  apply mem_str_In, Hord. eapply nth_error_In; eauto.
Qed.

(** * index | 128 *)
Lemma lt_in_seq (n : nat) (i : N) : i < N.of_nat n -> In i (map N.of_nat (seq 0 n)).
Proof.
  intros H. rewrite <- (N2Nat.id i). apply in_map. apply in_seq. lia.
Qed.
Lemma flag7_check : forallb (fun i => forallb (fun f => let '(i', f') := unpack_flag7 (pack_flag7 i f) in
                      (i' =? i) && Bool.eqb f' f && (pack_flag7 i f <? 256)) [true; false])
                    (map N.of_nat (seq 0 128)) = true.
Proof. vm_compute. reflexivity. Qed.
Theorem flag7_roundtrip idx f : idx < 128 -> unpack_flag7 (pack_flag7 idx f) = (idx, f) /\ pack_flag7 idx f < 256.
Proof.
  intros H. pose proof flag7_check as C. rewrite forallb_forall in C.
  specialize (C idx (lt_in_seq 128 idx H)). rewrite forallb_forall in C.
  assert (Hf : In f [true; false]) by (destruct f; cbn; auto). specialize (C f Hf).
  destruct (unpack_flag7 (pack_flag7 idx f)) as [i' f'].
  apply andb_true_iff in C. destruct C as [C C3]. apply andb_true_iff in C. destruct C as [C1 C2].
  apply N.eqb_eq in C1. apply Bool.eqb_prop in C2. apply N.ltb_lt in C3. subst. auto.
Qed.

(** * EntFlags *)
Theorem entflags_roundtrip types mask alias_bit ty a :
  entflags_ok types mask alias_bit = true -> In ty types ->
  unpack_entflags mask alias_bit (pack_entflags ty alias_bit a) = (ty, a) /\ pack_entflags ty alias_bit a < 256.
Proof.
  unfold entflags_ok. intros H Hty. apply andb_true_iff in H. destruct H as [H Hbyte].
  apply andb_true_iff in H. destruct H as [H Hnz]. apply andb_true_iff in H. destruct H as [Hall Hm].
  rewrite forallb_forall in Hall, Hbyte. specialize (Hall ty Hty). specialize (Hbyte ty Hty).
  apply andb_true_iff in Hall. destruct Hall as [H1 H2]. apply N.eqb_eq in H1, H2, Hm.
  apply andb_true_iff in Hbyte. destruct Hbyte as [Hb1 Hb2]. apply N.ltb_lt in Hb1, Hb2.
  apply negb_true_iff, N.eqb_neq in Hnz.
  unfold unpack_entflags, pack_entflags. destruct a.
  - rewrite N.land_lor_distr_l, H1, Hm, N.lor_0_r.
    rewrite N.land_lor_distr_r, H2, N.land_diag, N.lor_0_l.
    replace (alias_bit =? 0) with false by (symmetry; apply N.eqb_neq; exact Hnz). auto.
  - rewrite N.lor_0_r, H1, H2. auto.
Qed.

Lemma existsb_eqb_In x l : existsb (N.eqb x) l = true <-> In x l.
Proof.
  rewrite existsb_exists. split; [intros [y [Hy E]]; apply N.eqb_eq in E; subst; exact Hy|].
  intros H. exists x. split; [exact H|apply N.eqb_refl].
Qed.
(** ENTITY_FLAG_2_TYPE inverts ENTITY_TYPE_2_FLAG when the flag values are distinct *)
Theorem flag_table_inverse l n v : nodup_N (map snd l) = true -> nodup_str (map fst l) = true ->
  flag_of_name n l = Some v -> name_of_flag v l = Some n.
Proof.
  induction l as [|[x w] r IH]; cbn [flag_of_name name_of_flag map fst snd nodup_N nodup_str]; [discriminate|].
  intros Hv Hn. apply andb_true_iff in Hv, Hn. destruct Hv as [Hv1 Hv2], Hn as [Hn1 Hn2].
  destruct (String.eqb x n) eqn:E.
  - apply String.eqb_eq in E. subst x. intros [= ->]. rewrite N.eqb_refl. reflexivity.
  - intros H. destruct (w =? v) eqn:Ew; [|apply IH; assumption].
    exfalso. apply N.eqb_eq in Ew. subst w. apply negb_true_iff in Hv1.
    assert (Hin : In v (map snd r)).
    { clear -H. induction r as [|[y u] r IH]; cbn [flag_of_name map snd] in *; [discriminate|].
      destruct (String.eqb y n); [injection H as ->; left; reflexivity|right; apply IH, H]. }
    apply existsb_eqb_In in Hin. congruence.
Qed.

(** * Spawnflags *)
Theorem spawnflag_roundtrip p d : p < 128 -> unpack_spawnflag (pack_spawnflag (2 ^ p) d) = (2 ^ p, d).
Proof.
  intros H. unfold pack_spawnflag, unpack_spawnflag. rewrite N.log2_pow2 by apply N.le_0_l.
  destruct (flag7_roundtrip p d H) as [-> _]. rewrite N.shiftl_1_l. reflexivity.
Qed.

(** * 16-bit little endian *)
Theorem le16_roundtrip i : i < 65536 ->
  fst (pack16 i) < 256 /\ snd (pack16 i) < 256 /\ unpack16 (pack16 i) = i.
Proof.
  intros H. unfold pack16, unpack16. cbn [fst snd]. split; [apply N.mod_lt; discriminate|].
  split; [apply N.div_lt_upper_bound; [discriminate|exact H]|].
  rewrite N.add_comm. symmetry. apply N.div_mod. discriminate.
Qed.

(** * BinStrDict *)
Section StrDict.
Variable A : Type.
Variable eqb : A -> A -> bool.
Hypothesis eqb_spec : forall a b, eqb a b = true <-> a = b.

Lemma index_first_In s l : In s l -> exists i, index_first A eqb s l = Some i /\ nth_error l i = Some s.
Proof.
  induction l as [|x r IH]; cbn [In index_first]; [tauto|]. intros H.
  destruct (eqb x s) eqn:E.
  - apply eqb_spec in E. subst x. exists 0%nat. auto.
  - destruct H as [->|H]; [assert (eqb s s = true) by (apply eqb_spec; reflexivity); congruence|].
    destruct (IH H) as [i [Hi Hn]]. exists (S i). rewrite Hi. auto.
Qed.
Lemma index_first_None s l : index_first A eqb s l = None -> ~ In s l.
Proof. intros H Hin. destruct (index_first_In s l Hin) as [i [Hi _]]. congruence. Qed.
Lemma index_first_nth s l i : index_first A eqb s l = Some i -> nth_error l i = Some s.
Proof.
  revert i. induction l as [|x r IH]; cbn [index_first]; [discriminate|]. intros i.
  destruct (eqb x s) eqn:E.
  - apply eqb_spec in E. subst x. intros [= <-]. reflexivity.
  - destruct (index_first A eqb s r) as [j|]; [|discriminate]. intros [= <-]. apply IH. reflexivity.
Qed.

(** every string of the shared or of the block dictionary is written as an index that reads back as that
    string, provided the shared dictionary has exactly SHARED_STRINGS entries (the offset the writer adds) *)
Theorem strdict_roundtrip base own shared s :
  List.length base = shared -> In s base \/ In s own ->
  exists i, sd_encode A eqb base own shared s = Some i /\ sd_decode A base own i = Some s
            /\ (i < List.length base + List.length own)%nat.
Proof.
  intros Hlen Hin. unfold sd_encode, sd_decode.
  destruct (index_first A eqb s base) as [i|] eqn:E.
  - exists i. pose proof (index_first_nth _ _ _ E) as Hn. split; [reflexivity|].
    assert (i < List.length base)%nat by (apply nth_error_Some; congruence).
    split; [rewrite nth_error_app1 by assumption; exact Hn|lia].
  - destruct Hin as [Hin|Hin]; [exfalso; eapply index_first_None; eauto|].
    destruct (index_first_In s own Hin) as [j [Hj Hn]]. rewrite Hj. cbn [option_map].
    exists (shared + j)%nat. split; [reflexivity|].
    assert (j < List.length own)%nat by (apply nth_error_Some; congruence).
    split; [|lia]. rewrite nth_error_app2 by lia. replace (shared + j - List.length base)%nat with j by lia. exact Hn.
Qed.
End StrDict.

(** without the length condition the offset is wrong: a one-entry shared dictionary and SHARED_STRINGS = 2 *)
Example strdict_needs_full_base :
  sd_decode N [7] [8] 2 = None /\ sd_encode N N.eqb [7] [8] 2 8 = Some 2%nat.
Proof. split; reflexivity. Qed.

(** * Separator-joined lists *)
Lemma split_aux_app sep x : mem_N sep x = false -> forall rest cur,
  split_aux sep (x ++ rest) cur = split_aux sep rest (rev x ++ cur).
Proof.
  induction x as [|c x IH]; cbn [mem_N app rev]; intros H rest cur; [reflexivity|].
  apply orb_false_iff in H. destruct H as [Hc Hx]. cbn [split_aux]. rewrite Hc.
  rewrite IH by exact Hx. rewrite <- app_assoc. reflexivity.
Qed.
Lemma split_aux_join sep l : l <> [] -> Forall (fun x => mem_N sep x = false) l -> forall cur,
  split_aux sep (join_sep sep l) cur =
  match l with x :: r => (rev cur ++ x) :: r | [] => [] end.
Proof.
  intros Hne HF. induction HF as [|x r Hx HF IH]; [congruence|]. clear Hne. intros cur.
  destruct r as [|y r].
  - cbn [join_sep]. rewrite <- (app_nil_r x) at 1. rewrite split_aux_app by exact Hx. cbn [split_aux].
    rewrite rev_app_distr, rev_involutive. reflexivity.
  - change (join_sep sep (x :: y :: r)) with (x ++ sep :: join_sep sep (y :: r)).
    rewrite split_aux_app by exact Hx. cbn [split_aux]. rewrite N.eqb_refl.
    rewrite rev_app_distr, rev_involutive. f_equal. rewrite IH by congruence. reflexivity.
Qed.
Theorem split_join sep l : l <> [] -> Forall (fun x => mem_N sep x = false) l -> split_sep sep (join_sep sep l) = l.
Proof.
  intros Hne HF. unfold split_sep. rewrite split_aux_join by assumption. destruct l; [congruence|reflexivity].
Qed.
(** the empty list does not survive: ''.split(sep) is [''] — harmless for the string table (never indexed) *)
Example split_join_nil sep : split_sep sep (join_sep sep []) = [[]].
Proof. reflexivity. Qed.
