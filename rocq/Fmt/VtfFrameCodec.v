(** C15 — from one pixel to a whole frame (round 4).

    The codecs of [_py_vtf_readwrite] walk a frame pixel by pixel: [for offset in range(width * height)] reads the four
    bytes at [4*offset] of the RGBA array and writes the [bpp] bytes at [bpp*offset] of the stored data (save), or the other
    way round (load); the slice-copy codecs do the same with strides.  The translator accepts no other shape (every index
    must be [stride*offset + k] with [0 <= k < stride]: translate/c15_pixel.py, fail-closed), so a frame is stored as the
    concatenation of its pixels' stored bytes.  These definitions say that; the proofs lift the per-pixel laws
    (VtfPixelExprProofs.v) to frames and compose them with the whole-file theorem. *)
From Coq Require Import NArith List Bool.
From SV Require Import Fmt.VtfPixelExpr.
Import ListNotations.

(** a frame is a list of pixels (each a list of 4 channel values); its stored form is a flat list of bytes *)
Definition encode_frame (c : codec) (ps : list (list N)) : list N := flat_map (fun p => run (save_e c) p) ps.

Fixpoint chunks_aux (fuel n : nat) (bs : list N) : list (list N) :=
  match fuel with
  | O => []
  | S f => match bs with [] => [] | _ => firstn n bs :: chunks_aux f n (skipn n bs) end
  end.
Definition chunks (n : nat) (bs : list N) : list (list N) := chunks_aux (length bs) n bs.
Definition decode_frame (c : codec) (bs : list N) : list (list N) := map (fun d => run (load_e c) d) (chunks (bpp c) bs).
