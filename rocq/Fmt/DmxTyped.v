(** C14 — typed DMX documents: the binary body (Fmt/DmxBin.v, values as wire bytes) composed with the fixed-width value
    codecs (Fmt/DmxScalar.v).  A typed document carries INTEGER / FLOAT / BOOL / TIME / COLOR / vector / MATRIX
    attributes as values ([sval]); [lower_doc] packs them (TYPE_CONVERT[t, BINARY], as [attr.iter_binary()] does in
    export_binary), [lift_doc] unpacks what parse_bin read (TYPE_CONVERT[BINARY, t]). *)
From Coq Require Import NArith ZArith QArith List Bool String Lia.
From SV Require Import Bin.LE Bin.Struct Fmt.DmxCodes Fmt.DmxBin Fmt.DmxScalar.
Import ListNotations.

Inductive tval :=
| TvElem (s : shape eref) | TvStr (s : shape str) | TvBin (s : shape bytes) | TvFix (t : vtype) (s : shape sval).
Record tattr := { ta_name : str; ta_data : tval }.
Record telem := { te_type : str; te_name : str; te_uuid : bytes; te_attrs : list tattr }.
Definition tdoc := list telem.

Fixpoint mapM {A B} (f : A -> option B) (l : list A) : option (list B) :=
  match l with
  | [] => Some []
  | x :: r => match f x, mapM f r with Some y, Some r' => Some (y :: r') | _, _ => None end
  end.
Definition shape_mapM {A B} (f : A -> option B) (s : shape A) : option (shape B) :=
  match s with Scalar x => option_map Scalar (f x) | Array l => option_map Array (mapM f l) end.

Section Typed.
  Variable fmul fdiv : Q -> Q -> Q.
  Variable anorm : N -> N.
  Variable scfg : scalarcfg.

  Definition lower_val (v : tval) : option aval :=
    match v with
    | TvElem s => Some (VElem s) | TvStr s => Some (VStr s) | TvBin s => Some (VBin s)
    | TvFix t s => option_map (VFix t) (shape_mapM (encode_sval fmul scfg t) s)
    end.
  Definition lower_attr (a : tattr) : option attr :=
    option_map (fun d => {| aname := ta_name a; adata := d |}) (lower_val (ta_data a)).
  Definition lower_elem (e : telem) : option elem :=
    option_map (fun l => {| etype := te_type e; ename := te_name e; euuid := te_uuid e; eattrs := l |}) (mapM lower_attr (te_attrs e)).
  Definition lower_doc : tdoc -> option doc := mapM lower_elem.

  Definition lift_val (d : aval) : option tval :=
    match d with
    | VElem s => Some (TvElem s) | VStr s => Some (TvStr s) | VBin s => Some (TvBin s)
    | VFix t s => option_map (TvFix t) (shape_mapM (decode_sval fdiv anorm scfg t) s)
    end.
  Definition lift_attr (a : attr) : option tattr :=
    option_map (fun d => {| ta_name := aname a; ta_data := d |}) (lift_val (adata a)).
  Definition lift_elem (e : elem) : option telem :=
    option_map (fun l => {| te_type := etype e; te_name := ename e; te_uuid := euuid e; te_attrs := l |}) (mapM lift_attr (eattrs e)).
  Definition lift_doc : doc -> option tdoc := mapM lift_elem.

  (** every fixed-width value is representable in its wire type *)
  Definition tval_rep (v : tval) : Prop :=
    match v with TvFix t s => is_var_type t = false /\ Forall (sval_rep fdiv scfg t) (items s) | _ => True end.
  Definition tdoc_rep (d : tdoc) : Prop := Forall (fun e => Forall (fun a => tval_rep (ta_data a)) (te_attrs e)) d.
  (** every fixed-width item of a lowered document has the size the reader will take *)
  Definition aval_sized (cfg : dmxcfg) (d : aval) : Prop :=
    match d with VFix t s => exists sz, size_of cfg t = Some sz /\ Forall (fun b => List.length b = N.to_nat sz) (items s) | _ => True end.
  Definition doc_sized (cfg : dmxcfg) (d : doc) : Prop := Forall (fun e => Forall (fun a => aval_sized cfg (adata a)) (eattrs e)) d.
End Typed.


(** an example: INTEGER, a tick-exact TIME, a COLOR array and a matrix *)
Definition ex_tdoc : tdoc := [
  {| te_type := [84]%N; te_name := [110]%N; te_uuid := repeat 7%N 16;
     te_attrs := [ {| ta_name := [105]%N; ta_data := TvFix TInt (Scalar (SvInt (-5))) |};
                   {| ta_name := [116]%N; ta_data := TvFix TTime (Scalar (SvTime (fdiv64 3 10000))) |};
                   {| ta_name := [99]%N; ta_data := TvFix TColor (Array [SvColor 1 2 3 255; SvColor 0 0 0 0]) |};
                   {| ta_name := [109]%N; ta_data := TvFix TMatrix (Scalar (SvMat [1;2;3;4;5;6;7;8;9]%N)) |};
                   {| ta_name := [115]%N; ta_data := TvStr (Scalar [120]%N) |} ] |} ].
