(** C15 — proofs about the address maps of the pixel access paths (Fmt/VtfAccess.v). *)
From Coq Require Import ZArith List Bool String Lia.
From SV Require Import Fmt.VtfLayout Fmt.VtfLayoutProofs Fmt.VtfAccess.
Import ListNotations.
Open Scope Z_scope.

Lemma dimt_eqb_eq : forall a b, dimt_eqb a b = true -> a = b.
Proof. intros [| |u|] [| |v|]; cbn; try discriminate; try reflexivity. intros H. apply Z.eqb_eq in H. now subst. Qed.

Lemma path_ok_shape : forall p, path_ok p = true -> p_rows p = DH /\ p_cols p = DW /\ p_chan p = DK 4.
Proof.
  intros p H. unfold path_ok in H. apply andb_true_iff in H. destruct H as [H H3]. apply andb_true_iff in H. destruct H as [H1 H2].
  apply dimt_eqb_eq in H1, H2, H3. auto.
Qed.

(** A path that passes [path_ok] accepts exactly the coordinates inside the frame and addresses the canonical byte,
    whatever the frame's size (and whatever any foreign quantity is). *)
Theorem path_address_map : forall p, path_ok p = true ->
  forall w h f x y c,
    path_accepts p w h f x y c = inside w h x y c /\ path_off p w h f x y c = canon_off w x y c.
Proof.
  intros p H w h f x y c. destruct (path_ok_shape p H) as [R [C K]].
  unfold path_accepts, path_off, inside, canon_off. rewrite R, C, K. cbn [dim_val]. split; [reflexivity | ring].
Qed.

Lemma in_range_spec : forall i n, in_range i n = true <-> 0 <= i < n.
Proof. intros. unfold in_range. rewrite andb_true_iff, Z.leb_le, Z.ltb_lt. tauto. Qed.

Lemma inside_spec : forall w h x y c, inside w h x y c = true <-> 0 <= y < h /\ 0 <= x < w /\ 0 <= c < 4.
Proof. intros. unfold inside. rewrite !andb_true_iff, !in_range_spec. tauto. Qed.

(** the canonical byte lies inside the array of 4*w*h bytes *)
Theorem canon_in_buffer : forall w h x y c, inside w h x y c = true -> 0 <= canon_off w x y c < 4 * w * h.
Proof. intros w h x y c H. apply inside_spec in H. unfold canon_off. split; nia. Qed.

(** two different coordinates inside the frame never share a byte *)
Theorem canon_injective : forall w h x y c x' y' c',
  inside w h x y c = true -> inside w h x' y' c' = true ->
  canon_off w x y c = canon_off w x' y' c' -> x = x' /\ y = y' /\ c = c'.
Proof.
  intros w h x y c x' y' c' H H' E. apply inside_spec in H, H'. unfold canon_off in E.
  assert (Hc : c = c') by lia. subst c'.
  assert (E2 : y * w + x = y' * w + x') by lia.
  assert (Hy : y = y') by nia. subst y'. repeat split; lia.
Qed.

(** Written through one path, read through any other: the same coordinate gives the value back, any other coordinate of
    the frame is untouched, and a coordinate outside the frame is refused by both. *)
Theorem paths_agree : forall p q, path_ok p = true -> path_ok q = true ->
  forall w h f g (b : buf) x y c v,
    path_accepts p w h f x y c = path_accepts q w h g x y c
    /\ (path_accepts p w h f x y c = true ->
        bget (bset b (path_off p w h f x y c) v) (path_off q w h g x y c) = v
        /\ forall x' y' c', path_accepts q w h g x' y' c' = true -> (x', y', c') <> (x, y, c) ->
             bget (bset b (path_off p w h f x y c) v) (path_off q w h g x' y' c') = bget b (path_off q w h g x' y' c')).
Proof.
  intros p q Hp Hq w h f g b x y c v.
  destruct (path_address_map p Hp w h f x y c) as [Ap Op]. destruct (path_address_map q Hq w h g x y c) as [Aq Oq].
  split; [congruence|]. intros Acc. rewrite Op, Oq. unfold bget, bset. split.
  - now rewrite Z.eqb_refl.
  - intros x' y' c' Acc' Ne. destruct (path_address_map q Hq w h g x' y' c') as [Aq' Oq']. rewrite Oq'.
    destruct (Z.eqb_spec (canon_off w x' y' c') (canon_off w x y c)) as [E|E]; [|reflexivity].
    exfalso. apply Ne. rewrite Aq' in Acc'. rewrite Ap in Acc.
    destruct (canon_injective w h x' y' c' x y c Acc' Acc E) as [? [? ?]]. now subst.
Qed.

(** The transposed shape (seeded fault c15_6) on an 8x2 frame: the far corner of the frame is refused, a row below
    the frame is accepted, and an accepted coordinate addresses another pixel's bytes. *)
Theorem transposed_path_refuted :
  path_ok transposed_path = false
  /\ inside 8 2 7 1 3 = true /\ path_accepts transposed_path 8 2 0 7 1 3 = false
  /\ inside 8 2 0 2 0 = false /\ path_accepts transposed_path 8 2 0 0 2 0 = true
  /\ path_accepts transposed_path 8 2 0 1 1 0 = true /\ path_off transposed_path 8 2 0 1 1 0 = canon_off 8 3 0 0
  /\ canon_off 8 1 1 0 <> canon_off 8 3 0 0.
Proof. vm_compute. repeat split; congruence. Qed.

Example good_path_ok : path_ok good_path = true.
Proof. reflexivity. Qed.

(** * allocation *)
Lemma prod_val_split : forall fs w h f,
  count_dim DForeign fs = O ->
  prod_val fs w h f = w ^ Z.of_nat (count_dim DW fs) * h ^ Z.of_nat (count_dim DH fs) * const_prod fs.
Proof.
  induction fs as [|a r IH]; intros w h f Hf.
  - cbn. reflexivity.
  - destruct a as [| |k|]; cbn [prod_val fold_right count_dim dimt_eqb const_prod dim_val] in *.
    + rewrite Nat2Z.inj_succ, Z.pow_succ_r by lia. fold (prod_val r w h f). rewrite (IH w h f Hf). ring.
    + rewrite Nat2Z.inj_succ, Z.pow_succ_r by lia. fold (prod_val r w h f). rewrite (IH w h f Hf). ring.
    + fold (prod_val r w h f). rewrite (IH w h f Hf). ring.
    + discriminate.
Qed.

(** an allocation that passes [alloc_ok k] makes k * width * height elements *)
Theorem alloc_size : forall k fs, alloc_ok k fs = true -> forall w h f, prod_val fs w h f = k * w * h.
Proof.
  intros k fs H w h f. unfold alloc_ok in H.
  apply andb_true_iff in H. destruct H as [H H4]. apply andb_true_iff in H. destruct H as [H H3].
  apply andb_true_iff in H. destruct H as [H1 H2].
  apply Nat.eqb_eq in H1, H2, H3. apply Z.eqb_eq in H4.
  rewrite (prod_val_split fs w h f H3), H1, H2, H4. cbn. ring.
Qed.

Theorem alloc_foreign_refuted : alloc_ok 1 [DW; DW] = false /\ prod_val [DW; DW] 8 2 0 <> 1 * 8 * 2.
Proof. vm_compute. split; congruence. Qed.

(** * size test of copy_from(Frame) *)
Lemma gside_eqb_eq : forall a b, gside_eqb a b = true -> a = b.
Proof. intros [] []; cbn; congruence. Qed.

Lemma gatom_is_eval : forall a s t w h w' h', gatom_is a s t = true ->
  gatom_eval a w h w' h' = negb (Z.eqb (gside_val s w h w' h') (gside_val t w h w' h')).
Proof.
  intros [u v] s t w h w' h' H. unfold gatom_is in H. cbn [fst snd] in H. unfold gatom_eval. cbn [fst snd].
  apply orb_true_iff in H. destruct H as [H|H]; apply andb_true_iff in H; destruct H as [H1 H2];
    apply gside_eqb_eq in H1, H2; subst; [reflexivity|]. now rewrite Z.eqb_sym.
Qed.

(** a size test that passes [copy_guard_ok] lets a copy through exactly when both dimensions agree *)
Theorem copy_guard_exact : forall g, copy_guard_ok g = true ->
  forall w h w' h', guard_rejects g w h w' h' = false <-> (w = w' /\ h = h').
Proof.
  intros g H w h w' h'. unfold copy_guard_ok in H.
  apply andb_true_iff in H. destruct H as [H H3]. apply andb_true_iff in H. destruct H as [H1 H2].
  apply existsb_exists in H1. destruct H1 as [a1 [I1 E1]]. apply existsb_exists in H2. destruct H2 as [a2 [I2 E2]].
  rewrite forallb_forall in H3. unfold guard_rejects. split.
  - intros Hr.
    assert (N1 : gatom_eval a1 w h w' h' = false).
    { destruct (gatom_eval a1 w h w' h') eqn:E; [|reflexivity]. assert (existsb (fun a => gatom_eval a w h w' h') g = true) by (apply existsb_exists; eauto). congruence. }
    assert (N2 : gatom_eval a2 w h w' h' = false).
    { destruct (gatom_eval a2 w h w' h') eqn:E; [|reflexivity]. assert (existsb (fun a => gatom_eval a w h w' h') g = true) by (apply existsb_exists; eauto). congruence. }
    rewrite (gatom_is_eval _ _ _ _ _ _ _ E1) in N1. rewrite (gatom_is_eval _ _ _ _ _ _ _ E2) in N2. cbn [gside_val] in N1, N2.
    apply negb_false_iff in N1, N2. apply Z.eqb_eq in N1, N2. auto.
  - intros [-> ->]. destruct (existsb (fun a => gatom_eval a w' h' w' h') g) eqn:E; [|reflexivity].
    apply existsb_exists in E. destruct E as [a [Ia Ea]]. specialize (H3 a Ia). unfold gatom_sound in H3.
    apply orb_true_iff in H3. destruct H3 as [S|S]; rewrite (gatom_is_eval _ _ _ _ _ _ _ S) in Ea; cbn [gside_val] in Ea;
      rewrite Z.eqb_refl in Ea; discriminate.
Qed.

(** comparing only the number of pixels lets an 8x2 frame be copied into a 2x8 one *)
Theorem copy_guard_width_only_refuted :
  copy_guard_ok [(GSelfW, GSrcW)] = false /\ guard_rejects [(GSelfW, GSrcW)] 8 2 8 4 = false.
Proof. vm_compute. split; reflexivity. Qed.

(** * item paths *)
Lemma atom_sound_inside : forall a, atom_sound a = true -> forall x y w h, 0 <= x < w -> 0 <= y < h -> atom_eval a x y w h = false.
Proof.
  intros a H x y w h Hx Hy. unfold atom_sound in H.
  repeat (apply orb_true_iff in H; destruct H as [H|H]); apply atom_eqb_eq in H; subst a; cbn;
    first [apply Z.ltb_ge; lia | apply Z.leb_gt; lia | apply Z.geb_leb; lia | idtac].
Qed.

(** an item path whose test passes [bounds_exact] accepts EXACTLY the coordinates of the frame *)
Theorem item_accepts_exactly : forall ds, bounds_exact ds = true ->
  forall x y w h, rejects ds x y w h = false <-> (0 <= x < w /\ 0 <= y < h).
Proof.
  intros ds H x y w h. unfold bounds_exact in H. apply andb_true_iff in H. destruct H as [Hb Hs]. split.
  - intros Hr. destruct (accepted_in_bounds ds Hb x y w h Hr) as [A [B _]]. auto.
  - intros [Hx Hy]. unfold rejects. destruct (existsb (fun a => atom_eval a x y w h) ds) eqn:E; [|reflexivity].
    apply existsb_exists in E. destruct E as [a [Ia Ea]]. rewrite forallb_forall in Hs.
    rewrite (atom_sound_inside a (Hs a Ia) x y w h Hx Hy) in Ea. discriminate.
Qed.

(** item access and any shaped path agree: the bytes pixel_off .. pixel_off+3 of an accepted (x, y) are the bytes the
    shaped path gives for (x, y, 0..3), and both accept the same (x, y). *)
Theorem item_and_path_agree : forall ds p, bounds_exact ds = true -> path_ok p = true ->
  forall w h f x y c, 0 <= c < 4 ->
    (rejects ds x y w h = false <-> path_accepts p w h f x y c = true)
    /\ path_off p w h f x y c = pixel_off x y w + c.
Proof.
  intros ds p Hd Hp w h f x y c Hc. destruct (path_address_map p Hp w h f x y c) as [A O]. rewrite A, O. split.
  - rewrite (item_accepts_exactly ds Hd), inside_spec. tauto.
  - unfold canon_off, pixel_off. ring.
Qed.

(** the test of the pinned tree rejects nothing too much but is not exact (it accepts x = width) *)
Theorem rejecting_inside_refuted :
  bounds_exact [(BX, CLt, BZero); (BX, CGe, BWidth); (BY, CLt, BZero); (BY, CGe, BHeight); (BX, CGe, BHeight)] = false
  /\ rejects [(BX, CLt, BZero); (BX, CGe, BWidth); (BY, CLt, BZero); (BY, CGe, BHeight); (BX, CGe, BHeight)] 7 1 8 2 = true.
Proof. vm_compute. split; reflexivity. Qed.

(** * frame table keys *)
Lemma krole_eqb_eq : forall a b, krole_eqb a b = true -> a = b.
Proof. intros [] []; cbn; congruence. Qed.
Lemma kroles_eqb_eq : forall l1 l2, kroles_eqb l1 l2 = true -> l1 = l2.
Proof.
  induction l1 as [|a r IH]; intros [|b r2] H; cbn in H; try discriminate; [reflexivity|].
  apply andb_true_iff in H. destruct H as [H1 H2]. apply krole_eqb_eq in H1. apply IH in H2. now subst.
Qed.
(** two sites that pass [key_ok] build the same key for the same (frame, side, mipmap): what one stores the other finds *)
Theorem key_sites_agree : forall p q, key_ok p = true -> key_ok q = true ->
  forall f s m o o', key_of p f s m o = [f; s; m] /\ key_of q f s m o' = key_of p f s m o.
Proof.
  intros p q Hp Hq f s m o o'. apply kroles_eqb_eq in Hp, Hq. subst. split; reflexivity.
Qed.
(** frame and mipmap exchanged: level 1 of frame 0 is looked up as level 0 of frame 1 *)
Theorem swapped_key_refuted : key_ok [KMip; KSide; KFrame] = false /\ key_of [KMip; KSide; KFrame] 0 0 1 0 = [1; 0; 0].
Proof. vm_compute. split; reflexivity. Qed.

(** * clear_mipmaps *)
(** exactly the levels smaller than level [after] (index > after) are erased; level [after] and everything larger is kept *)
Theorem clear_after_exact : forall c, clear_after_ok c = true -> forall after m, clears c after m = true <-> after < m.
Proof.
  intros c H after m. unfold clear_after_ok in H. apply cmp_eqb_eq in H. subst c. unfold clears. cbn. rewrite Z.ltb_lt. tauto.
Qed.
(** with [>=] the default clear_mipmaps() (after = 0) erases the largest level too: nothing is left to regenerate from *)
Theorem clear_after_ge_refuted : clear_after_ok CGe = false /\ clears CGe 0 0 = true.
Proof. vm_compute. split; reflexivity. Qed.
