(** C06, round 4: "IDs are preserved when asked".  The ID manager behind VMF.parse(preserve_ids=True) is read from the
    source (translate/c06_ids.py): the body of the get_id method of the class VMF.__init__ instantiates under preserve_ids
    is executed symbolically into a decision list over the requested ID ([idprog]); Gen/VmfIds_gen.v also lists which class
    every manager attribute of a VMF gets in either mode and the constructor sites that ask a manager for an ID.
    Definitions only; proofs are in Fmt/VmfIdsProofs.v. *)
From Coq Require Import List String Bool ZArith.
Import ListNotations.
Open Scope Z_scope.

Inductive icmp := CEq | CNe | CLt | CLe | CGt | CGe.

(** Conditions on the requested ID [desired]; [GOpaque] is a condition on anything else (the set of used IDs, ...): the
    obligations must hold whatever its outcome. *)
Inductive iguard :=
| GCmp (c : icmp) (k : Z)
| GAnd (a b : iguard)
| GOr (a b : iguard)
| GNot (a : iguard)
| GTrue
| GOpaque.

(** What a path returns: the requested ID itself, or anything else (a fresh ID, a constant, another expression). *)
Inductive iact := AKeep | AOther.

(** One entry per path of the method, in source order, with the path condition; the first entry whose condition holds decides. *)
Definition idprog := list (iguard * iact).

(** Conditions are evaluated through [le k] = "desired <= k": every comparison with a constant is a Boolean combination of
    such tests, so the outcome depends on [desired] only through them. *)
Definition cmp_le (le : Z -> bool) (c : icmp) (k : Z) : bool :=
  match c with
  | CLe => le k
  | CLt => le (k - 1)
  | CGt => negb (le k)
  | CGe => negb (le (k - 1))
  | CEq => le k && negb (le (k - 1))
  | CNe => negb (le k && negb (le (k - 1)))
  end.

Fixpoint guard_le (o : bool) (le : Z -> bool) (g : iguard) : bool :=
  match g with
  | GCmp c k => cmp_le le c k
  | GAnd a b => guard_le o le a && guard_le o le b
  | GOr a b => guard_le o le a || guard_le o le b
  | GNot a => negb (guard_le o le a)
  | GTrue => true
  | GOpaque => o
  end.

Fixpoint prog_act (o : bool) (le : Z -> bool) (p : idprog) : iact :=
  match p with
  | [] => AOther
  | (g, a) :: r => if guard_le o le g then a else prog_act o le r
  end.

Definition le_of (d : Z) : Z -> bool := fun k => d <=? k.

(** The outcome of get_id(desired) when the opaque conditions come out as [o]. *)
Definition id_get (p : idprog) (o : bool) (d : Z) : iact := prog_act o (le_of d) p.

(** Reference semantics of a comparison, to state that [cmp_le] is the comparison. *)
Definition cmp_sem (c : icmp) (d k : Z) : bool :=
  match c with
  | CEq => d =? k | CNe => negb (d =? k) | CLt => d <? k | CLe => d <=? k | CGt => d >? k | CGe => d >=? k
  end.

Fixpoint guard_consts (g : iguard) : list Z :=
  match g with
  | GCmp _ k => [k; k - 1]
  | GAnd a b | GOr a b => guard_consts a ++ guard_consts b
  | GNot a => guard_consts a
  | GTrue | GOpaque => []
  end.
Definition prog_consts (p : idprog) : list Z := flat_map (fun ga => guard_consts (fst ga)) p.

Definition is_keep (a : iact) : bool := match a with AKeep => true | AOther => false end.

(** "negative, or kept": IDs a file can hold are naturals (every parse method uses -1 for "no ID"; Entity.parse takes an
    [id] key as the ID only when it is all digits). *)
Definition keeps_or_negative (p : idprog) (o : bool) (le : Z -> bool) : bool := le (-1) || is_keep (prog_act o le p).

(** Representatives: the outcome is constant between two neighbouring constants, so it is enough to look at every constant
    and its successor. *)
Definition test_points (cs : list Z) : list Z := cs ++ map Z.succ cs.

Definition nid_ok (p : idprog) : bool :=
  forallb (fun t => keeps_or_negative p true (le_of t) && keeps_or_negative p false (le_of t))
          (test_points (-1 :: prog_consts p)).

(** Which class a manager attribute of a VMF gets, and the program of each class. *)
Record idman := mk_idman { im_attr : string; im_preserve : string; im_default : string }.
Fixpoint assoc_s {A} (k : string) (l : list (string * A)) : option A :=
  match l with [] => None | (k', v) :: r => if String.eqb k' k then Some v else assoc_s k r end.

Definition manager_keeps (classes : list (string * idprog)) (m : idman) : bool :=
  match assoc_s (im_preserve m) classes with Some p => nid_ok p | None => false end.

(** A constructor site: the method, the manager attribute it asks, whether the statement stores the answer of get_id (as it
    is, or through str()) -- and does not compute with it or drop it. *)
Record idsite := mk_idsite { is_method : string; is_manager : string; is_stores_result : bool }.

Definition kind_ok (classes : list (string * idprog)) (mans : list idman) (sites : list idsite) (attr : string) : bool :=
  match find (fun m => String.eqb (im_attr m) attr) mans with
  | Some m => manager_keeps classes m
              && existsb (fun s => String.eqb (is_manager s) attr) sites
              && forallb (fun s => negb (String.eqb (is_manager s) attr) || is_stores_result s) sites
  | None => false
  end.
