(** Model of how [srctools.vpk] names the files of an archive (vpk.py): the [VPK.filename] setter
    ([filename.endswith('_dir.vpk')] -> [_dir_prefix = filename[:-8]]), the [VPK.file_prefix] property,
    [get_arch_filename(prefix, index)] and the prefix expression at every [get_arch_filename] call site
    ([FileInfo.write] appends to the numbered archive, [FileInfo.read] / [verify] open it again).

    The string expressions that derive a prefix from the file name are a small expression language ([sexpr]);
    the instance read from today's source is Gen/VpkArchName_gen.v.  [seval] gives them Python's meaning
    ([str.removesuffix] removes a suffix, [s[:-k]] drops k characters, [str.rstrip] strips a set of characters);
    [ssym] evaluates them on the symbolic file name  P ++ suffix  for an unknown P and answers only when the
    result does not depend on P.  Executable definitions only; proofs are in VpkArchNameProofs.v. *)
From Coq Require Import List NArith Bool Decimal DecimalN.
From SV Require Import Fmt.VpkDir SM.Vpk.
Import ListNotations.
Open Scope N_scope.

(** ---- Python string primitives on code-point lists ---- *)
Definition is_nil {A} (l : list A) : bool := match l with [] => true | _ => false end.
Fixpoint mem (x : N) (cs : bytes) : bool := match cs with [] => false | c :: r => (x =? c) || mem x r end.

(** s[:len(s)-k] for k <= len(s), '' beyond *)
Definition drop_last (k : nat) (s : bytes) : bytes := firstn (length s - k) s.
(** Python's s[:-k] for a literal k: s[:-0] is s[:0] = '' *)
Definition py_drop_last (k : N) (s : bytes) : bytes := if k =? 0 then [] else drop_last (N.to_nat k) s.
(** s.endswith(suf) *)
Definition ends_with (s suf : bytes) : bool :=
  Nat.leb (length suf) (length s) && bytes_eqb (skipn (length s - length suf) s) suf.
(** s.removesuffix(suf): "if suffix and s.endswith(suffix): s[:-len(suffix)] else s" *)
Definition remove_suffix (s suf : bytes) : bytes :=
  if negb (is_nil suf) && ends_with s suf then drop_last (length suf) s else s.
(** s.rstrip(cs): strips trailing characters that occur in the set cs *)
Fixpoint rstrip_set (cs : bytes) (s : bytes) : bytes :=
  match s with
  | [] => []
  | x :: r => match rstrip_set cs r with
              | [] => if mem x cs then [] else [x]
              | r' => x :: r'
              end
  end.

(** ---- prefix expressions ---- *)
Inductive sexpr :=
| SName                                   (* self._filename / self.filename *)
| SDirPrefix                              (* self._dir_prefix *)
| SRemoveSuffix (e : sexpr) (s : bytes)   (* e.removesuffix(s) *)
| SDropLast (e : sexpr) (k : N)           (* e[:-k] *)
| SRstrip (e : sexpr) (cs : bytes)        (* e.rstrip(cs) *)
| SIfDir (a b : sexpr).                   (* a if self._dir_prefix is not None else b *)

(** Value of an expression for file name [f] and [_dir_prefix = dp]; [None] = Python's None reaches the site. *)
Fixpoint seval (f : bytes) (dp : option bytes) (e : sexpr) : option bytes :=
  match e with
  | SName => Some f
  | SDirPrefix => dp
  | SRemoveSuffix e s => option_map (fun x => remove_suffix x s) (seval f dp e)
  | SDropLast e k => option_map (py_drop_last k) (seval f dp e)
  | SRstrip e cs => option_map (rstrip_set cs) (seval f dp e)
  | SIfDir a b => match dp with Some _ => seval f dp a | None => seval f dp b end
  end.

(** Symbolic evaluation: the file name is  P ++ lf  and [_dir_prefix] is  P ++ l  (for [dp = Some l]) with P unknown;
    the answer [Some l'] means "P ++ l' for every P", [None] means the result may depend on P. *)
Fixpoint ssym (lf : bytes) (dp : option bytes) (e : sexpr) : option bytes :=
  match e with
  | SName => Some lf
  | SDirPrefix => dp
  | SRemoveSuffix e s =>
      match ssym lf dp e with
      | Some l => if is_nil s then Some l else if Nat.leb (length s) (length l) then Some (remove_suffix l s) else None
      | None => None
      end
  | SDropLast e k =>
      match ssym lf dp e with
      | Some l => if (0 <? k) && Nat.leb (N.to_nat k) (length l) then Some (drop_last (N.to_nat k) l) else None
      | None => None
      end
  | SRstrip e cs =>
      match ssym lf dp e with
      | Some l => match rstrip_set cs l with [] => None | r => Some r end
      | None => None
      end
  | SIfDir a b => match dp with Some _ => ssym lf dp a | None => ssym lf dp b end
  end.

(** ---- the naming configuration read from vpk.py ---- *)
Record ncfg := {
  n_suffix : bytes;          (* the literal of filename.endswith(...) in the filename setter: '_dir.vpk' *)
  n_setter : sexpr;          (* what _dir_prefix is set to when the test holds *)
  n_writer : sexpr;          (* prefix given to get_arch_filename in FileInfo.write *)
  n_readers : list sexpr;    (* prefix given to get_arch_filename in FileInfo.read and FileInfo.verify *)
  n_dir_suffix : bytes;      (* get_arch_filename(prefix, None) = prefix + this *)
  n_sep : bytes;             (* f'{prefix}{sep}{index:>0w}{ext}' *)
  n_fill : N;
  n_width : N;
  n_ext : bytes
}.

(** the filename setter *)
Definition dir_prefix_of (c : ncfg) (f : bytes) : option bytes :=
  if ends_with f (n_suffix c) then seval f None (n_setter c) else None.

(** decimal digits of an index (format spec 'd' semantics of an int >= 0) *)
Fixpoint uint_codes (u : uint) : bytes :=
  match u with
  | Nil => []
  | D0 r => 48 :: uint_codes r | D1 r => 49 :: uint_codes r | D2 r => 50 :: uint_codes r | D3 r => 51 :: uint_codes r
  | D4 r => 52 :: uint_codes r | D5 r => 53 :: uint_codes r | D6 r => 54 :: uint_codes r | D7 r => 55 :: uint_codes r
  | D8 r => 56 :: uint_codes r | D9 r => 57 :: uint_codes r
  end.
Definition dec_digits (n : N) : bytes := uint_codes (N.to_uint n).
Definition pad (w : N) (fill : N) (s : bytes) : bytes := repeat fill (N.to_nat w - length s) ++ s.

(** get_arch_filename *)
Definition arch_filename (c : ncfg) (prefix : bytes) (index : option N) : bytes :=
  match index with
  | None => prefix ++ n_dir_suffix c
  | Some i => prefix ++ n_sep c ++ pad (n_width c) (n_fill c) (dec_digits i) ++ n_ext c
  end.

(** the names FileInfo.write / FileInfo.read, verify use for archive [i] of the VPK whose file name is [f] *)
Definition site_name (c : ncfg) (f : bytes) (e : sexpr) (i : N) : option bytes :=
  option_map (fun p => arch_filename c p (Some i)) (seval f (dir_prefix_of c f) e).

(** ---- the decidable condition on a configuration ---- *)
Definition is_digit (x : N) : bool := (48 <=? x) && (x <=? 57).
Fixpoint strip_prefix (p s : bytes) : option bytes :=
  match p, s with
  | [], _ => Some s
  | x :: p', y :: s' => if x =? y then strip_prefix p' s' else None
  | _ :: _, [] => None
  end.
Definition sym_is_P (o : option bytes) : bool := match o with Some [] => true | _ => false end.

(** the setter removes exactly the tested suffix *)
Definition setter_ok (c : ncfg) : bool := negb (is_nil (n_suffix c)) && sym_is_P (ssym (n_suffix c) None (n_setter c)).
(** a call site's prefix is the directory prefix, for every directory file name *)
Definition site_ok (c : ncfg) (e : sexpr) : bool := sym_is_P (ssym (n_suffix c) (Some []) e).
(** numbered archives never collide with the directory file: after the separator the directory suffix continues with a non-digit *)
Definition numbered_ok (c : ncfg) : bool :=
  (n_fill c =? 48) &&
  match strip_prefix (n_sep c) (n_dir_suffix c) with Some (x :: _) => negb (is_digit x) | _ => false end.
Definition ncfg_ok (c : ncfg) : bool :=
  setter_ok c && site_ok c (n_writer c) && forallb (site_ok c) (n_readers c)
  && bytes_eqb (n_dir_suffix c) (n_suffix c) && numbered_ok c.

(** helper for the correspondence (checks/c13.py): [_dir_prefix] and, per index, the archive names of the write, read and verify sites *)
Definition obs_name (c : ncfg) (f : bytes) (idxs : list N) : option bytes * list (list (option bytes)) :=
  (dir_prefix_of c f, map (fun i => map (fun e => site_name c f e i) (n_writer c :: n_readers c)) idxs).
