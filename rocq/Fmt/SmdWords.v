(* SmdWords.v -- SMD data lines: splitting a written line at whitespace (bytes.split(), what Mesh.parse_smd does with
   the skeleton, time and vertex lines) gives back exactly the written fields, for every line template in which each
   conversion is delimited by whitespace literals.  Model and proofs (own file of C20). *)
From Coq Require Import List NArith Bool.
From SV Require Import Fmt.SmdTpl.
Import ListNotations.
Open Scope N_scope.

(** bytes.split(): maximal runs of non-whitespace *)
Definition flush (cur : list N) : list (list N) := match cur with [] => [] | _ => [rev cur] end.
Fixpoint words_acc (cur : list N) (s : list N) : list (list N) :=
  match s with
  | [] => flush cur
  | c :: r => if is_ws c then flush cur ++ words_acc [] r else words_acc (c :: cur) r
  end.
Definition words (s : list N) : list (list N) := words_acc [] s.

Definition starts_ws (s : list N) : bool := match s with c :: _ => is_ws c | [] => false end.
Fixpoint ends_ws (s : list N) : bool :=
  match s with [] => false | [c] => is_ws c | _ :: t => ends_ws t end.

(** a conversion renders to a non-empty run without whitespace (%i, %.6f always do) *)
Definition wordy (v : list N) : bool := negb (match v with [] => true | _ => false end) && forallb (fun c => negb (is_ws c)) v.

(** every conversion is preceded by the start of the line or a literal ending in whitespace and followed by the end
    of the line or a literal starting with whitespace; no two literals in a row (normal form) *)
Fixpoint delim (prev_ws : bool) (l : line) : bool :=
  match l with
  | [] => true
  | Lit s :: r =>
      match r with Lit _ :: _ => false | _ => true end
      && delim (match s with [] => prev_ws | _ => ends_ws s end) r
  | _ :: r =>
      prev_ws && match r with [] => true | Lit s :: _ => starts_ws s | _ => false end && delim false r
  end.

(** a rendered line: every piece with the text it produced *)
Definition rtext (pv : piece * list N) : list N := match fst pv with Lit s => s | _ => snd pv end.
Definition render (ps : list (piece * list N)) : list N := flat_map rtext ps.
Definition fields (ps : list (piece * list N)) : list (list N) :=
  flat_map (fun pv => match fst pv with Lit s => words s | _ => [snd pv] end) ps.
Definition values_wordy (ps : list (piece * list N)) : bool :=
  forallb (fun pv => match fst pv with Lit _ => true | _ => wordy (snd pv) end) ps.

Definition has_quote (l : line) : bool :=
  existsb (fun p => match p with Lit s => existsb (N.eqb 34) s | _ => false end) l.

(* ------------------------------------------------------------------ *)
Lemma words_acc_app : forall a cur b,
  (b = [] \/ starts_ws b = true \/ ends_ws a = true) -> words_acc cur (a ++ b) = words_acc cur a ++ words b.
Proof.
  induction a as [|c t IH]; intros cur b H.
  - cbn [app]. destruct H as [-> | [H | H]]; [cbn; now rewrite app_nil_r | | discriminate].
    destruct b as [|x r]; [discriminate|]. cbn [starts_ws] in H. unfold words. cbn [words_acc]. rewrite H. reflexivity.
  - cbn [app words_acc].
    destruct t as [|d t'].
    + (* a = [c] *)
      cbn [app]. destruct (is_ws c) eqn:Ec.
      * cbn [words_acc flush]. rewrite <- app_assoc. reflexivity.
      * assert (H' : b = [] \/ starts_ws b = true \/ ends_ws [] = true).
        { destruct H as [H | [H | H]]; [now left | now right; left |]. cbn in H. congruence. }
        apply (IH (c :: cur) b H').
    + assert (H' : b = [] \/ starts_ws b = true \/ ends_ws (d :: t') = true).
      { destruct H as [H | [H | H]]; [now left | now right; left | right; right; exact H]. }
      destruct (is_ws c).
      * rewrite (IH [] b H'), app_assoc. reflexivity.
      * apply (IH (c :: cur) b H').
Qed.

Lemma words_app a b : (a = [] \/ b = [] \/ starts_ws b = true \/ ends_ws a = true) -> words (a ++ b) = words a ++ words b.
Proof.
  intros [-> | H]; [reflexivity|]. unfold words at 1 2. apply words_acc_app. tauto.
Qed.

Lemma words_acc_wordy v : forall cur, forallb (fun c => negb (is_ws c)) v = true -> words_acc cur v = flush (rev v ++ cur).
Proof.
  induction v as [|c t IH]; intros cur H; [reflexivity|].
  cbn [forallb] in H. apply andb_prop in H as [Hc Ht]. apply negb_true_iff in Hc.
  cbn [words_acc]. rewrite Hc, (IH _ Ht). cbn [rev]. rewrite <- app_assoc. reflexivity.
Qed.

Lemma words_wordy v : wordy v = true -> words v = [v].
Proof.
  unfold wordy. intros H. apply andb_prop in H as [Hn Hw]. unfold words. rewrite (words_acc_wordy v [] Hw), app_nil_r.
  destruct v as [|c t]; [discriminate|]. unfold flush.
  destruct (rev (c :: t)) eqn:E; [apply (f_equal (@length N)) in E; rewrite rev_length in E; discriminate|].
  rewrite <- E, rev_involutive. reflexivity.
Qed.

Lemma starts_ws_app s r : starts_ws s = true -> starts_ws (s ++ r) = true.
Proof. destruct s; [discriminate|]. exact (fun H => H). Qed.

(** the fields theorem *)
Theorem delimited_line_splits : forall ps prev_ws,
  delim prev_ws (map fst ps) = true -> values_wordy ps = true -> words (render ps) = fields ps.
Proof.
  induction ps as [|[p v] r IH]; intros prev_ws Hd Hv; [reflexivity|].
  cbn [map fst] in Hd. cbn [values_wordy forallb fst snd] in Hv. apply andb_prop in Hv as [Hv Hr].
  unfold render, fields in *.
  destruct p as [s| |prec|]; cbn [flat_map rtext fst snd].
  - (* literal *)
    cbn [delim] in Hd. apply andb_prop in Hd as [Hn Hd].
    rewrite words_app; [rewrite (IH _ Hd Hr); reflexivity|].
    destruct s as [|c s']; [now left|]. right.
    destruct r as [|[p2 v2] r']; [now left|]. right. right.
    cbn [map fst] in Hd, Hn. destruct p2; [discriminate| | |]; cbn [delim] in Hd;
      apply andb_prop in Hd as [Hd _]; apply andb_prop in Hd as [Hd _]; exact Hd.
  - cbn [delim] in Hd. apply andb_prop in Hd as [Hd Hd2]. apply andb_prop in Hd as [_ Hnext].
    rewrite words_app; [rewrite (words_wordy _ Hv), (IH _ Hd2 Hr); reflexivity|].
    right. destruct r as [|[p2 v2] r']; [now left|]. right. left.
    cbn [map fst] in Hnext. destruct p2; try discriminate. cbn [flat_map rtext fst]. apply starts_ws_app. exact Hnext.
  - cbn [delim] in Hd. apply andb_prop in Hd as [Hd Hd2]. apply andb_prop in Hd as [_ Hnext].
    rewrite words_app; [rewrite (words_wordy _ Hv), (IH _ Hd2 Hr); reflexivity|].
    right. destruct r as [|[p2 v2] r']; [now left|]. right. left.
    cbn [map fst] in Hnext. destruct p2; try discriminate. cbn [flat_map rtext fst]. apply starts_ws_app. exact Hnext.
  - cbn [delim] in Hd. apply andb_prop in Hd as [Hd Hd2]. apply andb_prop in Hd as [_ Hnext].
    rewrite words_app; [rewrite (words_wordy _ Hv), (IH _ Hd2 Hr); reflexivity|].
    right. destruct r as [|[p2 v2] r']; [now left|]. right. left.
    cbn [map fst] in Hnext. destruct p2; try discriminate. cbn [flat_map rtext fst]. apply starts_ws_app. exact Hnext.
Qed.

(** non-vacuity: the skeleton pose line "%i %.6f %.6f %.6f  %.6f %.6f %.6f" and the time line *)
Example ex_pose_line :
  let l := [ConvInt; Lit [32]; ConvFloat 6; Lit [32]; ConvFloat 6; Lit [32]; ConvFloat 6; Lit [32; 32]; ConvFloat 6; Lit [32]; ConvFloat 6; Lit [32]; ConvFloat 6] in
  delim true l = true.
Proof. reflexivity. Qed.
Example ex_time_line :
  delim true [Lit [116; 105; 109; 101; 32]; ConvInt] = true
  /\ words (render [(Lit [116; 105; 109; 101; 32], []); (ConvInt, [49; 50])]) = [[116; 105; 109; 101]; [49; 50]].
Proof. split; reflexivity. Qed.
(** refuted: the pinned vertex line (link count glued to the V coordinate) is not delimited, and two fields merge *)
Example pinned_vertex_line_not_delimited : delim true smd_vertex_line_pinned = false.
Proof. reflexivity. Qed.
Example glued_fields_merge :
  words (render [(ConvFloat 6, [48; 46; 53]); (ConvInt, [50])]) = [[48; 46; 53; 50]].
Proof. reflexivity. Qed.

(* ------------------------------------------------------------------ *)
(** * The nodes line: written as  %i QUOTE %s QUOTE %i , read with re.fullmatch of the pattern
    digits, optional whitespace, a double quote, any run without a double quote, a double quote, optional whitespace,
    an optional minus sign and digits (the pattern itself is [nodes_regex] below, as bytes).
    The classes at every boundary are disjoint, so greedy left-to-right matching is the regular expression's meaning. *)
Definition is_digit (c : N) : bool := (48 <=? c) && (c <=? 57).
Fixpoint span (p : N -> bool) (s : list N) : list N * list N :=
  match s with
  | [] => ([], [])
  | c :: r => if p c then let '(a, b) := span p r in (c :: a, b) else ([], s)
  end.
Definition nodes_regex : list N :=   (* the pattern as bytes, compared with the one found in smd.py *)
  [40;91;48;45;57;93;43;41;92;115;42;34;40;91;94;34;93;42;41;34;92;115;42;40;45;63;91;48;45;57;93;43;41].
Fixpoint smd_bytes_eqb (a b : list N) : bool :=
  match a, b with [], [] => true | x :: a', y :: b' => (x =? y) && smd_bytes_eqb a' b' | _, _ => false end.
Definition opt_minus (s : list N) : list N * list N :=
  match s with c :: t => if c =? 45 then ([45], t) else ([], s) | [] => ([], s) end.
Definition parse_nodes (s : list N) : option (list N * list N * list N) :=
  let '(d1, r1) := span is_digit s in
  match d1 with [] => None | _ =>
    let '(_, r2) := span is_ws r1 in
    match r2 with
    | [] => None
    | q :: r3 =>
        if negb (q =? 34) then None else
        let '(nm, r4) := span (fun c => negb (c =? 34)) r3 in
        match r4 with
        | [] => None
        | q2 :: r5 =>
            if negb (q2 =? 34) then None else
            let '(_, r6) := span is_ws r5 in
            let '(sign, r7) := opt_minus r6 in
            let '(d2, r8) := span is_digit r7 in
            match d2, r8 with
            | _ :: _, [] => Some (d1, nm, sign ++ d2)
            | _, _ => None
            end
        end
    end
  end.

Definition all_digits (s : list N) : bool := negb (match s with [] => true | _ => false end) && forallb is_digit s.
Definition int_text (s : list N) : bool := all_digits (snd (opt_minus s)).   (* %i *)
Definition ws_only (s : list N) : bool := forallb is_ws s.
(** the shape of the written line: %i, whitespace then a quote, %s, a quote then whitespace, %i *)
Definition nodes_line_shape (l : line) : bool :=
  match l with
  | [ConvInt; Lit a; ConvStr; Lit b; ConvInt] =>
      match rev a, b with
      | q :: ra, q2 :: tb => (q =? 34) && (q2 =? 34) && ws_only ra && ws_only tb
      | _, _ => false
      end
  | _ => false
  end.

Lemma span_all p s r : forallb p s = true -> (match r with [] => true | c :: _ => negb (p c) end) = true ->
  span p (s ++ r) = (s, r).
Proof.
  induction s as [|c s IH]; intros Hs Hr.
  - cbn [app]. destruct r as [|c r]; [reflexivity|]. cbn [span]. apply negb_true_iff in Hr. rewrite Hr. reflexivity.
  - cbn [forallb] in Hs. apply andb_prop in Hs as [Hc Hs]. cbn [app span]. rewrite Hc, (IH Hs Hr). reflexivity.
Qed.

Lemma digit_not_ws c : is_digit c = true -> is_ws c = false.
Proof.
  unfold is_digit, is_ws. intros H. apply andb_prop in H as [H1 H2]. apply N.leb_le in H1, H2.
  repeat (apply orb_false_iff; split); apply N.eqb_neq; intros ->; cbv in H1, H2; congruence.
Qed.
Lemma digit_not_minus c : is_digit c = true -> (c =? 45) = false.
Proof.
  unfold is_digit. intros H. apply andb_prop in H as [H1 H2]. apply N.leb_le in H1. apply N.eqb_neq. intros ->. cbv in H1. congruence.
Qed.

(** every line of that shape is read back by the regular expression: bone index, name, parent *)
Theorem nodes_line_reads_back a b idx nm par :
  nodes_line_shape [ConvInt; Lit a; ConvStr; Lit b; ConvInt] = true ->
  all_digits idx = true -> forallb (fun c => negb (c =? 34)) nm = true -> int_text par = true ->
  parse_nodes (render [(ConvInt, idx); (Lit a, []); (ConvStr, nm); (Lit b, []); (ConvInt, par)]) = Some (idx, nm, par).
Proof.
  intros Hs Hi Hn Hp. cbn [nodes_line_shape] in Hs.
  destruct (rev a) as [|q ra] eqn:Ea; [discriminate|]. destruct b as [|q2 tb]; [discriminate|].
  rewrite !andb_true_iff in Hs. destruct Hs as [[[Q1 Q2] Wa] Wb]. apply N.eqb_eq in Q1, Q2. subst q q2.
  assert (Ea' : a = rev ra ++ [34]) by (rewrite <- (rev_involutive a), Ea; reflexivity). subst a.
  assert (Wra : forallb is_ws (rev ra) = true).
  { unfold ws_only in Wa. rewrite forallb_forall in *. intros x Hx. apply Wa, in_rev, Hx. }
  unfold render. cbn [flat_map rtext fst snd]. rewrite app_nil_r.
  unfold all_digits in Hi. apply andb_prop in Hi as [Hne Hd]. unfold parse_nodes.
  rewrite <- !app_assoc. cbn [app].
  rewrite (span_all is_digit idx _ Hd).
  2:{ destruct (rev ra) as [|w t] eqn:E; cbn [app]; [reflexivity|].
      cbn [forallb] in Wra. apply andb_prop in Wra as [Hw _]. apply negb_true_iff.
      destruct (is_digit w) eqn:Dw; [|reflexivity]. rewrite (digit_not_ws _ Dw) in Hw. discriminate. }
  destruct idx as [|i0 idx']; [discriminate|].
  rewrite (span_all is_ws (rev ra) _ Wra) by reflexivity. cbn [N.eqb Pos.eqb negb].
  rewrite (span_all (fun c => negb (c =? 34)) nm _ Hn) by reflexivity. cbn [N.eqb Pos.eqb negb].
  unfold int_text in Hp.
  assert (Hfirst : (match par with [] => true | c :: _ => negb (is_ws c) end) = true).
  { destruct par as [|p0 pr]; [reflexivity|]. apply negb_true_iff. unfold opt_minus in Hp.
    destruct (N.eqb_spec p0 45) as [->|_]; [reflexivity|].
    cbn [snd] in Hp. unfold all_digits in Hp. cbn [forallb] in Hp. apply andb_prop in Hp as [_ H].
    apply andb_prop in H as [H _]. apply digit_not_ws, H. }
  rewrite (span_all is_ws tb par Wb Hfirst).
  destruct (opt_minus par) as [sign r7] eqn:Eo. cbn [snd] in Hp.
  unfold all_digits in Hp. apply andb_prop in Hp as [Hpn Hpd].
  rewrite <- (app_nil_r r7), (span_all is_digit r7 [] Hpd) by reflexivity.
  destruct r7 as [|x r7']; [discriminate|].
  f_equal. f_equal. unfold opt_minus in Eo. destruct par as [|p0 pr]; [injection Eo as <- <-; reflexivity|].
  destruct (p0 =? 45) eqn:E45.
  - apply N.eqb_eq in E45. subst p0. injection Eo as <- <-. reflexivity.
  - injection Eo as <- E1 E2. subst. reflexivity.
Qed.

Example ex_nodes_line :
  parse_nodes (render [(ConvInt, [49; 50]); (Lit [32; 34], []); (ConvStr, [98; 32; 120]); (Lit [34; 32], []); (ConvInt, [45; 49])])
  = Some ([49; 50], [98; 32; 120], [45; 49]).
Proof. reflexivity. Qed.
(** a quote inside the name is not representable *)
Example nodes_name_with_quote_refuted :
  parse_nodes (render [(ConvInt, [49]); (Lit [32; 34], []); (ConvStr, [97; 34; 98]); (Lit [34; 32], []); (ConvInt, [48])]) = None.
Proof. reflexivity. Qed.
