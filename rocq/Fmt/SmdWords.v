(* SmdWords.v -- SMD data lines: splitting a written line at whitespace (bytes.split(), what Mesh.parse_smd does with
   the skeleton, time and vertex lines) gives back exactly the written fields, for every line template in which each
   conversion is delimited by whitespace literals.  Model and proofs (own file of C20). *)
From Coq Require Import List NArith Bool.
From SV Require Import Fmt.SmdTpl.
Import ListNotations.
Open Scope N_scope.

(** bytes.split(): maximal runs of non-whitespace *)
Definition flush (cur : list N) : list (list N) := match cur with [] => [] | _ => [rev cur] end.
Fixpoint words_acc (cur : list N) (s : list N) : list (list N) :=
  match s with
  | [] => flush cur
  | c :: r => if is_ws c then flush cur ++ words_acc [] r else words_acc (c :: cur) r
  end.
Definition words (s : list N) : list (list N) := words_acc [] s.

Definition starts_ws (s : list N) : bool := match s with c :: _ => is_ws c | [] => false end.
Fixpoint ends_ws (s : list N) : bool :=
  match s with [] => false | [c] => is_ws c | _ :: t => ends_ws t end.

(** a conversion renders to a non-empty run without whitespace (%i, %.6f always do) *)
Definition wordy (v : list N) : bool := negb (match v with [] => true | _ => false end) && forallb (fun c => negb (is_ws c)) v.

(** every conversion is preceded by the start of the line or a literal ending in whitespace and followed by the end
    of the line or a literal starting with whitespace; no two literals in a row (normal form) *)
Fixpoint delim (prev_ws : bool) (l : line) : bool :=
  match l with
  | [] => true
  | Lit s :: r =>
      match r with Lit _ :: _ => false | _ => true end
      && delim (match s with [] => prev_ws | _ => ends_ws s end) r
  | _ :: r =>
      prev_ws && match r with [] => true | Lit s :: _ => starts_ws s | _ => false end && delim false r
  end.

(** a rendered line: every piece with the text it produced *)
Definition rtext (pv : piece * list N) : list N := match fst pv with Lit s => s | _ => snd pv end.
Definition render (ps : list (piece * list N)) : list N := flat_map rtext ps.
Definition fields (ps : list (piece * list N)) : list (list N) :=
  flat_map (fun pv => match fst pv with Lit s => words s | _ => [snd pv] end) ps.
Definition values_wordy (ps : list (piece * list N)) : bool :=
  forallb (fun pv => match fst pv with Lit _ => true | _ => wordy (snd pv) end) ps.

Definition has_quote (l : line) : bool :=
  existsb (fun p => match p with Lit s => existsb (N.eqb 34) s | _ => false end) l.

(* ------------------------------------------------------------------ *)
Lemma words_acc_app : forall a cur b,
  (b = [] \/ starts_ws b = true \/ ends_ws a = true) -> words_acc cur (a ++ b) = words_acc cur a ++ words b.
Proof.
  induction a as [|c t IH]; intros cur b H.
  - cbn [app]. destruct H as [-> | [H | H]]; [cbn; now rewrite app_nil_r | | discriminate].
    destruct b as [|x r]; [discriminate|]. cbn [starts_ws] in H. unfold words. cbn [words_acc]. rewrite H. reflexivity.
  - cbn [app words_acc].
    destruct t as [|d t'].
    + (* a = [c] *)
      cbn [app]. destruct (is_ws c) eqn:Ec.
      * cbn [words_acc flush]. rewrite <- app_assoc. reflexivity.
      * assert (H' : b = [] \/ starts_ws b = true \/ ends_ws [] = true).
        { destruct H as [H | [H | H]]; [now left | now right; left |]. cbn in H. congruence. }
        apply (IH (c :: cur) b H').
    + assert (H' : b = [] \/ starts_ws b = true \/ ends_ws (d :: t') = true).
      { destruct H as [H | [H | H]]; [now left | now right; left | right; right; exact H]. }
      destruct (is_ws c).
      * rewrite (IH [] b H'), app_assoc. reflexivity.
      * apply (IH (c :: cur) b H').
Qed.

Lemma words_app a b : (a = [] \/ b = [] \/ starts_ws b = true \/ ends_ws a = true) -> words (a ++ b) = words a ++ words b.
Proof.
  intros [-> | H]; [reflexivity|]. unfold words at 1 2. apply words_acc_app. tauto.
Qed.

Lemma words_acc_wordy v : forall cur, forallb (fun c => negb (is_ws c)) v = true -> words_acc cur v = flush (rev v ++ cur).
Proof.
  induction v as [|c t IH]; intros cur H; [reflexivity|].
  cbn [forallb] in H. apply andb_prop in H as [Hc Ht]. apply negb_true_iff in Hc.
  cbn [words_acc]. rewrite Hc, (IH _ Ht). cbn [rev]. rewrite <- app_assoc. reflexivity.
Qed.

Lemma words_wordy v : wordy v = true -> words v = [v].
Proof.
  unfold wordy. intros H. apply andb_prop in H as [Hn Hw]. unfold words. rewrite (words_acc_wordy v [] Hw), app_nil_r.
  destruct v as [|c t]; [discriminate|]. unfold flush.
  destruct (rev (c :: t)) eqn:E; [apply (f_equal (@length N)) in E; rewrite rev_length in E; discriminate|].
  rewrite <- E, rev_involutive. reflexivity.
Qed.

Lemma starts_ws_app s r : starts_ws s = true -> starts_ws (s ++ r) = true.
Proof. destruct s; [discriminate|]. exact (fun H => H). Qed.

(** the fields theorem *)
Theorem delimited_line_splits : forall ps prev_ws,
  delim prev_ws (map fst ps) = true -> values_wordy ps = true -> words (render ps) = fields ps.
Proof.
  induction ps as [|[p v] r IH]; intros prev_ws Hd Hv; [reflexivity|].
  cbn [map fst] in Hd. cbn [values_wordy forallb fst snd] in Hv. apply andb_prop in Hv as [Hv Hr].
  unfold render, fields in *.
  destruct p as [s| |prec|]; cbn [flat_map rtext fst snd].
  - (* literal *)
    cbn [delim] in Hd. apply andb_prop in Hd as [Hn Hd].
    rewrite words_app; [rewrite (IH _ Hd Hr); reflexivity|].
    destruct s as [|c s']; [now left|]. right.
    destruct r as [|[p2 v2] r']; [now left|]. right. right.
    cbn [map fst] in Hd, Hn. destruct p2; [discriminate| | |]; cbn [delim] in Hd;
      apply andb_prop in Hd as [Hd _]; apply andb_prop in Hd as [Hd _]; exact Hd.
  - cbn [delim] in Hd. apply andb_prop in Hd as [Hd Hd2]. apply andb_prop in Hd as [_ Hnext].
    rewrite words_app; [rewrite (words_wordy _ Hv), (IH _ Hd2 Hr); reflexivity|].
    right. destruct r as [|[p2 v2] r']; [now left|]. right. left.
    cbn [map fst] in Hnext. destruct p2; try discriminate. cbn [flat_map rtext fst]. apply starts_ws_app. exact Hnext.
  - cbn [delim] in Hd. apply andb_prop in Hd as [Hd Hd2]. apply andb_prop in Hd as [_ Hnext].
    rewrite words_app; [rewrite (words_wordy _ Hv), (IH _ Hd2 Hr); reflexivity|].
    right. destruct r as [|[p2 v2] r']; [now left|]. right. left.
    cbn [map fst] in Hnext. destruct p2; try discriminate. cbn [flat_map rtext fst]. apply starts_ws_app. exact Hnext.
  - cbn [delim] in Hd. apply andb_prop in Hd as [Hd Hd2]. apply andb_prop in Hd as [_ Hnext].
    rewrite words_app; [rewrite (words_wordy _ Hv), (IH _ Hd2 Hr); reflexivity|].
    right. destruct r as [|[p2 v2] r']; [now left|]. right. left.
    cbn [map fst] in Hnext. destruct p2; try discriminate. cbn [flat_map rtext fst]. apply starts_ws_app. exact Hnext.
Qed.

(** non-vacuity: the skeleton pose line "%i %.6f %.6f %.6f  %.6f %.6f %.6f" and the time line *)
Example ex_pose_line :
  let l := [ConvInt; Lit [32]; ConvFloat 6; Lit [32]; ConvFloat 6; Lit [32]; ConvFloat 6; Lit [32; 32]; ConvFloat 6; Lit [32]; ConvFloat 6; Lit [32]; ConvFloat 6] in
  delim true l = true.
Proof. reflexivity. Qed.
Example ex_time_line :
  delim true [Lit [116; 105; 109; 101; 32]; ConvInt] = true
  /\ words (render [(Lit [116; 105; 109; 101; 32], []); (ConvInt, [49; 50])]) = [[116; 105; 109; 101]; [49; 50]].
Proof. split; reflexivity. Qed.
(** refuted: the pinned vertex line (link count glued to the V coordinate) is not delimited, and two fields merge *)
Example pinned_vertex_line_not_delimited : delim true smd_vertex_line_pinned = false.
Proof. reflexivity. Qed.
Example glued_fields_merge :
  words (render [(ConvFloat 6, [48; 46; 53]); (ConvInt, [50])]) = [[48; 46; 53; 50]].
Proof. reflexivity. Qed.
