(** C16 — model of srctools.fgd._fgd_escape / _write_longstring and of the reader side
    (Tokenizer._handle_string + the '+' continuation of fgd._read_colon_list).

    Characters are code points (N), strings are [list N].  Everything is parameterised by
    - the escape table of tokenizer.ESCAPES  ([esc_table], pairs (symbol, character)),
    - the characters that escape_text leaves alone ('?' and '/'),
    - a record [ls_cfg] with the constants and the two decisive branches of _write_longstring
      (what happens on empty text; whether the hard cut steps back from a dangling backslash),
    all of which are regenerated from the source by translate/c16_fgd.py (Gen/FgdConsts_gen.v). *)
From Coq Require Import List NArith Arith Bool.
Import ListNotations.
Open Scope N_scope.

Definition str := list N.

Definition QUOTE : N := 34.   (* double quote *)
Definition BSLASH : N := 92.  (* backslash *)
Definition LF : N := 10.
Definition CR : N := 13.
Definition SPACE : N := 32.
Definition TAB : N := 9.
Definition PLUS : N := 43.
Definition LOWER_N : N := 110.
Definition APOS : N := 39.

Fixpoint memN (c : N) (l : list N) : bool :=
  match l with [] => false | x :: r => (x =? c) || memN c r end.

(** * Escape tables *)
Definition esc_table := list (N * N).   (* (symbol after the backslash, character it stands for) *)

Fixpoint sym_of_char (t : esc_table) (c : N) : option N :=
  match t with [] => None | (sym, ch) :: r => if ch =? c then Some sym else sym_of_char r c end.
Fixpoint char_of_sym (t : esc_table) (s : N) : option N :=
  match t with [] => None | (sym, ch) :: r => if sym =? s then Some ch else char_of_sym r s end.

(** escape_text(text) with multiline=False: every character that has an escape and is not excluded
    becomes backslash + symbol. *)
Definition esc_unit_ext (t : esc_table) (excl : list N) (c : N) : str :=
  if memN c excl then [c]
  else match sym_of_char t c with Some sym => [BSLASH; sym] | None => [c] end.
Definition escape_ext (t : esc_table) (excl : list N) (s : str) : str := flat_map (esc_unit_ext t excl) s.

(** The un-extended syntax: newline becomes backslash-n, a double quote becomes two apostrophes. *)
Definition esc_unit_std (c : N) : str :=
  if c =? LF then [BSLASH; LOWER_N] else if c =? QUOTE then [APOS; APOS] else [c].
Definition escape_std (s : str) : str := flat_map esc_unit_std s.

Definition fgd_escape (t : esc_table) (excl : list N) (extended : bool) (s : str) : str :=
  if extended then escape_ext t excl s else escape_std s.

(** * The writer: _write_longstring *)
Record ls_cfg := {
  limit : nat;            (* LIMIT = 1000 *)
  min_nl : nat;           (* the 128 of `if split_pos > 128` *)
  empty_quotes : bool;    (* does empty text produce a pair of quotes (true) or nothing at all (false)? *)
  cut_guard : bool;       (* does the hard cut step back when it would strand a backslash? *)
}.

(** index of the last position i with l[i] = a and l[i+1] = b  (str.rfind of a 2-character needle) *)
Fixpoint rfind2_aux (a b : N) (l : list N) (i : nat) (best : option nat) : option nat :=
  match l with
  | x :: r =>
      match r with
      | y :: _ => rfind2_aux a b r (S i) (if (x =? a) && (y =? b) then Some i else best)
      | [] => best
      end
  | [] => best
  end.
Definition rfind2 a b l := rfind2_aux a b l 0 None.

Fixpoint rfind1_aux (a : N) (l : list N) (i : nat) (best : option nat) : option nat :=
  match l with
  | x :: r => rfind1_aux a r (S i) (if x =? a then Some i else best)
  | [] => best
  end.
Definition rfind1 a l := rfind1_aux a l 0 None.

(** number of backslashes at the end of l *)
Fixpoint trailing_bs_rev (l : list N) : nat :=
  match l with x :: r => if x =? BSLASH then S (trailing_bs_rev r) else 0%nat | [] => 0%nat end.
Definition trailing_bs (l : list N) : nat := trailing_bs_rev (rev l).

Definition split_pos (cfg : ls_cfg) (rem : str) : nat :=
  let w := firstn (limit cfg) rem in
  let p1 := match rfind2 BSLASH LOWER_N w with Some i => (i + 2)%nat | None => 1%nat end in
  if (min_nl cfg <? p1)%nat then p1
  else match rfind1 SPACE w with
       | Some i => (i + 1)%nat
       | None => if cut_guard cfg && Nat.odd (trailing_bs w) then (limit cfg - 1)%nat else limit cfg
       end.

Definition nonempty (l : str) : bool := match l with [] => false | _ => true end.

(** The while loop.  [first] = no section emitted yet.  Fuel: the length of the text suffices
    (LongStringProofs.sections_fuel_enough). *)
Fixpoint sections_fuel (fuel : nat) (cfg : ls_cfg) (first : bool) (rem : str) : list str :=
  match fuel with
  | O => [rem]
  | S f =>
      if (limit cfg <? length rem)%nat then
        let p := split_pos cfg rem in
        firstn p rem :: sections_fuel f cfg false (skipn p rem)
      else if nonempty rem || (first && empty_quotes cfg) then [rem] else []
  end.
Definition sections (cfg : ls_cfg) (e : str) : list str := sections_fuel (S (length e)) cfg true e.

Definition quote (s : str) : str := QUOTE :: s ++ [QUOTE].
Definition JOINER : str := [SPACE; PLUS; LF].   (* ' +\n' *)

Fixpoint join (sep : str) (l : list str) : str :=
  match l with
  | [] => []
  | [x] => x
  | x :: r => x ++ sep ++ join sep r
  end.

Definition write_sections (indent : str) (secs : list str) : str := join (JOINER ++ indent) (map quote secs).

Definition write_longstring (t : esc_table) (excl : list N) (cfg : ls_cfg) (extended : bool) (indent text : str) : str :=
  write_sections indent (sections cfg (fgd_escape t excl extended text)).

(** * The reader *)
(** Tokenizer._handle_string as an automaton over the characters after the opening quote. *)
Inductive st := Plain | Esc | AfterCR.
Inductive res := Close | Go (q : st) (out : str).

Definition step (t : esc_table) (q : st) (c : N) : res :=
  match q with
  | Esc =>
      if c =? LF then Go Plain []           (* backslash-newline: line continuation *)
      else match char_of_sym t c with
           | Some ch => Go Plain [ch]
           | None => Go Plain [BSLASH; c]   (* unknown escape: kept verbatim *)
           end
  | _ =>
      if c =? QUOTE then Close
      else if c =? CR then Go AfterCR [LF]
      else if c =? LF then (match q with AfterCR => Go Plain [] | _ => Go Plain [LF] end)
      else if c =? BSLASH then Go Esc []
      else Go Plain [c]
  end.

(** run the automaton over a string body that must not contain a closing quote *)
Fixpoint run (t : esc_table) (q : st) (b : str) : option (st * str) :=
  match b with
  | [] => Some (q, [])
  | c :: r =>
      match step t q c with
      | Close => None
      | Go q' out => match run t q' r with Some (q'', o) => Some (q'', out ++ o) | None => None end
      end
  end.

(** The token-level reader of a '+'-joined string: quoted strings separated by blanks, at most one newline
    before a '+', any blanks/newlines after it (tok.expect(STRING) skips newlines).  Returns the concatenated
    value; None = the real parser raises (unterminated string, '+' not followed by a string). *)
Inductive mode := InStr (q : st) | After | AfterNL | AfterPlus.

Definition blank (c : N) : bool := (c =? SPACE) || (c =? TAB).

Fixpoint rj (t : esc_table) (m : mode) (s : str) : option str :=
  match s with
  | [] => match m with After | AfterNL => Some [] | _ => None end
  | c :: r =>
      match m with
      | InStr q =>
          match step t q c with
          | Close => rj t After r
          | Go q' out => match rj t (InStr q') r with Some v => Some (out ++ v) | None => None end
          end
      | After =>
          if blank c then rj t After r
          else if c =? PLUS then rj t AfterPlus r
          else if c =? LF then rj t AfterNL r
          else Some []
      | AfterNL =>
          if blank c then rj t AfterNL r
          else if c =? PLUS then rj t AfterPlus r
          else Some []
      | AfterPlus =>
          if blank c || (c =? LF) then rj t AfterPlus r
          else if c =? QUOTE then rj t (InStr Plain) r
          else None
      end
  end.

Definition read_joined (t : esc_table) (s : str) : option str :=
  match s with
  | c :: r => if c =? QUOTE then rj t (InStr Plain) r else None
  | [] => None
  end.

(** * Side conditions on the generated objects (boolean, discharged by vm_compute on Gen/FgdConsts_gen.v) *)
Fixpoint nodupN (l : list N) : bool :=
  match l with [] => true | x :: r => negb (memN x r) && nodupN r end.

Definition escaped_by (t : esc_table) (excl : list N) (c : N) : bool :=
  negb (memN c excl) && match sym_of_char t c with Some _ => true | None => false end.

Definition table_ok (t : esc_table) (excl : list N) : bool :=
  nodupN (map fst t) && nodupN (map snd t)
  && negb (memN LF (map fst t))                 (* no symbol is a newline (would be a line continuation) *)
  && negb (memN CR (map fst t))
  && escaped_by t excl QUOTE && escaped_by t excl BSLASH && escaped_by t excl CR && escaped_by t excl LF
  && match char_of_sym t LOWER_N with Some c => c =? LF | None => false end.   (* backslash-n reads as a newline *)

Definition cfg_ok (cfg : ls_cfg) : bool :=
  (2 <=? limit cfg)%nat && (1 <=? min_nl cfg)%nat && empty_quotes cfg && cut_guard cfg.

Definition all_blank (l : str) : bool := forallb blank l.

(** text that the un-extended syntax can represent: no quote, no backslash, no carriage return *)
Definition std_safe (s : str) : bool :=
  forallb (fun c => negb ((c =? QUOTE) || (c =? BSLASH) || (c =? CR))) s.

(** the reader stops after the string when what follows is not a '+' continuation *)
Definition stops (t : esc_table) (tail : str) : bool :=
  match rj t After tail with Some [] => true | _ => false end.

(** a section never ends with a stranded backslash (odd run of backslashes before the closing quote) *)
Definition section_closed (s : str) : bool := Nat.even (trailing_bs s).
