(* SndStacksProofs.v -- lemmas about Fmt/SndStacks.v: for every census satisfying [guard_okb] / [blocks_okb],
   what Sound.export writes about the operator stacks is a function of the VALUE of the sound only (not of which
   lazy properties were read before, not of an earlier export of the same object), the reader gives the value
   back, and the second generation is identical.  Refuted variants: a presence (`is not None`) test in the guard,
   a guard that forgets a stack. *)
From Coq Require Import List Bool.
From SV Require Import Fmt.SndStacks.
Import ListNotations.

Lemma stk_eqb_refl : forall s, stk_eqb s s = true.
Proof. destruct s; reflexivity. Qed.
Lemma stk_eqb_eq : forall a b, stk_eqb a b = true <-> a = b.
Proof. destruct a, b; simpl; split; intro H; try reflexivity; try discriminate. Qed.

Section Proofs.
Variable A : Type.
Notation snd_t := (sound A).

(** same force flag, same children everywhere: finer than [same_value] *)
Definition eqv (x y : snd_t) : Prop := force x = force y /\ forall s, content x s = content y s.

Lemma eqv_refl : forall x, eqv x x.
Proof. split; auto. Qed.
Lemma eqv_trans : forall x y z, eqv x y -> eqv y z -> eqv x z.
Proof. intros x y z [a b] [c d]. split; [congruence | intro s; rewrite b; apply d]. Qed.

Lemma touch_eqv : forall s x, eqv (touch s x) x.
Proof.
  intros s [f a b c]. unfold touch, eqv, content, get, set.
  destruct s; simpl; [destruct a | destruct b | destruct c]; simpl; split; auto; intros []; reflexivity.
Qed.
Lemma look_eqv : forall p s x, eqv (look p s x) x.
Proof. intros [] s x; simpl; [apply touch_eqv | apply eqv_refl]. Qed.
Lemma touches_eqv : forall ts x, eqv (touches ts x) x.
Proof.
  unfold touches. induction ts as [|s r IH]; intro x; simpl; [apply eqv_refl|].
  eapply eqv_trans; [apply IH | apply touch_eqv].
Qed.

Lemma eqv_same_value : forall x y, eqv x y -> same_value x y.
Proof.
  intros x y [a b]. split; [|exact b]. unfold is_v2. rewrite a. f_equal.
  unfold all_stk; simpl. rewrite !b. reflexivity.
Qed.

(** the value of an emptiness-based term is a function of the sound's value *)
Definition term_val (t : gterm) (x : snd_t) : bool :=
  match t with GForce => force x | GTruthy _ s => nonempty (content x s) | GPresent _ s => present x s end.

Lemma term_val_eqv : forall t x y, term_emptiness_based t = true -> eqv x y -> term_val t x = term_val t y.
Proof. intros [|p s|p s] x y H [a b]; simpl in *; [exact a | rewrite b; reflexivity | discriminate]. Qed.

Lemma eval_term_spec : forall t x, term_emptiness_based t = true ->
  fst (eval_term t x) = term_val t x /\ eqv (snd (eval_term t x)) x.
Proof.
  intros [|p s|p s] x H; simpl in *; try discriminate.
  - split; [reflexivity | apply eqv_refl].
  - split; [|apply look_eqv]. destruct (look_eqv p s x) as [_ b]. rewrite b. reflexivity.
Qed.

Lemma existsb_term_val_eqv : forall g x y, forallb term_emptiness_based g = true -> eqv x y ->
  existsb (fun t => term_val t x) g = existsb (fun t => term_val t y) g.
Proof.
  induction g as [|t r IH]; intros x y H E; simpl in *; [reflexivity|].
  apply andb_true_iff in H. destruct H as [Ht Hr]. rewrite (term_val_eqv t x y Ht E), (IH x y Hr E). reflexivity.
Qed.

Lemma eval_or_spec : forall g x, forallb term_emptiness_based g = true ->
  fst (eval_or g x) = existsb (fun t => term_val t x) g /\ eqv (snd (eval_or g x)) x.
Proof.
  induction g as [|t r IH]; intros x H; simpl in *.
  - split; [reflexivity | apply eqv_refl].
  - apply andb_true_iff in H. destruct H as [Ht Hr].
    destruct (eval_term_spec t x Ht) as [Hv He].
    destruct (eval_term t x) as [b x'] eqn:E. simpl in Hv, He. subst b.
    destruct (term_val t x) eqn:V; simpl.
    + split; [reflexivity | exact He].
    + destruct (IH x' Hr) as [H1 H2]. split.
      * rewrite H1. apply existsb_term_val_eqv; assumption.
      * eapply eqv_trans; [exact H2 | exact He].
Qed.

(** a guard that passes [guard_okb] computes exactly "this is a version-2 value" *)
Lemma guard_is_v2 : forall g x, guard_okb g = true -> existsb (fun t => term_val t x) g = is_v2 x.
Proof.
  intros g x H. unfold guard_okb in H. apply andb_true_iff in H. destruct H as [H Hs].
  apply andb_true_iff in H. destruct H as [He Hf].
  apply eq_true_iff_eq. unfold is_v2. rewrite orb_true_iff, !existsb_exists. split.
  - intros [t [Hin Hv]]. destruct t as [|p s|p s].
    + left. exact Hv.
    + right. exists s. split; [destruct s; simpl; auto | exact Hv].
    + unfold guard_no_presence_test in He. rewrite forallb_forall in He. specialize (He _ Hin). discriminate.
  - intros [Hv | [s [_ Hv]]].
    + unfold guard_covers_force in Hf. apply existsb_exists in Hf. destruct Hf as [t [Hin Ht]].
      exists t. split; [exact Hin|]. destruct t; try discriminate. exact Hv.
    + unfold guard_covers_every_stack in Hs. rewrite forallb_forall in Hs.
      assert (Hin : In s all_stk) by (destruct s; simpl; auto).
      specialize (Hs s Hin). apply existsb_exists in Hs. destruct Hs as [t [Hint Ht]].
      exists t. split; [exact Hint|]. destruct t as [|p s'|p s']; try discriminate.
      simpl in Ht. apply stk_eqb_eq in Ht. subst s'. exact Hv.
Qed.

(** the blocks a good census writes: every stack with children, under its own name, in census order *)
Definition blocks_val (ws : list wblock) (x : snd_t) : list (stk * list A) :=
  flat_map (fun w => if nonempty (content x (w_name w)) then [(w_name w, content x (w_name w))] else []) ws.

Lemma blocks_val_eqv : forall ws x y, (forall s, content x s = content y s) -> blocks_val ws x = blocks_val ws y.
Proof. intros ws x y H. unfold blocks_val. apply flat_map_ext. intro w. rewrite H. reflexivity. Qed.

Lemma export_blocks_spec : forall ws x, forallb block_okb ws = true ->
  fst (export_blocks ws x) = blocks_val ws x /\ eqv (snd (export_blocks ws x)) x.
Proof.
  induction ws as [|w r IH]; intros x H; simpl in *.
  - split; [reflexivity | apply eqv_refl].
  - apply andb_true_iff in H. destruct H as [Hw Hr].
    unfold block_okb in Hw. apply andb_true_iff in Hw. destruct Hw as [Hg Hsrc].
    apply stk_eqb_eq in Hsrc.
    destruct (w_guard w) as [|p s|p s] eqn:G; try discriminate.
    simpl in Hg. apply stk_eqb_eq in Hg. subst s.
    assert (Hemp : term_emptiness_based (GTruthy p (w_name w)) = true) by reflexivity.
    destruct (eval_term_spec _ x Hemp) as [Hv He].
    destruct (eval_term (GTruthy p (w_name w)) x) as [b x1] eqn:E. simpl in Hv, He. subst b.
    destruct (nonempty (content x (w_name w))) eqn:N.
    + pose proof (look_eqv (w_pub w) (w_src w) x1) as Hl.
      destruct (IH (look (w_pub w) (w_src w) x1) Hr) as [H1 H2].
      destruct (export_blocks r (look (w_pub w) (w_src w) x1)) as [bl x3] eqn:E2. simpl in H1, H2. simpl.
      assert (Hx2 : eqv (look (w_pub w) (w_src w) x1) x) by (eapply eqv_trans; eassumption).
      split.
      * destruct Hx2 as [_ Hc]. rewrite Hc, Hsrc. f_equal. rewrite H1. apply blocks_val_eqv. exact Hc.
      * eapply eqv_trans; eassumption.
    + destruct (IH x1 Hr) as [H1 H2]. split.
      * simpl. rewrite H1. apply blocks_val_eqv. destruct He as [_ Hc]. exact Hc.
      * eapply eqv_trans; eassumption.
Qed.

(** what a good census writes, as a function of the value *)
Definition out_of (ws : list wblock) (x : snd_t) : out A :=
  mkOut (is_v2 x) (if is_v2 x then blocks_val ws x else []).

Lemma export_spec : forall g ws x, guard_okb g = true -> blocks_okb ws = true ->
  fst (export g ws x) = out_of ws x /\ eqv (snd (export g ws x)) x.
Proof.
  intros g ws x Hg Hw. unfold export, out_of.
  assert (Hemp : forallb term_emptiness_based g = true).
  { unfold guard_okb in Hg. apply andb_true_iff in Hg. destruct Hg as [Hg _]. apply andb_true_iff in Hg. tauto. }
  assert (Hb : forallb block_okb ws = true).
  { unfold blocks_okb in Hw. apply andb_true_iff in Hw. destruct Hw as [Hw _]. apply andb_true_iff in Hw. tauto. }
  destruct (eval_or_spec g x Hemp) as [Hv He]. rewrite (guard_is_v2 g x Hg) in Hv.
  destruct (eval_or g x) as [b x1] eqn:E. simpl in Hv, He. subst b.
  destruct (is_v2 x) eqn:V.
  - destruct (export_blocks_spec ws x1 Hb) as [H1 H2].
    destruct (export_blocks ws x1) as [bl x2] eqn:E2. simpl in *. split.
    + f_equal. rewrite H1. apply blocks_val_eqv. destruct He as [_ Hc]. exact Hc.
    + eapply eqv_trans; eassumption.
  - simpl. split; [reflexivity | exact He].
Qed.

Lemma out_of_same_value : forall ws x y, same_value x y -> out_of ws x = out_of ws y.
Proof. intros ws x y [Hv Hc]. unfold out_of. rewrite Hv, (blocks_val_eqv ws x y Hc). reflexivity. Qed.

(** *** the statements *)

(** two sounds of the same value are written identically *)
Theorem export_same_value : forall g ws (x y : snd_t), guard_okb g = true -> blocks_okb ws = true -> same_value x y ->
  fst (export g ws x) = fst (export g ws y).
Proof.
  intros g ws x y Hg Hw H. destruct (export_spec g ws x Hg Hw) as [-> _]. destruct (export_spec g ws y Hg Hw) as [-> _].
  apply out_of_same_value. exact H.
Qed.

(** observer independence: reading the lazy properties, in any order and any number of times, before exporting does
    not change what is written *)
Theorem export_observer_independent : forall g ws ts (x : snd_t), guard_okb g = true -> blocks_okb ws = true ->
  fst (export g ws (touches ts x)) = fst (export g ws x).
Proof. intros. apply export_same_value; auto. apply eqv_same_value, touches_eqv. Qed.

(** exporting the same object again (export itself reads the lazy properties) writes the same *)
Theorem export_again_identical : forall g ws (x : snd_t), guard_okb g = true -> blocks_okb ws = true ->
  fst (export g ws (snd (export g ws x))) = fst (export g ws x).
Proof. intros g ws x Hg Hw. apply export_same_value; auto. apply eqv_same_value. apply (export_spec g ws x Hg Hw). Qed.

Lemma stk_eqb_sym : forall a b, stk_eqb a b = stk_eqb b a.
Proof. destruct a, b; reflexivity. Qed.
Lemma existsb_map_name : forall a r, existsb (stk_eqb a) (map w_name r) = existsb (fun w0 => stk_eqb (w_name w0) a) r.
Proof. induction r as [|w r IH]; simpl; [reflexivity|]. rewrite IH, (stk_eqb_sym a). reflexivity. Qed.

Lemma find_blocks_val : forall ws (x : snd_t) s, nodupb (map w_name ws) = true ->
  find s (blocks_val ws x) = if existsb (fun w => stk_eqb (w_name w) s) ws then content x s else [].
Proof.
  induction ws as [|w r IH]; intros x s H; simpl in *; [reflexivity|].
  apply andb_true_iff in H. destruct H as [Hn Hr]. apply negb_true_iff in Hn.
  unfold blocks_val in *. simpl. unfold find in *. rewrite flat_map_app. rewrite (IH x s Hr).
  destruct (stk_eqb (w_name w) s) eqn:E; simpl.
  - apply stk_eqb_eq in E. subst s.
    assert (Hnot : existsb (fun w0 => stk_eqb (w_name w0) (w_name w)) r = false).
    { rewrite <- existsb_map_name. exact Hn. }
    rewrite Hnot, app_nil_r.
    destruct (content x (w_name w)) eqn:C; simpl; [reflexivity|]. rewrite stk_eqb_refl, app_nil_r. reflexivity.
  - destruct (nonempty (content x (w_name w))); simpl; [rewrite E|]; reflexivity.
Qed.

Lemma not_v2_empty : forall (x : snd_t) s, is_v2 x = false -> content x s = [] /\ force x = false.
Proof.
  intros x s H. unfold is_v2 in H. apply orb_false_iff in H. destruct H as [Hf H]. split; [|exact Hf].
  unfold all_stk in H. simpl in H. rewrite !orb_false_iff in H. destruct H as [a [b [c _]]].
  destruct s; [destruct (content x SStart) | destruct (content x SUpdate) | destruct (content x SStop)]; simpl in *; congruence.
Qed.

(** the reader gives the value back *)
Theorem parse_export_same_value : forall g ws (x : snd_t), guard_okb g = true -> blocks_okb ws = true ->
  same_value (parse (fst (export g ws x))) x.
Proof.
  intros g ws x Hg Hw. destruct (export_spec g ws x Hg Hw) as [-> _]. unfold out_of, parse. simpl.
  unfold blocks_okb in Hw. apply andb_true_iff in Hw. destruct Hw as [Hw Hall]. apply andb_true_iff in Hw. destruct Hw as [_ Hnd].
  rewrite forallb_forall in Hall.
  unfold same_value. destruct (is_v2 x) eqn:V.
  - split; [reflexivity|]. intro s. unfold content, get; simpl. rewrite !(find_blocks_val ws x _ Hnd).
    assert (Hs : forall s', existsb (fun w => stk_eqb (w_name w) s') ws = true) by (intro s'; apply Hall; destruct s'; simpl; auto).
    rewrite !Hs. destruct s; reflexivity.
  - split; [reflexivity|]. intro s. destruct (not_v2_empty x s V) as [Hc _]. fold (content x s). rewrite Hc. destruct s; reflexivity.
Qed.

(** ... and writing what was read gives the identical output *)
Theorem second_generation_identical : forall g ws (x : snd_t), guard_okb g = true -> blocks_okb ws = true ->
  fst (export g ws (parse (fst (export g ws x)))) = fst (export g ws x).
Proof. intros. apply export_same_value; auto. apply parse_export_same_value; auto. Qed.
End Proofs.

(** * Non-vacuity and refuted variants *)
Definition ref_guard : list gterm := [GForce; GTruthy true SStart; GTruthy true SStop; GTruthy true SUpdate].
Definition ref_blocks : list wblock :=
  [mkW SStart (GTruthy true SStart) true SStart; mkW SUpdate (GTruthy true SUpdate) true SUpdate; mkW SStop (GTruthy true SStop) true SStop].
Example ref_census_ok : guard_okb ref_guard = true /\ blocks_okb ref_blocks = true.
Proof. split; reflexivity. Qed.
Example ex_export : fst (export ref_guard ref_blocks (mkSnd false None (Some [7; 8]) (Some []))) = mkOut true [(SUpdate, [7; 8])]
  /\ parse (mkOut true [(SUpdate, [7; 8])]) = mkSnd true (Some []) (Some [7; 8]) (Some []).
Proof. split; reflexivity. Qed.

(** the guard of the seeded-fault class: `self._stack_x is not None` -- a version-1 sound whose start stack was
    merely looked at is written as version 2, and what is read back is a different value *)
Definition presence_guard : list gterm := [GForce; GPresent false SStart; GPresent false SUpdate; GPresent false SStop].
Example presence_guard_refuted :
  guard_okb presence_guard = false
  /\ let x := mkSnd (A := nat) false None None None in
     fst (export presence_guard ref_blocks (touch SStart x)) <> fst (export presence_guard ref_blocks x)
     /\ is_v2 (parse (fst (export presence_guard ref_blocks (touch SStart x)))) <> is_v2 (touch SStart x).
Proof. split; [reflexivity|]. simpl. split; discriminate. Qed.

(** a guard that forgets the stop stack: a sound with only that stack loses it *)
Definition forgetful_guard : list gterm := [GForce; GTruthy true SStart; GTruthy true SUpdate].
Example forgetful_guard_refuted :
  guard_okb forgetful_guard = false
  /\ let x := mkSnd false None None (Some [5]) in
     content (parse (fst (export forgetful_guard ref_blocks x))) SStop <> content x SStop.
Proof. split; [reflexivity|]. simpl. discriminate. Qed.

(** a block guarded by a presence test: an empty block appears once the property was read *)
Definition presence_blocks : list wblock :=
  [mkW SStart (GPresent false SStart) true SStart; mkW SUpdate (GTruthy true SUpdate) true SUpdate; mkW SStop (GTruthy true SStop) true SStop].
Example presence_block_refuted :
  blocks_okb presence_blocks = false
  /\ let x := mkSnd (A := nat) true None None None in
     fst (export ref_guard presence_blocks (touch SStart x)) <> fst (export ref_guard presence_blocks x).
Proof. split; [reflexivity|]. simpl. discriminate. Qed.
