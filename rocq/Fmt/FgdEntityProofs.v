(** C16 — the whole entity definition, as written, is read back: composition of Fmt/FgdHeadProofs.v and Fmt/FgdBodyProofs.v. *)
From Coq Require Import List NArith Arith Bool Lia.
From SV Require Import Fmt.FgdLine Fmt.FgdLineProofs Fmt.FgdBody Fmt.FgdBodyProofs Fmt.FgdHead Fmt.FgdHeadProofs Fmt.FgdEntity.
Import ListNotations.
Open Scope N_scope.

Section Proofs.
Variable tag_norm : str -> str.
Variable tags_valid : list str -> bool.
Variable vt : Type.
Variable vt_text : vt -> str.
Variable vt_lookup : str -> option (bool * vt).
Variables vt_is_bool vt_is_flags vt_is_choices : vt -> bool.
Variable io_text : vt -> str.
Variable io_lookup : str -> option vt.
Variable io_decay : vt -> vt.
Variable dec : N -> str.
Variable undec : str -> option N.
Variable pow2 : N -> bool.
Variable cfg : line_cfg.
Variable rt : Type.
Variable rt_text : rt -> str.
Variable rt_lookup : str -> option rt.
Variable H : Type.
Variable known : str -> bool.
Variable hparse : str -> list str -> option H.
Variable hunknown : str -> list str -> H.
Hypothesis vt_lookup_text : forall v, vt_lookup (vt_text v) = Some (false, v).
Hypothesis io_lookup_text : forall v, io_lookup (io_text v) = Some (io_decay v).
Hypothesis undec_dec : forall n, undec (dec n) = Some n.
Hypothesis rt_lookup_text : forall t, rt_lookup (rt_text t) = Some t.
Hypothesis two_colons : colons_before_desc_without_default cfg = 2%nat.
Hypothesis res_defined : res_block_if_defined cfg = true.
Hypothesis known_base : known KW_BASE = true.
Hypothesis unknown_aliasof : known KW_ALIASOF = false.

Theorem entity_roundtrip label custom alias bases forms hidden hs cls secs items (res : resources rt) rest :
  bases_ok bases -> Forall2 (form_ok H known hparse hunknown) forms hs -> strip cls = cls ->
  Forall (item_wf tag_norm tags_valid vt vt_is_bool vt_is_flags vt_is_choices dec pow2 cfg label) (map snd items) ->
  match res with Some l => Forall (riwf tag_norm tags_valid rt) l | None => True end ->
  entity_read tag_norm tags_valid vt vt_lookup vt_is_bool vt_is_flags vt_is_choices io_lookup dec undec pow2 rt rt_lookup H known hparse hunknown
    (entity_toks vt vt_text vt_is_bool vt_is_flags io_text dec cfg rt rt_text label custom alias bases forms hidden cls secs items res ++ rest)
  = Some (mk_head H (match bases with [] => false | _ => alias && custom end) bases hs cls (concat secs),
          with_res vt rt (fold_left (add_item vt vt_is_bool io_decay cfg rt custom) (map snd items) (mk_body vt rt [] [] [] None))
                   (if custom then res else None),
          rest).
Proof.
  intros Hb Hf Hc Hi Hr. unfold entity_read, entity_toks. rewrite <- app_assoc.
  rewrite (head_roundtrip H known hparse hunknown known_base unknown_aliasof custom alias bases forms hidden hs cls secs _ Hb Hf Hc).
  cbn [app].
  match goal with |- context [body_read ?a ?b ?c ?d ?e ?f ?g ?h ?i ?j ?k ?l ?m (TNl :: ?X)] =>
    change (body_read a b c d e f g h i j k l m (TNl :: X)) with (body_read a b c d e f g h i j k l m X) end.
  rewrite (body_roundtrip tag_norm tags_valid vt vt_text vt_lookup vt_is_bool vt_is_flags vt_is_choices io_text io_lookup io_decay
             dec undec pow2 cfg rt rt_text rt_lookup vt_lookup_text io_lookup_text undec_dec rt_lookup_text two_colons res_defined
             label custom items res rest Hi Hr).
  reflexivity.
Qed.
End Proofs.
