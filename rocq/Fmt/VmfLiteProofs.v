From Coq Require Import List String Bool Arith.
From SV Require Import Fmt.VmfLite.
Import ListNotations.
Open Scope string_scope.

Lemma smem_In a l : smem a l = true <-> In a l.
Proof.
  unfold smem. rewrite existsb_exists. split.
  - intros [x [Hx He]]. apply String.eqb_eq in He. subst. exact Hx.
  - intros H. exists a. split; [exact H | apply String.eqb_refl].
Qed.

Lemma subset_In l1 l2 : subset l1 l2 = true <-> (forall a, In a l1 -> In a l2).
Proof.
  unfold subset. rewrite forallb_forall. split; intros H a Ha.
  - apply smem_In. auto.
  - apply smem_In. auto.
Qed.

Lemma find_entry_some b k l r : find_entry b k l = Some r -> In r l /\ le_block r = b /\ le_key r = k.
Proof.
  unfold find_entry. intros H. apply find_some in H. destruct H as [Hin Hk]. unfold same_key in Hk.
  apply andb_true_iff in Hk. destruct Hk as [H1 H2]. apply String.eqb_eq in H1. apply String.eqb_eq in H2. auto.
Qed.

(** Meaning of the pairing obligation. *)
Theorem lite_paired_sound c : lite_paired c = true ->
  forall w, In w (lc_written c) -> le_dyn w = false -> le_attrs w <> [] ->
  exists r, In r (lc_read c) /\ le_block r = le_block w /\ le_key r = le_key w /\ le_dyn r = false /\
            forall a, In a (le_attrs w) <-> In a (le_attrs r).
Proof.
  unfold lite_paired. intros H w Hw Hd Hne.
  apply andb_true_iff in H. destruct H as [H _]. apply andb_true_iff in H. destruct H as [H _].
  rewrite forallb_forall in H. specialize (H w Hw). unfold entry_paired in H. rewrite Hd in H. cbn [orb] in H.
  destruct (le_attrs w) as [|a0 l0] eqn:Ea; [congruence|].
  destruct (find_entry (le_block w) (le_key w) (lc_read c)) as [r|] eqn:Ef; [|discriminate].
  apply andb_true_iff in H. destruct H as [H H3]. apply andb_true_iff in H. destruct H as [H1 H2].
  apply find_entry_some in Ef. destruct Ef as [Hin [Hb Hk]].
  exists r. repeat split; auto.
  - apply negb_true_iff. exact H1.
  - intros Ha. rewrite <- Ea in H2. apply (proj1 (subset_In _ _) H2). rewrite Ea. exact Ha.
  - intros Ha. rewrite <- Ea in H3. rewrite <- Ea. apply (proj1 (subset_In _ _) H3). exact Ha.
Qed.

Theorem lite_attrs_written_sound c : lite_attrs_written c = true ->
  forall a, (exists r, In r (lc_read c) /\ In a (le_attrs r)) \/ In a (lc_kids_read c) ->
  (exists w, In w (lc_written c) /\ In a (le_attrs w)) \/ In a (lc_kids_written c).
Proof.
  unfold lite_attrs_written. intros H a Ha. rewrite subset_In in H.
  assert (In a (flat_map le_attrs (lc_read c) ++ lc_kids_read c)) as Hin.
  { apply in_or_app. destruct Ha as [[r [Hr Har]]|Hk]; [left|right; exact Hk]. apply in_flat_map. exists r. auto. }
  apply H in Hin. apply in_app_or in Hin. destruct Hin as [Hw|Hk]; [left|right; exact Hk].
  apply in_flat_map in Hw. exact Hw.
Qed.

Section ModelProofs.
  Variable V T : Type.
  Variable enc : lentry -> list V -> T.

  Lemma llookup_absent (o : obj V) b k l :
    existsb (same_key b k) l = false -> llookup T b k (map (line_of V T enc o) l) = None.
  Proof.
    induction l as [|e r IH]; cbn [existsb map llookup]; [reflexivity|].
    intros H. apply orb_false_iff in H. destruct H as [H1 H2]. unfold line_of at 1. unfold same_key in H1. rewrite H1. auto.
  Qed.

  Lemma existsb_filter_false (f g : lentry -> bool) l : existsb f l = false -> existsb f (filter g l) = false.
  Proof.
    induction l as [|e r IH]; cbn [existsb filter]; [reflexivity|]. intros H. apply orb_false_iff in H. destruct H as [H1 H2].
    destruct (g e); cbn [existsb]; [rewrite H1|]; auto.
  Qed.

  (** With distinct written keys, looking a literal written key up in the exported lines yields that line's text. *)
  Lemma llookup_export_lines (o : obj V) l w :
    keys_distinct l = true -> In w l -> le_dyn w = false ->
    llookup T (le_block w) (le_key w) (map (line_of V T enc o) (filter (fun w => negb (le_dyn w)) l)) = Some (enc w (map o (le_attrs w))).
  Proof.
    induction l as [|e r IH]; [intros _ []|].
    cbn [keys_distinct]. intros H Hin Hd. apply andb_true_iff in H. destruct H as [H1 H2]. apply negb_true_iff in H1.
    cbn [filter]. destruct Hin as [->|Hin].
    - rewrite Hd. cbn [negb map llookup]. unfold line_of at 1. rewrite !String.eqb_refl. reflexivity.
    - destruct (le_dyn e) eqn:Ee; cbn [negb]; [apply IH; auto|].
      cbn [map llookup]. unfold line_of at 1.
      destruct ((le_block e =? le_block w) && (le_key e =? le_key w))%bool eqn:Ek; [|apply IH; auto].
      exfalso. apply andb_true_iff in Ek. destruct Ek as [E1 E2]. apply String.eqb_eq in E1. apply String.eqb_eq in E2.
      assert (existsb (same_key (le_block e) (le_key e)) r = true) as Hx.
      { apply existsb_exists. exists w. split; [exact Hin|]. unfold same_key. rewrite E1, E2, !String.eqb_refl. reflexivity. }
      congruence.
  Qed.

  (** Composition: for a paired class, the value the reader finds under the key of a written scalar line (one attribute [a])
      is the text of [o a], it is stored into attribute [a] and nowhere else, and with a codec that inverts ([dec (enc v) = v],
      supplied per field by the string / number / output theorems) the attribute gets its original value back. *)
  Theorem lite_scalar_roundtrip c : lite_paired c = true ->
    forall w a, In w (lc_written c) -> le_dyn w = false -> le_attrs w = [a] ->
    exists r, In r (lc_read c) /\ le_dyn r = false /\ (forall a', In a' (le_attrs r) <-> a' = a) /\
      forall (o : obj V) (dec : T -> V), (forall v, dec (enc w [v]) = v) ->
        option_map dec (llookup T (le_block r) (le_key r) (export_lines V T enc c o)) = Some (o a).
  Proof.
    intros Hp w a Hw Hd Ha.
    destruct (lite_paired_sound c Hp w Hw Hd) as [r [Hr [Hb [Hk [Hdr Hat]]]]]; [rewrite Ha; discriminate|].
    exists r. split; [exact Hr|]. split; [exact Hdr|]. split.
    - intros a'. rewrite <- Hat, Ha. cbn [In]. split; [intros [E|[]]; auto | intros ->; auto].
    - intros o dec Hc. unfold export_lines. rewrite Hb, Hk.
      unfold lite_paired in Hp. apply andb_true_iff in Hp. destruct Hp as [Hp _]. apply andb_true_iff in Hp. destruct Hp as [_ Hkd].
      rewrite (llookup_export_lines o (lc_written c) w Hkd Hw Hd). rewrite Ha. cbn [map option_map]. rewrite Hc. reflexivity.
  Qed.

  (** No cross-talk, for lines computed from several attributes too: the text found under a written key does not change when
      the object changes outside the attributes the line was computed from -- which, in a paired class, are exactly the
      attributes the reader stores it into. *)
  Theorem lite_no_crosstalk c : lite_paired c = true ->
    forall w, In w (lc_written c) -> le_dyn w = false ->
    forall (o o' : obj V), (forall a, In a (le_attrs w) -> o a = o' a) ->
      llookup T (le_block w) (le_key w) (export_lines V T enc c o) = llookup T (le_block w) (le_key w) (export_lines V T enc c o').
  Proof.
    intros Hp w Hw Hd o o' Ho. unfold export_lines.
    unfold lite_paired in Hp. apply andb_true_iff in Hp. destruct Hp as [Hp _]. apply andb_true_iff in Hp. destruct Hp as [_ Hkd].
    rewrite !(llookup_export_lines _ (lc_written c) w Hkd Hw Hd). f_equal. f_equal. apply map_ext_in. exact Ho.
  Qed.
End ModelProofs.

(** Examples and refutations (a two-field class). *)
Definition ex_ok : liteclass := mk_liteclass "Ex"
  [mk_le "side" "uaxis" false ["uaxis"]; mk_le "side" "vaxis" false ["vaxis"]]
  [mk_le "side" "uaxis" false ["uaxis"]; mk_le "side" "vaxis" false ["vaxis"]] [] [].
Definition ex_swapped : liteclass := mk_liteclass "Ex"
  [mk_le "side" "uaxis" false ["uaxis"]; mk_le "side" "vaxis" false ["vaxis"]]
  [mk_le "side" "uaxis" false ["vaxis"]; mk_le "side" "vaxis" false ["uaxis"]] [] [].
Definition ex_forgotten : liteclass := mk_liteclass "Ex"
  [mk_le "side" "uaxis" false ["uaxis"]]
  [mk_le "side" "uaxis" false ["uaxis"]; mk_le "side" "vaxis" false ["vaxis"]] [] [].
Definition ex_duplicate : liteclass := mk_liteclass "Ex"
  [mk_le "side" "uaxis" false ["uaxis"]; mk_le "side" "uaxis" false ["vaxis"]]
  [mk_le "side" "uaxis" false ["uaxis"]] [] [].

Definition ex_enc : lentry -> list nat -> nat := fun _ l => hd 0%nat l.
Example lite_example_ok : lite_paired ex_ok = true /\ lite_attrs_written ex_ok = true.
Proof. split; vm_compute; reflexivity. Qed.
(** A reader that stores the keys into each other's attributes is not paired, and does lose content: the value stored into
    "vaxis" (the reader entry of key "uaxis") is the object's uaxis. *)
Theorem lite_swapped_refuted : lite_paired ex_swapped = false /\
  exists r, find_entry "side" "uaxis" (lc_read ex_swapped) = Some r /\ le_attrs r = ["vaxis"] /\
    forall o : obj nat, llookup nat "side" "uaxis" (export_lines nat nat ex_enc ex_swapped o) = Some (o "uaxis").
Proof. split; [vm_compute; reflexivity|]. eexists. split; [vm_compute; reflexivity|]. split; [reflexivity|]. intros o. reflexivity. Qed.
(** A writer that forgets a line keeps the pairing of what it writes, but fails the completeness obligation; after
    export the key is absent. *)
Theorem lite_forgotten_refuted : lite_paired ex_forgotten = true /\ lite_attrs_written ex_forgotten = false /\
  forall o : obj nat, llookup nat "side" "vaxis" (export_lines nat nat ex_enc ex_forgotten o) = None.
Proof. split; [vm_compute; reflexivity|]. split; [vm_compute; reflexivity|]. intros o. reflexivity. Qed.
(** Two lines with the same key in one block: the second is never found. *)
Theorem lite_duplicate_key_refuted : lite_paired ex_duplicate = false /\
  forall o : obj nat, llookup nat "side" "uaxis" (export_lines nat nat ex_enc ex_duplicate o) = Some (o "uaxis").
Proof. split; [vm_compute; reflexivity|]. intros o. reflexivity. Qed.
