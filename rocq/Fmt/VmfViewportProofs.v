(** C06, round 4: the planar axis of a 2D viewport survives (axiom-free). *)
From Coq Require Import List Bool ZArith Lia.
From SV Require Import Fmt.VmfViewport.
Import ListNotations.
Open Scope Z_scope.

(** If the generated tables pass [vp_ok], every 2D viewport whose u and v are not marker values re-reads as itself. *)
Theorem vp_roundtrip tiers tbl inv : vp_ok tiers tbl inv = true ->
  forall t1 r, tiers = t1 :: r ->
  forall a u v, in_tier t1 u = false -> in_tier t1 v = false ->
  vp_read tiers inv (vp_write tbl a u v) = Some (a, u, v).
Proof.
  intros Hok t1 r -> a u v Hu Hv. cbn [vp_ok] in Hok.
  apply andb_true_iff in Hok. destruct Hok as [Hok _].
  apply andb_true_iff in Hok. destruct Hok as [Hok Hz]. apply andb_true_iff in Hok. destruct Hok as [Hx Hy].
  assert (Ha : axis_ok t1 tbl inv a = true) by (destruct a; assumption). clear Hx Hy Hz.
  unfold axis_ok in Ha. unfold vp_read, vp_write. cbn [vp_choose]. unfold hits.
  destruct (inv a) as [ua va] eqn:Ei. destruct (tbl a) as [[s1 s2] s3] eqn:Et.
  repeat (apply andb_true_iff in Ha; destruct Ha as [Ha ?]).
  destruct a, ua, va; cbn in *; try discriminate;
    repeat match goal with
           | H : is_mark_in _ ?s = true |- _ => destruct s; cbn in H; try discriminate H
           | H : is_u ?s = true |- _ => destruct s; cbn in H; try discriminate H
           | H : is_v ?s = true |- _ => destruct s; cbn in H; try discriminate H
           end;
    cbn; repeat match goal with H : in_tier _ _ = _ |- _ => rewrite H end; cbn; rewrite ?Ei; reflexivity.
Qed.

(** The pinned tree's tables, and the round-1 defect (a zero accepted as marker in the same tier as +-65536). *)
Definition ex_tbl (a : ax) : slots :=
  match a with AX => (SMark 65536, SU, SV) | AY => (SU, SMark (-65536), SV) | AZ => (SU, SV, SMark 65536) end.
Definition ex_inv (a : ax) : ax * ax := match a with AX => (AY, AZ) | AY => (AX, AZ) | AZ => (AX, AY) end.
Definition ex_tiers : list (list Z) := [[-65536; 65536]; [0]].
Definition ex_tiers_zero_first : list (list Z) := [[-65536; 65536; 0]].

Theorem vp_example : vp_ok ex_tiers ex_tbl ex_inv = true /\ vp_read ex_tiers ex_inv (vp_write ex_tbl AY 0 5) = Some (AY, 0, 5).
Proof. vm_compute. split; reflexivity. Qed.
Theorem vp_zero_marker_refuted : vp_ok ex_tiers_zero_first ex_tbl ex_inv = false /\ vp_read ex_tiers_zero_first ex_inv (vp_write ex_tbl AY 0 5) = None.
Proof. vm_compute. split; reflexivity. Qed.
Theorem vp_marker_as_coordinate_refuted : vp_read ex_tiers ex_inv (vp_write ex_tbl AX 65536 5) = None.
Proof. vm_compute. reflexivity. Qed.
