(** C14 — the step of [Element.export_kv2] that the text-level models leave out: which elements of the object graph
    become top-level blocks ("roots": the exported element, every element used more than once, every element whose
    type is an attribute type keyword; all of them in the flat layout) and how the others are written inline inside
    the attribute that holds them — graph -> tree of blocks ([nest_doc]) — and what the reader makes of a tree of
    blocks ([unnest]: every block is an element registered under its id, an inline block is at the same time the value
    of the attribute it stands in).  The root rule is a generated object ([rootcfg], read from the source by
    translate/c14_dmx.py).  Executable definitions only; proofs are in DmxKv2GraphProofs.v. *)
From Coq Require Import NArith List Bool PeanoNat.
From SV Require Import Text.Str Text.Tokenizer Fmt.DmxKv2 Fmt.DmxKv2Nested.
Import ListNotations.

(** ** The root rule as written in [export_kv2] *)
Inductive rcmp := RGt | RGe | RNe | REq | RLt | RLe.
Record rootcfg := {
  rc_self_count : nat;      (* use_count = {self.uuid: K} *)
  rc_first : nat;           (* use_count[subelem.uuid] = K the first time an element is seen *)
  rc_incr : nat;            (* use_count[subelem.uuid] += K afterwards *)
  rc_skip_stubs : bool;     (* isinstance(subelem, StubElement): continue *)
  rc_cmp : rcmp;            (* roots = {uuid for uuid, count in use_count.items() if count CMP THR} *)
  rc_thr : nat;
  rc_keyword_roots : bool;  (* roots.update(elem.uuid for elem in elements if _kv2_type_is_keyword(elem.type)) *)
  rc_self_root : bool;      (* roots.add(self.uuid) *)
  rc_flat_all : bool        (* flat: roots = set(use_count) *)
}.
Definition rcmp_eval (c : rcmp) (a b : nat) : bool :=
  match c with
  | RGt => Nat.ltb b a | RGe => Nat.leb b a | RNe => negb (Nat.eqb a b)
  | REq => Nat.eqb a b | RLt => Nat.ltb a b | RLe => Nat.leb a b
  end.
(** the comparison holds exactly for counts of two and more *)
Definition rcmp_ok (c : rcmp) (thr : nat) : bool :=
  match c with RGt => Nat.eqb thr 1 | RGe => Nat.eqb thr 2 | _ => false end.
Definition root_rule_ok (c : rootcfg) : bool :=
  Nat.eqb (rc_self_count c) 1 && Nat.eqb (rc_first c) 1 && Nat.eqb (rc_incr c) 1 && rc_skip_stubs c &&
  rcmp_ok (rc_cmp c) (rc_thr c) && rc_keyword_roots c && rc_self_root c && rc_flat_all c.
Definition pinned_rootcfg : rootcfg :=
  {| rc_self_count := 1; rc_first := 1; rc_incr := 1; rc_skip_stubs := true; rc_cmp := RGt; rc_thr := 1;
     rc_keyword_roots := true; rc_self_root := true; rc_flat_all := true |}.

Definition dflt_gelem : gelem := {| ge_type := []; ge_id := []; ge_name := []; ge_attrs := [] |}.

Fixpoint map_opt {A B} (f : A -> option B) (l : list A) : option (list B) :=
  match l with
  | [] => Some []
  | a :: r => match f a, map_opt f r with Some b, Some bs => Some (b :: bs) | _, _ => None end
  end.

(** references to element [j] in one item / the whole graph *)
Definition item_targets (it : gitem) : list nat := match it with GRef (GElem j) => [j] | _ => [] end.
Definition elem_targets (e : gelem) : list nat := flat_map (fun a => flat_map item_targets (ga_items a)) (ge_attrs e).
Definition all_targets (g : gdoc) : list nat := flat_map elem_targets g.
Definition occ (g : gdoc) (j : nat) : nat := count_occ Nat.eq_dec (all_targets g) j.

Section Roots.
Variable fold : str -> str.
Variable vtnames : list str.
Variable c : rootcfg.
Variable flat : bool.
Variable g : gdoc.
(** the value [use_count] holds for element [j] (0 = never seen: such an element is not in [elements]) *)
Definition use_count (j : nat) : nat :=
  match j, occ g j with
  | O, k => rc_self_count c + rc_incr c * k
  | S _, O => 0
  | S _, S k => rc_first c + rc_incr c * k
  end.
Definition is_root (j : nat) : bool :=
  (flat && rc_flat_all c) || rcmp_eval (rc_cmp c) (use_count j) (rc_thr c) ||
  (rc_keyword_roots c && type_is_keyword fold vtnames (ge_type (nth j g dflt_gelem))) ||
  (rc_self_root c && Nat.eqb j 0).
End Roots.

(** ** graph -> tree of blocks, for any root predicate *)
Section Nest.
Variable g : gdoc.
Variable isroot : nat -> bool.
Variable cull : bool.

Definition ids : list str := map ge_id g.

(** [_export_kv2]: one block; an element value that is not NULL, a stub or a root is written inline, recursively *)
Fixpoint nest_elem (fuel : nat) (i : nat) {struct fuel} : option nelem :=
  match fuel with
  | O => None
  | S f =>
      match nth_error g i with
      | None => None
      | Some e =>
          match map_opt (fun a =>
                  match map_opt (fun it =>
                          match it with
                          | GStr s => Some (NStr s)
                          | GRef GNull => Some NNull
                          | GRef (GStub u) => Some (NRef u)
                          | GRef (GElem j) =>
                              if isroot j then Some (NRef (nth j ids []))
                              else match nest_elem f j with Some t => Some (NInline t) | None => None end
                          end) (ga_items a) with
                  | Some its => Some (NAttr (ga_name a) (ga_type a) (ga_arr a) its)
                  | None => None
                  end) (ge_attrs e) with
          | Some attrs => Some (NElem (ge_type e) (if cull && negb (isroot i) then None else Some (ge_id e)) (ge_name e) attrs)
          | None => None
          end
      end
  end.

(** [export_kv2]: the roots in the order of [elements] *)
Definition root_list : list nat := filter isroot (seq 0 (length g)).
Definition nest_doc : option ndoc := map_opt (nest_elem (S (length g))) root_list.

(** the indexes of the blocks written for element [i], itself first, then the inline blocks in the order written *)
Definition item_blocks (rec : nat -> list nat) (it : gitem) : list nat :=
  match it with GRef (GElem j) => if isroot j then [] else rec j | _ => [] end.
Fixpoint blocks (fuel : nat) (i : nat) {struct fuel} : list nat :=
  match fuel with
  | O => []
  | S f => i :: flat_map (fun a => flat_map (item_blocks (blocks f)) (ga_items a)) (ge_attrs (nth i g dflt_gelem))
  end.
Definition all_blocks : list nat := flat_map (blocks (S (length g))) root_list.
End Nest.

(** ** tree of blocks -> the elements the reader registers ([_parse_kv2_element]): every block is an element; where a
    block stands inline the attribute holds that element, written here as the reference to its id *)
Definition id_text (k : kelem) : str := match ke_id k with Some u => u | None => [] end.
Fixpoint un_elem (e : nelem) {struct e} : kelem * list kelem :=
  match e with
  | NElem ty id nm attrs =>
      let r := (fix go (l : list nattr) : list kattr * list kelem :=
                  match l with
                  | [] => ([], [])
                  | a :: rest => let (ka, d1) := un_attr a in let (kas, d2) := go rest in (ka :: kas, d1 ++ d2)
                  end) attrs in
      ({| ke_type := ty; ke_id := id; ke_name := nm; ke_attrs := fst r |}, snd r)
  end
with un_attr (a : nattr) {struct a} : kattr * list kelem :=
  match a with
  | NAttr an at_ arr items =>
      let r := (fix go (l : list nitem) : list kitem * list kelem :=
                  match l with
                  | [] => ([], [])
                  | it :: rest => let (ki, d1) := un_item it in let (kis, d2) := go rest in (ki :: kis, d1 ++ d2)
                  end) items in
      ({| ka_name := an; ka_type := at_; ka_arr := arr; ka_items := fst r |}, snd r)
  end
with un_item (it : nitem) {struct it} : kitem * list kelem :=
  match it with
  | NStr s => (KStr s, [])
  | NNull => (KNull, [])
  | NRef u => (KRef u, [])
  | NInline e => let (k, d) := un_elem e in (KRef (id_text k), k :: d)
  end.
Definition un_list (e : nelem) : list kelem := let (k, d) := un_elem e in k :: d.
Definition unnest (d : ndoc) : kdoc := flat_map un_list d.

(** [cull_uuid]: the same tree of blocks with the id line of every inline block left out *)
Fixpoint erase_elem (top : bool) (e : nelem) {struct e} : nelem :=
  match e with
  | NElem ty id nm attrs =>
      NElem ty (if top then id else None) nm
        ((fix go (l : list nattr) : list nattr := match l with [] => [] | a :: r => erase_attr a :: go r end) attrs)
  end
with erase_attr (a : nattr) {struct a} : nattr :=
  match a with
  | NAttr an at_ arr items =>
      NAttr an at_ arr ((fix go (l : list nitem) : list nitem := match l with [] => [] | it :: r => erase_item it :: go r end) items)
  end
with erase_item (it : nitem) {struct it} : nitem :=
  match it with NInline e => NInline (erase_elem false e) | x => x end.


(** every element is written exactly once: no id is registered twice *)
Definition written_once (d : ndoc) : bool := nodup_str (map id_text (unnest d)).

(** the id line of a block: left out only for a block that is not a root when [cull_uuid] is set *)
Definition id_written_ok (f : bool -> bool -> bool) : bool :=
  forallb (fun p : bool * bool => Bool.eqb (f (fst p) (snd p)) (negb (fst p) || snd p)) [(true, true); (true, false); (false, true); (false, false)].

(** ** reachability from the exported element *)
Inductive reach (g : gdoc) : nat -> Prop :=
| reach_root : reach g 0
| reach_step i j a : reach g i -> In a (ge_attrs (nth i g dflt_gelem)) -> In (GRef (GElem j)) (ga_items a) -> reach g j.

(** ** examples: a root [0] holding [1] twice (shared), [2] once (inline) and itself; [2] holds [3] (inline, depth 2), a stub and NULL;
    [3] refers back to [2]'s holder [0] and to [1] *)
Definition gs (s : list N) : str := s.
Definition ex_graph : gdoc := [
  {| ge_type := [84]; ge_id := [97]; ge_name := [110];
     ge_attrs := [ {| ga_name := [107]; ga_type := s_element; ga_arr := true;
                      ga_items := [GRef (GElem 1); GRef (GElem 2); GRef (GElem 1); GRef (GElem 0)] |} ] |};
  {| ge_type := [85]; ge_id := [98]; ge_name := []; ge_attrs := [] |};
  {| ge_type := [86]; ge_id := [99]; ge_name := [];
     ge_attrs := [ {| ga_name := [120]; ga_type := s_element; ga_arr := false; ga_items := [GRef (GElem 3)] |};
                   {| ga_name := [121]; ga_type := s_element; ga_arr := true; ga_items := [GRef (GStub [122]); GRef GNull] |} ] |};
  {| ge_type := [87]; ge_id := [100]; ge_name := [];
     ge_attrs := [ {| ga_name := [117]; ga_type := s_element; ga_arr := true; ga_items := [GRef (GElem 0); GRef (GElem 1)] |} ] |} ].

(** a root holding the same child twice *)
Definition ex_shared : gdoc := [
  {| ge_type := [84]; ge_id := [97]; ge_name := [110];
     ge_attrs := [ {| ga_name := [107]; ga_type := s_element; ga_arr := true; ga_items := [GRef (GElem 1); GRef (GElem 1)] |} ] |};
  {| ge_type := [85]; ge_id := [98]; ge_name := []; ge_attrs := [] |} ].
(** [count > 2] instead of [count > 1] *)
Definition late_rootcfg : rootcfg :=
  {| rc_self_count := 1; rc_first := 1; rc_incr := 1; rc_skip_stubs := true; rc_cmp := RGt; rc_thr := 2;
     rc_keyword_roots := true; rc_self_root := true; rc_flat_all := true |}.
