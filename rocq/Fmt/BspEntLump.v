(** The entity lump of a BSP (bsp.py [write_ent_data] / [_lmp_read_ents], vmf.py [Output.as_keyvalue] /
    [Output.parse]): entities are blocks [{ ... }] of quoted ["key" "value"] lines, outputs are such lines whose value
    is five fields joined by ESC (0x1B) or by commas; the lump ends with a NUL.  The writer is a template whose
    escaping modes are read from the source by the translator (Gen/BspGlue_gen.v: [ent_cfg]); the reader is a model
    of the token loop of [_lmp_read_ents] on top of the quoted-string scanner of Fmt/VmfText.v ([hs], which C06 ties
    to the real Tokenizer; checks/c11.py compares [ent_read] with [_lmp_read_ents] itself on every run).
    Executable definitions only; proofs in BspEntLumpProofs.v. *)
From Coq Require Import NArith List Bool.
From SV Require Import Fmt.VmfText.
Import ListNotations.
Open Scope N_scope.

Definition LBRACE : char := 123.
Definition RBRACE : char := 125.
Definition ESC : char := 27.
Definition COMMA : char := 44.
Definition NUL : char := 0.
Definition TAB : char := 9.

(** How a field is put between the quotes: verbatim, [escape_text(x)], [escape_text(x, True)]. *)
Inductive emode := Raw | EscS | EscML.
Definition render (m : emode) (s : list char) : list char :=
  match m with Raw => s | EscS => escape false s | EscML => escape true s end.

Inductive item :=
| IKV (k v : list char)
| IOut (name : list char) (fields : list (list char)).   (* target, input, params, delay text, times text *)

Fixpoint join (sep : char) (l : list (list char)) : list char :=
  match l with
  | [] => []
  | [x] => x
  | x :: r => x ++ sep :: join sep r
  end.

Fixpoint render_all (ms : list emode) (fs : list (list char)) : list (list char) :=
  match ms, fs with
  | m :: ms', f :: fs' => render m f :: render_all ms' fs'
  | _, _ => []
  end.

(** key mode, value mode; output: name mode and the modes of the five fields *)
Definition entcfg := (emode * emode * emode * list emode)%type.

Definition line (k v : list char) : list char := DQ :: k ++ DQ :: SP :: DQ :: v ++ [DQ; LF].
Definition write_item (c : entcfg) (sep : char) (it : item) : list char :=
  let '(km, vm, nm, fms) := c in
  match it with
  | IKV k v => line (render km k) (render vm v)
  | IOut n fs => line (render nm n) (join sep (render_all fms fs))
  end.
Definition write_ent (c : entcfg) (sep : char) (its : list item) : list char :=
  [LBRACE; LF] ++ flat_map (write_item c sep) its ++ [RBRACE; LF].
Definition write_ents (c : entcfg) (sep : char) (ents : list (list item)) : list char :=
  flat_map (write_ent c sep) ents ++ [NUL].

(** * Reader *)
Definition has (c : char) (v : list char) : bool := existsb (N.eqb c) v.
Definition count (c : char) (v : list char) : nat := List.length (filter (N.eqb c) v).

Fixpoint split_aux (sep : char) (cur : list char) (l : list char) : list (list char) :=
  match l with
  | [] => [rev cur]
  | c :: r => if c =? sep then rev cur :: split_aux sep [] r else split_aux sep (c :: cur) r
  end.
Definition split (sep : char) (l : list char) : list (list char) := split_aux sep [] l.

Section Reader.
(** [float(text)] / [int(text)] succeed *)
Variable float_ok int_ok : list char -> bool.

(** keyvalue or output?  [None] = ValueError. *)
Definition classify (k v : list char) : option item :=
  if has ESC v then
    match split ESC v with
    | [t; i; p; d; n] => if float_ok d && int_ok n then Some (IOut k [t; i; p; d; n]) else None
    | _ => None
    end
  else if Nat.eqb (count COMMA v) 4 then
    match split COMMA v with
    | [t; i; p; d; n] => if float_ok d && int_ok n then Some (IOut k [t; i; p; d; n]) else Some (IKV k v)
    | _ => Some (IKV k v)
    end
  else Some (IKV k v).

Definition is_ws (c : char) : bool := (c =? SP) || (c =? TAB) || (c =? LF) || (c =? CR).
Fixpoint skip_ws (l : list char) : list char :=
  match l with
  | c :: r => if is_ws c then skip_ws r else l
  | [] => []
  end.

(** The token loop: [cur] = items of the entity being read (most recent first), [done] = finished entities. *)
Fixpoint ent_read_loop (fuel : nat) (inp : list char) (cur : option (list item)) (done : list (list item))
  : option (list (list item)) :=
  match fuel with
  | O => None
  | S f =>
    match inp with
    | [] => Some (rev done)     (* iterating the tokenizer stops at the end of the text: an unfinished entity is dropped *)
    | c :: r =>
      if c =? LBRACE then match cur with None => ent_read_loop f r (Some []) done | Some _ => None end
      else if c =? RBRACE then match cur with Some its => ent_read_loop f r None (rev its :: done) | None => None end
      else if is_ws c then ent_read_loop f r cur done
      else if c =? NUL then match skip_ws r, cur with [], None => Some (rev done) | _, _ => None end
      else if c =? DQ then
        match scan_quoted r, cur with
        | Some ([0], r1), _ =>      (* a string token that is one NUL ends the lump, quoted or not *)
          match skip_ws r1, cur with [], None => Some (rev done) | _, _ => None end
        | Some (k, r1), Some its =>
          match skip_ws r1 with
          | q :: r2 =>
            if q =? DQ then
              match scan_quoted r2 with
              | Some (v, r3) => match classify k v with
                                | Some it => ent_read_loop f r3 (Some (it :: its)) done
                                | None => None
                                end
              | None => None
              end
            else None
          | [] => None
          end
        | _, _ => None
        end
      else None
    end
  end.
Definition ent_read (inp : list char) : option (list (list item)) := ent_read_loop (S (List.length inp)) inp None [].
End Reader.

(** * Obligations on the configuration read from the source *)
Definition escaped (m : emode) : bool := match m with Raw => false | _ => true end.
Definition is_raw (m : emode) : bool := match m with Raw => true | _ => false end.
Definition entcfg_key_escaped (c : entcfg) : bool := let '(km, _, _, _) := c in escaped km.
Definition entcfg_value_escaped (c : entcfg) : bool := let '(_, vm, _, _) := c in escaped vm.
Definition entcfg_output_ok (c : entcfg) : bool :=
  let '(_, _, nm, fms) := c in
  escaped nm && match fms with
                | [t; i; p; d; m] => escaped t && escaped i && escaped p && is_raw d && is_raw m
                | _ => false
                end.
Definition entcfg_ok (c : entcfg) : bool := entcfg_key_escaped c && entcfg_value_escaped c && entcfg_output_ok c.

(** * Well-formed items (what the theorem assumes of the data) *)
Definition sep_free (sep : char) (f : list char) : bool := negb (has sep f).
Definition item_wf (float_ok int_ok : list char -> bool) (sep : char) (it : item) : bool :=
  match it with
  | IKV k v => negb (has ESC v) && negb (Nat.eqb (count COMMA v) 4) && negb (match k with [0] => true | _ => false end)
  | IOut n [t; i; p; d; m] =>
      forallb (sep_free sep) [t; i; p; d; m] && forallb (sep_free ESC) [t; i; p; d; m] &&
      plain d && plain m && float_ok d && int_ok m && negb (match n with [0] => true | _ => false end)
  | IOut _ _ => false
  end.
