(** C15 — the pixels of every frame through a whole file (round 4): the container theorem
    (VtfWholeFileProofs.whole_file_with_frames_*: read() finds for every key the bytes save() produced for it) composed with
    the frame-level codec law (VtfFrameCodecProofs.frame_load_of_save): decoding what read() finds gives, pixel by pixel,
    the documented quantisation of the pixels that were saved - the identity for the formats with 8 bits per used channel. *)
From Coq Require Import NArith ZArith Arith List Bool Lia.
From SV Require Import Fmt.VtfPixelExpr Fmt.VtfPixelExprProofs Fmt.VtfFrameCodec Fmt.VtfFrameCodecProofs.
From SV Require Import Bin.Struct Fmt.VtfContainer Fmt.VtfSides Fmt.VtfSidesProofs Fmt.VtfWholeFile Fmt.VtfWholeFileProofs.
Import ListNotations.

Theorem saved_pixels_read_back_73 : forall F G v low_size file c so ro cd q,
  fmts_wf F = true -> flags_ok G = true -> (3 <= v_minor v)%Z -> vfile_fits F G v = true ->
  sides_ok c = true -> lorder_eqb so ro = true ->
  rt_ok cd q = true -> (0 < bpp cd)%nat ->
  forall envmap object depth mips frames (pixels : key -> list (list N)) (npix : nat -> nat),
    (forall k, Forall bytes (pixels k)) -> (forall k, List.length (pixels k) = npix (k_mip k)) ->
    v_high v = map (fun k => encode_frame cd (pixels k)) (walk so mips frames (save_sides c envmap object (v_minor v) depth) key0) ->
    encode_file F G v = Some file ->
    (exists meta, decode_file F G low_size file = Some meta)
    /\ Forall (fun ok => decode_frame cd (slice file (fst ok) (bpp cd * npix (k_mip (snd ok)))) = map (run q) (pixels (snd ok)))
              (read_table ro mips frames (read_sides c envmap (v_minor v) depth) (fun m => (bpp cd * npix m)%nat) (high_off73 F v)).
Proof.
  intros F G v low_size file c so ro cd q HF HG Hv Hfit Hc Ho Hrt Hb envmap object depth mips frames pixels npix Hpx Hn Hhigh Henc.
  assert (Hlen : forall k, List.length (encode_frame cd (pixels k)) = (bpp cd * npix (k_mip k))%nat).
  { intros k. destruct (frame_load_of_save cd q Hrt Hb (pixels k) (Hpx k)) as [_ [_ L]]. rewrite L, Hn. reflexivity. }
  destruct (whole_file_with_frames_73 F G v low_size file c so ro HF HG Hv Hfit Hc Ho envmap object depth mips frames
              (fun k => encode_frame cd (pixels k)) (fun m => (bpp cd * npix m)%nat) Hlen Hhigh Henc) as [D [_ T]].
  split; [eexists; exact D|].
  eapply Forall_impl; [|exact T]. intros ok E. cbn beta in E. rewrite E.
  destruct (frame_load_of_save cd q Hrt Hb (pixels (snd ok)) (Hpx (snd ok))) as [R _]. exact R.
Qed.

Theorem saved_pixels_read_back_pre73 : forall F G v file c so ro cd q,
  fmts_wf F = true -> (v_minor v < 3)%Z -> vfile_fits_old F v = true ->
  sides_ok c = true -> lorder_eqb so ro = true ->
  rt_ok cd q = true -> (0 < bpp cd)%nat ->
  forall envmap object depth mips frames (pixels : key -> list (list N)) (npix : nat -> nat),
    (forall k, Forall bytes (pixels k)) -> (forall k, List.length (pixels k) = npix (k_mip k)) ->
    v_high v = map (fun k => encode_frame cd (pixels k)) (walk so mips frames (save_sides c envmap object (v_minor v) depth) key0) ->
    encode_file F G v = Some file ->
    (exists meta, decode_file F G (List.length (v_low v)) file = Some meta)
    /\ Forall (fun ok => decode_frame cd (slice file (fst ok) (bpp cd * npix (k_mip (snd ok)))) = map (run q) (pixels (snd ok)))
              (read_table ro mips frames (read_sides c envmap (v_minor v) depth) (fun m => (bpp cd * npix m)%nat)
                          (hs_old F v + List.length (v_low v))%nat).
Proof.
  intros F G v file c so ro cd q HF Hv Hfit Hc Ho Hrt Hb envmap object depth mips frames pixels npix Hpx Hn Hhigh Henc.
  assert (Hlen : forall k, List.length (encode_frame cd (pixels k)) = (bpp cd * npix (k_mip k))%nat).
  { intros k. destruct (frame_load_of_save cd q Hrt Hb (pixels k) (Hpx k)) as [_ [_ L]]. rewrite L, Hn. reflexivity. }
  destruct (whole_file_with_frames_pre73 F G v file c so ro HF Hv Hfit Hc Ho envmap object depth mips frames
              (fun k => encode_frame cd (pixels k)) (fun m => (bpp cd * npix m)%nat) Hlen Hhigh Henc) as [D [_ T]].
  split; [eexists; exact D|].
  eapply Forall_impl; [|exact T]. intros ok E. cbn beta in E. rewrite E.
  destruct (frame_load_of_save cd q Hrt Hb (pixels (snd ok)) (Hpx (snd ok))) as [R _]. exact R.
Qed.
