(** Proofs about Fmt/DmxMembers.v: the attribute count [export_binary] writes equals the number of records it writes,
    for every dict with pairwise distinct keys — in particular for every dict the public mapping API of Element can
    produce from a fresh element, with or without the "name" member; hence the export of the real dicts is the export
    of the document they denote, and parses back to it (composition with [dmx_bin_roundtrip_gen]). *)
From Coq Require Import NArith ZArith List Bool Lia.
From SV Require Import Fmt.DmxCodes Fmt.DmxBin Fmt.DmxBinLemmas Fmt.DmxBinProofs Fmt.DmxMembers.
Import ListNotations.

Lemma str_eqb_true : forall a b, str_eqb a b = true <-> a = b.
Proof.
  intros a b. unfold str_eqb. destruct (str_cmp a b) eqn:E.
  - split; [intros _; apply str_cmp_eq; exact E | reflexivity].
  - split; [discriminate | intros ->; rewrite str_cmp_refl in E; discriminate].
  - split; [discriminate | intros ->; rewrite str_cmp_refl in E; discriminate].
Qed.
Lemma str_eqb_refl : forall a, str_eqb a a = true.
Proof. intros a. apply str_eqb_true. reflexivity. Qed.
Lemma str_eqb_false : forall a b, str_eqb a b = false <-> a <> b.
Proof.
  intros a b. split.
  - intros E H. apply str_eqb_true in H. congruence.
  - intros H. destruct (str_eqb a b) eqn:E; [apply str_eqb_true in E; contradiction | reflexivity].
Qed.
Lemma str_eqb_sym : forall a b, str_eqb a b = str_eqb b a.
Proof.
  intros a b. destruct (str_eqb a b) eqn:E.
  - apply str_eqb_true in E. subst. symmetry. apply str_eqb_refl.
  - symmetry. apply str_eqb_false. apply str_eqb_false in E. congruence.
Qed.

(** ** Keys *)
Lemma mget_none : forall k m, ~ In k (map fst m) -> mget k m = None.
Proof.
  induction m as [|[k' a] r IH]; intros H; [reflexivity|]. cbn [mget]. cbn [map fst In] in H.
  destruct (str_eqb k k') eqn:E.
  - apply str_eqb_true in E. subst. exfalso. apply H. left. reflexivity.
  - apply IH. intros Hin. apply H. right. exact Hin.
Qed.
Lemma mget_some_in : forall k m a, mget k m = Some a -> In k (map fst m).
Proof.
  induction m as [|[k' a'] r IH]; intros a H; [discriminate|]. cbn [mget] in H. cbn [map fst In].
  destruct (str_eqb k k') eqn:E.
  - left. apply str_eqb_true in E. congruence.
  - right. eapply IH. exact H.
Qed.
Lemma has_key_in : forall k m, has_key k m = true <-> In k (map fst m).
Proof.
  intros k m. unfold has_key. split.
  - destruct (mget k m) eqn:E; [intros _; eapply mget_some_in; exact E | discriminate].
  - intros H. destruct (mget k m) eqn:E; [reflexivity|].
    exfalso. induction m as [|[k' a'] r IH]; [exact H|]. cbn [mget] in E. cbn [map fst In] in H.
    destruct (str_eqb k k') eqn:E2; [discriminate|]. destruct H as [H|H].
    + subst. rewrite str_eqb_refl in E2. discriminate.
    + apply IH; assumption.
Qed.
Lemma records_key_absent : forall k m, ~ In k (map fst m) -> records (FKeyIs k) m = m.
Proof.
  induction m as [|[k' a] r IH]; intros H; [reflexivity|]. cbn [map fst In] in H. unfold records in *. cbn [filter skipped fst].
  destruct (str_eqb k' k) eqn:E.
  - apply str_eqb_true in E. subst. exfalso. apply H. left. reflexivity.
  - cbn [negb]. f_equal. apply IH. intros Hin. apply H. right. exact Hin.
Qed.

(** len(elem) - ('name' in elem._members) is the number of members whose key is not "name": a dict has a key once. *)
Lemma records_cons : forall f ka m, records f (ka :: m) = if skipped f ka then records f m else ka :: records f m.
Proof. intros f ka m. unfold records. cbn [filter]. destruct (skipped f ka); reflexivity. Qed.

Lemma len_minus_has_key : forall k m, keys_nodup m ->
  (Z.of_nat (length m) - (if has_key k m then 1 else 0))%Z = Z.of_nat (length (records (FKeyIs k) m)).
Proof.
  unfold keys_nodup. induction m as [|[k' a] r IH]; intros Hnd; [reflexivity|].
  cbn [map fst] in Hnd. inversion Hnd as [|x l Hnotin Hnd']; subst.
  rewrite records_cons. cbn [skipped fst]. unfold has_key. cbn [mget].
  rewrite (str_eqb_sym k k'). destruct (str_eqb k' k) eqn:E.
  - apply str_eqb_true in E. subst k'.
    rewrite (records_key_absent k r Hnotin). cbn [length]. lia.
  - cbn [length]. specialize (IH Hnd'). unfold has_key in IH.
    destruct (mget k r); lia.
Qed.

Lemma filter_is_name_key_eq : forall f, filter_is_name_key f = true -> f = FKeyIs s_name.
Proof. intros [k|k|]; cbn; try discriminate. intros H. apply str_eqb_true in H. congruence. Qed.

(** The count written is the number of records written, for every dict (with or without the "name" member). *)
Theorem count_is_records : forall c m, cnt_cfg_ok c = true -> keys_nodup m ->
  count_written c m = Z.of_nat (length (records (cc_write_filter c) m)).
Proof.
  intros c m Hok Hnd. unfold cnt_cfg_ok in Hok.
  apply andb_prop in Hok as [Hok _]. apply andb_prop in Hok as [Hok _]. apply andb_prop in Hok as [Hcnt Hw].
  apply filter_is_name_key_eq in Hw. rewrite Hw. unfold count_expr_ok in Hcnt.
  apply andb_prop in Hcnt as [_ Hcnt]. unfold count_written. apply orb_prop in Hcnt as [H|H].
  - repeat (apply andb_prop in H as [H ?]).
    apply Z.eqb_eq in H. rewrite H.
    repeat match goal with X : (_ =? _)%Z = true |- _ => apply Z.eqb_eq in X; rewrite X end.
    match goal with X : str_eqb _ _ = true |- _ => apply str_eqb_true in X; rewrite X end.
    rewrite <- (len_minus_has_key s_name m Hnd). destruct (has_key s_name m); lia.
  - repeat (apply andb_prop in H as [H ?]).
    apply Z.eqb_eq in H. rewrite H.
    repeat match goal with X : (_ =? _)%Z = true |- _ => apply Z.eqb_eq in X; rewrite X end.
    match goal with X : filter_is_name_key _ = true |- _ => apply filter_is_name_key_eq in X; rewrite X end.
    destruct (has_key (cc_has_key c) m); lia.
Qed.

(** ** The export of the real dicts is the export of the document they denote *)
Section Compose.
  Variable cenc : enc -> str -> bytes.
  Variable cdec : enc -> bytes -> option str.
  Variable cfg : dmxcfg.
  Variable cc : cntcfg.
  Hypothesis Hcc : cnt_cfg_ok cc = true.

  Lemma cc_filters : cc_write_filter cc = FKeyIs s_name /\ cc_collect_filter cc = FKeyIs s_name.
  Proof.
    unfold cnt_cfg_ok in Hcc. apply andb_prop in Hcc as [H _]. apply andb_prop in H as [H Hc]. apply andb_prop in H as [_ Hw].
    split; apply filter_is_name_key_eq; assumption.
  Qed.

  Lemma put_relem_attrs_abstract : forall v tab r, keys_nodup (r_members r) ->
    put_relem_attrs cenc cfg cc v tab r = put_elem_attrs cenc cfg v tab (abstract cc r).
  Proof.
    intros v tab r Hnd. unfold put_relem_attrs, put_elem_attrs, abstract, view. cbn [eattrs].
    rewrite (count_is_records cc (r_members r) Hcc Hnd). destruct cc_filters as [Hw _]. rewrite Hw.
    rewrite map_length. reflexivity.
  Qed.

  Theorem export_raw_is_export_bin : forall v rd, Forall (fun r => keys_nodup (r_members r)) rd ->
    export_raw cenc cfg cc v rd = export_bin cenc cfg v (map (abstract cc) rd).
  Proof.
    intros v rd Hnd. unfold export_raw, export_bin. destruct cc_filters as [_ Hc]. rewrite Hc.
    fold (abstract cc). rewrite map_length. do 3 f_equal.
    rewrite flat_map_concat_map, (flat_map_concat_map _ (map (abstract cc) rd)), map_map. f_equal.
    apply map_ext_in. intros r Hin. apply put_relem_attrs_abstract. rewrite Forall_forall in Hnd. apply Hnd. exact Hin.
  Qed.

  (** Exporting the real dicts and parsing the bytes gives the document they denote — also for elements whose "name"
      member was removed (read back with the name "") or sits anywhere in the dict. *)
  Theorem members_bin_roundtrip : forall v rd,
    bin_cfg_ok cfg = true -> Forall (fun r => keys_nodup (r_members r)) rd ->
    expressible cenc cdec cfg v (map (abstract cc) rd) ->
    parse_bin cdec cfg v (export_raw cenc cfg cc v rd) = Some (map (abstract cc) rd).
  Proof.
    intros v rd Hcfg Hnd Hex. rewrite (export_raw_is_export_bin v rd Hnd). apply dmx_bin_roundtrip_gen; assumption.
  Qed.
End Compose.

(** ** Every dict the mapping API produces has pairwise distinct keys *)
Lemma mset_keys : forall k a m,
  map fst (mset k a m) = if has_key k m then map fst m else map fst m ++ [k].
Proof.
  induction m as [|[k' a'] r IH]; [reflexivity|]. cbn [mset]. unfold has_key. cbn [mget].
  destruct (str_eqb k k') eqn:E; [reflexivity|]. cbn [map fst]. rewrite IH. unfold has_key.
  destruct (mget k r); reflexivity.
Qed.
Lemma nodup_app_new : forall (k : str) l, NoDup l -> ~ In k l -> NoDup (l ++ [k]).
Proof.
  induction l as [|x l IH]; intros Hnd Hn; [constructor; [intros []|constructor]|].
  inversion Hnd as [|y l' Hx Hl]; subst. cbn [app]. constructor.
  - rewrite in_app_iff. intros [H|[H|[]]]; [contradiction|]. subst. apply Hn. left. reflexivity.
  - apply IH; [exact Hl|]. intros H. apply Hn. right. exact H.
Qed.
Lemma mset_nodup : forall k a m, keys_nodup m -> keys_nodup (mset k a m).
Proof.
  unfold keys_nodup. intros k a m H. rewrite mset_keys. destruct (has_key k m) eqn:E; [exact H|].
  apply nodup_app_new; [exact H|]. intros Hin. apply has_key_in in Hin. congruence.
Qed.
Lemma mdel_keys_incl : forall k m x, In x (map fst (mdel k m)) -> In x (map fst m).
Proof.
  induction m as [|[k' a'] r IH]; intros x H; [exact H|]. cbn [mdel] in H. cbn [map fst In].
  destruct (str_eqb k k'); [right; exact H|]. cbn [map fst In] in H. destruct H as [H|H]; [left; exact H | right; apply IH; exact H].
Qed.
Lemma mdel_nodup : forall k m, keys_nodup m -> keys_nodup (mdel k m).
Proof.
  unfold keys_nodup. induction m as [|[k' a'] r IH]; intros H; [exact H|]. cbn [mdel].
  cbn [map fst] in H. inversion H as [|x l Hx Hl]; subst. destruct (str_eqb k k'); [exact Hl|].
  cbn [map fst]. constructor; [|apply IH; exact Hl]. intros Hin. apply Hx. eapply mdel_keys_incl. exact Hin.
Qed.
Lemma removelast_nodup : forall (l : list str), NoDup l -> NoDup (removelast l).
Proof.
  induction l as [|x l IH]; intros H; [exact H|]. inversion H as [|y l' Hx Hl]; subst.
  cbn [removelast]. destruct l as [|z l]; [constructor|]. constructor; [|apply IH; exact Hl].
  intros Hin. apply Hx. clear - Hin. revert z Hin. induction l as [|w l IH]; intros z Hin; [destruct Hin|].
  cbn [removelast] in Hin. destruct l as [|u l]; [destruct Hin as [H|[]]; left; exact H|].
  destruct Hin as [H|H]; [left; exact H | right; apply IH; exact H].
Qed.
Lemma map_fst_removelast : forall (m : members), map fst (removelast m) = removelast (map fst m).
Proof.
  induction m as [|x m IH]; [reflexivity|]. cbn [removelast map]. destruct m as [|y m]; [reflexivity|].
  cbn [map]. cbn [map] in IH. rewrite <- IH. reflexivity.
Qed.

Theorem apply_op_keys_nodup : forall fold m op, keys_nodup m -> keys_nodup (apply_op fold m op).
Proof.
  intros fold m op H. destruct op as [|n|n| |s|n d|n d]; cbn [apply_op].
  - constructor.
  - apply mdel_nodup. exact H.
  - apply mdel_nodup. exact H.
  - unfold keys_nodup. rewrite map_fst_removelast. apply removelast_nodup. exact H.
  - destruct (mget s_name m) eqn:E; [apply mset_nodup; exact H|].
    unfold keys_nodup. rewrite map_app. cbn [map fst]. apply nodup_app_new; [exact H|].
    intros Hin. apply has_key_in in Hin. unfold has_key in Hin. rewrite E in Hin. discriminate.
  - apply mset_nodup. exact H.
  - destruct (has_key (fold n) m) eqn:E; [exact H|].
    unfold keys_nodup. rewrite map_app. cbn [map fst]. apply nodup_app_new; [exact H|].
    intros Hin. apply has_key_in in Hin. congruence.
Qed.

Theorem history_keys_nodup : forall fold ops name, keys_nodup (run_ops fold ops (init_members name)).
Proof.
  intros fold ops name. unfold run_ops.
  assert (H : keys_nodup (init_members name)) by (unfold keys_nodup; cbn; constructor; [intros []|constructor]).
  revert H. generalize (init_members name). induction ops as [|op ops IH]; intros m H; [exact H|].
  cbn [fold_left]. apply IH. apply apply_op_keys_nodup. exact H.
Qed.

(** For every API history on a fresh element: count written = records written. *)
Theorem history_count_is_records : forall c fold ops name, cnt_cfg_ok c = true ->
  let m := run_ops fold ops (init_members name) in
  count_written c m = Z.of_nat (length (records (cc_write_filter c) m)).
Proof. intros c fold ops name Hc m. apply count_is_records; [exact Hc | apply history_keys_nodup]. Qed.

(** ** Non-vacuity and refutations *)
Lemma good_cnt_ok : cnt_cfg_ok good_cnt = true.
Proof. vm_compute. reflexivity. Qed.

Definition int_attr (nm : str) (b : N) : attr := {| aname := nm; adata := VFix TInt (Scalar [b; 0; 0; 0]%N) |}.
(** root: cleared, then one attribute assigned (no "name" member); a child that kept its name *)
Definition hist_ops : list mop := [OClear; OSet [65]%N (VFix TInt (Scalar [5; 0; 0; 0]%N)); OSet [107]%N (VElem (Scalar (RElem 1)))].
Definition hist_rdoc : rdoc :=
  [ {| r_type := [84]%N; r_uuid := ex_uuid 1%N; r_members := run_ops (fun s => s) hist_ops (init_members [110]%N) |};
    {| r_type := [67]%N; r_uuid := ex_uuid 2%N;
       r_members := run_ops (fun s => s) [OSet [113]%N (VStr (Scalar [115]%N)); OPop s_name; OSetName [108; 97; 116; 101]%N] (init_members [99]%N) |} ].

Example hist_rdoc_shape :
  map (fun r => (has_key s_name (r_members r), length (r_members r))) hist_rdoc = [(false, 2%nat); (true, 2%nat)] /\
  map (fun r => map fst (r_members r)) hist_rdoc = [[[65]%N; [107]%N]; [[113]%N; s_name]].
Proof. vm_compute. split; reflexivity. Qed.

Example members_roundtrip_example : forall v, v = 5%N \/ v = 1%N ->
  parse_bin iddec good_cfg v (export_raw idenc good_cfg good_cnt v hist_rdoc) = Some (map (abstract good_cnt) hist_rdoc).
Proof. intros v [E|E]; subst v; vm_compute; reflexivity. Qed.

(** [len(elem) - 1] (seeded fault c14_3): fails exactly [count_expr_ok]; on the history "clear, then assign" the count
    written is one less than the records written and the exported document is not read back. *)
Theorem count_minus_one_refuted :
  count_expr_ok minus_one_cnt = false /\ write_filter_ok minus_one_cnt = true /\ collect_filter_ok minus_one_cnt = true /\
  name_getter_ok minus_one_cnt = true /\
  (let m := run_ops (fun s => s) hist_ops (init_members [110]%N) in
   count_written minus_one_cnt m = 1%Z /\ length (records (cc_write_filter minus_one_cnt) m) = 2%nat) /\
  parse_bin iddec good_cfg 5 (export_raw idenc good_cfg minus_one_cnt 5 hist_rdoc) <> Some (map (abstract minus_one_cnt) hist_rdoc) /\
  (* ... while elements that were only ever added to are written as before *)
  (forall name, count_written minus_one_cnt (init_members name) = 0%Z).
Proof. vm_compute. repeat split; try discriminate. Qed.

(** A writing loop that tests the attribute's case-preserved name: an element whose name was assigned as 'NAME' gets a
    record the count does not include. *)
Definition ascii_lower (s : str) : str := map (fun c => if (65 <=? c)%N && (c <=? 90)%N then (c + 32)%N else c) s.
Theorem write_filter_on_real_name_refuted :
  write_filter_ok real_name_cnt = false /\ count_expr_ok real_name_cnt = true /\
  (let m := run_ops ascii_lower [OSet [78; 65; 77; 69]%N (VStr (Scalar [120]%N))] (init_members [110]%N) in
   map fst m = [s_name] /\ count_written real_name_cnt m = 0%Z /\ length (records (cc_write_filter real_name_cnt) m) = 1%nat).
Proof. vm_compute. repeat split. Qed.
