(** C14 — proofs about typed DMX documents (Fmt/DmxTyped.v). *)
From Coq Require Import NArith ZArith QArith List Bool String Lia.
From SV Require Import Bin.LE Bin.Struct Bin.StructProofs Fmt.DmxCodes Fmt.DmxBin Fmt.DmxBinProofs Fmt.DmxScalar Fmt.DmxScalarProofs Fmt.DmxTyped.
Import ListNotations.

Lemma mapM_roundtrip {A B} (f : A -> option B) (g : B -> option A) (P : A -> Prop) (Q : B -> Prop) :
  (forall a, P a -> exists b, f a = Some b /\ g b = Some a /\ Q b) ->
  forall l, Forall P l -> exists l', mapM f l = Some l' /\ mapM g l' = Some l /\ Forall Q l'.
Proof.
  intros H. induction 1 as [|a r Ha _ IH].
  - exists []. repeat split. constructor.
  - destruct (H a Ha) as (b & Hf & Hg & Hq). destruct IH as (r' & Hfr & Hgr & Hqr).
    exists (b :: r'). cbn [mapM]. rewrite Hf, Hfr, Hg, Hgr. repeat split. now constructor.
Qed.

Section TypedProofs.
  Variable fmul fdiv : Q -> Q -> Q.
  Variable anorm : N -> N.
  Variable scfg : scalarcfg.
  Variable cfg : dmxcfg.
  Hypothesis Hs : scalar_cfg_ok scfg = true.
  Hypothesis Hsz : sizes_match_formats scfg cfg = true.
  Hypothesis Hstd : std_model_on_ticks fmul fdiv (sc_time_div scfg).
  Hypothesis Hanorm : forall b, (b < ANGLE_360)%N -> anorm b = b.

  Lemma fixed_size t : is_var_type t = false ->
    exists sz, size_of cfg t = Some sz /\ N.to_nat sz = calcsize (wire_kinds t).
  Proof.
    intros Ht.
    pose proof Hs as H. unfold scalar_cfg_ok in H. repeat (apply andb_prop in H; destruct H as [H ?]).
    match goal with Hl : formats_match_wire_layout scfg = true |- _ => destruct (layout_fmt scfg t Hl Ht) as (f & Hf & Hk) end.
    pose proof Hsz as Hz. unfold sizes_match_formats in Hz. rewrite forallb_forall in Hz. specialize (Hz t (in_fixed_types t Ht)).
    rewrite Hf in Hz. cbn [opt_test] in Hz. destruct (size_of cfg t) as [sz|]; [|discriminate]. cbn [opt_test] in Hz.
    apply N.eqb_eq in Hz. exists sz. split; [reflexivity|]. rewrite Hz, Hk. apply Nnat.Nat2N.id.
  Qed.

  Lemma val_roundtrip v : tval_rep fdiv scfg v ->
    exists d, lower_val fmul scfg v = Some d /\ lift_val fdiv anorm scfg d = Some v /\ aval_sized cfg d.
  Proof.
    destruct v as [s|s|s|t s]; cbn [tval_rep lower_val lift_val]; intros Hrep;
      try (eexists; repeat split; exact I).
    destruct Hrep as [Ht Hrep]. destruct (fixed_size t Ht) as (sz & Hsz' & Hn).
    assert (Hitem : forall x, sval_rep fdiv scfg t x -> exists b, encode_sval fmul scfg t x = Some b /\
                      decode_sval fdiv anorm scfg t b = Some x /\ List.length b = N.to_nat sz).
    { intros x Hx. destruct (scalar_codec_roundtrip_gen fmul fdiv anorm scfg Hs Hstd Hanorm t x Hx) as (b & He & Hl & Hd).
      exists b. repeat split; try assumption. lia. }
    destruct s as [x|l]; cbn [items shape_mapM] in *.
    - inversion Hrep as [|? ? Hx _]; subst. destruct (Hitem x Hx) as (b & He & Hd & Hl).
      exists (VFix t (Scalar b)). rewrite He. cbn [option_map shape_mapM lift_val]. rewrite Hd. repeat split.
      exists sz. split; [assumption|]. cbn [items]. now constructor.
    - destruct (mapM_roundtrip _ _ _ (fun b => List.length b = N.to_nat sz) Hitem l Hrep) as (l' & Hf & Hg & Hq).
      exists (VFix t (Array l')). rewrite Hf. cbn [option_map shape_mapM lift_val]. rewrite Hg. repeat split.
      exists sz. split; assumption.
  Qed.

  Lemma attr_roundtrip a : tval_rep fdiv scfg (ta_data a) ->
    exists b, lower_attr fmul scfg a = Some b /\ lift_attr fdiv anorm scfg b = Some a /\ aval_sized cfg (adata b).
  Proof.
    intros H. destruct (val_roundtrip _ H) as (d & Hl & Hu & Hz). destruct a as [nm v]. cbn [ta_data] in *.
    exists {| aname := nm; adata := d |}. unfold lower_attr, lift_attr. cbn [ta_name ta_data aname adata].
    rewrite Hl, Hu. repeat split. exact Hz.
  Qed.

  Lemma elem_roundtrip e : Forall (fun a => tval_rep fdiv scfg (ta_data a)) (te_attrs e) ->
    exists b, lower_elem fmul scfg e = Some b /\ lift_elem fdiv anorm scfg b = Some e /\
              Forall (fun a => aval_sized cfg (adata a)) (eattrs b).
  Proof.
    intros H. destruct (mapM_roundtrip _ _ _ (fun b => aval_sized cfg (adata b)) attr_roundtrip _ H) as (l' & Hf & Hg & Hq).
    destruct e as [ty nm u attrs]. cbn [te_attrs] in *.
    exists {| etype := ty; ename := nm; euuid := u; eattrs := l' |}. unfold lower_elem, lift_elem.
    cbn [te_type te_name te_uuid te_attrs etype ename euuid eattrs]. rewrite Hf, Hg. repeat split. exact Hq.
  Qed.

  (** Packing every fixed-width value of a typed document and unpacking the result gives the document back, and every
      packed item has the size the configuration's SIZES table promises the reader. *)
  Theorem typed_lift_lower td : tdoc_rep fdiv scfg td ->
    exists d, lower_doc fmul scfg td = Some d /\ lift_doc fdiv anorm scfg d = Some td /\ doc_sized cfg d.
  Proof. intros H. exact (mapM_roundtrip _ _ _ _ elem_roundtrip td H). Qed.

  (** Binary DMX with typed values: export the packed document, parse it, unpack. *)
  Theorem dmx_bin_typed_roundtrip_gen (cenc : enc -> str -> bytes) (cdec : enc -> bytes -> option str) v td d :
    bin_cfg_ok cfg = true -> tdoc_rep fdiv scfg td -> lower_doc fmul scfg td = Some d -> expressible cenc cdec cfg v d ->
    match parse_bin cdec cfg v (export_bin cenc cfg v d) with Some d' => lift_doc fdiv anorm scfg d' | None => None end = Some td.
  Proof.
    intros Hc Hrep Hlow Hex. rewrite (dmx_bin_roundtrip_gen cenc cdec cfg v d Hc Hex).
    destruct (typed_lift_lower td Hrep) as (d0 & Hl0 & Hu0 & _). congruence.
  Qed.
End TypedProofs.

(** The premises are satisfiable: the example document's values are representable (binary64 arithmetic as [rn64]) and it
    lowers to a document whose matrix item has 64 bytes. *)
Example typed_example :
  tdoc_rep fdiv64 pinned_scalar ex_tdoc /\
  match lower_doc fmul64 pinned_scalar ex_tdoc with
  | Some [e] => match nth 3 (eattrs e) {| aname := []; adata := VBin (Array []) |} with
                | {| adata := VFix TMatrix (Scalar b) |} => List.length b = 64%nat
                | _ => False
                end
  | _ => False
  end.
Proof.
  split.
  - unfold tdoc_rep, ex_tdoc. apply Forall_cons; [|apply Forall_nil]. cbn [te_attrs].
    apply Forall_cons; [cbn [ta_data tval_rep items]; split; [reflexivity|apply Forall_cons; [reflexivity|apply Forall_nil]]|].
    apply Forall_cons; [cbn [ta_data tval_rep items]; split; [reflexivity|
                          apply Forall_cons; [exists 3%Z; split; [reflexivity|vm_compute; reflexivity]|apply Forall_nil]]|].
    apply Forall_cons; [cbn [ta_data tval_rep items]; split; [reflexivity|
                          apply Forall_cons; [reflexivity|apply Forall_cons; [reflexivity|apply Forall_nil]]]|].
    apply Forall_cons; [cbn [ta_data tval_rep items]; split; [reflexivity|
                          apply Forall_cons; [split; reflexivity|apply Forall_nil]]|].
    apply Forall_cons; [exact I|apply Forall_nil].
  - vm_compute. reflexivity.
Qed.
