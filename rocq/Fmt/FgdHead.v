(** C16 — the header of an entity definition at token level (after the `@PointClass` keyword that FGD.parse_file reads):

        base(A, B) | aliasof(A, B)          the bases, written only when there are any
        NEWLINE name(arg, arg) ...          one helper per line; `halfgridsnap` is written without arguments
        [NEWLINE] = classname [: "description" + ...] NEWLINE [

    as EntityDef.export writes it and as the first two loops of EntityDef.parse read it (srctools/fgd.py).  The parser keeps two
    pieces of state while it walks over the helpers: [ht] = the name of a helper type it knows (`HelperTypes(name)` succeeded) that
    still waits for its `(...)`, and [hc] = a name it does not know (`help_type_cust`).  A known helper followed by another
    name (or by `=`) is a helper without arguments; `aliasof(...)` is `base(...)` plus the alias flag; the arguments are the
    PAREN_ARGS text split at ',' and stripped, `()` giving no argument at all.

    Helper objects are abstract: [hparse name args] is `HELPER_IMPL[HelperTypes(name)].parse(args)` (None = it raises),
    [hunknown name args] is `UnknownHelper(name, args)`.  `autovis(...)` (EXT_AUTO_VISGROUP, which does not become a helper but
    an entry of FGD.auto_visgroups) and `@snippet` descriptions are not modelled: the model answers None. *)
From Coq Require Import List NArith Arith Bool.
From SV Require Import Fmt.FgdBin Fmt.FgdLine.
Import ListNotations.
Open Scope N_scope.

Definition KW_BASE : str := [98; 97; 115; 101].
Definition KW_ALIASOF : str := [97; 108; 105; 97; 115; 111; 102].
Definition KW_AUTOVIS : str := [97; 117; 116; 111; 118; 105; 115].
Definition COMMA : N := 44.

(** `[arg.strip() for arg in token_value.split(',')]`, and `['']` -> `[]` *)
Definition paren_args (s : str) : list str :=
  let a := map strip (split_sep COMMA s) in
  match a with [x] => if nil_b x then [] else a | _ => a end.
(** The same statement sequence as a GENERATED object (round 5): translate/c16_fgd.py reads off EntityDef.parse which separator the
    PAREN_ARGS text is split at, whether every piece is stripped, whether the comprehension FILTERS pieces (none / those that are
    blank after strip / those that are empty before it) and whether the one-blank-argument result `['']` is cleared afterwards.
    [paren_args_with c] is what such code computes; [args_cfg_ok] names today's shape, for which it is [paren_args] on all inputs
    (FgdHeadProofs.paren_args_with_is_model).  A filter is NOT today's shape: helper arguments are positional and the writer
    leaves an empty slot for a blank one, so dropping blanks shifts the later arguments left (args_filter_refuted). *)
Inductive blank_filter := FKeep | FDropStripped | FDropRaw.
Record args_cfg := mk_args_cfg { ac_sep : N; ac_strip : bool; ac_filter : blank_filter; ac_clear_sole : bool }.
Definition paren_args_with (c : args_cfg) (s : str) : list str :=
  let pieces := split_sep (ac_sep c) s in
  let kept := match ac_filter c with
              | FKeep => pieces
              | FDropStripped => filter (fun x => negb (nil_b (strip x))) pieces
              | FDropRaw => filter (fun x => negb (nil_b x)) pieces
              end in
  let a := if ac_strip c then map strip kept else kept in
  if ac_clear_sole c then match a with [x] => if nil_b x then [] else a | _ => a end else a.
Definition filter_is_keep (f : blank_filter) : bool := match f with FKeep => true | _ => false end.
Definition args_cfg_ok (c : args_cfg) : bool :=
  N.eqb (ac_sep c) COMMA && ac_strip c && filter_is_keep (ac_filter c) && ac_clear_sole c.
(** `', '.join(args)` *)
Fixpoint join_cs (l : list str) : str :=
  match l with [] => [] | [x] => x | x :: r => x ++ COMMA :: 32 :: join_cs r end.

(** `for base_s in args: if base not in entity.bases: entity.bases.append(base)` (eval_bases=False: the names themselves) *)
Fixpoint str_mem (x : str) (l : list str) : bool := match l with [] => false | y :: r => str_eqb x y || str_mem x r end.
Fixpoint add_bases (bs args : list str) : list str :=
  match args with [] => bs | a :: r => add_bases (if str_mem a bs then bs else bs ++ [a]) r end.

(** what one helper's export() amounts to in the file *)
Inductive hform := HBare (name : str) | HCall (name : str) (args : list str).

Section Head.
Variable H : Type.
Variable known : str -> bool.
Variable hparse : str -> list str -> option H.
Variable hunknown : str -> list str -> H.

Record head := mk_head { h_alias : bool; h_bases : list str; h_helpers : list H; h_class : str; h_desc : str }.

(** * writer *)
Definition helper_toks (f : hform) : list tok :=
  TNl :: match f with HBare n => [TStr n] | HCall n args => [TStr n; TParen (join_cs args)] end.
(** [forms] = the helpers that are written (extension helpers are left out when custom_syntax is off), [secs] = the sections
    _write_longstring makes of the description (none when the description is empty), [hidden] = there are helpers that are not
    written (`if self.helpers:` puts the class name on a new line even then).  Ends with the `[`. *)
Definition head_toks (custom alias : bool) (bases : list str) (forms : list hform) (hidden : bool) (cls : str) (secs : list str) : list tok :=
  match bases with [] => [] | _ => [TStr (if alias && custom then KW_ALIASOF else KW_BASE); TParen (join_cs bases)] end
  ++ concat (map helper_toks forms) ++ match forms with [] => if hidden then [TNl] else [] | _ => [TNl] end
  ++ TEq :: TStr cls :: match secs with [] => [] | _ => TColon :: str_toks secs end ++ [TNl; TBrOpen].

(** * reader *)
Definition set_name (ht hc : option str) (v : str) : option str * option str :=
  if known v then (Some v, hc) else (ht, Some v).
(** the first loop of EntityDef.parse, up to and including the `=`; None = the parser raises (or autovis) *)
Fixpoint head_loop (ht hc : option str) (al : bool) (bs : list str) (hs : list H) (ts : list tok)
  : option (option str * option str * bool * list str * list H * list tok) :=
  match ts with
  | [] => None
  | TNl :: r => head_loop ht hc al bs hs r
  | TStr v :: r =>
      match ht with
      | None => let '(ht', hc') := set_name None hc v in head_loop ht' hc' al bs hs r
      | Some n =>
          (* no arguments for the previous helper: add it, then look at this token again with help_type = None *)
          match hparse n [] with
          | None => None
          | Some h => let '(ht', hc') := set_name None hc v in head_loop ht' hc' al bs (hs ++ [h]) r
          end
      end
  | TParen s :: r =>
      match ht, hc with
      | None, None => None
      | _, _ =>
          let args := paren_args s in
          let is_al := match hc with Some c => str_eqb c KW_ALIASOF | None => false end in
          let ht1 := if is_al then Some KW_BASE else ht in
          let hc1 := if is_al then None else hc in
          let al1 := al || is_al in
          match hc1 with
          | Some c => head_loop None None al1 bs (hs ++ [hunknown c args]) r
          | None =>
              match ht1 with
              | None => None
              | Some n =>
                  if str_eqb n KW_BASE then head_loop None None al1 (add_bases bs args) hs r
                  else if str_eqb n KW_AUTOVIS then None
                  else match hparse n args with
                       | Some h => head_loop None None al1 bs (hs ++ [h]) r
                       | None => None
                       end
              end
          end
      end
  | TEq :: r => Some (ht, hc, al, bs, hs, r)
  | _ => None
  end.
(** after the loop: a helper that was still waiting for arguments *)
Definition head_flush (ht hc : option str) (hs : list H) : option (list H) :=
  match hc with
  | Some c => Some (hs ++ [hunknown c []])
  | None =>
      match ht with
      | None => Some hs
      | Some n => if str_eqb n KW_BASE || str_eqb n KW_AUTOVIS then None
                  else match hparse n [] with Some h => Some (hs ++ [h]) | None => None end
      end
  end.
(** the second loop: `: "text" + "text"` up to the `[`.  [want]: a '+' was read *)
Fixpoint desc_loop (desc : option (list str)) (want : bool) (ts : list tok) : option (str * list tok) :=
  match ts with
  | [] => None
  | t :: r =>
      if want then match t with
                   | TNl => desc_loop desc true r
                   | TStr v => desc_loop (option_map (fun d => d ++ [v]) desc) false r
                   | _ => None
                   end
      else match t with
           | TNl => desc_loop desc false r
           | TColon => match desc with None => desc_loop (Some []) false r | Some _ => None end
           | TStr v => match desc with Some [] => desc_loop (Some [v]) false r | _ => None end
           | TPlus => match desc with None | Some [] => None | Some _ => desc_loop desc true r end
           | TBrOpen => Some (match desc with Some d => concat d | None => [] end, r)
           | _ => None
           end
  end.
(** everything from the token after `@PointClass` to the `[` *)
Definition head_read (ts : list tok) : option (head * list tok) :=
  match head_loop None None false [] [] ts with
  | None => None
  | Some (ht, hc, al, bs, hs, r) =>
      match head_flush ht hc hs with
      | None => None
      | Some hs' =>
          match skip_nl r with
          | TStr c :: r' =>
              match desc_loop None false r' with
              | Some (d, r'') => Some (mk_head al bs hs' (strip c) d, r'')
              | None => None
              end
          | _ => None
          end
      end
  end.

(** * what makes a header re-readable *)
Definition arg_ok (a : str) : Prop := a <> [] /\ mem_N COMMA a = false /\ strip a = a.
(** a helper argument may be BLANK (round 5): `frustum(lightfov, , , lightcolor, -1)`.  The one list that does not come back is
    [['']]: `helper()` is read as no argument at all. *)
Definition arg_ok0 (a : str) : Prop := mem_N COMMA a = false /\ strip a = a.
Definition args_ok (l : list str) : Prop := Forall arg_ok0 l /\ l <> [[]].
Definition special (n : str) : bool := str_eqb n KW_BASE || str_eqb n KW_AUTOVIS || str_eqb n KW_ALIASOF.
(** the written form [f] of a helper is read back as the helper object [h] *)
Definition form_ok (f : hform) (h : H) : Prop :=
  match f with
  | HBare n => known n = true /\ special n = false /\ hparse n [] = Some h
  | HCall n args => args_ok args /\ special n = false /\
                    (if known n then hparse n args = Some h else hunknown n args = h)
  end.
End Head.
