(** C06 — proofs about the VMF text model (Fmt/VmfText.v). *)
From Coq Require Import NArith ZArith List String Bool Lia ZifyBool.
From SV Require Import Fmt.VmfText.
Import ListNotations.
Open Scope N_scope.

(** * The scanner inverts escape_text *)
Ltac neqb := repeat match goal with
 | |- context [?a =? ?b] => replace (a =? b) with false by (symmetry; apply N.eqb_neq; congruence) end.

Lemma step_char ml c : forall acc rest,
  hs acc false (esc_char ml c ++ rest) = hs (c :: acc) false rest.
Proof.
  intros acc rest. unfold esc_char.
  destruct (N.eq_dec c 10) as [->|]; [destruct ml; reflexivity|].
  destruct (N.eq_dec c 9) as [->|]; [destruct ml; reflexivity|].
  destruct (N.eq_dec c 11) as [->|]; [destruct ml; reflexivity|].
  destruct (N.eq_dec c 8) as [->|]; [destruct ml; reflexivity|].
  destruct (N.eq_dec c 13) as [->|]; [destruct ml; reflexivity|].
  destruct (N.eq_dec c 12) as [->|]; [destruct ml; reflexivity|].
  destruct (N.eq_dec c 7) as [->|]; [destruct ml; reflexivity|].
  destruct (N.eq_dec c 34) as [->|]; [destruct ml; reflexivity|].
  destruct (N.eq_dec c 39) as [->|]; [destruct ml; reflexivity|].
  destruct (N.eq_dec c 92) as [->|]; [destruct ml; reflexivity|].
  destruct (N.eq_dec c 63) as [->|]; [destruct ml; reflexivity|].
  destruct (N.eq_dec c 47) as [->|]; [destruct ml; reflexivity|].
  unfold mem, excluded, esc_table, DQ, CR, LF, BS in *.
  destruct ml; cbn [existsb rlookup orb]; neqb; cbn [orb rlookup app hs]; unfold DQ, CR, LF, BS; neqb; reflexivity.
Qed.

Lemma hs_escape ml : forall s acc rest,
  hs acc false (escape ml s ++ rest) = hs (rev s ++ acc) false rest.
Proof.
  induction s as [|c s IH]; intros acc rest; [reflexivity|].
  unfold escape in *. cbn [flat_map]. rewrite <- app_assoc, step_char, IH.
  cbn [rev]. now rewrite <- app_assoc.
Qed.

Lemma plain_char_step c : plain_char c = true -> forall acc rest,
  hs acc false (c :: rest) = hs (c :: acc) false rest.
Proof.
  unfold plain_char, mem. cbn [existsb]. intros H acc rest.
  rewrite !orb_false_r, !negb_orb in H.
  apply andb_prop in H as [H1 H]. apply andb_prop in H as [H2 H]. apply andb_prop in H as [H3 H4].
  apply negb_true_iff in H1, H2, H3, H4.
  cbn [hs]. now rewrite H1, H3, H4, H2.
Qed.

Lemma hs_plain : forall l acc rest, plain l = true ->
  hs acc false (l ++ rest) = hs (rev l ++ acc) false rest.
Proof.
  induction l as [|c l IH]; intros acc rest H; [reflexivity|].
  unfold plain in *. cbn [forallb] in H. apply andb_prop in H as [Hc Hl].
  cbn [app]. rewrite plain_char_step by exact Hc. rewrite IH by exact Hl.
  cbn [rev]. now rewrite <- app_assoc.
Qed.

Lemma hs_seg (e : env) (s : tseg) : seg_ok s = true ->
  (forall f, (s = TIp Num f \/ s = TIp Sep f) -> plain (e f) = true) ->
  forall acc rest, hs acc false (render_seg e s ++ rest) = hs (rev (value_seg e s) ++ acc) false rest.
Proof.
  intros Hok Hnum acc rest. destruct s as [l|c f]; cbn [render_seg value_seg].
  - apply hs_plain. exact Hok.
  - destruct c; cbn [seg_ok] in Hok; try discriminate.
    + apply hs_escape.
    + apply hs_escape.
    + apply hs_plain. apply Hnum. now left.
    + apply hs_plain. apply Hnum. now right.
Qed.

Lemma hs_field (e : env) : forall segs, forallb seg_ok segs = true -> num_fields_plain e segs ->
  forall acc rest, hs acc false (render_field e segs ++ rest) = hs (rev (value_field e segs) ++ acc) false rest.
Proof.
  induction segs as [|s segs IH]; intros Hok Hnum acc rest; [reflexivity|].
  cbn [forallb] in Hok. apply andb_prop in Hok as [Hs Hr].
  unfold render_field, value_field in *. cbn [flat_map]. rewrite <- app_assoc.
  rewrite hs_seg.
  - rewrite IH.
    + now rewrite rev_app_distr, <- app_assoc.
    + exact Hr.
    + intros f [H|H]; apply Hnum; [left|right]; now right.
  - exact Hs.
  - intros f [->| ->]; apply Hnum; [left|right]; now left.
Qed.

(** A quoted field whose pieces are plain literals, escaped strings and numbers scans back to the concatenation
    of its field values, for every content of the string fields. *)
Theorem quoted_field_roundtrip (e : env) segs rest :
  forallb seg_ok segs = true -> num_fields_plain e segs ->
  scan_quoted (render_field e segs ++ DQ :: rest) = Some (value_field e segs, rest).
Proof.
  intros Hok Hnum. unfold scan_quoted. rewrite hs_field by assumption.
  cbn [hs]. rewrite N.eqb_refl. now rewrite app_nil_r, rev_involutive.
Qed.

Lemma num_fields_plain_app e a b : num_fields_plain e (a ++ b) -> num_fields_plain e a /\ num_fields_plain e b.
Proof.
  intros H; split; intros f [Hf|Hf]; apply H; [left|right|left|right]; apply in_or_app; auto.
Qed.

Theorem kv_line_roundtrip (e : env) (s : kvsite) rest :
  site_ok s = true -> num_fields_plain e (ks_key s ++ ks_val s) ->
  scan_kv (render_kv e (ks_key s) (ks_val s) ++ rest)
  = Some (value_field e (ks_key s), value_field e (ks_val s), rest).
Proof.
  intros Hok Hnum. unfold site_ok in Hok. apply andb_prop in Hok as [Hk Hv].
  apply num_fields_plain_app in Hnum as [Nk Nv].
  unfold render_kv, scan_kv. cbn [app]. rewrite N.eqb_refl.
  rewrite <- app_assoc. cbn [app].
  rewrite quoted_field_roundtrip by assumption.
  rewrite !N.eqb_refl. cbn [andb].
  rewrite <- app_assoc. cbn [app].
  now rewrite quoted_field_roundtrip by assumption.
Qed.

(** Every site of a writer method that passes the generated check has the round-trip property. *)
Theorem writer_strings_survive fn (sites : list kvsite) :
  strings_escaped_in fn sites = true ->
  forall s, In s sites -> ks_fn s = fn ->
  forall (e : env) rest, num_fields_plain e (ks_key s ++ ks_val s) ->
  scan_kv (render_kv e (ks_key s) (ks_val s) ++ rest)
  = Some (value_field e (ks_key s), value_field e (ks_val s), rest).
Proof.
  intros H s Hin Hfn e rest Hnum. apply kv_line_roundtrip; [|exact Hnum].
  unfold strings_escaped_in, sites_of in H. rewrite forallb_forall in H. apply H.
  apply filter_In. split; [exact Hin|]. unfold str_eqb. now destruct (string_dec (ks_fn s) fn).
Qed.

(** The hypothesis on the class is necessary: a raw string field holding one double quote does not scan back. *)
Definition raw_site : kvsite := mk_site "" "" 0 [TLit [109]] [TIp RawStr 0].
Theorem raw_string_refuted :
  exists e : env, scan_kv (render_kv e (ks_key raw_site) (ks_val raw_site) ++ [LF])
                  <> Some (value_field e (ks_key raw_site), value_field e (ks_val raw_site), [LF]).
Proof. exists (fun _ => [DQ]). vm_compute. discriminate. Qed.
(** ... and so does a raw backslash (it swallows the closing quote). *)
Theorem raw_backslash_refuted :
  exists e : env, scan_kv (render_kv e (ks_key raw_site) (ks_val raw_site) ++ [LF]) = None.
Proof. exists (fun _ => [BS]). vm_compute. reflexivity. Qed.
(** The theorem is not vacuous: an escaped field holding quote, backslash, LF, CR, tab scans back. *)
Example escaped_site_example :
  let s := mk_site "" "" 0 [TLit [109]] [TLit [36]; TIp Esc 0; TLit [32]; TIp EscML 1; TIp Sep 2; TIp Num 3] in
  let e : env := fun f => match f with 0 => [DQ; BS; LF; CR; 9; 110] | 1 => [LF; DQ; 65] | 2 => [27] | _ => [45; 48; 46; 53] end in
  site_ok s = true /\
  scan_kv (render_kv e (ks_key s) (ks_val s) ++ [LF]) = Some ([109], [36; DQ; BS; LF; CR; 9; 110; 32; LF; DQ; 65; 27; 45; 48; 46; 53], [LF]).
Proof. vm_compute. split; reflexivity. Qed.

(** * Keys *)
Theorem keys_read_sound fn (W : list wkey) (R : list rkey) :
  keys_read_for fn W R = true ->
  forall w, In w W -> wk_fn w = fn -> exists r, In r R /\ covers r w = true.
Proof.
  intros H w Hin Hfn. unfold keys_read_for in H. rewrite forallb_forall in H.
  specialize (H w). unfold key_read in H. rewrite existsb_exists in H. apply H.
  apply filter_In. split; [exact Hin|]. unfold str_eqb. now destruct (string_dec (wk_fn w) fn).
Qed.

Lemma covers_spec r w : covers r w = true ->
  rk_block r = wk_block w /\
  (if rk_prefix r then String.prefix (rk_key r) (wk_key w) = true
   else wk_prefix w = false /\ rk_key r = wk_key w).
Proof.
  unfold covers, str_eqb. intros H. apply andb_prop in H as [Hb Hk].
  destruct (string_dec (rk_block r) (wk_block w)); [|discriminate]. split; [assumption|].
  destruct (rk_prefix r); [exact Hk|].
  apply andb_prop in Hk as [Hp He]. apply negb_true_iff in Hp.
  destruct (string_dec (rk_key r) (wk_key w)); [|discriminate]. now split.
Qed.

(** * Displacement shapes *)
Open Scope Z_scope.
Lemma in_zrange : forall n lo y, In y (zrange lo n) <-> lo <= y < lo + Z.of_nat n.
Proof.
  induction n as [|n IH]; intros lo y; cbn [zrange In].
  - lia.
  - rewrite IH. lia.
Qed.

Theorem disp_shapes_sound (sz : Z -> Z) (l : list disp_array) :
  disp_shapes_ok sz l = true ->
  forall a p, In a l -> In p powers ->
  da_rows a (sz p) <= sz p /\
  (forall ar, In ar (da_arity a) -> da_rows a (sz p) * ar = da_rcols a p (sz p)) /\
  forall y, 0 <= y < da_rows a (sz p) ->
  forall ar, In ar (da_arity a) ->
    (da_hi a (sz p) y - da_lo a (sz p) y) * ar = da_rcols a p (sz p)
    /\ da_lo a (sz p) y = sz p * y /\ da_hi a (sz p) y <= sz p * sz p.
Proof.
  intros H a p Ha Hp. unfold disp_shapes_ok in H. rewrite forallb_forall in H. specialize (H a Ha).
  unfold array_ok_all_powers in H. rewrite forallb_forall in H. specialize (H p Hp).
  unfold array_ok in H. cbv zeta in H.
  apply andb_prop in H as [H Hrows]. apply andb_prop in H as [H Hsq].
  repeat (apply andb_prop in H as [H ?]).
  split; [lia|]. split.
  - intros ar Har. rewrite forallb_forall in Hsq. specialize (Hsq ar Har). lia.
  - intros y Hy ar Har.
    rewrite forallb_forall in Hrows.
    assert (Hrow : row_ok sz a p y = true) by (apply Hrows; apply in_zrange; lia).
    unfold row_ok in Hrow. cbv zeta in Hrow. repeat (apply andb_prop in Hrow as [Hrow ?]).
    rewrite forallb_forall in Hrow. specialize (Hrow ar Har). lia.
Qed.

(** * Rounding: the decimal text denotes a number within half a unit of the last place *)
Theorem round_he_error n d : 0 < d -> 2 * Z.abs (round_he n d * d - n) <= d.
Proof.
  intros Hd. unfold round_he.
  pose proof (Z.div_mod n d ltac:(lia)) as Hdm. pose proof (Z.mod_pos_bound n d Hd) as Hb.
  destruct (2 * (n mod d) <? d) eqn:E1; [nia|].
  destruct (d <? 2 * (n mod d)) eqn:E2; [nia|].
  destruct (Z.even (n / d)); nia.
Qed.

(** '%.6f' of x = m/dd (every finite double is such a rational): the printed decimal r/10^6 is within 5e-7 of x.
    Stated cross-multiplied: |r/10^6 - m/dd| <= 1/(2*10^6). *)
Theorem format6_error m dd : 0 < dd ->
  let r := round_he (m * 10^6) dd in 2 * Z.abs (r * dd - m * 10^6) <= dd.
Proof. intros Hd r. apply round_he_error. exact Hd. Qed.

(** '%g' (6 significant digits) of x = m/dd at scale s = sn/sd (s = 10^(e-5), 10^e <= |x|): the printed value r*s is
    within 5e-6*|x| of x.  Cross-multiplied: 2*10^5*|r*s - x| <= |x|. *)
Theorem g6_error m dd sn sd : 0 < dd -> 0 < sn -> 0 < sd ->
  10^5 * (sn * dd) <= Z.abs m * sd ->            (* |x| >= 10^5 * s *)
  let r := round_he (m * sd) (dd * sn) in
  2 * 10^5 * Z.abs (r * (dd * sn) - m * sd) <= Z.abs m * sd.
Proof.
  intros Hd Hn Hs Hx r.
  pose proof (round_he_error (m * sd) (dd * sn) ltac:(nia)) as H. fold r in H.
  replace (sn * dd) with (dd * sn) in Hx by ring. lia.
Qed.

(** * Entity order *)
Theorem entity_order_in_order : forall l, parse_ents InOrder (export_ents l) = l.
Proof.
  induction l as [|[h i] l IH]; [reflexivity|].
  cbn [parse_ents] in *. unfold export_ents, parse_in_order in *. cbn [map flat_map fst snd].
  rewrite IH. now destruct h.
Qed.

Theorem entity_order_fixed_point : forall l, export_ents (parse_ents InOrder (export_ents l)) = export_ents l.
Proof. intros l. now rewrite entity_order_in_order. Qed.

Theorem entity_order_two_pass_refuted :
  exists l, export_ents (parse_ents TwoPass (export_ents l)) <> export_ents l.
Proof. exists [(true, 1%N); (false, 2%N)]. vm_compute. discriminate. Qed.

(** * replaceNN index *)
Open Scope N_scope.
Theorem fixup_index_roundtrip_1_99 : forall n, 1 <= n <= 99 -> index_roundtrip 2 2 n = true.
Proof.
  intros n Hn.
  assert (H : forallb (fun k => index_roundtrip 2 2 (N.of_nat k)) (seq 1 99) = true) by (vm_compute; reflexivity).
  rewrite forallb_forall in H. specialize (H (N.to_nat n)). rewrite N2Nat.id in H. apply H.
  apply in_seq. lia.
Qed.
Theorem fixup_index_100_refuted : index_roundtrip 2 2 100 = false.
Proof. vm_compute. reflexivity. Qed.
