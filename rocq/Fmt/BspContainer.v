(** The BSP file container (srctools/bsp.py: BSP.read, the second half of BSP.save).

    File = header (4-byte magic, int32 version), a table of [nlumps] rows of four int32 (offset, length, lump
    version, uncompressed size; L4D2 files use the field order version, offset, length, size), int32 map
    revision, then the lump payloads in write order (index order, the pakfile last, nothing between them).
    A lump whose compressed flag is set is stored as LZMA data and its uncompressed size is put in the fourth
    field (the pakfile is never compressed).  The game lump (index 35) is built in place: int32 count, one
    16-byte directory entry per game lump (the id reversed, uint16 flags, uint16 version, ABSOLUTE file offset,
    uncompressed length), one more all-zero-id entry carrying the end offset when the last game lump is
    compressed, then the payloads with one NUL between consecutive ones.  The reader finds the stored size of a
    compressed game lump from the offset of the next real entry (minus the NUL) or the end of lump 35.

    Bytes are [N] below 256 (Bin/LE.v); every int32 / uint16 field is modelled as an [N] (the well-formedness
    condition of the round trip bounds them by 2^31 / 2^16: negative versions are outside the model).
    LZMA is a Section variable pair with the visible hypothesis [decompress (compress d) = d].  *)
From Coq Require Import NArith List Bool Lia.
From SV Require Import Bin.LE.
Import ListNotations.
Local Open Scope N_scope.

Record lump := mkL { l_ver : N; l_data : list N; l_comp : bool }.
Record glump := mkG { g_id : list N; g_flags : N; g_ver : N; g_data : list N }.
Record container := mkC {
  c_version : N; c_l4d2 : bool; c_rev : N;
  c_lumps : list lump;          (* by index; entry [gidx] is the (empty) GAME_LUMP placeholder *)
  c_games : list glump }.

(** Layout constants (generated from bsp.py for the instance obligations: Gen/BspGraph_gen.v). *)
Record layout := mkLay {
  nlumps : nat;                 (* LUMP_COUNT *)
  gidx : nat;                   (* BSP_LUMPS.GAME_LUMP *)
  pak : nat;                    (* BSP_LUMPS.PAKFILE *)
  worder : list nat;            (* LUMP_WRITE_ORDER *)
  l4d2_version : N;             (* VERSIONS.L4D2 *)
  vitamin_version : N           (* VERSIONS.VITAMINSOURCE *)
}.
Definition std_layout : layout :=
  mkLay 64 35 40 (seq 0 40 ++ seq 41 23 ++ [40]%nat) 21 43.

Definition len (l : list N) : N := N.of_nat (length l).
Definition slice (off n : N) (f : list N) : list N := firstn (N.to_nat n) (skipn (N.to_nat off) f).
Definition get32 (f : list N) (pos : N) : N := le_dec (slice pos 4 f).
Definition get16 (f : list N) (pos : N) : N := le_dec (slice pos 2 f).
Definition enc32 (n : N) : list N := le_enc 4 n.
Definition enc16 (n : N) : list N := le_enc 2 n.

Definition lump0 : lump := mkL 0 [] false.
Definition magic_vbsp : list N := [86; 66; 83; 80].      (* b'VBSP' *)
Definition magic_vitamin : list N := [70; 65; 82; 84].   (* b'FART' *)
Fixpoint bytes_eqb (a b : list N) : bool :=
  match a, b with
  | [], [] => true
  | x :: a', y :: b' => (x =? y) && bytes_eqb a' b'
  | _, _ => false
  end.

Definition lump_eqb (a b : lump) : bool :=
  (l_ver a =? l_ver b) && bytes_eqb (l_data a) (l_data b) && Bool.eqb (l_comp a) (l_comp b).
Definition glump_eqb (a b : glump) : bool :=
  bytes_eqb (g_id a) (g_id b) && (g_flags a =? g_flags b) && (g_ver a =? g_ver b) && bytes_eqb (g_data a) (g_data b).
Fixpoint list_eqb {A} (e : A -> A -> bool) (a b : list A) : bool :=
  match a, b with
  | [], [] => true
  | x :: a', y :: b' => e x y && list_eqb e a' b'
  | _, _ => false
  end.
Definition cont_eqb (a b : container) : bool :=
  (c_version a =? c_version b) && Bool.eqb (c_l4d2 a) (c_l4d2 b) && (c_rev a =? c_rev b)
  && list_eqb lump_eqb (c_lumps a) (c_lumps b) && list_eqb glump_eqb (c_games a) (c_games b).
Definition layout_eqb (a b : layout) : bool :=
  Nat.eqb (nlumps a) (nlumps b) && Nat.eqb (gidx a) (gidx b) && Nat.eqb (pak a) (pak b)
  && list_eqb Nat.eqb (worder a) (worder b) && (l4d2_version a =? l4d2_version b) && (vitamin_version a =? vitamin_version b).

Section Container.
  Variable compress decompress : list N -> list N.
  Variable L : layout.

  Definition g_comp (g : glump) : bool := N.odd (g_flags g).          (* flags & 1 *)
  Definition gpayload (g : glump) : list N := if g_comp g then compress (g_data g) else g_data g.

  (** -------------------------------------------------------------------------------- writer *)
  Definition lcomp (i : nat) (l : lump) : bool := l_comp l && negb (Nat.eqb i (pak L)).
  Definition payload (i : nat) (l : lump) : list N := if lcomp i l then compress (l_data l) else l_data l.
  Definition fourcc (i : nat) (l : lump) : N := if lcomp i l then len (l_data l) else 0.

  Definition dummy_needed (gs : list glump) : bool :=
    match rev gs with g :: _ => g_comp g | [] => false end.

  (** Directory entries and payload area of the game lump; [pos] is the absolute offset of the next payload. *)
  Fixpoint gentries (pos : N) (gs : list glump) : list N :=
    match gs with
    | [] => []
    | g :: r =>
        rev (g_id g) ++ enc16 (g_flags g) ++ enc16 (g_ver g) ++ enc32 pos ++ enc32 (len (g_data g))
        ++ gentries (pos + len (gpayload g) + (match r with [] => 0 | _ => 1 end)) r
    end.
  Fixpoint gdata (gs : list glump) : list N :=
    match gs with
    | [] => []
    | g :: r => gpayload g ++ (match r with [] => [] | _ => [0] end) ++ gdata r
    end.
  Definition gblock (start : N) (gs : list glump) : list N :=
    let n := N.of_nat (length gs) + (if dummy_needed gs then 1 else 0) in
    let dstart := start + 4 + 16 * n in
    enc32 n ++ gentries dstart gs
    ++ (if dummy_needed gs then [0; 0; 0; 0; 0; 0; 0; 0] ++ enc32 (dstart + len (gdata gs)) ++ [0; 0; 0; 0] else [])
    ++ gdata gs.

  Definition base : N := 8 + 16 * N.of_nat (nlumps L) + 4.

  (** Segment of lump [i] when it is written at absolute position [pos]. *)
  Definition segment (c : container) (pos : N) (i : nat) : list N :=
    if Nat.eqb i (gidx L) then gblock pos (c_games c) else payload i (nth i (c_lumps c) lump0).

  (** Walk of the write order: (rows so far as index -> (offset, length), body so far). *)
  Fixpoint body (c : container) (pos : N) (order : list nat) : list N :=
    match order with
    | [] => []
    | i :: r => let s := segment c pos i in s ++ body c (pos + len s) r
    end.
  Fixpoint offset_of (c : container) (pos : N) (order : list nat) (k : nat) : N :=
    match order with
    | [] => 0
    | i :: r => if Nat.eqb i k then pos else offset_of c (pos + len (segment c pos i)) r k
    end.

  Definition row (c : container) (i : nat) : list N :=
    let l := nth i (c_lumps c) lump0 in
    let off := offset_of c base (worder L) i in
    let ln := len (segment c off i) in
    let ver := if Nat.eqb i (gidx L) then 0 else l_ver l in
    let four := if Nat.eqb i (gidx L) then 0 else fourcc i l in
    if c_l4d2 c then enc32 ver ++ enc32 off ++ enc32 ln ++ enc32 four
    else enc32 off ++ enc32 ln ++ enc32 ver ++ enc32 four.

  Definition magic_of (version : N) : list N :=
    if version =? vitamin_version L then magic_vitamin else magic_vbsp.

  Definition write (c : container) : list N :=
    magic_of (c_version c) ++ enc32 (c_version c)
    ++ flat_map (row c) (seq 0 (nlumps L))
    ++ enc32 (c_rev c)
    ++ body c base (worder L).

  (** -------------------------------------------------------------------------------- reader *)
  Definition rd_row (f : list N) (l4d2 : bool) (i : nat) : N * N * N * N :=     (* offset, length, version, size *)
    let p := 8 + 16 * N.of_nat i in
    let a := get32 f p in let b := get32 f (p + 4) in let c := get32 f (p + 8) in let d := get32 f (p + 12) in
    if l4d2 then (b, c, a, d) else (a, b, c, d).

  Definition rd_lump (f : list N) (l4d2 : bool) (i : nat) : lump :=
    match rd_row f l4d2 i with
    | (off, ln, ver, four) =>
        let raw := slice off ln f in
        if Nat.eqb i (gidx L) then mkL ver [] (0 <? four)       (* "This is not valid any longer": data cleared *)
        else if 0 <? four then mkL ver (decompress raw) true else mkL ver raw false
    end.

  (** Directory entry [k] of the game lump starting at [goff]: (id, flags, version, offset, length). *)
  Definition rd_gentry (f : list N) (goff : N) (k : nat) : list N * N * N * N * N :=
    let p := goff + 4 + 16 * N.of_nat k in
    (rev (slice p 4 f), get16 f (p + 4), get16 f (p + 6), get32 f (p + 8), get32 f (p + 12)).
  Definition is_dummy (e : list N * N * N * N * N) : bool :=
    match e with (id, _, _, _, _) => bytes_eqb id [0; 0; 0; 0] end.

  (** The real (non-dummy) entries in order, then each one's stored size from the next real entry's offset. *)
  Fixpoint rd_games (f : list N) (gend : N) (es : list (list N * N * N * N * N)) : list glump :=
    match es with
    | [] => []
    | (id, flags, ver, off, ln) :: r =>
        let stored := match r with
                      | (_, _, _, off', _) :: _ => off' - off - 1
                      | [] => gend - off
                      end in
        let data := if N.odd flags then decompress (slice off stored f) else slice off ln f in
        mkG id flags ver data :: rd_games f gend r
    end.

  Definition read (f : list N) : option container :=
    let magic := slice 0 4 f in
    let version := get32 f 4 in
    if negb (bytes_eqb magic magic_vbsp || bytes_eqb magic magic_vitamin) then None
    else if bytes_eqb magic magic_vitamin && negb (version =? vitamin_version L) then None
    else
      let l4d2 := (version =? l4d2_version L) && (get32 f 8 =? 0) in
      let rev_ := get32 f (8 + 16 * N.of_nat (nlumps L)) in
      let lumps := map (rd_lump f l4d2) (seq 0 (nlumps L)) in
      match rd_row f l4d2 (gidx L) with
      | (goff, glen, _, _) =>
          let cnt := N.to_nat (get32 f goff) in
          let es := filter (fun e => negb (is_dummy e)) (map (rd_gentry f goff) (seq 0 cnt)) in
          Some (mkC version l4d2 rev_ lumps (rd_games f (goff + glen) es))
      end.

  (** -------------------------------------------------------------------------------- well-formedness *)
  Definition lump_ok (i : nat) (l : lump) : bool :=
    (l_ver l <? 2 ^ 31) && forallb (fun b => b <? 256) (l_data l) && (len (l_data l) <? 2 ^ 31)
    && (if Nat.eqb i (gidx L) then (l_ver l =? 0) && negb (l_comp l) && match l_data l with [] => true | _ => false end
        else if Nat.eqb i (pak L) then negb (l_comp l)
        else negb (l_comp l) || match l_data l with [] => false | _ => true end).
  Definition glump_ok (g : glump) : bool :=
    Nat.eqb (length (g_id g)) 4 && forallb (fun b => b <? 256) (g_id g) && negb (bytes_eqb (g_id g) [0; 0; 0; 0])
    && (g_flags g <? 2 ^ 16) && (g_ver g <? 2 ^ 16) && forallb (fun b => b <? 256) (g_data g) && (len (g_data g) <? 2 ^ 31).
  Fixpoint ids_nodup (gs : list glump) : bool :=
    match gs with
    | [] => true
    | g :: r => negb (existsb (fun h => bytes_eqb (g_id g) (g_id h)) r) && ids_nodup r
    end.
  Fixpoint forallbi {A} (p : nat -> A -> bool) (i : nat) (l : list A) : bool :=
    match l with [] => true | x :: r => p i x && forallbi p (S i) r end.
  (** Conditions on the layout constants (an instance obligation for the generated layout). *)
  Definition layout_ok : bool :=
    Nat.ltb 0 (nlumps L) && Nat.ltb (gidx L) (nlumps L) && Nat.ltb (pak L) (nlumps L) && negb (Nat.eqb (gidx L) (pak L))
    && forallb (fun i => existsb (Nat.eqb i) (worder L)) (seq 0 (nlumps L))
    && negb (l4d2_version L =? vitamin_version L).

  Definition wf (c : container) : bool :=
    Nat.eqb (length (c_lumps c)) (nlumps L) && forallbi lump_ok 0 (c_lumps c)
    && forallb glump_ok (c_games c) && ids_nodup (c_games c)
    && (c_version c <? 2 ^ 31) && (c_rev c <? 2 ^ 31)
    && (if c_l4d2 c then (c_version c =? l4d2_version L) && (l_ver (nth 0 (c_lumps c) lump0) =? 0) else true)
    && (len (write c) <? 2 ^ 31).
End Container.
