(** Model of the VPK (version 1) directory file codec of [srctools.vpk]:
    [VPK.write_dirfile] (vpk.py, "def write_dirfile") and [VPK.load_dirfile] / [iter_nullstr] /
    [_write_nullstring].  Bytes are [N] (intended < 256), files are [list N].
    Executable definitions only; proofs are in VpkDirProofs.v.

    Constants of the format (signature, the archive index that means "in the _dir file", the entry
    terminator) are parameters collected in [dcfg]; the instance read from today's source is
    Gen/VpkPlace_gen.v and the theorems are proved for every [dcfg] that satisfies [dcfg_ok]. *)
From Coq Require Import List NArith Bool.
Import ListNotations.
Open Scope N_scope.

Definition bytes := list N.

Record dcfg := { c_sig : N; c_dir_index : N; c_term : N }.
Definition dcfg_ok (c : dcfg) : bool :=
  (c_sig c <? 4294967296) && (c_dir_index c <? 65536) && (c_term c <? 65536).

(** One directory entry ([FileInfo] without its name): crc, preload bytes ([start_data]), archive index
    ([None] = the _dir file), offset and length of the part stored outside the tree. *)
Record info := mkInfo { icrc : N; ipre : bytes; iidx : option N; ioff : N; ilen : N }.

(** Keys are (extension, folder, name), each a byte string (ASCII / surrogateescape-encoded). *)
Definition key := (bytes * bytes * bytes)%type.

Definition len (b : bytes) : N := N.of_nat (length b).

(** struct.pack('<H') / ('<I'): [None] models struct.error (value out of range). *)
Definition le16 (n : N) : bytes := [n mod 256; n / 256 mod 256].
Definition le32 (n : N) : bytes := [n mod 256; n / 256 mod 256; n / 65536 mod 256; n / 16777216 mod 256].
Definition fits16 (n : N) : bool := n <? 65536.
Definition fits32 (n : N) : bool := n <? 4294967296.

(** [_write_nullstring]: empty strings are written as a single space. *)
Definition write_cstr (s : bytes) : bytes :=
  match s with [] => [32; 0] | _ => s ++ [0] end.

Section codec.
  Variable c : dcfg.

  Definition idx_code (i : info) : N := match iidx i with None => c_dir_index c | Some x => x end.

  (** struct.pack('<IHHIIH', crc, len(start_data), arch_ind, offset, arch_len, 0xffff) + start_data *)
  Definition entry_fits (i : info) : bool :=
    fits32 (icrc i) && fits16 (len (ipre i)) && fits16 (idx_code i) && fits32 (ioff i) && fits32 (ilen i)
    && fits16 (c_term c).
  Definition enc_entry (i : info) : bytes :=
    le32 (icrc i) ++ le16 (len (ipre i)) ++ le16 (idx_code i) ++ le32 (ioff i) ++ le32 (ilen i)
    ++ le16 (c_term c) ++ ipre i.

  (** The three nested loops of write_dirfile over an already grouped and sorted tree.  Empty groups
      are skipped exactly where the code has [if not folders: continue] / [if not files: continue]. *)
  Definition tree := list (bytes * list (bytes * list (bytes * info))).

  Definition enc_files (fs : list (bytes * info)) : bytes :=
    flat_map (fun f => write_cstr (fst f) ++ enc_entry (snd f)) fs ++ [0].
  Definition enc_dirs (ds : list (bytes * list (bytes * info))) : bytes :=
    flat_map (fun d => match snd d with [] => [] | _ => write_cstr (fst d) ++ enc_files (snd d) end) ds ++ [0].
  Definition enc_tree (t : tree) : bytes :=
    flat_map (fun e => match snd e with [] => [] | _ => write_cstr (fst e) ++ enc_dirs (snd e) end) t ++ [0].

  Definition tree_fits (t : tree) : bool :=
    forallb (fun e => forallb (fun d => forallb (fun f => entry_fits (snd f)) (snd d)) (snd e)) t.

  (** The whole file: '<III' signature, version 1, tree length; the tree; footer_data.
      [None] = struct.error raised while packing (the real file is then left truncated). *)
  Definition enc_file (t : tree) (footer : bytes) : option bytes :=
    let tb := enc_tree t in
    if fits32 (c_sig c) && tree_fits t && fits32 (len tb)
    then Some (le32 (c_sig c) ++ le32 1 ++ le32 (len tb) ++ tb ++ footer)
    else None.

  (** ---- reading ---- *)

  (** Read up to the next NUL; [None] = EOF before a terminator (the code raises). *)
  Fixpoint read_cstr (bs : bytes) : option (bytes * bytes) :=
    match bs with
    | [] => None
    | b :: r => if b =? 0 then Some ([], r)
                else match read_cstr r with Some (s, r') => Some (b :: s, r') | None => None end
    end.

  (** One step of [iter_nullstr]: [Some (None, r)] = end of section (empty string),
      [Some (Some s, r)] = a string (' ' stands for ''). *)
  Definition next_str (bs : bytes) : option (option bytes * bytes) :=
    match read_cstr bs with
    | None => None
    | Some (s, r) =>
        match s with
        | [] => Some (None, r)
        | [b] => if b =? 32 then Some (Some [], r) else Some (Some s, r)
        | _ => Some (Some s, r)
        end
    end.

  Definition rd16 (bs : bytes) : option (N * bytes) :=
    match bs with a :: b :: r => Some (a + 256 * b, r) | _ => None end.
  Definition rd32 (bs : bytes) : option (N * bytes) :=
    match bs with a :: b :: c0 :: d :: r => Some (a + 256 * b + 65536 * c0 + 16777216 * d, r) | _ => None end.

  (** entry.unpack(read(18)); sentinel handling; read(index_len).  A short read of the preload bytes is
      not an error in the code (file.read returns what is there): [firstn]. *)
  Definition dec_entry (bs : bytes) : option (info * bytes) :=
    match rd32 bs with None => None | Some (crc, r1) =>
    match rd16 r1 with None => None | Some (plen, r2) =>
    match rd16 r2 with None => None | Some (ai, r3) =>
    match rd32 r3 with None => None | Some (off, r4) =>
    match rd32 r4 with None => None | Some (alen, r5) =>
    match rd16 r5 with None => None | Some (term, r6) =>
      if term =? c_term c then
        Some (mkInfo crc (firstn (N.to_nat plen) r6)
                     (if ai =? c_dir_index c then None else Some ai)
                     (if alen =? 0 then 0 else off) alen,
              skipn (N.to_nat plen) r6)
      else None
    end end end end end end.

  (** The loops of load_dirfile on fuel (every iteration consumes at least one byte, so
      [S (length bs)] is always enough).  Entries are returned in file order. *)
  Fixpoint dec_files (fuel : nat) (ext dir : bytes) (bs : bytes) : option (list (key * info) * bytes) :=
    match fuel with O => None | S f =>
      match next_str bs with
      | None => None
      | Some (None, r) => Some ([], r)
      | Some (Some name, r) =>
          match dec_entry r with None => None | Some (i, r') =>
            match dec_files f ext dir r' with None => None
            | Some (es, r'') => Some (((ext, dir, name), i) :: es, r'') end end
      end
    end.

  Fixpoint dec_dirs (fuel : nat) (ext : bytes) (bs : bytes) : option (list (key * info) * bytes) :=
    match fuel with O => None | S f =>
      match next_str bs with
      | None => None
      | Some (None, r) => Some ([], r)
      | Some (Some dir, r) =>
          match dec_files (S (length r)) ext dir r with None => None | Some (es, r') =>
            match dec_dirs f ext r' with None => None
            | Some (es', r'') => Some (es ++ es', r'') end end
      end
    end.

  (** [flen] = number of bytes after the 12-byte header, [tlen] = the tree length field.  After every
      extension block the code tests [dirfile.tell() + 1 == header_len] (i.e. exactly one byte of the tree
      is left), then reads that byte unseen and stops. *)
  Fixpoint dec_exts (fuel : nat) (flen tlen : N) (bs : bytes) : option (list (key * info) * bytes) :=
    match fuel with O => None | S f =>
      match next_str bs with
      | None => None
      | Some (None, r) => Some ([], r)
      | Some (Some ext, r) =>
          match dec_dirs (S (length r)) ext r with None => None | Some (es, r') =>
            if len r' + tlen =? flen + 1 then Some (es, tl r')
            else match dec_exts f flen tlen r' with None => None
                 | Some (es', r'') => Some (es ++ es', r'') end end
      end
    end.

  (** load_dirfile for version-1 files: signature and version checked; everything after the tree is
      footer_data.  Version 2 headers are outside this model ([None]). *)
  Definition dec_file (bs : bytes) : option (list (key * info) * bytes) :=
    match rd32 bs with None => None | Some (sig, r1) =>
    match rd32 r1 with None => None | Some (ver, r2) =>
    match rd32 r2 with None => None | Some (tlen, r3) =>
      if (sig =? c_sig c) && (ver =? 1) then dec_exts (S (length r3)) (len r3) tlen r3 else None
    end end end.

  (** Entries of a tree in the order write_dirfile emits them. *)
  Definition flat_tree (t : tree) : list (key * info) :=
    flat_map (fun e => flat_map (fun d => map (fun f => ((fst e, fst d, fst f), snd f)) (snd d)) (snd e)) t.
End codec.

(** What load_dirfile does to an entry that write_dirfile wrote: offset forced to 0 when nothing is
    stored outside the tree. *)
Definition norm_info (i : info) : info :=
  mkInfo (icrc i) (ipre i) (iidx i) (if ilen i =? 0 then 0 else ioff i) (ilen i).

(** A string survives [_write_nullstring] / [iter_nullstr]: no NUL byte, all bytes < 256, not the single space. *)
Definition str_ok (s : bytes) : bool :=
  forallb (fun b => negb (b =? 0) && (b <? 256)) s && negb (match s with [b] => b =? 32 | _ => false end).
Definition key_ok (k : key) : bool :=
  let '(e, d, n) := k in str_ok e && str_ok d && str_ok n.
