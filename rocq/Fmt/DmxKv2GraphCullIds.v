(** C14 — [cull_uuid]: what the option loses.  The tree of blocks written with [cull_uuid] does not depend on the ids of
    the elements written inline: two graphs that differ only there have the same culled export, which is the erasure
    of the unculled tree of either.  (The reader gives every block without id line a fresh UUID: what it returns is one of
    these graphs.) *)
From Coq Require Import NArith List Bool Lia PeanoNat.
From SV Require Import Text.Str Text.Tokenizer Fmt.DmxKv2 Fmt.DmxKv2Proofs Fmt.DmxKv2Nested Fmt.DmxKv2Graph Fmt.DmxKv2GraphProofs
  Fmt.DmxKv2GraphCull Fmt.DmxKv2GraphWhole.
Import ListNotations.
Open Scope nat_scope.

Definition same_but_id (e e2 : gelem) : Prop := ge_type e = ge_type e2 /\ ge_name e = ge_name e2 /\ ge_attrs e = ge_attrs e2.
(** [g2] is [g] with possibly other ids for the elements that are not roots *)
Definition differs_in_inline_ids (isroot : nat -> bool) (g g2 : gdoc) : Prop :=
  Forall2 same_but_id g g2 /\ forall i, isroot i = true -> nth i (ids g) [] = nth i (ids g2) [].

Lemma map_opt_ext {A B} (f f' : A -> option B) : forall l, (forall a, In a l -> f a = f' a) -> map_opt f l = map_opt f' l.
Proof.
  induction l as [|a l IH]; intros H; [reflexivity|]. cbn [map_opt]. rewrite (H a) by now left.
  rewrite IH by (intros b Hb; apply H; now right). reflexivity.
Qed.

Lemma Forall2_nth_error {A B} (R : A -> B -> Prop) l l' : Forall2 R l l' -> forall i,
  match nth_error l i, nth_error l' i with Some a, Some b => R a b | None, None => True | _, _ => False end.
Proof.
  induction 1 as [|x y l l' Hxy Hl IH]; intros [|i]; cbn [nth_error]; try exact I; [exact Hxy|apply IH].
Qed.

Lemma Forall2_len {A B} (R : A -> B -> Prop) l l' : Forall2 R l l' -> length l = length l'.
Proof. induction 1; cbn [length]; congruence. Qed.

Lemma nth_error_ids (h : gdoc) i e : nth_error h i = Some e -> nth i (ids h) [] = ge_id e.
Proof.
  intros H. unfold ids. change [] with (ge_id dflt_gelem). rewrite map_nth. now rewrite (nth_error_nth _ _ dflt_gelem H).
Qed.

Section CullIds.
Variable isroot : nat -> bool.

Definition item_c (h : gdoc) (f : nat) (it : gitem) : option nitem :=
  match it with
  | GStr s => Some (NStr s)
  | GRef GNull => Some NNull
  | GRef (GStub u) => Some (NRef u)
  | GRef (GElem j) =>
      if isroot j then Some (NRef (nth j (ids h) []))
      else match nest_elem h isroot true f j with Some t => Some (NInline t) | None => None end
  end.
Definition attr_c (F : gitem -> option nitem) (a : gattr) : option nattr :=
  match map_opt F (ga_items a) with Some its => Some (NAttr (ga_name a) (ga_type a) (ga_arr a) its) | None => None end.

Lemma nest_c_S h f i : nest_elem h isroot true (S f) i =
  match nth_error h i with
  | None => None
  | Some e =>
      match map_opt (attr_c (item_c h f)) (ge_attrs e) with
      | Some attrs => Some (NElem (ge_type e) (if negb (isroot i) then None else Some (ge_id e)) (ge_name e) attrs)
      | None => None
      end
  end.
Proof. reflexivity. Qed.

Lemma attrs_ext (F F' : gitem -> option nitem) l : (forall it, F it = F' it) -> map_opt (attr_c F) l = map_opt (attr_c F') l.
Proof. intros HF. apply map_opt_ext. intros a _. unfold attr_c. rewrite (map_opt_ext F F') by (intros; apply HF). reflexivity. Qed.

Variables g g2 : gdoc.
Hypothesis H : differs_in_inline_ids isroot g g2.

Lemma nest_elem_cull_ids : forall f i, nest_elem g isroot true f i = nest_elem g2 isroot true f i.
Proof.
  destruct H as [HF Hid].
  induction f as [|f IH]; intros i; [reflexivity|]. rewrite !nest_c_S.
  pose proof (Forall2_nth_error _ _ _ HF i) as Hn.
  destruct (nth_error g i) as [e|] eqn:E1; destruct (nth_error g2 i) as [e2|] eqn:E2; try contradiction; [|reflexivity].
  destruct Hn as [Et [En Ea]]. rewrite <- Et, <- En, <- Ea.
  assert (Hit : forall it, item_c g f it = item_c g2 f it).
  { intros [s|[j| |u]]; cbn [item_c]; try reflexivity. destruct (isroot j) eqn:Rj; [now rewrite (Hid j Rj)|now rewrite IH]. }
  rewrite (attrs_ext _ _ (ge_attrs e) Hit). destruct (map_opt _ (ge_attrs e)); [|reflexivity].
  destruct (isroot i) eqn:Ri; cbn [negb]; [|reflexivity].
  specialize (Hid i Ri). rewrite (nth_error_ids g i e E1), (nth_error_ids g2 i e2 E2) in Hid. now rewrite Hid.
Qed.

Theorem culled_export_ignores_inline_ids : nest_doc g isroot true = nest_doc g2 isroot true.
Proof.
  unfold nest_doc, root_list. rewrite (Forall2_len _ _ _ (proj1 H)). apply map_opt_ext. intros r _. apply nest_elem_cull_ids.
Qed.

(** ... and it is the erasure of the unculled tree of either graph *)
Corollary culled_export_is_erasure_of_either :
  nest_doc g isroot true = option_map (map (erase_elem true)) (nest_doc g2 isroot false).
Proof. rewrite culled_export_ignores_inline_ids. apply nest_doc_cull. Qed.
End CullIds.

(** example: [ex_graph] with other ids for the two inline elements (2 and 3): another unculled export, the same culled one *)
Definition ex_graph_relabelled : gdoc :=
  map (fun e => if str_eqb (ge_id e) [99%N] then {| ge_type := ge_type e; ge_id := [120%N; 49%N]; ge_name := ge_name e; ge_attrs := ge_attrs e |}
                else if str_eqb (ge_id e) [100%N] then {| ge_type := ge_type e; ge_id := [120%N; 50%N]; ge_name := ge_name e; ge_attrs := ge_attrs e |}
                else e) ex_graph.
Definition ondoc_same (a b : option ndoc) : bool :=
  match a, b with
  | Some x, Some y => str_eqb (rendern_doc pinned_tables x) (rendern_doc pinned_tables y)
  | None, None => true
  | _, _ => false
  end.
Example culled_export_example :
  let r := ex_isroot pinned_rootcfg ex_graph in
  map r [0; 1; 2; 3] = [true; true; false; false] /\
  ondoc_same (nest_doc ex_graph r true) (nest_doc ex_graph_relabelled r true) = true /\
  ondoc_same (nest_doc ex_graph r false) (nest_doc ex_graph_relabelled r false) = false /\
  match nest_doc ex_graph r true with Some d => negb (str_eqb (rendern_doc pinned_tables d) []) | None => false end = true.
Proof. vm_compute. repeat split. Qed.
Lemma ex_graph_relabelled_differs : differs_in_inline_ids (ex_isroot pinned_rootcfg ex_graph) ex_graph ex_graph_relabelled.
Proof.
  split.
  - unfold ex_graph_relabelled, ex_graph. cbn [map]. repeat constructor.
  - intros [|[|[|[|i]]]] Hi; try reflexivity; try (vm_compute in Hi; discriminate Hi).
Qed.
