(** Proofs about the archive naming model (Fmt/VpkArchName.v). *)
From Coq Require Import List NArith Bool Lia Arith Decimal DecimalN DecimalPos.
From SV Require Import Fmt.VpkDir SM.Vpk SM.VpkProofs Fmt.VpkArchName.
Import ListNotations.
Open Scope N_scope.

(** ---- the string primitives on  P ++ l ---- *)
Lemma ends_with_app P l s : (length s <= length l)%nat -> ends_with (P ++ l) s = ends_with l s.
Proof.
  intros H. unfold ends_with. rewrite app_length.
  replace (Nat.leb (length s) (length P + length l)) with true by (symmetry; apply Nat.leb_le; lia).
  replace (Nat.leb (length s) (length l)) with true by (symmetry; apply Nat.leb_le; lia).
  rewrite skipn_app. rewrite skipn_all2 by lia. cbn [List.app].
  replace (length P + length l - length s - length P)%nat with (length l - length s)%nat by lia. reflexivity.
Qed.
Lemma drop_last_app P l k : (k <= length l)%nat -> drop_last k (P ++ l) = P ++ drop_last k l.
Proof.
  intros H. unfold drop_last. rewrite app_length, firstn_app. rewrite firstn_all2 by lia.
  replace (length P + length l - k - length P)%nat with (length l - k)%nat by lia. reflexivity.
Qed.
Lemma remove_suffix_app P l s : (length s <= length l)%nat -> remove_suffix (P ++ l) s = P ++ remove_suffix l s.
Proof.
  intros H. unfold remove_suffix. rewrite ends_with_app by exact H.
  destruct (negb (is_nil s) && ends_with l s); [apply drop_last_app, H|reflexivity].
Qed.
Lemma rstrip_set_app cs P l : rstrip_set cs l <> [] -> rstrip_set cs (P ++ l) = P ++ rstrip_set cs l.
Proof.
  intros H. induction P as [|x P IH]; [reflexivity|]. cbn [List.app].
  change (rstrip_set cs (x :: P ++ l)) with (match rstrip_set cs (P ++ l) with [] => if mem x cs then [] else [x] | r' => x :: r' end).
  rewrite IH. destruct (P ++ rstrip_set cs l) eqn:E; [|reflexivity].
  apply app_eq_nil in E. tauto.
Qed.
Lemma ends_with_split f s : ends_with f s = true -> exists P, f = P ++ s.
Proof.
  unfold ends_with. intros H. apply andb_prop in H as [_ H]. apply bytes_eqb_eq in H.
  exists (firstn (length f - length s) f). rewrite <- H at 2. symmetry. apply firstn_skipn.
Qed.
Lemma ends_with_self P s : ends_with (P ++ s) s = true.
Proof.
  unfold ends_with. rewrite app_length. apply andb_true_intro. split; [apply Nat.leb_le; lia|].
  replace (length P + length s - length s)%nat with (length P + 0)%nat by lia.
  rewrite skipn_app, skipn_all2 by lia. replace (length P + 0 - length P)%nat with 0%nat by lia.
  cbn [List.app skipn]. now apply bytes_eqb_eq.
Qed.

(** ---- the symbolic evaluation is sound: an answer holds for every unknown part P of the file name ---- *)
Lemma ssym_sound e : forall lf dp l P,
  ssym lf dp e = Some l -> seval (P ++ lf) (option_map (@List.app N P) dp) e = Some (P ++ l).
Proof.
  induction e as [| |e IH s|e IH k|e IH cs|a IHa b IHb]; intros lf dp l P; cbn [ssym seval].
  - intros [= ->]. reflexivity.
  - intros ->. reflexivity.
  - destruct (ssym lf dp e) as [l0|] eqn:E; [|discriminate]. rewrite (IH _ _ _ P E). cbn [option_map].
    destruct s as [|s0 s']; cbn [is_nil].
    + intros [= ->]. unfold remove_suffix. cbn [is_nil negb andb]. reflexivity.
    + destruct (Nat.leb (length (s0 :: s')) (length l0)) eqn:El; [|discriminate]. intros [= <-].
      apply Nat.leb_le in El. now rewrite remove_suffix_app.
  - destruct (ssym lf dp e) as [l0|] eqn:E; [|discriminate]. rewrite (IH _ _ _ P E). cbn [option_map].
    destruct ((0 <? k) && Nat.leb (N.to_nat k) (length l0)) eqn:Ek; [|discriminate]. intros [= <-].
    apply andb_prop in Ek as [Ek1 Ek2]. apply N.ltb_lt in Ek1. apply Nat.leb_le in Ek2.
    unfold py_drop_last. destruct (N.eqb_spec k 0); [lia|]. now rewrite drop_last_app.
  - destruct (ssym lf dp e) as [l0|] eqn:E; [|discriminate]. rewrite (IH _ _ _ P E). cbn [option_map].
    destruct (rstrip_set cs l0) as [|r0 r] eqn:Er; [discriminate|]. intros [= <-].
    rewrite rstrip_set_app by (rewrite Er; discriminate). now rewrite Er.
  - destruct dp as [d|]; cbn [option_map]; [apply IHa|apply IHb].
Qed.

(** ---- the filename setter ---- *)
Section naming.
  Variable c : ncfg.

  Lemma sym_is_P_inv o : sym_is_P o = true -> o = Some [].
  Proof. destruct o as [[|x l]|]; cbn [sym_is_P]; intros H; try discriminate H; reflexivity. Qed.

  (** [filename = P + '_dir.vpk'] sets [_dir_prefix = P] ... *)
  Lemma dir_prefix_of_dir : setter_ok c = true -> forall P, dir_prefix_of c (P ++ n_suffix c) = Some P.
  Proof.
    intros H P. apply andb_prop in H as [_ H]. apply sym_is_P_inv in H.
    unfold dir_prefix_of. rewrite ends_with_self.
    pose proof (ssym_sound _ _ _ _ P H) as E. cbn [option_map] in E. rewrite List.app_nil_r in E. exact E.
  Qed.
  (** ... and nothing else is a directory file name. *)
  Lemma dir_prefix_of_inv : setter_ok c = true -> forall f p, dir_prefix_of c f = Some p -> f = p ++ n_suffix c.
  Proof.
    intros H f p Hf. pose proof Hf as Hf'. unfold dir_prefix_of in Hf.
    destruct (ends_with f (n_suffix c)) eqn:E; [|discriminate].
    apply ends_with_split in E as [P ->]. rewrite (dir_prefix_of_dir H) in Hf'. congruence.
  Qed.
  Lemma dir_prefix_of_none f : dir_prefix_of c f = None -> setter_ok c = true -> ends_with f (n_suffix c) = false.
  Proof.
    intros Hn H. destruct (ends_with f (n_suffix c)) eqn:E; [|reflexivity].
    apply ends_with_split in E as [P ->]. rewrite (dir_prefix_of_dir H) in Hn. discriminate.
  Qed.

  Lemma site_ok_sound e : site_ok c e = true -> forall P, seval (P ++ n_suffix c) (Some P) e = Some P.
  Proof.
    intros H P. apply sym_is_P_inv in H. pose proof (ssym_sound _ _ _ _ P H) as E.
    cbn [option_map] in E. rewrite !app_nil_r in E. exact E.
  Qed.

  (** The writer and the readers of a numbered archive use the same file name, for every file name of a directory
      VPK and every index; and [get_arch_filename(prefix)] gives back the directory file's own name. *)
  Theorem arch_names_coincide : ncfg_ok c = true -> forall f p i,
    dir_prefix_of c f = Some p ->
    site_name c f (n_writer c) i = Some (arch_filename c p (Some i))
    /\ Forall (fun r => site_name c f r i = Some (arch_filename c p (Some i))) (n_readers c)
    /\ arch_filename c p None = f.
  Proof.
    unfold ncfg_ok. intros H f p i Hf.
    apply andb_prop in H as [H Hnum]. apply andb_prop in H as [H Hsuf]. apply andb_prop in H as [H Hr].
    apply andb_prop in H as [Hset Hw]. apply bytes_eqb_eq in Hsuf.
    pose proof (dir_prefix_of_inv Hset _ _ Hf) as ->.
    unfold site_name. rewrite Hf. split; [|split].
    - now rewrite (site_ok_sound _ Hw).
    - apply Forall_forall. intros r Hin. rewrite forallb_forall in Hr. now rewrite (site_ok_sound _ (Hr _ Hin)).
    - cbn [arch_filename]. now rewrite Hsuf.
  Qed.

  (** A file name that is not a directory VPK has no [_dir_prefix]: FileInfo.write then keeps everything in the file itself. *)
  Theorem singular_has_no_prefix : setter_ok c = true -> forall f,
    ends_with f (n_suffix c) = false -> dir_prefix_of c f = None.
  Proof. intros _ f H. unfold dir_prefix_of. now rewrite H. Qed.
End naming.

(** ---- numbered archive names: one file per index, never the directory file ---- *)
Lemma uint_codes_inj u : forall v, uint_codes u = uint_codes v -> u = v.
Proof.
  induction u; destruct v; cbn [uint_codes]; intros H; try reflexivity; try discriminate;
    injection H as H; f_equal; auto.
Qed.
Fixpoint zeros (k : nat) (u : uint) : uint := match k with O => u | S k' => D0 (zeros k' u) end.
Lemma uint_codes_zeros k u : uint_codes (zeros k u) = repeat 48 k ++ uint_codes u.
Proof. induction k as [|k IH]; cbn [zeros uint_codes repeat List.app]; [reflexivity|now rewrite IH]. Qed.
Lemma of_uint_zeros k u : N.of_uint (zeros k u) = N.of_uint u.
Proof. induction k as [|k IH]; cbn [zeros]; [reflexivity|]. rewrite <- IH. reflexivity. Qed.

Lemma pad_dec_inj w i j : pad w 48 (dec_digits i) = pad w 48 (dec_digits j) -> i = j.
Proof.
  unfold pad, dec_digits. rewrite <- !uint_codes_zeros. intros H. apply uint_codes_inj in H.
  apply (f_equal N.of_uint) in H. rewrite !of_uint_zeros in H. now rewrite !DecimalN.Unsigned.of_to in H.
Qed.
Lemma uint_codes_digit u : Forall (fun x => is_digit x = true) (uint_codes u).
Proof. induction u; cbn [uint_codes]; constructor; auto. Qed.
Lemma dec_digits_nonnil i : dec_digits i <> [].
Proof.
  unfold dec_digits. destruct i as [|p]; cbn [N.to_uint]; [discriminate|].
  pose proof (DecimalPos.Unsigned.to_uint_nonnil p) as H.
  destruct (Pos.to_uint p); [contradiction| | | | | | | | | |]; discriminate.
Qed.
Lemma pad_dec_head w i : exists x r, pad w 48 (dec_digits i) = x :: r /\ is_digit x = true.
Proof.
  unfold pad. destruct (N.to_nat w - length (dec_digits i))%nat as [|k]; cbn [repeat List.app].
  - pose proof (dec_digits_nonnil i) as Hn. pose proof (uint_codes_digit (N.to_uint i)) as Hd. fold (dec_digits i) in Hd.
    destruct (dec_digits i) as [|x r]; [contradiction|]. inversion Hd; subst. eauto.
  - eexists _, _. split; reflexivity.
Qed.
Lemma strip_prefix_app p s r : strip_prefix p s = Some r -> s = p ++ r.
Proof.
  revert s. induction p as [|x p IH]; intros s; cbn [strip_prefix].
  - intros [= ->]. reflexivity.
  - destruct s as [|y s]; [discriminate|]. destruct (N.eqb_spec x y); [|discriminate]. subst. intros H. cbn. f_equal. auto.
Qed.

Section numbered.
  Variable c : ncfg.
  Hypothesis Hn : numbered_ok c = true.

  Theorem arch_filename_inj p i j : arch_filename c p (Some i) = arch_filename c p (Some j) -> i = j.
  Proof.
    unfold numbered_ok in Hn. apply andb_prop in Hn as [Hf _]. apply N.eqb_eq in Hf.
    cbn [arch_filename]. rewrite Hf. intros H. apply app_inv_head in H. apply app_inv_head in H.
    apply app_inv_tail in H. eapply pad_dec_inj, H.
  Qed.
  Theorem arch_filename_not_dir p i : arch_filename c p (Some i) <> arch_filename c p None.
  Proof.
    unfold numbered_ok in Hn. apply andb_prop in Hn as [Hf Hs]. apply N.eqb_eq in Hf.
    destruct (strip_prefix (n_sep c) (n_dir_suffix c)) as [[|x r]|] eqn:E; try discriminate.
    apply strip_prefix_app in E. cbn [arch_filename]. rewrite E, Hf. intros H.
    apply app_inv_head in H. apply app_inv_head in H.
    destruct (pad_dec_head (n_width c) i) as (y & r' & Hp & Hd). rewrite Hp in H. cbn [List.app] in H.
    injection H as -> _. rewrite Hd in Hs. discriminate.
  Qed.
End numbered.

(** ---- the expected configuration satisfies the condition (non-vacuity), character stripping does not ---- *)
Definition s_dir_vpk : bytes := [95; 100; 105; 114; 46; 118; 112; 107].   (* '_dir.vpk' *)
Definition s_vpk : bytes := [46; 118; 112; 107].                           (* '.vpk' *)
Definition ex_ncfg (reader : sexpr) : ncfg :=
  {| n_suffix := s_dir_vpk; n_setter := SDropLast SName 8; n_writer := SDirPrefix; n_readers := [reader; reader];
     n_dir_suffix := s_dir_vpk; n_sep := [95]; n_fill := 48; n_width := 3; n_ext := s_vpk |}.
Definition reader_today : sexpr := SIfDir SDirPrefix (SRemoveSuffix SName s_vpk).
(** the 'simplification'  self._filename.removesuffix('.vpk').rstrip('_dir') *)
Definition reader_rstrip : sexpr := SRstrip (SRemoveSuffix SName s_vpk) [95; 100; 105; 114].
(** an equivalent rewrite that is accepted: removesuffix('.vpk').removesuffix('_dir') *)
Definition reader_two_suffixes : sexpr := SRemoveSuffix (SRemoveSuffix SName s_vpk) [95; 100; 105; 114].

Lemma ex_ncfg_ok : ncfg_ok (ex_ncfg reader_today) = true /\ ncfg_ok (ex_ncfg reader_two_suffixes) = true.
Proof. vm_compute. split; reflexivity. Qed.

(** 'world_dir.vpk', archive 0: written to 'world_000.vpk', looked for in 'worl_000.vpk'; the condition notices. *)
Lemma arch_names_rstrip_refuted :
  let c := ex_ncfg reader_rstrip in
  let f := [119; 111; 114; 108; 100] ++ s_dir_vpk in
  ncfg_ok c = false
  /\ site_name c f (n_writer c) 0 = Some ([119; 111; 114; 108; 100; 95; 48; 48; 48] ++ s_vpk)
  /\ site_name c f reader_rstrip 0 = Some ([119; 111; 114; 108; 95; 48; 48; 48] ++ s_vpk).
Proof. vm_compute. repeat split; reflexivity. Qed.
