(** C14 — the three unicode modes: which codec the writers use, whether they mark the header with [unicode_], and which
    codec [Element.parse] selects from the header flag and its [unicode] argument.  All fields are regenerated from
    export_binary / export_kv2 / parse / parse_bin (Gen/DmxCodes_gen.v, [gen_hdr]). *)
From Coq Require Import List Bool.
Import ListNotations.

Inductive umode := UAscii | UFormat | USilent.        (* the [unicode] argument of export_binary / export_kv2 *)
Definition all_umodes : list umode := [UAscii; UFormat; USilent].

Record hdrcfg := {
  hb_flag : umode -> bool;          (* export_binary writes [unicode_] into the header *)
  hb_utf8 : umode -> bool;          (* export_binary encodes strings as UTF-8 (else ASCII) *)
  hk_flag : umode -> bool;          (* export_kv2 likewise *)
  hk_utf8 : umode -> bool;
  hp_flag_sets_unicode : bool;      (* parse: a header flag switches [unicode] on *)
  hp_bin_utf8 : bool -> bool;       (* parse_bin: UTF-8 as a function of [unicode] *)
  hp_kv2_utf8 : bool -> bool;       (* parse: the TextIOWrapper encoding for keyvalues2 *)
}.
(** how the file has to be read according to the documentation of the modes: 'silent' needs [unicode=True] *)
Definition caller_unicode (m : umode) : bool := match m with USilent => true | _ => false end.
Definition eff_unicode (c : hdrcfg) (flag param : bool) : bool := param || (flag && hp_flag_sets_unicode c).

Definition reader_bin_utf8 (c : hdrcfg) (m : umode) : bool := hp_bin_utf8 c (eff_unicode c (hb_flag c m) (caller_unicode m)).
Definition reader_kv2_utf8 (c : hdrcfg) (m : umode) : bool := hp_kv2_utf8 c (eff_unicode c (hk_flag c m) (caller_unicode m)).
(** the reader decodes with the codec the writer encoded with, in every mode *)
Definition hdr_bin_ok (c : hdrcfg) : bool := forallb (fun m => Bool.eqb (reader_bin_utf8 c m) (hb_utf8 c m)) all_umodes.
Definition hdr_kv2_ok (c : hdrcfg) : bool := forallb (fun m => Bool.eqb (reader_kv2_utf8 c m) (hk_utf8 c m)) all_umodes.
(** the marked mode needs no argument, and ASCII mode stays ASCII *)
Definition hdr_modes_ok (c : hdrcfg) : bool :=
  hp_bin_utf8 c (eff_unicode c (hb_flag c UFormat) false) && hp_kv2_utf8 c (eff_unicode c (hk_flag c UFormat) false) &&
  negb (hb_utf8 c UAscii) && negb (hk_utf8 c UAscii) && hb_utf8 c UFormat && hb_utf8 c USilent && hk_utf8 c UFormat && hk_utf8 c USilent.

Definition pinned_hdr : hdrcfg := {|
  hb_flag := fun m => match m with UFormat => true | _ => false end;
  hb_utf8 := fun m => match m with UAscii => false | _ => true end;
  hk_flag := fun m => match m with UFormat => true | _ => false end;
  hk_utf8 := fun m => match m with UAscii => false | _ => true end;
  hp_flag_sets_unicode := true; hp_bin_utf8 := fun u => u; hp_kv2_utf8 := fun u => u |}.
(** a writer that forgets the marker in 'format' mode *)
Definition unmarked_hdr : hdrcfg := {|
  hb_flag := fun _ => false; hb_utf8 := hb_utf8 pinned_hdr; hk_flag := hk_flag pinned_hdr; hk_utf8 := hk_utf8 pinned_hdr;
  hp_flag_sets_unicode := true; hp_bin_utf8 := fun u => u; hp_kv2_utf8 := fun u => u |}.

