(** The [_members] dict of an [Element] as [Element.export_binary] sees it (srctools/dmx.py), below the level of
    [Fmt/DmxBin.v]: there an element has a name and a list of attribute records; here it has the ordered dict the
    implementation really holds — keyed by the casefolded attribute name, with the element's name stored as the member
    keyed ["name"], which may be missing (Element.clear(), del elem['name'], pop, popitem) or anywhere in the order
    (re-added by the name setter or by assigning an attribute spelled 'NAME').

    [export_binary] writes, per element, an attribute count and then one record per member that its loop does not skip.
    Both the count expression and the loops' skip tests are read from the source by translate/c14_dmx.py ([cntcfg],
    Gen/DmxCodes_gen.v [gen_cnt]); the count is a linear form over len(elem), the truth value of
    ['name' in elem._members] and the number of members a comprehension keeps.  The reader takes exactly `count`
    records, so the stream is aligned iff the count written equals the number of records written — for every dict the
    public mapping API can produce ([apply_op]: clear / del / pop / popitem / the name setter / item assignment /
    setdefault), with and without the name member.

    Executable definitions only; proofs are in DmxMembersProofs.v. *)
From Coq Require Import NArith ZArith List Bool.
From SV Require Import Fmt.DmxCodes Fmt.DmxBin.
Import ListNotations.

Definition members := list (str * attr).       (* (key, attribute): attr has the real name and the data *)
Record relem := { r_type : str; r_uuid : bytes; r_members : members }.
Definition rdoc := list relem.

Fixpoint mget (k : str) (m : members) : option attr :=
  match m with
  | [] => None
  | (k', a) :: r => if str_eqb k k' then Some a else mget k r
  end.
Definition has_key (k : str) (m : members) : bool := match mget k m with Some _ => true | None => false end.

(** Which members a loop over the dict skips: [if attr_key == K: continue] tests the dict key, [if attr.name == K]
    the case-preserved name of the attribute (they differ for an attribute assigned as 'NAME'). *)
Inductive mfilter := FKeyIs (k : str) | FRealNameIs (k : str) | FNothing.
Definition skipped (f : mfilter) (ka : str * attr) : bool :=
  match f with
  | FKeyIs k => str_eqb (fst ka) k
  | FRealNameIs k => str_eqb (aname (snd ka)) k
  | FNothing => false
  end.
Definition records (f : mfilter) (m : members) : members := filter (fun ka => negb (skipped f ka)) m.

Record cntcfg := {
  cc_len : Z;               (* coefficient of len(elem) in the count written *)
  cc_has : Z;               (* coefficient of [cc_has_key in elem._members] (0 / 1) *)
  cc_has_key : str;
  cc_const : Z;             (* constant term *)
  cc_kept : Z;              (* coefficient of the number of members kept by [cc_kept_filter] (a counting comprehension) *)
  cc_kept_filter : mfilter;
  cc_write_filter : mfilter;      (* the loop that writes the attribute records *)
  cc_collect_filter : mfilter;    (* the loop that collects strings and referenced elements beforehand *)
  cc_name_key : str;              (* Element.name: self._members[KEY].val_string *)
  cc_name_default : str;          (* ... except KeyError: return DEFAULT *)
  cc_len_is_members : bool;       (* Element.__len__ is len(self._members) *)
}.

Definition count_written (c : cntcfg) (m : members) : Z :=
  (cc_len c * Z.of_nat (length m) + cc_has c * (if has_key (cc_has_key c) m then 1 else 0) + cc_const c +
   cc_kept c * Z.of_nat (length (records (cc_kept_filter c) m)))%Z.

(** Named conditions (each an instance obligation). *)
Definition filter_is_name_key (f : mfilter) : bool := match f with FKeyIs k => str_eqb k s_name | _ => false end.
(** the count is [len(elem) - ('name' in elem._members)] or the number of members whose key is not "name" *)
Definition count_expr_ok (c : cntcfg) : bool :=
  cc_len_is_members c &&
  (((cc_len c =? 1)%Z && (cc_has c =? -1)%Z && str_eqb (cc_has_key c) s_name && (cc_const c =? 0)%Z && (cc_kept c =? 0)%Z)
   || ((cc_len c =? 0)%Z && (cc_has c =? 0)%Z && (cc_const c =? 0)%Z && (cc_kept c =? 1)%Z && filter_is_name_key (cc_kept_filter c))).
Definition write_filter_ok (c : cntcfg) : bool := filter_is_name_key (cc_write_filter c).
Definition collect_filter_ok (c : cntcfg) : bool := filter_is_name_key (cc_collect_filter c).
Definition name_getter_ok (c : cntcfg) : bool := str_eqb (cc_name_key c) s_name && str_eqb (cc_name_default c) [].
Definition cnt_cfg_ok (c : cntcfg) : bool := count_expr_ok c && write_filter_ok c && collect_filter_ok c && name_getter_ok c.

Section Raw.
  Variable cenc : enc -> str -> bytes.
  Variable cfg : dmxcfg.
  Variable cc : cntcfg.

  (** Element.name (the string of a scalar string member; other member types are outside the model: [name_member_ok]) *)
  Definition rname (m : members) : str :=
    match mget (cc_name_key cc) m with
    | Some a => match adata a with VStr (Scalar s) => s | _ => cc_name_default cc end
    | None => cc_name_default cc
    end.

  (** The element as a loop with skip test [f] sees it. *)
  Definition view (f : mfilter) (r : relem) : elem :=
    {| etype := r_type r; ename := rname (r_members r); euuid := r_uuid r; eattrs := map snd (records f (r_members r)) |}.

  Definition put_relem_attrs (v : N) (tab : list str) (r : relem) : bytes :=
    put_int 4 (count_written cc (r_members r)) ++
    flat_map (put_attr cenc cfg v tab) (map snd (records (cc_write_filter cc) (r_members r))).

  (** export_binary after the header, on the real dicts: the string table comes from the collecting loop, the
      element table from type / Element.name / uuid, the attribute tables from the count expression and the writing loop. *)
  Definition export_raw (v : N) (rd : rdoc) : bytes :=
    let tab := strtab v (map (view (cc_collect_filter cc)) rd) in
    (if has_db v
     then put_int (db_count_w v) (Z.of_nat (length tab)) ++ flat_map (put_str cenc (enc_write cfg SiteTable)) tab
     else []) ++
    put_int 4 (Z.of_nat (length rd)) ++
    flat_map (put_elem_head cenc cfg v tab) (map (view (cc_collect_filter cc)) rd) ++
    flat_map (put_relem_attrs v tab) rd.

  (** The document of [Fmt/DmxBin.v] an element graph denotes: name = the "name" member or "", attributes = all other
      members in dict order. *)
  Definition abstract (r : relem) : elem := view (FKeyIs s_name) r.
End Raw.

Definition keys_nodup (m : members) : Prop := NoDup (map fst m).
Definition name_member_ok (m : members) : Prop :=
  match mget s_name m with Some a => exists s, adata a = VStr (Scalar s) | None => True end.

(** ** The public mapping API of Element as operations on the dict *)
Inductive mop :=
| OClear                                   (* elem.clear() *)
| ODel (name : str)                        (* del elem[name]  (KeyError: dict unchanged) *)
| OPop (name : str)                        (* elem.pop(name, default) *)
| OPopItem                                 (* elem.popitem()  (KeyError on an empty dict: unchanged) *)
| OSetName (s : str)                       (* elem.name = s *)
| OSet (name : str) (d : aval)             (* elem[name] = Attribute(name, ...) *)
| OSetDefault (name : str) (d : aval).     (* elem.setdefault(name, Attribute(name, ...)) *)

Fixpoint mset (k : str) (a : attr) (m : members) : members :=      (* dict assignment: an existing key keeps its place *)
  match m with
  | [] => [(k, a)]
  | (k', a') :: r => if str_eqb k k' then (k', a) :: r else (k', a') :: mset k a r
  end.
Fixpoint mdel (k : str) (m : members) : members :=
  match m with
  | [] => []
  | (k', a') :: r => if str_eqb k k' then r else (k', a') :: mdel k r
  end.

Section Hist.
  Variable fold : str -> str.          (* str.casefold *)

  Definition apply_op (m : members) (op : mop) : members :=
    match op with
    | OClear => []
    | ODel n | OPop n => mdel (fold n) m
    | OPopItem => removelast m
    | OSetName s =>
        match mget s_name m with
        | Some a => mset s_name {| aname := aname a; adata := VStr (Scalar s) |} m
        | None => m ++ [(s_name, {| aname := s_name; adata := VStr (Scalar s) |})]
        end
    | OSet n d => mset (fold n) {| aname := n; adata := d |} m
    | OSetDefault n d => if has_key (fold n) m then m else m ++ [(fold n, {| aname := n; adata := d |})]
    end.
  Definition init_members (name : str) : members := [(s_name, {| aname := s_name; adata := VStr (Scalar name) |})].
  Definition run_ops (ops : list mop) (m : members) : members := fold_left apply_op ops m.
End Hist.

(** ** Concrete configurations for the examples *)
Definition good_cnt : cntcfg := {|
  cc_len := 1; cc_has := -1; cc_has_key := s_name; cc_const := 0; cc_kept := 0; cc_kept_filter := FNothing;
  cc_write_filter := FKeyIs s_name; cc_collect_filter := FKeyIs s_name; cc_name_key := s_name; cc_name_default := [];
  cc_len_is_members := true |}.
(** [len(elem) - 1]: the class of seeded fault c14_3 *)
Definition minus_one_cnt : cntcfg := {|
  cc_len := 1; cc_has := 0; cc_has_key := s_name; cc_const := -1; cc_kept := 0; cc_kept_filter := FNothing;
  cc_write_filter := FKeyIs s_name; cc_collect_filter := FKeyIs s_name; cc_name_key := s_name; cc_name_default := [];
  cc_len_is_members := true |}.
(** the writing loop tests the attribute's case-preserved name (the defect repaired by round-1 commit ca6e52d) *)
Definition real_name_cnt : cntcfg := {|
  cc_len := 1; cc_has := -1; cc_has_key := s_name; cc_const := 0; cc_kept := 0; cc_kept_filter := FNothing;
  cc_write_filter := FRealNameIs s_name; cc_collect_filter := FKeyIs s_name; cc_name_key := s_name; cc_name_default := [];
  cc_len_is_members := true |}.
