(** What the two readers ([Element.parse_bin], [Element._parse_kv2_element], srctools/dmx.py) build, at the level of the
    element's dict of members (Fmt/DmxMembers.v): [Element(name, type, uuid)] starts with the single member keyed "name",
    and every attribute record read is stored by [elem._members[KEY] = Attribute(attr_name, ...)].  The mapping API
    ([elem[name]], [name in elem], [del elem[name]]) looks [name.casefold()] up, so an attribute can be found under its
    name only if KEY is [attr_name.casefold()].  Which expression KEY is, at each of the three sites, is read from the
    source by translate/c14_dmx.py ([parsecfg], Gen/DmxCodes_gen.v [gen_parse]).

    Executable definitions only; proofs are in DmxMembersParseProofs.v. *)
From Coq Require Import NArith ZArith List Bool.
From SV Require Import Fmt.DmxCodes Fmt.DmxBin Fmt.DmxMembers.
Import ListNotations.

Inductive keyfn := KFolded | KAsWritten.          (* attr_name.casefold()  /  attr_name *)
Definition key_of (fold : str -> str) (k : keyfn) (n : str) : str := match k with KFolded => fold n | KAsWritten => n end.

Record parsecfg := {
  pk_bin : keyfn;            (* parse_bin:            elem._members[KEY] = attr *)
  pk_kv2_attr : keyfn;       (* _parse_kv2_element:   elem._members[KEY] = attr            (typed attribute) *)
  pk_kv2_inline : keyfn;     (* _parse_kv2_element:   elem._members[KEY] = Attribute(...)  (inline element) *)
  pk_init_key : str;         (* Element.__init__: self._members = {KEY: Attribute(NAME, ValueType.STRING, name)} *)
  pk_init_name : str;
}.
Definition keyfn_folded (k : keyfn) : bool := match k with KFolded => true | KAsWritten => false end.
Definition parse_keys_ok (c : parsecfg) : bool := keyfn_folded (pk_bin c) && keyfn_folded (pk_kv2_attr c) && keyfn_folded (pk_kv2_inline c).
Definition init_member_ok (c : parsecfg) : bool := str_eqb (pk_init_key c) s_name && str_eqb (pk_init_name c) s_name.

Section Parse.
  Variable fold : str -> str.       (* str.casefold *)
  Variable k : keyfn.

  Definition store (m : members) (a : attr) : members := mset (key_of fold k (aname a)) a m.
  (** the dict of the element a reader builds from a document element: constructor, then one store per record *)
  Definition parsed_members (e : elem) : members := fold_left store (eattrs e) (init_members (ename e)).
  Definition parsed_relem (e : elem) : relem := {| r_type := etype e; r_uuid := euuid e; r_members := parsed_members e |}.

  (** elem[name] *)
  Definition lookup (m : members) (n : str) : option attr := mget (fold n) m.
  (** the invariant of the dict the mapping API relies on *)
  Definition keyed_by_fold (m : members) : Prop := Forall (fun ka => fst ka = fold (aname (snd ka))) m.
  Definition keyed_by_foldb (m : members) : bool := forallb (fun ka => str_eqb (fst ka) (fold (aname (snd ka)))) m.
End Parse.

(** what a document element must satisfy to come from a dict: folded attribute names pairwise distinct, none of them "name" *)
Definition elem_names_ok (fold : str -> str) (e : elem) : Prop :=
  NoDup (map (fun a => fold (aname a)) (eattrs e)) /\ Forall (fun a => fold (aname a) <> s_name) (eattrs e).

(** the dict the reader builds for the element a dict [m] denotes: the name member first, the others in their order *)
Definition canonical (cc : cntcfg) (m : members) : members :=
  (s_name, {| aname := s_name; adata := VStr (Scalar (rname cc m)) |}) :: records (FKeyIs s_name) m.

Definition good_parse : parsecfg := {| pk_bin := KFolded; pk_kv2_attr := KFolded; pk_kv2_inline := KFolded; pk_init_key := s_name; pk_init_name := s_name |}.
