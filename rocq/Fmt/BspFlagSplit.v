(** Helper properties that split one integer over several on-disk fields (StaticPropFlags.value_prim / value_sec:
    [value & 0xFF] in the flags byte, [value >> 8] in the 32-bit secondary field; the reader computes
    [prim | sec << 8]).  A part is (shift, optional mask): [(value >> shift) & mask].  [split_ok] is the boolean
    obligation over the parts read from the writer's helper properties and the shifts read from the reader. *)
From Coq Require Import List NArith Bool PeanoNat.
Import ListNotations.
Open Scope N_scope.

Definition fpart := (N * option N)%type.
Definition fpart_val (v : N) (p : fpart) : N :=
  match snd p with Some m => N.land (N.shiftr v (fst p)) m | None => N.shiftr v (fst p) end.

(** What the writer stores: one value per part.  What the reader rebuilds: the OR of the values moved to its shifts. *)
Definition split_write (v : N) (parts : list fpart) : list N := map (fpart_val v) parts.
Fixpoint split_read (vals : list N) (shifts : list N) : N :=
  match vals, shifts with
  | x :: vals', s :: shifts' => N.lor (N.shiftl x s) (split_read vals' shifts')
  | _, _ => 0
  end.

(** parts sorted by shift: each masked part covers exactly the bits up to the next part, the last part is unmasked *)
Fixpoint parts_from (s : N) (parts : list fpart) : bool :=
  match parts with
  | [] => false
  | [(s1, None)] => s1 =? s
  | (s1, Some m) :: (((s2, _) :: _) as rest) => (s1 =? s) && (s1 <? s2) && (m =? N.ones (s2 - s1)) && parts_from s2 rest
  | _ => false
  end.

Fixpoint shifts_eqb (a b : list N) : bool :=
  match a, b with [], [] => true | x :: a', y :: b' => (x =? y) && shifts_eqb a' b' | _, _ => false end.

Definition split_ok (parts : list fpart) (reader_shifts : list N) : bool :=
  parts_from 0 parts && shifts_eqb (map fst parts) reader_shifts.

(** * A boolean stored as one of two integer codes ([detail_type = 3 if prop.is_cross else 2], read back as
    [detail_type == 3]): code written for True, code written for False, code the reader compares with. *)
Definition bool_code_ok (c : N * N * N) : bool := let '(wt, wf, rc) := c in (wt =? rc) && negb (wf =? rc).
Definition bool_code_write (c : N * N * N) (b : bool) : N := let '(wt, wf, _) := c in if b then wt else wf.
Definition bool_code_read (c : N * N * N) (x : N) : bool := let '(_, _, rc) := c in x =? rc.
