(** De-duplicating index tables of the BSP lump writers, WITH their key functions.

    Every writer that turns object references into indexes does it through a table "key -> index":
    [binformat.find_or_insert(item_list, key_func)] (the table starts from the items already in the list; for a
    duplicated key the LAST index wins) or a hand-written dict ([texdata_ind] of [_lmp_write_texinfo]: look the key
    up, on a miss hand out the next index and append the record).  The item stored at the index is the FIRST item
    that had the key; every later item with an equal key is pointed at that record.  So the reader gets back the
    requested record only if the key determines the record.

    [dd_run] is that table for an arbitrary item type and key function (Bin/FindInsert.v is the instance where an
    item is identified with its key).  [keyspec] is what translate/c11_dedup.py reads from the source for every table:
    the key is the object's identity ([id], or the object itself for a class that hashes by identity), the whole value
    (a string, a tuple of numbers), or a list of attributes, each possibly under a transformation ([casefold]).
    [key_determines] is the boolean obligation.  Executable definitions only; proofs are in BspDedupProofs.v. *)
From Coq Require Import List String NArith Bool PeanoNat.
Import ListNotations.
Open Scope string_scope.
Open Scope list_scope.

Section Table.
  Variables (A K : Type) (key : A -> K) (keq : K -> K -> bool).

  (** A Python dict as an association list, newest binding first. *)
  Fixpoint dlookup (k : K) (d : list (K * nat)) : option nat :=
    match d with
    | [] => None
    | (k', i) :: r => if keq k k' then Some i else dlookup k r
    end.

  (** [{key_func(item): i for i, item in enumerate(item_list)}] *)
  Fixpoint dbuild (i : nat) (l : list A) (d : list (K * nat)) : list (K * nat) :=
    match l with
    | [] => d
    | x :: r => dbuild (S i) r ((key x, i) :: d)
    end.

  Definition dstate := (list A * list (K * nat))%type.
  Definition dd_init (l : list A) : dstate := (l, dbuild 0 l []).

  Definition dd_find (s : dstate) (x : A) : dstate * nat :=
    match dlookup (key x) (snd s) with
    | Some i => (s, i)
    | None => ((fst s ++ [x], (key x, List.length (fst s)) :: snd s), List.length (fst s))
    end.

  Fixpoint dd_run (s : dstate) (xs : list A) : dstate * list nat :=
    match xs with
    | [] => (s, [])
    | x :: r => let '(s1, i) := dd_find s x in let '(s2, is) := dd_run s1 r in (s2, i :: is)
    end.
End Table.
Arguments dlookup {K} keq k d.
Arguments dbuild {A K} key i l d.
Arguments dd_init {A K} key l.
Arguments dd_find {A K} key keq s x.
Arguments dd_run {A K} key keq s xs.

(** * Objects and key specifications *)
(** An object: its identity (address) and the values of its attributes (encoded as numbers). *)
Definition obj := (N * list (string * N))%type.

(** What a key function reads: (attribute, transformation); the transformation "" is none. *)
Inductive keyspec :=
| KIdentity                                   (* id(obj), or obj itself for a class with identity hash *)
| KValue                                      (* the item itself, compared by value (str, tuple of numbers) *)
| KFields (fs : list (string * string)).      (* attributes of the item, each under a named transformation *)

Inductive keyval :=
| VId (n : N)
| VRec (r : list (string * N))
| VProj (vs : list (option N)).

Fixpoint assoc_f (f : string) (r : list (string * N)) : option N :=
  match r with
  | [] => None
  | (g, v) :: t => if String.eqb f g then Some v else assoc_f f t
  end.

Definition key_sem (tr : string -> N -> N) (k : keyspec) (o : obj) : keyval :=
  match k with
  | KIdentity => VId (fst o)
  | KValue => VRec (snd o)
  | KFields fs => VProj (map (fun ft : string * string => option_map (tr (snd ft)) (assoc_f (fst ft) (snd o))) fs)
  end.

Definition on_eqb (a b : option N) : bool :=
  match a, b with Some x, Some y => N.eqb x y | None, None => true | _, _ => false end.
Fixpoint onl_eqb (a b : list (option N)) : bool :=
  match a, b with [], [] => true | x :: a', y :: b' => on_eqb x y && onl_eqb a' b' | _, _ => false end.
Fixpoint rec_eqb (a b : list (string * N)) : bool :=
  match a, b with
  | [], [] => true
  | (f, x) :: a', (g, y) :: b' => String.eqb f g && N.eqb x y && rec_eqb a' b'
  | _, _ => false
  end.
Definition keyval_eqb (a b : keyval) : bool :=
  match a, b with
  | VId x, VId y => N.eqb x y
  | VRec x, VRec y => rec_eqb x y
  | VProj x, VProj y => onl_eqb x y
  | _, _ => false
  end.

Fixpoint nodup_strs (l : list string) : bool :=
  match l with [] => true | x :: r => negb (existsb (String.eqb x) r) && nodup_strs r end.

(** The obligation: the key determines the whole record of a class with the attributes [fields].
    [admitted] = the transformations under which the values in use are pairwise distinct by a well-formedness rule of
    the lump (material names are case-insensitive: distinct after casefold). *)
Definition key_determines (admitted : list string) (fields : list string) (k : keyspec) : bool :=
  match k with
  | KIdentity => true
  | KValue => true
  | KFields fs =>
      nodup_strs fields &&
      forallb (fun f => existsb (fun ft : string * string =>
                                   String.eqb (fst ft) f && (String.eqb (snd ft) "" || existsb (String.eqb (snd ft)) admitted)) fs)
              fields
  end.

(** name of the table (function:table), admitted transformations, attributes of the item class, key *)
Definition dedup_table := (string * list string * list string * keyspec)%type.
Definition dedup_ok (t : dedup_table) : bool := let '(_, adm, fields, k) := t in key_determines adm fields k.
Definition dedup_named (n : string) (ts : list dedup_table) : option dedup_table :=
  find (fun t : dedup_table => let '(n', _, _, _) := t in String.eqb n n') ts.
Definition dedup_ok_named (ts : list dedup_table) (n : string) : bool :=
  match dedup_named n ts with Some t => dedup_ok t | None => false end.

(** What the reader sees through the index. *)
Definition read_back (tbl : list obj) (i : nat) : option (list (string * N)) := option_map snd (nth_error tbl i).
