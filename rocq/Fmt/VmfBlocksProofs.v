(** C06 — proofs about the block-level model (Fmt/VmfBlocks.v): the text a write program produces is lexed by the C01
    tokenizer model into exactly the token stream of the tree the writer was given, and parsed by the C01 parser
    model into exactly that tree. *)
From Coq Require Import NArith List Bool Lia.
From SV Require Import KV.KvBase KV.KvLex KV.KvParse KV.KvSym KV.KvLexProofs KV.KvParseProofs KV.KvRoundtrip.
From SV Require KV.KvSer.
From SV Require Import Fmt.VmfText Fmt.VmfTextProofs Fmt.VmfBlocks.
Import ListNotations.
Open Scope N_scope.

(** * Lexing judgement that forgets line numbers *)
Definition lexesL (E : escfg) (text : list N) (ts : list tok) : Prop :=
  forall l rest, exists l', lex_run E (norm l) (text ++ rest) = tcons ts (lex_run E (norm l') rest).

Lemma lexesL_of_lexes E text ts (g : N -> N) : (forall l, lexes E l text ts (g l)) -> lexesL E text ts.
Proof. intros H l rest. exists (g l). apply H. Qed.

Lemma lexesL_nil E : lexesL E [] [].
Proof. intros l rest. exists l. now rewrite tcons_nil. Qed.

Lemma lexesL_app E a ta b tb : lexesL E a ta -> lexesL E b tb -> lexesL E (a ++ b) (ta ++ tb).
Proof.
  intros Ha Hb l rest. destruct (Ha l (b ++ rest)) as [l1 H1]. destruct (Hb l1 rest) as [l2 H2].
  exists l2. rewrite <- app_assoc, H1, H2. apply tcons_tcons.
Qed.

Lemma lexesL_cast E text ts ts' : ts = ts' -> lexesL E text ts -> lexesL E text ts'.
Proof. now intros ->. Qed.

Lemma lexesL_all E text ts : lexesL E text ts -> lex_all E text = (ts, None).
Proof.
  intros H. destruct (H 1 []) as [l' Hl]. rewrite app_nil_r in Hl. unfold lex_all.
  change lex_init with (norm 1). rewrite Hl. cbn. now rewrite !app_nil_r.
Qed.

Lemma lexesL_ws E w : ws_only w = true -> lexesL E w [].
Proof. intros H. apply (lexesL_of_lexes E w [] (fun l => l)). intros l. now apply lexes_ws. Qed.
Lemma lexesL_lf E : lexesL E [KvBase.LF] [TNL].
Proof. apply (lexesL_of_lexes E _ _ (fun l => l + 1)). intros l. apply lexes_lf. Qed.
Lemma lexesL_bo E : lexesL E [123] [TBO].
Proof. apply (lexesL_of_lexes E _ _ (fun l => l)). intros l. apply lexes_bo. Qed.
Lemma lexesL_bc E : lexesL E [125] [TBC].
Proof. apply (lexesL_of_lexes E _ _ (fun l => l)). intros l. apply lexes_bc. Qed.

(** * The C06 string scanner [hs] is the C01 tokenizer inside a quoted string *)
Lemma lookup_same e t : VmfText.lookup e t = KvLex.lookup e t.
Proof. induction t as [|[s c] t IH]; [reflexivity|]. cbn. now rewrite IH. Qed.

Lemma hs_lex : forall n inp, (length inp <= n)%nat -> forall acc scr v rest l cr,
  VmfText.hs acc scr inp = Some (v, rest) ->
  exists l', lex_run vmf_E (mkL (MStr acc scr) l cr) inp = tcons [TStr v] (lex_run vmf_E (mkL MNorm l' cr) rest).
Proof.
  induction n as [|n IH]; intros inp Hlen acc scr v rest l cr H.
  - destruct inp; [discriminate|cbn in Hlen; lia].
  - destruct inp as [|c r]; [discriminate|]. cbn [VmfText.hs] in H. cbn [length] in Hlen.
    unfold VmfText.DQ, VmfText.CR, VmfText.LF, VmfText.BS in H.
    pose proof (lex_run_cons vmf_E (mkL (MStr acc scr) l cr) c r) as Hstep.
    unfold lstep in Hstep; cbn [l_mode l_line l_cr] in Hstep.
    unfold KvBase.DQ, KvBase.CR, KvBase.LF, KvBase.BS in Hstep.
    destruct (c =? 34) eqn:E1.
    { injection H as <- <-. exists l. exact (Hstep _ _ eq_refl). }
    destruct (c =? 13) eqn:E2.
    { destruct (IH r ltac:(lia) _ _ _ _ (l + 1) cr H) as [l' Hl']. exists l'.
      eapply eq_trans; [exact (Hstep _ _ eq_refl)|]; rewrite tcons_nil; exact Hl'. }
    destruct (c =? 10) eqn:E3.
    { destruct scr.
      - destruct (IH r ltac:(lia) _ _ _ _ l cr H) as [l' Hl']. exists l'. eapply eq_trans; [exact (Hstep _ _ eq_refl)|]; rewrite tcons_nil; exact Hl'.
      - destruct (IH r ltac:(lia) _ _ _ _ (l + 1) cr H) as [l' Hl']. exists l'. eapply eq_trans; [exact (Hstep _ _ eq_refl)|]; rewrite tcons_nil; exact Hl'. }
    destruct (c =? 92) eqn:E4.
    { destruct r as [|e r']; [discriminate|]. cbn [length] in Hlen.
      assert (Hfirst := Hstep _ _ eq_refl). rewrite tcons_nil in Hfirst.
      pose proof (lex_run_cons vmf_E (mkL (MEsc acc) l cr) e r') as Hs2.
      unfold lstep in Hs2; cbn [l_mode l_line l_cr] in Hs2. unfold KvBase.LF, KvBase.BS in Hs2.
      unfold VmfText.LF in H. rewrite lookup_same in H. change (e_table vmf_E) with VmfText.esc_table in Hs2.
      destruct (e =? 10) eqn:E5.
      - destruct (IH r' ltac:(lia) _ _ _ _ l cr H) as [l' Hl']. exists l'.
        eapply eq_trans; [exact Hfirst|]. eapply eq_trans; [exact (Hs2 _ _ eq_refl)|]. rewrite tcons_nil. exact Hl'.
      - destruct (KvLex.lookup e VmfText.esc_table) as [x|].
        + destruct (IH r' ltac:(lia) _ _ _ _ l cr H) as [l' Hl']. exists l'.
          eapply eq_trans; [exact Hfirst|]. eapply eq_trans; [exact (Hs2 _ _ eq_refl)|]. rewrite tcons_nil. exact Hl'.
        + destruct (IH r' ltac:(lia) _ _ _ _ l cr H) as [l' Hl']. exists l'.
          eapply eq_trans; [exact Hfirst|]. eapply eq_trans; [exact (Hs2 _ _ eq_refl)|]. rewrite tcons_nil. exact Hl'. }
    destruct (IH r ltac:(lia) _ _ _ _ l cr H) as [l' Hl']. exists l'. eapply eq_trans; [exact (Hstep _ _ eq_refl)|]; rewrite tcons_nil; exact Hl'.
Qed.

(** A quoted field whose body scans back to [v] is one STRING token [v]. *)
Lemma lexesL_quoted body v :
  (forall rest, scan_quoted (body ++ VmfText.DQ :: rest) = Some (v, rest)) ->
  lexesL vmf_E (VmfText.DQ :: body ++ [VmfText.DQ]) [TStr v].
Proof.
  intros H l rest. specialize (H rest). unfold scan_quoted in H.
  destruct (hs_lex _ (body ++ VmfText.DQ :: rest) (le_n _) [] false v rest l false H) as [l' Hl'].
  exists l'. cbn [app]. erewrite lex_run_cons by reflexivity. rewrite tcons_nil, <- app_assoc. cbn [app]. exact Hl'.
Qed.

(** * Bare block names *)
Ltac kill c H := repeat match goal with
  | |- context [c =? ?k] =>
      let E := fresh "E" in destruct (c =? k) eqn:E;
      [apply N.eqb_eq in E; subst c; vm_compute in H; discriminate|] end.

Lemma ident_not_disallowed c : ident_char c = true -> bare_disallowed c = false.
Proof. intros H. unfold bare_disallowed, KvLex.mem. cbn [existsb]. kill c H. reflexivity. Qed.

Lemma ident_norm_step c l : ident_char c = true -> norm_step l false c = SOk (mkL (MBare [c]) l false) [].
Proof.
  intros H. unfold norm_step. rewrite (ident_not_disallowed c H).
  unfold KvBase.CR, KvBase.LF, KvBase.SP, KvBase.TAB, KvBase.DQ. kill c H. reflexivity.
Qed.

Lemma bare_run : forall name acc l rest, forallb ident_char name = true ->
  lex_run vmf_E (mkL (MBare acc) l false) (name ++ KvBase.LF :: rest)
  = tcons [TStr (rev acc ++ name); TNL] (lex_run vmf_E (norm (l + 1)) rest).
Proof.
  induction name as [|c name IH]; intros acc l rest H.
  - cbn [app]. erewrite lex_run_cons by reflexivity. now rewrite app_nil_r.
  - cbn [forallb] in H. apply andb_true_iff in H as [Hc Hn]. cbn [app].
    erewrite lex_run_cons.
    2:{ unfold lstep; cbn [l_mode l_line l_cr]. rewrite (ident_not_disallowed c Hc). reflexivity. }
    rewrite tcons_nil, IH by exact Hn. cbn [rev]. now rewrite <- app_assoc.
Qed.

Lemma lexesL_bare name : name <> [] -> forallb ident_char name = true ->
  lexesL vmf_E (name ++ [KvBase.LF]) [TStr name; TNL].
Proof.
  intros Hne H l rest. exists (l + 1). destruct name as [|c name]; [congruence|].
  cbn [forallb] in H. apply andb_true_iff in H as [Hc Hn]. rewrite <- app_assoc. cbn [app].
  erewrite lex_run_cons by (apply ident_norm_step; exact Hc). rewrite tcons_nil.
  now rewrite bare_run by exact Hn.
Qed.

(** * Lines and blocks *)
Lemma ws_only_app a b : ws_only (a ++ b) = ws_only a && ws_only b.
Proof. apply forallb_app. Qed.
Lemma ws_only_tabs d : ws_only (tabs d) = true.
Proof. induction d; [reflexivity|]. cbn. exact IHd. Qed.
Lemma ws_only_indent ind i : ws_only ind = true -> ws_only (indent ind i) = true.
Proof.
  intros H. unfold indent. rewrite ws_only_app, ws_only_tabs, andb_true_r. now destruct (fst i).
Qed.

Lemma nums_plain (nums : list N) (f : N -> list N) segs :
  (forall i, In i nums -> plain (f i) = true) -> forallb (seg_num_in nums) segs = true -> num_fields_plain f segs.
Proof.
  intros Hf Hs x Hx. rewrite forallb_forall in Hs.
  assert (G : VmfText.mem x nums = true) by (destruct Hx as [Hx|Hx]; apply (Hs _ Hx)).
  unfold VmfText.mem in G. rewrite existsb_exists in G. destruct G as [y [Hy E]]. apply N.eqb_eq in E. subst. now apply Hf.
Qed.

Lemma kv_text_shape ind f key val :
  kv_text ind f key val
  = ind ++ (((VmfText.DQ :: render_field f key ++ [VmfText.DQ]) ++ [KvBase.SP] ++ (VmfText.DQ :: render_field f val ++ [VmfText.DQ])) ++ [KvBase.LF]).
Proof.
  unfold kv_text, render_kv. f_equal. cbn [app]. rewrite <- !app_assoc. cbn [app]. reflexivity.
Qed.

Lemma lexesL_kv_line (nums : list N) ind (f : N -> list N) key val :
  ws_only ind = true -> line_ok nums key val = true -> (forall i, In i nums -> plain (f i) = true) ->
  lexesL vmf_E (kv_text ind f key val) [TStr (value_field f key); TStr (value_field f val); TNL].
Proof.
  intros Hw Hl Hf. unfold line_ok in Hl.
  apply andb_true_iff in Hl as [Hl Hnv]. apply andb_true_iff in Hl as [Hl Hnk]. apply andb_true_iff in Hl as [Hk Hv].
  rewrite kv_text_shape.
  eapply lexesL_cast; cycle 1.
  { apply lexesL_app; [apply lexesL_ws; exact Hw|].
    apply lexesL_app; [|apply lexesL_lf].
    apply lexesL_app.
    - apply lexesL_quoted. intros rest. apply quoted_field_roundtrip; [exact Hk|]. now apply (nums_plain nums).
    - apply lexesL_app; [apply lexesL_ws; reflexivity|].
      apply lexesL_quoted. intros rest. apply quoted_field_roundtrip; [exact Hv|]. now apply (nums_plain nums). }
  reflexivity.
Qed.

Lemma plain_scan name : plain name = true -> forall rest, scan_quoted (name ++ VmfText.DQ :: rest) = Some (name, rest).
Proof.
  intros H rest. unfold scan_quoted. rewrite hs_plain by exact H. cbn [hs]. rewrite N.eqb_refl.
  now rewrite app_nil_r, rev_involutive.
Qed.

Lemma lexesL_name name q : name_ok name q = true -> lexesL vmf_E (name_text name q ++ [KvBase.LF]) [TStr name; TNL].
Proof.
  intros H. unfold name_ok, name_text in *. destruct q.
  - change [TStr name; TNL] with ([TStr name] ++ [TNL]). apply lexesL_app; [|apply lexesL_lf].
    apply lexesL_quoted. now apply plain_scan.
  - destruct name as [|c name]; [discriminate|]. apply lexesL_bare; [discriminate|exact H].
Qed.

Lemma open_text_shape ind name q :
  open_text ind name q = ind ++ ((name_text name q ++ [KvBase.LF]) ++ (ind ++ ([123] ++ [KvBase.LF]))).
Proof. unfold open_text. f_equal. now rewrite <- app_assoc. Qed.
Lemma close_text_shape ind : close_text ind = ind ++ ([125] ++ [KvBase.LF]).
Proof. reflexivity. Qed.

Lemma lexesL_block ind name q body ts :
  ws_only ind = true -> name_ok name q = true -> lexesL vmf_E body ts ->
  lexesL vmf_E (open_text ind name q ++ body ++ close_text ind) ([TStr name; TNL; TBO; TNL] ++ ts ++ [TBC; TNL]).
Proof.
  intros Hw Hn Hb. rewrite open_text_shape, close_text_shape.
  eapply lexesL_cast; cycle 1.
  { apply lexesL_app; [|apply lexesL_app; [exact Hb|]].
    - apply lexesL_app; [apply lexesL_ws; exact Hw|]. apply lexesL_app; [apply lexesL_name; exact Hn|].
      apply lexesL_app; [apply lexesL_ws; exact Hw|]. apply (lexesL_app _ [123] [TBO] [KvBase.LF] [TNL]); [apply lexesL_bo|apply lexesL_lf].
    - apply lexesL_app; [apply lexesL_ws; exact Hw|]. apply (lexesL_app _ [125] [TBC] [KvBase.LF] [TNL]); [apply lexesL_bc|apply lexesL_lf]. }
  reflexivity.
Qed.

(** * Every run of a checked program lexes to the token stream of its tree *)
Section Main.
  Variable nums : list N.
  Variable funs : N -> wprog.
  Hypothesis Hfuns : forall fn, prog_ok nums (funs fn) = true.

  Definition good (o : outp) : Prop :=
    match o with Some (t, ks) => lexesL vmf_E t (KvSer.toks_doc ks) | None => True end.

  Lemma toks_doc_app a b : KvSer.toks_doc (a ++ b) = KvSer.toks_doc a ++ KvSer.toks_doc b.
  Proof. apply flat_map_app. Qed.

  Lemma good_seq2 a b : good a -> good b -> good (seq2 a b).
  Proof.
    destruct a as [[t1 k1]|], b as [[t2 k2]|]; cbn [seq2 good]; try tauto.
    intros Ha Hb. rewrite toks_doc_app. now apply lexesL_app.
  Qed.

  Lemma good_each f l : (forall e, In e l -> good (f e)) -> good (each f l).
  Proof.
    induction l as [|e l IH]; intros H; cbn [each].
    - apply lexesL_nil.
    - apply good_seq2; [apply H; now left|apply IH; intros e' He'; apply H; now right].
  Qed.

  Lemma good_wrap ind name q body : ws_only ind = true -> name_ok name q = true -> good body -> good (wrap ind name q body).
  Proof.
    intros Hw Hn. destruct body as [[t cs]|]; cbn [wrap good]; [|tauto]. intros Hb.
    unfold KvSer.toks_doc. cbn [flat_map KvSer.toks]. rewrite app_nil_r.
    now apply lexesL_block.
  Qed.

  Lemma run_S f p ind e :
    run funs (S f) p ind e =
    match p with
    | PEnd => Some ([], [])
    | PKv i key val k =>
        seq2 (Some (kv_text (indent ind i) (d_fld e) key val,
                    [Leaf (value_field (d_fld e) key) (value_field (d_fld e) val)]))
             (run funs (S f) k ind e)
    | PBlock i name q body k => seq2 (wrap (indent ind i) name q (run funs (S f) body ind e)) (run funs (S f) k ind e)
    | POpt c i name body k =>
        seq2 (if d_cnd e c then wrap (indent ind i) name false (run funs (S f) body (ind ++ [KvBase.TAB]) e)
              else run funs (S f) body ind e)
             (run funs (S f) k ind e)
    | PIf c th el k => seq2 (if d_cnd e c then run funs (S f) th ind e else run funs (S f) el ind e) (run funs (S f) k ind e)
    | PFor slot body k => seq2 (each (run funs (S f) body ind) (d_sub e slot)) (run funs (S f) k ind e)
    | PCall slot fn i k => seq2 (each (run funs f (funs fn) (indent ind i)) (d_sub e slot)) (run funs (S f) k ind e)
    end.
  Proof. destruct p; reflexivity. Qed.

  Lemma env_sub e slot e' : env_ok nums e -> In e' (d_sub e slot) -> env_ok nums e'.
  Proof. intros He Hin. destruct He as [f c s Hf Hs]. cbn [d_sub] in Hin. eapply Hs; eassumption. Qed.
  Lemma env_fld e : env_ok nums e -> forall i, In i nums -> plain (d_fld e i) = true.
  Proof. intros He. now destruct He. Qed.

  Lemma run_good : forall fuel p ind e,
    prog_ok nums p = true -> ws_only ind = true -> env_ok nums e -> good (run funs fuel p ind e).
  Proof.
    induction fuel as [|f IHf]; [intros; exact I|].
    induction p as [|i key val k IHk|i name q body IHb k IHk|c i name body IHb k IHk|c th IHt el IHe k IHk
                    |slot body IHb k IHk|slot fn i k IHk];
      intros ind e Hp Hw He; rewrite run_S; cbn [prog_ok] in Hp.
    - apply lexesL_nil.
    - apply andb_true_iff in Hp as [Hl Hk]. apply good_seq2; [|now apply IHk].
      cbn [good]. unfold KvSer.toks_doc. cbn [flat_map KvSer.toks app].
      apply (lexesL_kv_line nums); [now apply ws_only_indent|exact Hl|now apply env_fld].
    - apply andb_true_iff in Hp as [Hp Hk]. apply andb_true_iff in Hp as [Hn Hb].
      apply good_seq2; [|now apply IHk]. apply good_wrap; [now apply ws_only_indent|exact Hn|now apply IHb].
    - apply andb_true_iff in Hp as [Hp Hk]. apply andb_true_iff in Hp as [Hn Hb].
      apply good_seq2; [|now apply IHk]. destruct (d_cnd e c).
      + apply good_wrap; [now apply ws_only_indent|exact Hn|].
        apply IHb; [exact Hb| |exact He]. rewrite ws_only_app, Hw. reflexivity.
      + now apply IHb.
    - apply andb_true_iff in Hp as [Hp Hk]. apply andb_true_iff in Hp as [Ht Hel].
      apply good_seq2; [|now apply IHk]. destruct (d_cnd e c); [now apply IHt|now apply IHe].
    - apply andb_true_iff in Hp as [Hb Hk]. apply good_seq2; [|now apply IHk].
      apply good_each. intros e' He'. apply IHb; [exact Hb|exact Hw|]. eapply env_sub; eassumption.
    - apply good_seq2; [|now apply IHk].
      apply good_each. intros e' He'. apply IHf; [apply Hfuns|now apply ws_only_indent|]. eapply env_sub; eassumption.
  Qed.

  (** The text parses (C01 tokenizer + parser models, for every parser configuration [P] accepted by C01's [pcfg_ok])
      to exactly the tree the writer was given. *)
  Theorem program_text_parses (P : parsecfg) fuel p e text kvs flag_on :
    pcfg_ok P = true -> prog_ok nums p = true -> env_ok nums e ->
    run funs fuel p [] e = Some (text, kvs) -> doc_names_ok kvs = true ->
    parse_kv P vmf_E flag_on text = POk kvs.
  Proof.
    intros HP Hp He Hr Hn. assert (G : good (Some (text, kvs))) by (rewrite <- Hr; now apply run_good). cbn [good] in G.
    unfold parse_kv, parse_kv_opts. rewrite (lexesL_all _ _ _ G).
    apply parse_toks_doc_opts; [reflexivity|]. apply doc_ok_of; [exact HP|exact Hn|reflexivity].
  Qed.

End Main.

(** table-driven instance *)
Lemma table_funs_ok nums tbl : table_ok nums tbl = true -> forall fn, prog_ok nums (fun_lookup tbl fn) = true.
Proof.
  intros H fn. induction tbl as [|[n p] tbl IH]; [reflexivity|].
  cbn [table_ok forallb snd] in H. apply andb_true_iff in H as [Hp Ht]. cbn [fun_lookup].
  destruct (n =? fn); [exact Hp|now apply IH].
Qed.

Theorem table_text_parses nums tbl (P : parsecfg) : table_ok nums tbl = true -> pcfg_ok P = true ->
  forall fuel fn e text kvs flag_on, env_ok nums e ->
  run (fun_lookup tbl) fuel (fun_lookup tbl fn) [] e = Some (text, kvs) -> doc_names_ok kvs = true ->
  parse_kv P vmf_E flag_on text = POk kvs.
Proof.
  intros Ht HP fuel fn e text kvs flag_on He Hr Hn.
  eapply (program_text_parses nums (fun_lookup tbl)); try eassumption; now apply table_funs_ok.
Qed.

(** The condition on the classes is necessary: a line whose value is a raw string does not parse back. *)
Definition raw_prog : wprog := PKv (false, 0%nat) [TLit [109]] [TIp RawStr 0] PEnd.
Theorem raw_line_refuted :
  exists e, forall fuel text kvs, run (fun _ => PEnd) (S fuel) raw_prog [] e = Some (text, kvs) ->
    parse_kv ref_pcfg vmf_E (fun _ => false) text <> POk kvs.
Proof.
  exists (DEnv (fun _ => [34]) (fun _ => false) (fun _ => [])). intros fuel text kvs H.
  rewrite run_S in H. cbn in H. injection H as <- <-. vm_compute. discriminate.
Qed.

(** * Non-vacuity: a hidden entity with an id, two arbitrary keyvalues (quotes, backslash, LF in the value) and a
    connections block whose line comes from a called method; the run terminates, the hypotheses hold and the parsed
    tree is the expected one. *)
Definition ex_out_prog : wprog :=
  PKv (true, 0%nat) [TIp Esc 3] [TIp Esc 4; TIp Sep 5; TIp Esc 6; TIp Sep 5; TIp EscML 7; TIp Sep 5; TIp Num 8; TIp Sep 5; TIp Num 9] PEnd.
Definition ex_ent_prog : wprog :=
  POpt 0 (true, 0%nat) [104;105;100;100;101;110]
    (PBlock (true, 0%nat) [101;110;116;105;116;121] false
       (PKv (true, 1%nat) [TLit [105;100]] [TIp Num 0]
          (PFor 0 (PKv (true, 1%nat) [TIp Esc 1] [TIp Esc 2] PEnd)
             (PIf 1 (PBlock (true, 1%nat) [99;111;110;110;101;99;116;105;111;110;115] false (PCall 1 1 (true, 2%nat) PEnd) PEnd) PEnd PEnd)))
       PEnd)
    PEnd.
Definition ex_funs (fn : N) : wprog := if fn =? 1 then ex_out_prog else ex_ent_prog.
Definition ex_nums : list N := [0; 5; 8; 9].
Definition ex_leaf (f : N -> list N) : denv := DEnv f (fun _ => false) (fun _ => []).
Definition ex_env : denv :=
  DEnv (fun i => if i =? 0 then [52; 50] else [])
       (fun _ => true)
       (fun s => if s =? 0 then [ex_leaf (fun i => if i =? 1 then [97; 34; 98] else [34; 92; 10; 13; 120]);
                                  ex_leaf (fun i => if i =? 1 then [107] else [])]
                 else [ex_leaf (fun i => match i with 3 => [79; 110] | 4 => [116; 34] | 5 => [27] | 6 => [70]
                                                  | 7 => [10; 34] | 8 => [48; 46; 53] | 9 => [45; 49] | _ => [] end)]).
Example block_program_example :
  prog_ok ex_nums ex_ent_prog = true /\ prog_ok ex_nums ex_out_prog = true /\
  exists text kvs,
    run ex_funs 3 ex_ent_prog [] ex_env = Some (text, kvs) /\ doc_names_ok kvs = true /\
    parse_kv ref_pcfg vmf_E (fun _ => false) text = POk kvs /\
    kvs = [Block [104;105;100;100;101;110]
            [Block [101;110;116;105;116;121]
               [Leaf [105;100] [52;50]; Leaf [97;34;98] [34;92;10;13;120]; Leaf [107] [];
                Block [99;111;110;110;101;99;116;105;111;110;115]
                  [Leaf [79;110] [116;34;27;70;27;10;34;27;48;46;53;27;45;49]]]]].
Proof. split; [reflexivity|]. split; [reflexivity|]. eexists. eexists. vm_compute. repeat split. Qed.
