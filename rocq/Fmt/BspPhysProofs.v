(** Round trip of the PHYSCOLLIDE lump (model in BspPhys.v), generic in the configuration read from bsp.py. *)
From Coq Require Import NArith ZArith List Bool PeanoNat Lia.
From SV Require Import Bin.LE Bin.Struct Bin.StructProofs Fmt.BspPhys.
Import ListNotations.
Local Open Scope nat_scope.

Lemma take_app : forall (a b : list N) n, List.length a = n -> take n (a ++ b) = Some (a, b).
Proof.
  intros a b n H. unfold take. rewrite app_length.
  assert (E : (List.length a + List.length b <? n) = false) by (apply Nat.ltb_ge; lia). rewrite E.
  rewrite <- H. rewrite firstn_app, firstn_all, Nat.sub_diag. cbn [firstn]. rewrite app_nil_r.
  rewrite skipn_app, skipn_all, Nat.sub_diag. reflexivity.
Qed.

Lemma bread_app : forall (a b : list N), bread (Z.of_nat (List.length a)) (a ++ b) = (a, b).
Proof.
  intros a b. unfold bread. assert (E : (Z.of_nat (List.length a) <? 0)%Z = false) by (apply Z.ltb_ge; lia). rewrite E.
  rewrite Nat2Z.id. rewrite firstn_app, firstn_all, Nat.sub_diag. cbn [firstn]. rewrite app_nil_r.
  rewrite skipn_app, skipn_all, Nat.sub_diag. reflexivity.
Qed.

Lemma hlabel_eqb_eq : forall a b, hlabel_eqb a b = true <-> a = b.
Proof. intros [] []; cbn; split; intro H; try reflexivity; try discriminate. Qed.

Lemma hget_map : forall (f : hlabel -> Z) order l, has l order = true -> hget order (map (fun x => VInt (f x)) order) l = f l.
Proof.
  intros f order l. unfold hget. induction order as [|x r IH]; intro H; [discriminate|].
  cbn [has existsb] in H. cbn [hpos]. destruct (hlabel_eqb l x) eqn:E.
  - apply hlabel_eqb_eq in E. subst x. reflexivity.
  - cbn [orb] in H. cbn [map nth]. apply IH. exact H.
Qed.

Lemma hl_eqb_eq : forall a b, hl_eqb a b = true -> a = b.
Proof.
  induction a as [|x a IH]; intros [|y b] H; try discriminate; [reflexivity|].
  cbn [hl_eqb] in H. apply andb_prop in H. destruct H as [H1 H2]. apply hlabel_eqb_eq in H1. subst y. f_equal. apply IH. exact H2.
Qed.

Lemma pack_ints : forall (zs : list Z), List.length zs = 4 -> forallb i32_ok zs = true ->
  exists bs, pack hdr_fmt (map VInt zs) = Some bs /\ List.length bs = 16 /\ unpack hdr_fmt bs = Some (map VInt zs).
Proof.
  intros zs Hl Hr. destruct zs as [|a [|b [|c [|d [|e r]]]]]; try discriminate.
  cbn [forallb] in Hr. repeat (apply andb_prop in Hr; destruct Hr as [? Hr]).
  destruct (unpack_pack hdr_fmt (map VInt [a; b; c; d])) as (bs & Hp & Hu); [reflexivity| |].
  - cbn [map fits hdr_fmt i32 fits1]. unfold i32_ok in *. repeat match goal with H : in_range _ _ _ = true |- _ => rewrite H; clear H end. reflexivity.
  - exists bs. split; [exact Hp|]. split; [|exact Hu]. apply pack_length in Hp. exact Hp.
Qed.

Lemma pack_len : forall z, i32_ok z = true ->
  exists bs, pack len_fmt [VInt z] = Some bs /\ List.length bs = 4 /\ unpack len_fmt bs = Some [VInt z].
Proof.
  intros z H. destruct (unpack_pack len_fmt [VInt z]) as (bs & Hp & Hu); [reflexivity| |].
  - cbn [fits len_fmt i32 fits1]. unfold i32_ok in H. rewrite H. reflexivity.
  - exists bs. split; [exact Hp|]. split; [|exact Hu]. apply pack_length in Hp. exact Hp.
Qed.

Lemma solids_roundtrip : forall ss, forallb (fun s => i32_ok (Z.of_nat (List.length s))) ss = true ->
  exists bs, write_solids ss = Some bs /\ forall rest, read_solids (List.length ss) (bs ++ rest) = Some (ss, rest).
Proof.
  induction ss as [|s r IH]; intro H.
  - exists []. split; [reflexivity|]. intros rest. reflexivity.
  - cbn [forallb] in H. apply andb_prop in H. destruct H as [Hs Hr]. destruct (IH Hr) as (br & Hw & Hrd).
    destruct (pack_len _ Hs) as (hb & Hp & Hl & Hu).
    exists ((hb ++ s) ++ br). split.
    + cbn [write_solids]. rewrite Hp, Hw. reflexivity.
    + intros rest. cbn [List.length read_solids]. rewrite <- !app_assoc. rewrite (take_app hb _ 4 Hl). rewrite Hu.
      rewrite bread_app. rewrite Hrd. reflexivity.
Qed.

Lemma rstrip0_snoc0 : forall l, last l 1%N <> 0%N -> rstrip0 (l ++ [0%N]) = l.
Proof.
  intros l H. change [0%N] with (repeat 0%N 1). rewrite rstrip0_app_zeros. apply rstrip0_id. exact H.
Qed.

Section Roundtrip.
Variables (order : list hlabel) (sent : Z).
Hypothesis Hlen : List.length order = 4.
Hypothesis Hi : has HIndex order = true.
Hypothesis Hk : has HKvLen order = true.
Hypothesis Hc : has HCount order = true.
Hypothesis Hsent : i32_ok sent = true.

Lemma sentinel_reads : exists bs, sentinel_hdr order sent = Some bs /\ forall fuel rest, read_blocks (S fuel) order sent true (bs ++ rest) = Some [].
Proof.
  unfold sentinel_hdr. set (f := fun l => match l with HIndex => sent | _ => 0%Z end).
  destruct (pack_ints (map f order)) as (bs & Hp & Hl & Hu).
  - rewrite map_length. exact Hlen.
  - rewrite forallb_forall. intros z Hz. apply in_map_iff in Hz. destruct Hz as (l & <- & _). destruct l; cbn; try exact Hsent; reflexivity.
  - rewrite map_map in Hp, Hu. exists bs. split; [exact Hp|]. intros fuel rest. cbn [read_blocks]. rewrite (take_app bs rest 16 Hl). rewrite Hu.
    rewrite (hget_map f order HIndex Hi). cbn [f]. rewrite Z.eqb_refl. reflexivity.
Qed.

Theorem phys_roundtrip_ordered : forall bl, forallb (block_wf sent) bl = true ->
  exists bs, write_blocks order sent bl = Some bs /\ read_blocks (S (List.length bl)) order sent true bs = Some bl.
Proof.
  induction bl as [|b r IH]; intro H.
  - destruct sentinel_reads as (bs & Hw & Hr). exists bs. split; [exact Hw|]. specialize (Hr 0 []). rewrite app_nil_r in Hr. exact Hr.
  - cbn [forallb] in H. apply andb_prop in H. destruct H as [Hb Hrest]. destruct (IH Hrest) as (br & Hwr & Hrr).
    unfold block_wf in Hb. repeat (apply andb_prop in Hb; destruct Hb as [Hb ?]).
    destruct (pack_ints (map (hval b) order)) as (hb & Hp & Hl & Hu).
    { rewrite map_length. exact Hlen. }
    { rewrite forallb_forall. intros z Hz. apply in_map_iff in Hz. destruct Hz as (l & <- & _). destruct l; cbn [hval]; assumption. }
    rewrite map_map in Hp, Hu.
    destruct (solids_roundtrip (pb_solids b)) as (sb & Hws & Hrs); [assumption|].
    exists (((hb ++ sb) ++ (pb_kvs b ++ [0%N])) ++ br). split.
    + cbn [write_blocks]. unfold write_block. rewrite Hp, Hws, Hwr. reflexivity.
    + cbn [List.length]. remember (S (List.length r)) as fuel. cbn [read_blocks]. rewrite <- !app_assoc. rewrite (take_app hb _ 16 Hl). rewrite Hu.
      rewrite (hget_map (hval b) order HIndex Hi), (hget_map (hval b) order HCount Hc), (hget_map (hval b) order HKvLen Hk).
      cbn [hval]. rewrite Nat2Z.id.
      match goal with H : negb (pb_index b =? sent)%Z = true |- _ => apply negb_true_iff in H; rewrite H end.
      rewrite Hrs.
      replace (Z.of_nat (S (List.length (pb_kvs b)))) with (Z.of_nat (List.length (pb_kvs b ++ [0%N]))) by (rewrite app_length; cbn [List.length]; f_equal; lia).
      rewrite app_assoc. rewrite bread_app. subst fuel. rewrite Hrr.
      rewrite rstrip0_snoc0.
      * destruct b; reflexivity.
      * match goal with H : negb (last (pb_kvs b) 1 =? 0)%N = true |- _ => apply negb_true_iff in H; apply N.eqb_neq in H; exact H end.
Qed.
End Roundtrip.

(** Generic over the configuration read from the source. *)
Theorem phys_roundtrip : forall wo ro ws rs wseg rseg term strip, phys_cfg_ok (wo, ro, ws, rs, wseg, rseg, term, strip) = true ->
  forall bl, forallb (block_wf ws) bl = true ->
  exists bs, write_blocks wo ws bl = Some bs /\ read_blocks (S (List.length bl)) ro rs strip bs = Some bl.
Proof.
  intros wo ro ws rs wseg rseg term strip H bl Hbl. unfold phys_cfg_ok in H.
  repeat (apply andb_prop in H; destruct H as [H ?]).
  apply hl_eqb_eq in H. subst ro.
  match goal with E : (ws =? rs)%Z = true |- _ => apply Z.eqb_eq in E; subst rs end.
  match goal with E : strip = true |- _ => subst strip end.
  match goal with E : Nat.eqb _ 4 = true |- _ => apply Nat.eqb_eq in E end.
  apply phys_roundtrip_ordered; assumption.
Qed.

(** Nearby wrong shapes: the reader takes the count where the writer put the text length. *)
Example phys_block : pblock := {| pb_index := 1%Z; pb_solids := [[7%N; 8%N]]; pb_kvs := [65%N] |}.
Theorem phys_swapped_header_refuted :
  phys_cfg_ok ([HIndex; HSize; HKvLen; HCount], [HIndex; HSize; HCount; HKvLen], (-1)%Z, (-1)%Z, [SSolids; SKvs], [SSolids; SKvs], true, true) = false /\
  match write_blocks [HIndex; HSize; HKvLen; HCount] (-1)%Z [phys_block] with
  | Some bs => read_blocks 2 [HIndex; HSize; HCount; HKvLen] (-1)%Z true bs <> Some [phys_block]
  | None => False
  end /\
  (* and the right configuration on the same block *)
  phys_cfg_ok ([HIndex; HSize; HKvLen; HCount], [HIndex; HSize; HKvLen; HCount], (-1)%Z, (-1)%Z, [SSolids; SKvs], [SSolids; SKvs], true, true) = true /\
  forallb (block_wf (-1)%Z) [phys_block] = true.
Proof. split; [vm_compute; reflexivity|]. split; [vm_compute; discriminate|]. split; vm_compute; reflexivity. Qed.
