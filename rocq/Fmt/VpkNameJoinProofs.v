(** Proofs about the name helpers as read from the source (Fmt/VpkNameJoin.v). *)
From Coq Require Import List NArith Bool Lia.
From SV Require Import Fmt.VpkDir SM.Vpk Fmt.VpkName Fmt.VpkNameSplit Fmt.VpkNameJoin.
Import ListNotations.
Open Scope N_scope.

(** ---- an accepted table is [join_parts] ---- *)
Definition jatom_val (k : key) (a : jatom) : bytes :=
  let '(e, d, n) := k in match a with APath => d | AName => n | AExt => e | AByte b => [b] end.
Definition aeval (k : key) (l : list jatom) : bytes := flat_map (jatom_val k) l.

Lemma jatoms_eqb_eq a : forall b, jatoms_eqb a b = true -> a = b.
Proof.
  induction a as [|x a IH]; intros [|y b] H; try discriminate; [reflexivity|].
  cbn in H. apply andb_true_iff in H. destruct H as [H1 H2]. f_equal; [|now apply IH].
  destruct x, y; try discriminate; try reflexivity. cbn in H1. apply N.eqb_eq in H1. now subst.
Qed.

Lemma flat_map_bytes k b : flat_map (jatom_val k) (map AByte b) = b.
Proof. destruct k as [[e d] n]. induction b as [|x b IH]; [reflexivity|]. cbn. now rewrite IH. Qed.

Lemma aeval_jatoms e d n ps :
  aeval (e, d, n) (flat_map (jatoms (jnil d) (jnil n) (jnil e)) ps) = jeval (e, d, n) ps.
Proof.
  unfold aeval, jeval. induction ps as [|p ps IH]; [reflexivity|].
  cbn [flat_map]. rewrite flat_map_app, IH. f_equal.
  destruct p; cbn [jatoms jpiece_val].
  - destruct d; reflexivity || (cbn; now rewrite app_nil_r).
  - destruct n; reflexivity || (cbn; now rewrite app_nil_r).
  - destruct e; reflexivity || (cbn; now rewrite app_nil_r).
  - apply (flat_map_bytes (e, d, n)).
Qed.

Lemma aeval_want e d n : aeval (e, d, n) (want_atoms (jnil d) (jnil n) (jnil e)) = join_parts (e, d, n).
Proof.
  unfold aeval, want_atoms, join_parts.
  destruct d as [|d0 d'], n as [|n0 n'], e as [|e0 e']; cbn [jnil flat_map app jatom_val]; rewrite ?app_nil_r; try reflexivity;
    repeat (rewrite <- ?app_assoc; cbn [app]); reflexivity.
Qed.

Lemma beqb_true a b : Bool.eqb a b = true -> a = b.
Proof. destruct a, b; cbn; congruence. Qed.

(** Every table accepted by [join_table_ok] is [join_parts] of the hand model, on every key. *)
Theorem join_table_ok_is_join_parts tb : join_table_ok tb = true -> forall k, join_k tb k = Some (join_parts k).
Proof.
  intros H [[e d] n]. unfold join_table_ok in H. apply andb_true_iff in H. destruct H as [Hrows Hcov].
  unfold join_k.
  destruct (find (jrow_matches (e, d, n)) tb) as [r|] eqn:Hf.
  - apply find_some in Hf. destruct Hf as [Hin Hm].
    rewrite forallb_forall in Hrows. specialize (Hrows r Hin).
    unfold jrow_matches in Hm. apply andb_true_iff in Hm. destruct Hm as [Hm He]. apply andb_true_iff in Hm. destruct Hm as [Hd Hn].
    apply beqb_true in Hd, Hn, He. unfold jrow_ok in Hrows. rewrite Hd, Hn, He in Hrows.
    apply jatoms_eqb_eq in Hrows. f_equal. rewrite <- aeval_jatoms, Hrows. apply aeval_want.
  - exfalso. rewrite forallb_forall in Hcov.
    assert (Hs : In (jnil d, jnil n, jnil e) all_jscen).
    { destruct d, n, e; cbn; tauto. }
    specialize (Hcov _ Hs). cbn beta iota in Hcov. apply existsb_exists in Hcov. destruct Hcov as [r [Hin Hr]].
    apply (find_none _ _ Hf) in Hin. unfold jrow_matches in Hin. rewrite Hr in Hin. discriminate.
Qed.

Lemma join_tables_computed :
  join_table_ok join_table_pinned = true /\ join_table_ok join_table_c13_5 = false /\ join_table_ok [] = false
  /\ join_k join_table_c13_5 ([116], [97], []) = Some [97; 46; 116]
  /\ join_parts ([116], [97], []) = [97; 47; 46; 116]
  /\ file_parts posix_normpath (NStr [97; 46; 116]) = ([116], [], [97]).
Proof. vm_compute. repeat split; reflexivity. Qed.

(** ---- an accepted description of _get_file_parts is [file_parts_k] ---- *)
Theorem gparts_ok_is_file_parts g : gparts_ok g = true -> forall normpath k f,
  file_parts_g normpath k g f = file_parts_k normpath k f.
Proof.
  unfold gparts_ok. destruct (gparts_eq_dec g gparts_pinned) as [->|]; [|discriminate].
  intros _ normpath k f. unfold file_parts_g, file_parts_k. destruct f as [s|d x|d n e]; cbn [gparts_pinned gp_str gp_pair gp_triple gp_split gp_chain].
  - cbn [psrc_val]. destruct (split_path s) as [h t]. cbn [fst snd]. destruct (split_ext_k k t []). reflexivity.
  - cbn [psrc_val form_elems]. change (nth (N.to_nat 0) [d; x] []) with d. change (nth (N.to_nat 1) [d; x] []) with x.
    destruct (split_ext_k k x []). reflexivity.
  - cbn [psrc_val form_elems]. change (nth (N.to_nat 0) [d; n; e] []) with d. change (nth (N.to_nat 1) [d; n; e] []) with n.
    change (nth (N.to_nat 2) [d; n; e] []) with e. destruct (split_ext_k k n e). reflexivity.
Qed.

Lemma gparts_computed :
  gparts_ok gparts_pinned = true /\ gparts_ok gparts_triple_ext_dropped = false
  /\ file_parts_g posix_normpath (SplitLast 46) gparts_triple_ext_dropped (NTriple [97] [98] [116]) = ([], [97], [98]).
Proof. vm_compute. repeat split; reflexivity. Qed.

(** ---- string lemmas ---- *)
Lemma rsplit1_none c s : jhas c s = false -> rsplit1 c s = None.
Proof.
  induction s as [|x s IH]; [reflexivity|]. cbn. intros H. apply orb_false_iff in H. destruct H as [H1 H2].
  rewrite (IH H2), H1. reflexivity.
Qed.

Lemma rsplit1_app c a b : jhas c b = false -> rsplit1 c (a ++ c :: b) = Some (a, b).
Proof.
  intros H. induction a as [|x a IH]; cbn.
  - rewrite (rsplit1_none _ _ H), N.eqb_refl. reflexivity.
  - rewrite IH. reflexivity.
Qed.

Lemma rsplit1_spec c s : forall a b, rsplit1 c s = Some (a, b) -> s = a ++ c :: b.
Proof.
  induction s as [|x s IH]; intros a b H; [discriminate|]. cbn in H.
  destruct (rsplit1 c s) as [[a' b']|].
  - inversion H; subst. cbn. f_equal. now apply IH.
  - destruct (x =? c) eqn:E; [|discriminate]. apply N.eqb_eq in E. inversion H; subst. reflexivity.
Qed.

Lemma rstrip_snoc c p : rstrip c (p ++ [c]) = rstrip c p.
Proof.
  induction p as [|x p IH]; cbn.
  - now rewrite N.eqb_refl.
  - now rewrite IH.
Qed.

Lemma rstrip_all c p : forallb (fun x => x =? c) p = true -> rstrip c p = [].
Proof.
  induction p as [|x p IH]; [reflexivity|]. cbn. intros H. apply andb_true_iff in H. destruct H as [H1 H2].
  rewrite (IH H2), H1. reflexivity.
Qed.

Lemma rstrip_idem c p : rstrip c (rstrip c p) = rstrip c p.
Proof.
  induction p as [|x p IH]; [reflexivity|]. cbn.
  destruct (rstrip c p) as [|y r] eqn:E.
  - destruct (x =? c) eqn:Ex; cbn; [reflexivity|]. now rewrite Ex.
  - cbn. cbn in IH. rewrite IH. reflexivity.
Qed.

Lemma dot_empty_fix q : rstrip 47 q = q -> rstrip 47 (match q with [46] => [] | _ => q end) = match q with [46] => [] | _ => q end.
Proof.
  intros Hq. destruct q as [|a [|b q']]; [exact Hq| |].
  - destruct a as [|p]; [exact Hq|].
    do 6 (try (destruct p as [p|p|]; try exact Hq)); reflexivity.
  - destruct a as [|p]; [exact Hq|].
    do 6 (try (destruct p as [p|p|]; try exact Hq)).
Qed.

Lemma norm_dir_fix_rstrip normpath d : norm_dir normpath d = d -> rstrip 47 d = d.
Proof. unfold norm_dir. intros H. rewrite <- H. apply dot_empty_fix, rstrip_idem. Qed.

Lemma split_path_noslash t : jhas 47 t = false -> split_path t = ([], t).
Proof. intros H. unfold split_path. now rewrite (rsplit1_none _ _ H). Qed.

Lemma split_path_join d t : d <> [] -> rstrip 47 d = d -> jhas 47 t = false -> split_path (d ++ 47 :: t) = (d, t).
Proof.
  intros Hd Hr Ht. unfold split_path. rewrite (rsplit1_app _ _ _ Ht).
  destruct (forallb (fun x => x =? 47) (d ++ [47])) eqn:E.
  - rewrite forallb_app in E. apply andb_true_iff in E. destruct E as [E _].
    apply rstrip_all in E. rewrite Hr in E. contradiction.
  - now rewrite rstrip_snoc, Hr.
Qed.

Lemma jhas_app c a b : jhas c (a ++ b) = jhas c a || jhas c b.
Proof. unfold jhas. apply existsb_app. Qed.

(** ---- joining inverts splitting ---- *)

(** The listed name of a listable key resolves back to the key: for every os.path.normpath. *)
Theorem parts_of_join normpath k : key_listable normpath k ->
  file_parts normpath (NStr (join_parts k)) = k.
Proof.
  destruct k as [[e d] n]. intros (Hd & Hn & He & Hed & Hnd).
  assert (Ht : jhas 47 (n ++ match e with [] => [] | _ => [46] end ++ e) = false).
  { rewrite jhas_app, Hn. destruct e as [|e0 e']; [reflexivity|]. cbn in He |- *. exact He. }
  assert (Hsp : split_path (join_parts (e, d, n)) = (d, n ++ match e with [] => [] | _ => [46] end ++ e)).
  { unfold join_parts. destruct d as [|d0 d'].
    - cbn [app]. now apply split_path_noslash.
    - change ((d0 :: d') ++ [47] ++ n ++ match e with [] => [] | _ => [46] end ++ e)
        with ((d0 :: d') ++ 47 :: (n ++ match e with [] => [] | _ => [46] end ++ e)).
      apply split_path_join; [discriminate| |exact Ht]. now apply (norm_dir_fix_rstrip normpath). }
  unfold file_parts. rewrite Hsp.
  assert (Hse : split_ext (n ++ match e with [] => [] | _ => [46] end ++ e) [] = (n, e)).
  { unfold split_ext. destruct e as [|e0 e'].
    - cbn [app]. rewrite app_nil_r. now rewrite (rsplit1_none _ _ (Hnd eq_refl)).
    - cbn [app]. now rewrite (rsplit1_app 46 n (e0 :: e') Hed). }
  rewrite Hse, Hd. reflexivity.
Qed.

(** The same for the generated objects: an accepted join table, an accepted description of _get_file_parts, a split at the last dot. *)
Theorem generated_parts_of_join normpath sk g tb : split_kind_ok sk = true -> gparts_ok g = true -> join_table_ok tb = true ->
  forall k, key_listable normpath k ->
  exists s, join_k tb k = Some s /\ file_parts_g normpath sk g (NStr s) = k.
Proof.
  intros Hsk Hg Htb k Hk. exists (join_parts k). split; [now apply join_table_ok_is_join_parts|].
  rewrite (gparts_ok_is_file_parts g Hg). destruct sk as [c|c|]; [|discriminate|discriminate]. cbn in Hsk. apply N.eqb_eq in Hsk. subst c.
  now apply parts_of_join.
Qed.

(** The other composition, on strings: a name in the listed form (folder as _get_file_parts returns it, one '/', the file name) whose
    file name does not end in '.' is exactly what the listing shows for the entry it resolves to. *)
Theorem join_of_parts normpath s h t : split_path s = (h, t) -> norm_dir normpath h = h ->
  s = h ++ (match h with [] => [] | _ => [47] end) ++ t -> (forall a, rsplit1 46 t <> Some (a, [])) ->
  join_parts (file_parts normpath (NStr s)) = s.
Proof.
  intros Hs Hh Hform Hdot. unfold file_parts. rewrite Hs.
  destruct (split_ext t []) as [n e] eqn:He. unfold join_parts. rewrite Hh.
  rewrite Hform. f_equal. f_equal.
  unfold split_ext in He. destruct (rsplit1 46 t) as [[a b]|] eqn:Hr.
  - inversion He; subst. destruct e as [|e0 e']; [exfalso; now apply (Hdot n)|]. now rewrite (rsplit1_spec _ _ _ _ Hr).
  - inversion He; subst. cbn [app]. now rewrite app_nil_r.
Qed.

(** The carve-out is exact: a key with extension '' and a '.' in the stem (what 'a/b.c.' is stored as) is listed under a name that
    resolves to another key; so is a key whose extension contains a '.' (reachable through the 3-tuple form only). *)
Lemma parts_of_join_trailing_dot_refuted :
  file_parts posix_normpath (NStr [97; 47; 98; 46; 99; 46]) = ([], [97], [98; 46; 99])
  /\ join_parts ([], [97], [98; 46; 99]) = [97; 47; 98; 46; 99]
  /\ file_parts posix_normpath (NStr [97; 47; 98; 46; 99]) = ([99], [97], [98])
  /\ jhas 46 [98; 46; 99] = true.
Proof. vm_compute. repeat split; reflexivity. Qed.

(** Non-vacuity: the keys of 'a/b.txt', of the dot-file 'cfg/.gitignore' (empty stem: what seeded fault c13_5 needs) and of '' are
    listable for posixpath.normpath. *)
Lemma key_listable_examples :
  key_listable posix_normpath ([116; 120; 116], [97], [98]) /\ key_listable posix_normpath ([103], [99; 102; 103], [])
  /\ key_listable posix_normpath ([], [], []).
Proof. unfold key_listable. repeat split; try reflexivity; intros; try discriminate; reflexivity. Qed.

(** Seeded c13_8: the split done with os.path.splitext.  It agrees with "cut at the last '.'" except for names that start with dots and
    have no later dot: the string 'a/.b' resolves to (folder 'a', name '.b', no extension), while the entry the 3-tuple ('a', '', 'b')
    names — and load_dirfile creates for such a file — is (folder 'a', name '', extension 'b').  Both are listed as 'a/.b'; the listed name
    of the second one does not resolve to it. *)
Lemma name_forms_splitext_refuted :
  let s := [97; 47; 46; 98] in
  split_kind_ok SplitExt = false
  /\ file_parts_k posix_normpath SplitExt (NStr s) = ([], [97], [46; 98])
  /\ file_parts_k posix_normpath SplitExt (NTriple [97] [] [98]) = ([98], [97], [])
  /\ join_k join_table_pinned ([98], [97], []) = Some s
  /\ join_k join_table_pinned ([], [97], [46; 98]) = Some s
  /\ file_parts_k posix_normpath (SplitLast 46) (NStr s) = ([98], [97], [])
  /\ (forall n, splitext (46 :: n) = None \/ exists a b, splitext (46 :: n) = Some (46 :: a, b))
  /\ file_parts_k posix_normpath SplitExt (NStr [97; 47; 98; 46; 99; 46; 100]) = file_parts_k posix_normpath (SplitLast 46) (NStr [97; 47; 98; 46; 99; 46; 100]).
Proof.
  cbv zeta. split; [reflexivity|]. split; [vm_compute; reflexivity|]. split; [vm_compute; reflexivity|].
  split; [vm_compute; reflexivity|]. split; [vm_compute; reflexivity|]. split; [vm_compute; reflexivity|].
  split; [|vm_compute; reflexivity].
  intros n. unfold splitext. destruct (rsplit1 46 (46 :: n)) as [[a b]|] eqn:E; [|left; reflexivity].
  destruct (existsb (N.eqb 47) b); [left; reflexivity|].
  destruct a as [|x a'].
  - left. reflexivity.
  - cbn [rsplit1] in E. destruct (rsplit1 46 n) as [[a2 b2]|]; [inversion E; subst|].
    + destruct (forallb _ _); [left; reflexivity|right; eauto].
    + cbn in E. inversion E.
Qed.
