(** Proofs about the DMX type-code model (Fmt/DmxCodes.v). *)
From Coq Require Import NArith List Bool Lia.
From SV Require Import Fmt.DmxCodes.
Import ListNotations.
Open Scope N_scope.

Lemma all_vtypes_complete : forall t, In t all_vtypes.
Proof. destruct t; cbn; tauto. Qed.

Lemma vtype_eqb_eq : forall a b, vtype_eqb a b = true -> a = b.
Proof. destruct a, b; cbn; intros H; try reflexivity; discriminate H. Qed.

Lemma forall_vtypes : forall (f : vtype -> bool), forallb f all_vtypes = true -> forall t, f t = true.
Proof. intros f H t. rewrite forallb_forall in H. apply H, all_vtypes_complete. Qed.

Lemma opt_test_some : forall A (o : option A) f, opt_test o f = true -> exists a, o = Some a /\ f a = true.
Proof. intros A [a|] f H; cbn in H; [eauto | discriminate]. Qed.

(** The attribute type byte written by export_binary is read back by parse_bin as the same (type, array?) pair,
    for every configuration satisfying the five named table conditions. *)
Theorem type_code_roundtrip_gen : forall cfg, codes_ok cfg = true ->
  forall t arr, exists b, encode_code cfg t arr = Some b /\ b < 256 /\ decode_code cfg b = Some (t, arr).
Proof.
  intros cfg Hok t arr. unfold codes_ok in Hok.
  repeat (apply andb_prop in Hok; destruct Hok as [Hok ?]).
  pose proof (forall_vtypes _ H2 t) as Hinv.
  pose proof (forall_vtypes _ H1 t) as Hsc.
  pose proof (forall_vtypes _ H0 t) as Har.
  pose proof (forall_vtypes _ H t) as Hfit.
  cbv beta in Hinv, Hsc, Har, Hfit.
  apply opt_test_some in Hinv. destruct Hinv as (c & Hc & Hinv).
  apply opt_test_some in Hinv. destruct Hinv as (t' & Ht' & Heq). apply vtype_eqb_eq in Heq. subst t'.
  rewrite Hc in Hsc, Har, Hfit. cbn [opt_test] in Hsc, Har, Hfit.
  apply N.ltb_lt in Hfit.
  unfold encode_code. rewrite Hc. destruct arr.
  - exists (c + array_offset cfg). split; [reflexivity|]. split; [exact Hfit|].
    unfold decode_code. rewrite Har.
    replace (c + array_offset cfg <? array_offset cfg) with false by (symmetry; apply N.ltb_ge; lia).
    replace (c + array_offset cfg - array_offset cfg) with c by lia. rewrite Ht'. reflexivity.
  - exists c. split; [reflexivity|]. split; [lia|].
    unfold decode_code. apply negb_true_iff in Hsc. rewrite Hsc, Ht'. reflexivity.
Qed.

(** On the pinned tree the decoder tests [>= 14] and scalar MATRIX has code 14: refuted. *)
Theorem type_code_roundtrip_pinned_refuted :
  encode_code pinned_cfg TMatrix false = Some 14 /\ decode_code pinned_cfg 14 = None.
Proof. vm_compute. split; reflexivity. Qed.

Theorem pinned_cfg_conditions :
  scalar_codes_not_split pinned_cfg = false /\ encodings_ok pinned_cfg = false /\ stub_ok pinned_cfg = false.
Proof. vm_compute. repeat split. Qed.
