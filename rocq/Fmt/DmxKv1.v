(** Model of the KeyValues1 <-> DMX bridge [Element.from_kv1] / [Element.to_kv1] (srctools/dmx.py).

    Keyvalues trees: a leaf has a (real, case-preserved) name and a string value; a block has a name ([None] for a
    root made by Keyvalues.root()/parse()) and children.  Elements are modelled as far as the bridge uses them: a
    type and the ordered [_members] dict, keyed by the casefolded attribute name, each entry holding the attribute's
    real name and either a string or an element array.  [fold] stands for Python's str.casefold.
    All literal names/keys come from the generated configuration (Gen/DmxCodes_gen.v, [gen_kv1]).
    Executable definitions only; proofs are in DmxKv1Proofs.v. *)
From Coq Require Import NArith List Bool.
Import ListNotations.

Definition kstr := list N.    (* code points *)

Fixpoint kstr_eqb (a b : kstr) : bool :=
  match a, b with
  | [], [] => true
  | x :: a', y :: b' => (x =? y)%N && kstr_eqb a' b'
  | _, _ => false
  end.
Definition kmem (s : kstr) (l : list kstr) : bool := existsb (kstr_eqb s) l.

Record kv1cfg := {
  t_block : kstr;      (* NAME_KV1 *)
  t_leaf : kstr;       (* NAME_KV1_LEAF *)
  t_root : kstr;       (* NAME_KV1_ROOT *)
  reserved : list kstr;  (* from_kv1: child.name in {...} forces nesting *)
  k_value_w : kstr;    (* from_kv1: elem['value'] = ... *)
  k_subkeys_w : kstr;  (* from_kv1: elem['subkeys'] = ... *)
  k_value_r : kstr;    (* to_kv1: self['value'] *)
  k_subkeys_r : kstr;  (* to_kv1: attr.name == 'subkeys' *)
  k_name_r : kstr;     (* to_kv1: attr.name == 'name' *)
}.

(** Element.__init__ hard-codes the 'name' member. *)
Definition c_name : kstr := [110; 97; 109; 101]%N.

Inductive kv := KLeaf (name value : kstr) | KBlock (name : option kstr) (children : list kv).

(** value of a member: a string attribute or an element-array attribute *)
Inductive el := El (etype : kstr) (members : list (kstr * (kstr * (kstr + list el)))).
Definition member := (kstr * (kstr * (kstr + list el)))%type.

(** dict assignment: an existing key keeps its position, a new key is appended *)
Fixpoint dset (k : kstr) (v : kstr * (kstr + list el)) (m : list member) : list member :=
  match m with
  | [] => [(k, v)]
  | (k', v') :: r => if kstr_eqb k k' then (k', v) :: r else (k', v') :: dset k v r
  end.
Fixpoint dget (k : kstr) (m : list member) : option (kstr * (kstr + list el)) :=
  match m with
  | [] => None
  | (k', v') :: r => if kstr_eqb k k' then Some v' else dget k r
  end.
(** [subkeys.append(x)] on the Attribute object stored under [k]: if an inline assignment replaced that entry by a
    string attribute the append goes to an orphaned object and is lost. *)
Fixpoint dappend (k : kstr) (x : el) (m : list member) : list member :=
  match m with
  | [] => []
  | (k', (n, v)) :: r =>
      if kstr_eqb k k' then (k', (n, match v with inr l => inr (l ++ [x]) | inl s => inl s end)) :: r
      else (k', (n, v)) :: dappend k x r
  end.

(** Well-formed trees: only the top node may be a root (name None); a nested root cannot be produced by the parser
    and is merged into its parent by Keyvalues.append. *)
Definition named (t : kv) : bool := match t with KBlock None _ => false | _ => true end.
Fixpoint wf_kv (t : kv) : bool :=
  match t with
  | KLeaf _ _ => true
  | KBlock _ ch => (fix go (l : list kv) : bool :=
                      match l with [] => true | c :: r => named c && wf_kv c && go r end) ch
  end.

Section Bridge.
  Variable fold : kstr -> kstr.
  Variable cfg : kv1cfg.

  Definition new_members (name : kstr) : list member := [(c_name, (c_name, inl name))].

  Definition is_block (t : kv) : bool := match t with KBlock _ _ => true | KLeaf _ _ => false end.

  (** The first loop of from_kv1 *)
  Record scan_st := { leaf_names : list kstr; has_leaf : bool; has_block : bool; no_inline : bool }.
  Definition scan_init : scan_st := {| leaf_names := []; has_leaf := false; has_block := false; no_inline := false |}.
  Definition scan_step (st : scan_st) (c : kv) : scan_st :=
    match c with
    | KBlock _ _ => {| leaf_names := leaf_names st; has_leaf := has_leaf st; has_block := true; no_inline := no_inline st |}
    | KLeaf n _ =>
        let fn := fold n in
        let ni := if kmem fn (reserved cfg) then true else no_inline st in
        if kmem fn (leaf_names st)
        then {| leaf_names := leaf_names st; has_leaf := true; has_block := has_block st; no_inline := true |}
        else {| leaf_names := fn :: leaf_names st; has_leaf := true; has_block := has_block st; no_inline := ni |}
    end.

  (** The second loop, given each child with its already converted element *)
  Definition place (no_inl : bool) (m : list member) (cx : kv * el) : list member :=
    let '(c, x) := cx in
    if no_inl || is_block c then dappend (fold (k_subkeys_w cfg)) x m
    else match c with KLeaf n v => dset (fold n) (n, inl v) m | KBlock _ _ => m end.

  Fixpoint from_kv1 (t : kv) : el :=
    match t with
    | KLeaf n v => El (t_leaf cfg) (dset (fold (k_value_w cfg)) (k_value_w cfg, inl v) (new_members n))
    | KBlock on ch =>
        let st := fold_left scan_step ch scan_init in
        let no_inl := no_inline st || (has_block st && has_leaf st) in
        let m0 := new_members (match on with Some n => n | None => [] end) in
        let m1 := if no_inl || has_block st
                  then dset (fold (k_subkeys_w cfg)) (k_subkeys_w cfg, inr []) m0 else m0 in
        El (match on with Some _ => t_block cfg | None => t_root cfg end)
           (fold_left (place no_inl) (map (fun c => (c, from_kv1 c)) ch) m1)
    end.

  (** [kv.append(child)] in to_kv1: Keyvalues.append merges the children of a root (name None) keyvalue into the
      parent instead of nesting it (deprecated but present behaviour). *)
  Definition flatten_roots (l : list kv) : list kv :=
    flat_map (fun x => match x with KBlock None c => c | _ => [x] end) l.

  (** Element.name: the 'name' member read as a string ('' when absent) *)
  Definition el_name (ms : list member) : option kstr :=
    match dget c_name ms with
    | None => Some []
    | Some (_, inl s) => Some s
    | Some (_, inr _) => None          (* val_string of an array raises *)
    end.

  Fixpoint to_kv1 (e : el) : option kv :=
    match e with
    | El ty ms =>
        if kstr_eqb ty (t_leaf cfg) then
          match el_name ms, dget (fold (k_value_r cfg)) ms with
          | Some n, Some (_, inl v) => Some (KLeaf n v)
          | _, _ => None                   (* KeyError / conversion error *)
          end
        else if kstr_eqb ty (t_block cfg) || kstr_eqb ty (t_root cfg) then
          match (fix go (ms : list member) : option (list kv * option (list kv)) :=
                   match ms with
                   | [] => Some ([], None)
                   | (_, (an, v)) :: r =>
                       match go r with
                       | None => None
                       | Some (ls, sub) =>
                           if kstr_eqb an (k_subkeys_r cfg) then
                             match v with
                             | inr l =>
                                 match (fix mp (l : list el) : option (list kv) :=
                                          match l with
                                          | [] => Some []
                                          | x :: l' => match to_kv1 x, mp l' with
                                                       | Some a, Some b => Some (a :: b)
                                                       | _, _ => None
                                                       end
                                          end) l with
                                 | Some kl => Some (ls, Some (match sub with Some s => s | None => kl end))
                                 | None => None
                                 end
                             | inl _ => None      (* '"subkeys" must be an Element array!' *)
                             end
                           else if kstr_eqb an (k_name_r cfg) then Some (ls, sub)
                           else match v with
                                | inl s => Some (KLeaf an s :: ls, sub)
                                | inr _ => None   (* val_str of an element array raises *)
                                end
                       end
                   end) ms with
          | Some (ls, sub) =>
              let kids := ls ++ match sub with Some s => flatten_roots s | None => [] end in
              if kstr_eqb ty (t_block cfg)
              then match el_name ms with Some n => Some (KBlock (Some n) kids) | None => None end
              else Some (KBlock None kids)
          | None => None
          end
        else None                          (* 'is not a KeyValues1 tree!' *)
    end.

  (** Conditions on the generated constants (booleans, checked by the kernel on every run). *)
  Definition kv1_types_distinct : bool :=
    negb (kstr_eqb (t_leaf cfg) (t_block cfg)) && negb (kstr_eqb (t_leaf cfg) (t_root cfg)) &&
    negb (kstr_eqb (t_block cfg) (t_root cfg)).
  Definition kv1_keys_agree : bool :=
    kstr_eqb (k_value_r cfg) (k_value_w cfg) && kstr_eqb (k_subkeys_r cfg) (k_subkeys_w cfg) &&
    kstr_eqb (k_name_r cfg) c_name.
  Definition kv1_reserved_covers : bool :=
    kmem c_name (reserved cfg) && kmem (k_subkeys_w cfg) (reserved cfg) && negb (kstr_eqb (k_subkeys_w cfg) c_name).
  Definition kv1_cfg_ok : bool := kv1_types_distinct && kv1_keys_agree && kv1_reserved_covers.

  (** What is needed of str.casefold: it fixes the two reserved names and does not send 'value' to 'name'. *)
  Definition fold_ok : Prop :=
    fold c_name = c_name /\ fold (k_subkeys_w cfg) = k_subkeys_w cfg /\ fold (k_value_w cfg) <> c_name.
End Bridge.
