(** C14 — proofs about the nested KeyValues2 layout (Fmt/DmxKv2Nested.v). *)
From Coq Require Import NArith List Bool Lia PeanoNat.
From SV Require Import Text.Str Text.Prog Text.Escape Text.EscapeProofs Text.Tokenizer Fmt.DmxKv2 Fmt.DmxKv2Proofs Fmt.DmxKv2Nested.
Import ListNotations.
Open Scope N_scope.

(** * Induction over elements / attributes / items *)
Section Ind.
  Variables (Pe : nelem -> Prop) (Pa : nattr -> Prop) (Pi : nitem -> Prop).
  Hypothesis He : forall ty id nm attrs, Forall Pa attrs -> Pe (NElem ty id nm attrs).
  Hypothesis Ha : forall an at_ arr items, Forall Pi items -> Pa (NAttr an at_ arr items).
  Hypothesis HiS : forall s, Pi (NStr s).
  Hypothesis HiN : Pi NNull.
  Hypothesis HiR : forall u, Pi (NRef u).
  Hypothesis HiI : forall e, Pe e -> Pi (NInline e).
  Fixpoint nelem_ind' (e : nelem) : Pe e :=
    match e with
    | NElem ty id nm attrs =>
        He ty id nm attrs ((fix go (l : list nattr) : Forall Pa l :=
                              match l with [] => Forall_nil _ | a :: r => Forall_cons a (nattr_ind' a) (go r) end) attrs)
    end
  with nattr_ind' (a : nattr) : Pa a :=
    match a with
    | NAttr an at_ arr items =>
        Ha an at_ arr items ((fix go (l : list nitem) : Forall Pi l :=
                                match l with [] => Forall_nil _ | it :: r => Forall_cons it (nitem_ind' it) (go r) end) items)
    end
  with nitem_ind' (it : nitem) : Pi it :=
    match it with
    | NStr s => HiS s | NNull => HiN | NRef u => HiR u | NInline e => HiI e (nelem_ind' e)
    end.
  Lemma nested_ind : (forall e, Pe e) /\ (forall a, Pa a) /\ (forall it, Pi it).
  Proof. repeat split; [apply nelem_ind'|apply nattr_ind'|apply nitem_ind']. Qed.
End Ind.

(** * Token forms of the writer's output (the blanks do not matter) *)
Definition idt (id : option str) : tl :=
  match id with Some u => [(STRING, s_id); (STRING, s_elementid); (STRING, u); tNL] | None => [] end.
Definition namet (nm : str) : tl := [(STRING, s_name); (STRING, s_string); (STRING, nm); tNL].
Definition sept (r : list nitem) : tl := match r with [] => [tNL] | _ => [tCO; tNL] end.

Fixpoint ebody (e : nelem) : tl :=
  match e with
  | NElem ty id nm attrs =>
      tNL :: tBO :: tNL :: idt id ++ namet nm ++
      (fix go (l : list nattr) : tl := match l with [] => [] | a :: r => atoks a ++ go r end) attrs ++ [tBC]
  end
with atoks (a : nattr) : tl :=
  match a with
  | NAttr an at_ arr items =>
      if arr then
        (STRING, an) :: (STRING, at_ ++ s_array) :: tNL :: tKO :: tNL ::
        (fix go (l : list nitem) : tl := match l with [] => [] | it :: r => itoks it ++ sept r ++ go r end) items ++ [tKC; tNL]
      else match items with
           | [it] => if is_elem_type at_ then (STRING, an) :: itoks it ++ [tNL]
                     else match it with NStr v => [(STRING, an); (STRING, at_); (STRING, v); tNL] | _ => [] end
           | _ => []
           end
  end
with itoks (it : nitem) : tl :=
  match it with
  | NInline e => (STRING, ne_type e) :: ebody e
  | NStr s => [(STRING, s)]
  | NNull => [(STRING, s_element); (STRING, [])]
  | NRef u => [(STRING, s_element); (STRING, u)]
  end.
Definition attrst (attrs : list nattr) : tl := flat_map atoks attrs.
Fixpoint itemst (items : list nitem) : tl :=
  match items with [] => [] | it :: r => itoks it ++ sept r ++ itemst r end.

Lemma ebody_eq ty id nm attrs :
  ebody (NElem ty id nm attrs) = tNL :: tBO :: tNL :: idt id ++ namet nm ++ attrst attrs ++ [tBC].
Proof.
  cbn [ebody].
  match goal with |- context [?F attrs ++ [tBC]] => assert (E : F attrs = attrst attrs) end.
  { unfold attrst. induction attrs as [|a r IH]; [reflexivity|]. cbn [flat_map]. now rewrite IH. }
  now rewrite E.
Qed.
Lemma atoks_arr_eq an at_ items :
  atoks (NAttr an at_ true items) = (STRING, an) :: (STRING, at_ ++ s_array) :: tNL :: tKO :: tNL :: itemst items ++ [tKC; tNL].
Proof.
  cbn [atoks].
  match goal with |- context [?F items ++ [tKC; tNL]] => assert (E : F items = itemst items) end.
  { induction items as [|it r IH]; [reflexivity|]. cbn [itemst]. now rewrite IH. }
  now rewrite E.
Qed.

Definition idl (k : nat) (id : option str) : list lexeme :=
  match id with
  | Some u => [(tabs (S k), LRaw s_id); ([SP], LRaw s_elementid); ([SP], LRaw u); ([], LNl)]
  | None => []
  end.
Definition namel (k : nat) (nm : str) : list lexeme :=
  [(tabs (S k), LRaw s_name); ([SP], LRaw s_string); ([SP], LQ nm); ([], LNl)].
Definition sepl (r : list nitem) : list lexeme := match r with [] => [([], LNl)] | _ => [([], LComma); ([], LNl)] end.
Fixpoint lexn_items (k : nat) (l : list nitem) : list lexeme :=
  match l with
  | [] => []
  | it :: r => lexn_item (tabs (S (S k))) (S (S k)) it ++ sepl r ++ lexn_items k r
  end.
Lemma lexn_elem_eq w k ty id nm attrs :
  lexn_elem w k (NElem ty id nm attrs) =
  [(w, LQ ty); ([], LNl); (tabs k, LBraceO); ([], LNl)] ++ idl k id ++ namel k nm ++
  flat_map (lexn_attr k) attrs ++ [(tabs k, LBraceC)].
Proof.
  cbn [lexn_elem].
  match goal with |- context [?F attrs ++ [(tabs k, LBraceC)]] => assert (E : F attrs = flat_map (lexn_attr k) attrs) end.
  { induction attrs as [|a r IH]; [reflexivity|]. cbn [flat_map]. now rewrite IH. }
  now rewrite E.
Qed.
Lemma lexn_attr_arr_eq k an at_ items :
  lexn_attr k (NAttr an at_ true items) =
  [(tabs (S k), LQ an); ([SP], LRaw (at_ ++ s_array)); ([], LNl); (tabs (S k), LBrackO); ([], LNl)] ++
  lexn_items k items ++ [(tabs (S k), LBrackC); ([], LNl)].
Proof.
  cbn [lexn_attr].
  match goal with |- context [?F items ++ [(tabs (S k), LBrackC); ([], LNl)]] => assert (E : F items = lexn_items k items) end.
  { induction items as [|it r IH]; [reflexivity|]. cbn [lexn_items]. now rewrite IH. }
  now rewrite E.
Qed.

Lemma toks_lexn :
  (forall e w k, toks_of (lexn_elem w k e) = (STRING, ne_type e) :: ebody e) /\
  (forall a k, toks_of (lexn_attr k a) = atoks a) /\
  (forall it w k, toks_of (lexn_item w k it) = itoks it).
Proof.
  apply nested_ind.
  - intros ty id nm attrs IH w k. rewrite ebody_eq, lexn_elem_eq. rewrite !toks_of_app.
    assert (E : toks_of (flat_map (lexn_attr k) attrs) = attrst attrs).
    { unfold attrst. induction IH as [|a r Ha _ IHr]; [reflexivity|]. cbn [flat_map]. now rewrite toks_of_app, IHr, Ha. }
    rewrite E. destruct id; reflexivity.
  - intros an at_ arr items IH k. destruct arr.
    + rewrite atoks_arr_eq, lexn_attr_arr_eq. rewrite !toks_of_app.
      assert (E : toks_of (lexn_items k items) = itemst items).
      { induction IH as [|it r Hit _ IHr]; [reflexivity|]. cbn [lexn_items itemst]. rewrite !toks_of_app, IHr, Hit.
        now destruct r. }
      rewrite E. reflexivity.
    + cbn [lexn_attr atoks]. destruct items as [|it [|? ?]]; try reflexivity. inversion IH as [|? ? Hit _]; subst.
      destruct (is_elem_type at_).
      * cbn [toks_of map]. fold (toks_of (lexn_item [SP] (S k) it ++ [([], LNl)])). rewrite toks_of_app, Hit. reflexivity.
      * destruct it; reflexivity.
  - reflexivity.
  - reflexivity.
  - reflexivity.
  - intros e IH w k. cbn [lexn_item itoks]. apply IH.
Qed.

(** * The parser over the writer's tokens *)
Section NParse.
Variable T : tables.
Variable fold : str -> str.
Variable vtnames : list str.
Hypothesis Hvt : vtnames_ok T fold vtnames = true.

Lemma attrs_ok_forallb attrs :
  (fix go (l : list nattr) : bool := match l with [] => true | a :: r => nattr_ok T fold vtnames a && go r end) attrs
  = forallb (nattr_ok T fold vtnames) attrs.
Proof. induction attrs as [|a r IH]; [reflexivity|]. cbn [forallb]. now rewrite IH. Qed.
Lemma items_ok_forallb is_elem items :
  (fix go (l : list nitem) : bool := match l with [] => true | it :: r => nitem_ok T fold vtnames is_elem it && go r end) items
  = forallb (nitem_ok T fold vtnames is_elem) items.
Proof. induction items as [|a r IH]; [reflexivity|]. cbn [forallb]. now rewrite IH. Qed.

Lemma nelem_ok_parts top ty id nm attrs : nelem_ok T fold vtnames top (NElem ty id nm attrs) = true ->
  (top = true \/ type_is_keyword fold vtnames ty = false) /\
  match id with Some u => blank_free_uuid T u = true | None => True end /\
  forallb (nattr_ok T fold vtnames) attrs = true.
Proof.
  cbn [nelem_ok]. rewrite attrs_ok_forallb. intros H. apply andb_prop in H. destruct H as [H H3]. apply andb_prop in H.
  destruct H as [H1 H2]. repeat split; try assumption.
  - apply orb_prop in H1. destruct H1 as [H1|H1]; [now left|right]. now apply negb_true_iff.
  - destruct id; [assumption|exact I].
Qed.
Lemma nattr_ok_parts an at_ arr items : nattr_ok T fold vtnames (NAttr an at_ arr items) = true ->
  mem_str at_ vtnames = true /\ str_eqb an s_name = false /\
  forallb (nitem_ok T fold vtnames (is_elem_type at_)) items = true /\ (arr = true \/ exists it, items = [it]).
Proof.
  cbn [nattr_ok]. rewrite items_ok_forallb. intros H. repeat (apply andb_prop in H; destruct H as [H ?]).
  repeat split; try assumption; [now apply negb_true_iff|].
  destruct arr; [now left|right]. cbn [orb] in *. destruct items as [|it [|? ?]]; try discriminate. now exists it.
Qed.

(** what [type_is_keyword ty = false] buys at the two inline sites *)
Lemma not_keyword_scalar ty : type_is_keyword fold vtnames ty = false ->
  str_eqb (fold ty) s_elementid = false /\
  mem_str (if ends_with (fold ty) s_array then firstn (length (fold ty) - 6) (fold ty) else fold ty) vtnames = false.
Proof. unfold type_is_keyword. intros H. apply orb_false_iff in H. exact H. Qed.
Lemma not_keyword_array ty : type_is_keyword fold vtnames ty = false -> str_eqb ty s_element = false.
Proof.
  intros H. destruct (str_eqb ty s_element) eqn:E; [|reflexivity]. apply str_eqb_eq in E. subst ty. exfalso.
  destruct (vt_globals T fold vtnames Hvt) as (Hel & _).
  destruct (vtname_parts T fold _ (vt_facts T fold vtnames Hvt _ Hel)) as (Hf & _ & Hend & _).
  unfold type_is_keyword in H. rewrite Hf, Hend, Hel, orb_true_r in H. discriminate.
Qed.

Lemma pn_elem_S n ty nm0 l : pn_elem fold vtnames (S n) ty nm0 l =
  match expect BRACE_OPEN l with
  | Some (_, r) => match pn_body fold vtnames n None nm0 [] r with
                   | Some (id, nm, attrs, r2) => Some (NElem ty id nm attrs, r2)
                   | None => None
                   end
  | None => None
  end.
Proof. reflexivity. Qed.
Lemma pn_body_close n id nm acc v r : pn_body fold vtnames (S n) id nm acc ((BRACE_CLOSE, v) :: r) = Some (id, nm, rev acc, r).
Proof. reflexivity. Qed.
Lemma pn_body_nl n id nm acc v r : pn_body fold vtnames (S n) id nm acc ((NEWLINE, v) :: r) = pn_body fold vtnames n id nm acc r.
Proof. reflexivity. Qed.
Lemma pn_body_str n id nm acc an orig r1 :
  pn_body fold vtnames (S n) id nm acc ((STRING, an) :: (STRING, orig) :: r1) =
  let typ := fold orig in
  if str_eqb an s_id && str_eqb typ s_elementid then
    match expect STRING r1, id with
    | Some (u, r2), None => pn_body fold vtnames n (Some u) nm acc r2
    | _, _ => None
    end
  else if str_eqb an s_name then
    if str_eqb typ s_string then
      match expect STRING r1 with Some (v, r2) => pn_body fold vtnames n id v acc r2 | None => None end
    else None
  else
    let is_arr := ends_with typ s_array in
    let base := if is_arr then firstn (length typ - 6) typ else typ in
    if mem_str base vtnames then
      if is_arr then
        match expect BRACK_OPEN r1 with
        | Some (_, r2) =>
            match pn_array fold vtnames n (is_elem_type base) an [] r2 with
            | Some (its, r3) => pn_body fold vtnames n id nm (NAttr an base true its :: acc) r3
            | None => None
            end
        | None => None
        end
      else
        match expect STRING r1 with
        | Some (v, r2) =>
            pn_body fold vtnames n id nm (NAttr an base false [if is_elem_type base then nref_of v else NStr v] :: acc) r2
        | None => None
        end
    else
      match pn_elem fold vtnames n orig an r1 with
      | Some (e, r2) => pn_body fold vtnames n id nm (NAttr an s_element false [NInline e] :: acc) r2
      | None => None
      end.
Proof. reflexivity. Qed.
Lemma pn_array_S n is_elem an acc l : pn_array fold vtnames (S n) is_elem an acc l =
  match skip_nl l with
  | [] => None
  | (k, v) :: r =>
      if tok_eqb k BRACK_CLOSE then Some (rev acc, r)
      else if tok_eqb k STRING then
        if is_elem then
          if str_eqb v s_element then
            match expect STRING r with
            | Some (u, r1) => pn_array fold vtnames n is_elem an (nref_of u :: acc) (skip_comma r1)
            | None => None
            end
          else match pn_elem fold vtnames n v an r with
               | Some (e, r1) => pn_array fold vtnames n is_elem an (NInline e :: acc) (skip_comma r1)
               | None => None
               end
        else pn_array fold vtnames n is_elem an (NStr v :: acc) (skip_comma r)
      else None
  end.
Proof. reflexivity. Qed.

Lemma pn_body_skip : forall p n id nm acc l, nls p = true ->
  pn_body fold vtnames (length p + n) id nm acc (p ++ l) = pn_body fold vtnames n id nm acc l.
Proof.
  induction p as [|[k v] p IH]; intros n id nm acc l Hp; [reflexivity|].
  cbn [nls forallb fst] in Hp. apply andb_prop in Hp. destruct Hp as [H1 H2]. apply tok_eqb_eq in H1. subst k.
  cbn [length plus app]. rewrite pn_body_nl. now apply IH.
Qed.

Definition Pe (e : nelem) : Prop := forall top rest n nm0, nelem_ok T fold vtnames top e = true ->
  (length (ebody e ++ rest) <= n)%nat ->
  pn_elem fold vtnames n (ne_type e) nm0 (ebody e ++ rest) = Some (e, rest).
Definition Pa (a : nattr) : Prop := nattr_ok T fold vtnames a = true ->
  exists pre, atoks a = pre ++ [tNL] /\ (1 <= length pre)%nat /\
    forall id nm acc rest n, (length (pre ++ tNL :: rest) <= n)%nat ->
      pn_body fold vtnames n id nm acc (pre ++ tNL :: rest) = pn_body fold vtnames (n - 1) id nm (a :: acc) (tNL :: rest).
Definition Pi (it : nitem) : Prop := forall is_elem, nitem_ok T fold vtnames is_elem it = true ->
  (forall an acc p X n, nls p = true -> (length (p ++ itoks it ++ X) <= n)%nat ->
     pn_array fold vtnames n is_elem an acc (p ++ itoks it ++ X)
     = pn_array fold vtnames (n - 1) is_elem an (it :: acc) (skip_comma X)) /\
  match it with NInline e => Pe e | _ => True end.

Lemma itoks_nonempty it : (1 <= length (itoks it))%nat.
Proof. destruct it; cbn [itoks length]; lia. Qed.

Lemma skip_comma_sept (r : list nitem) Y : (match r with [] => exists z, Y = tKC :: z | _ => True end) ->
  exists p, nls p = true /\ skip_comma (sept r ++ Y) = p ++ Y /\ (length p <= 1)%nat.
Proof.
  destruct r; intros H.
  - destruct H as [z ->]. exists []. repeat split; cbn; lia || reflexivity.
  - exists [tNL]. repeat split; cbn; lia || reflexivity.
Qed.

Lemma items_loop items : Forall Pi items -> forall is_elem an, forallb (nitem_ok T fold vtnames is_elem) items = true ->
  forall acc p rest n, nls p = true -> (length (p ++ itemst items ++ tKC :: rest) <= n)%nat ->
  pn_array fold vtnames n is_elem an acc (p ++ itemst items ++ tKC :: rest) = Some (rev acc ++ items, rest).
Proof.
  induction 1 as [|it r Hit _ IH]; intros is_elem an Hok acc p rest n Hp Hn.
  - rewrite app_length in Hn. cbn [itemst app length] in *. destruct n as [|n]; [lia|].
    rewrite pn_array_S, (skip_nl_app p _ Hp). cbn [skip_nl tKC tok_eqb tok_tag N.eqb fst]. cbn -[pn_array]. now rewrite app_nil_r.
  - cbn [forallb] in Hok. apply andb_prop in Hok. destruct Hok as [Hi Hr].
    cbn [itemst]. rewrite <- !app_assoc.
    destruct (Hit is_elem Hi) as [Harr _]. rewrite Harr; [|exact Hp|]; cycle 1.
    { cbn [itemst] in Hn. rewrite <- !app_assoc in Hn. exact Hn. }
    destruct (skip_comma_sept r (itemst r ++ tKC :: rest)) as (p' & Hp' & Hsk & Hlen).
    { destruct r; [|exact I]. exists rest. reflexivity. }
    rewrite Hsk. rewrite (IH is_elem an Hr (it :: acc) p' rest (n - 1)%nat Hp').
    + cbn [rev]. now rewrite <- app_assoc.
    + cbn [itemst] in Hn. rewrite !app_length in Hn. rewrite !app_length. pose proof (itoks_nonempty it).
      assert (length (sept r) >= 1)%nat by (destruct r; cbn; lia). lia.
Qed.

Lemma attrs_loop attrs : Forall Pa attrs -> forallb (nattr_ok T fold vtnames) attrs = true ->
  forall id nm acc p rest n, nls p = true -> (length (p ++ attrst attrs ++ tBC :: rest) <= n)%nat ->
  pn_body fold vtnames n id nm acc (p ++ attrst attrs ++ tBC :: rest) = Some (id, nm, rev acc ++ attrs, rest).
Proof.
  induction 1 as [|a r Ha _ IH]; intros Hok id nm acc p rest n Hp Hn.
  - rewrite app_length in Hn. cbn [attrst flat_map app length] in *.
    replace n with (length p + S (n - length p - 1))%nat by lia. rewrite pn_body_skip by exact Hp.
    unfold tBC. rewrite pn_body_close. now rewrite app_nil_r.
  - cbn [forallb] in Hok. apply andb_prop in Hok. destruct Hok as [Hao Hro].
    destruct (Ha Hao) as (pre & Hpre & Hlen & Hstep).
    unfold attrst in *. cbn [flat_map] in *. rewrite Hpre in *. rewrite <- !app_assoc in *. cbn [app] in *.
    rewrite !app_length in Hn. cbn [length] in Hn. rewrite !app_length in Hn. cbn [length] in Hn.
    replace n with (length p + (n - length p))%nat by lia. rewrite pn_body_skip by exact Hp.
    rewrite Hstep by (rewrite !app_length; cbn [length]; rewrite !app_length; cbn [length]; lia).
    change (tNL :: flat_map atoks r ++ tBC :: rest) with ([tNL] ++ flat_map atoks r ++ tBC :: rest).
    rewrite (IH Hro id nm (a :: acc) [tNL] rest); [cbn [rev]; now rewrite <- app_assoc|reflexivity|].
    rewrite !app_length. cbn [length]. lia.
Qed.

Lemma nitem_ok_inline is_elem e :
  nitem_ok T fold vtnames is_elem (NInline e) = is_elem && nelem_ok T fold vtnames false e.
Proof. reflexivity. Qed.
Lemma nitem_ok_ref is_elem u : nitem_ok T fold vtnames is_elem (NRef u) = is_elem && blank_free_uuid T u.
Proof. reflexivity. Qed.
Lemma nitem_ok_null is_elem : nitem_ok T fold vtnames is_elem NNull = is_elem.
Proof. reflexivity. Qed.
Lemma nitem_ok_str is_elem s : nitem_ok T fold vtnames is_elem (NStr s) = negb is_elem.
Proof. reflexivity. Qed.
Lemma nref_of_ok u : blank_free_uuid T u = true -> nref_of u = NRef u.
Proof. unfold blank_free_uuid. intros H. apply andb_prop in H. destruct H as [_ H]. destruct u; [discriminate|reflexivity]. Qed.

Theorem nested_parse :
  (forall e, Pe e) /\ (forall a, Pa a) /\ (forall it, Pi it).
Proof.
  destruct (vt_globals T fold vtnames Hvt) as (Hel & Hstr & Hfe & Hfs).
  apply nested_ind.
  - (* element *)
    intros ty id nm attrs IH top rest n nm0 Hok Hn.
    destruct (nelem_ok_parts _ _ _ _ _ Hok) as (_ & Hid & Hattrs).
    rewrite ebody_eq in *. cbn [ne_type]. repeat (rewrite <- app_assoc in *; cbn [app] in * ). cbn [app length] in Hn.
    rewrite ?app_length in Hn. cbn [namet length] in Hn. rewrite ?app_length in Hn. cbn [length] in Hn.
    assert (Htail : forall id0 m, (length ([tNL] ++ attrst attrs ++ tBC :: rest) <= m)%nat ->
              pn_body fold vtnames m id0 nm [] (tNL :: attrst attrs ++ tBC :: rest) = Some (id0, nm, attrs, rest)).
    { intros id0 m Hm. change (tNL :: attrst attrs ++ tBC :: rest) with ([tNL] ++ attrst attrs ++ tBC :: rest).
      now rewrite (attrs_loop attrs IH Hattrs id0 nm [] [tNL] rest m eq_refl Hm). }
    destruct id as [u|]; cbn [idt app length] in *.
    + do 5 (destruct n as [|n]; [lia|]).
      rewrite pn_elem_S. unfold tNL at 1, tBO. cbn [expect tok_eqb tok_tag N.eqb]. cbn -[pn_body attrst].
      unfold tNL at 1. rewrite pn_body_nl, pn_body_str. cbv zeta.
      rewrite Hfe, !str_eqb_refl. cbn [andb]. unfold tNL at 1. cbn [expect tok_eqb tok_tag N.eqb]. cbn -[pn_body attrst].
      rewrite pn_body_nl. unfold namet. cbn [app]. rewrite pn_body_str. cbv zeta.
      rewrite Hfs. change (str_eqb s_name s_id) with false. cbn [andb]. rewrite !str_eqb_refl.
      cbn [expect tok_eqb tok_tag N.eqb]. cbn -[pn_body attrst].
      repeat (rewrite <- app_assoc; cbn [app]).
      rewrite Htail; [reflexivity|]. rewrite !app_length. cbn [length]. lia.
    + do 3 (destruct n as [|n]; [lia|]).
      rewrite pn_elem_S. unfold tNL at 1, tBO. cbn [expect tok_eqb tok_tag N.eqb]. cbn -[pn_body attrst].
      unfold tNL at 1. rewrite pn_body_nl. unfold namet. cbn [app]. rewrite pn_body_str. cbv zeta.
      rewrite Hfs. change (str_eqb s_name s_id) with false. cbn [andb]. rewrite !str_eqb_refl.
      cbn [expect tok_eqb tok_tag N.eqb]. cbn -[pn_body attrst].
      repeat (rewrite <- app_assoc; cbn [app]).
      rewrite Htail; [reflexivity|]. rewrite !app_length. cbn [length]. lia.
  - (* attribute *)
    intros an at_ arr items IH Hok.
    destruct (nattr_ok_parts _ _ _ _ Hok) as (Hmem & Hname & Hitems & Hshape).
    destruct (vtname_parts T fold _ (vt_facts T fold vtnames Hvt _ Hmem)) as (Hf & Hfa & Hend & Hne & Hnea).
    destruct arr.
    + (* array *)
      rewrite atoks_arr_eq.
      exists ((STRING, an) :: (STRING, at_ ++ s_array) :: tNL :: tKO :: tNL :: itemst items ++ [tKC]).
      split; [cbn [app]; now rewrite <- app_assoc|]. split; [cbn [length]; lia|].
      intros id nm acc rest n Hn. cbn [app length] in Hn. rewrite <- app_assoc in Hn. cbn [app] in Hn.
      destruct n as [|n]; [lia|]. cbn [app]. rewrite <- app_assoc. cbn [app].
      rewrite pn_body_str. cbv zeta.
      rewrite Hfa, Hnea, andb_false_r, Hname, ends_with_app, strip_array, Hmem.
      unfold tNL at 1, tKO. cbn [expect tok_eqb tok_tag N.eqb]. cbn -[pn_body pn_array itemst].
      change (tNL :: itemst items ++ tKC :: tNL :: rest) with ([tNL] ++ itemst items ++ tKC :: tNL :: rest).
      rewrite (items_loop items IH (is_elem_type at_) an Hitems [] [tNL] (tNL :: rest) n eq_refl).
      * cbn [rev app]. rewrite ?Nat.sub_succ, ?Nat.sub_0_r. reflexivity.
      * rewrite !app_length in *. cbn [length] in *. lia.
    + (* scalar *)
      destruct Hshape as [Hd|[it ->]]; [discriminate|]. cbn [forallb] in Hitems. apply andb_prop in Hitems.
      destruct Hitems as [Hit _]. inversion IH as [|? ? Hpi _]; subst.
      cbn [atoks]. destruct (is_elem_type at_) eqn:Ee.
      * assert (at_ = s_element) by (now apply str_eqb_eq). subst at_.
        destruct (Hpi true Hit) as [_ Hinl].
        exists ((STRING, an) :: itoks it). split; [reflexivity|]. split; [cbn [length]; lia|].
        intros id nm acc rest n Hn. destruct n as [|n]; [cbn in Hn; lia|]. rewrite Nat.sub_succ, Nat.sub_0_r.
        destruct it as [s| |u|e]; [rewrite nitem_ok_str in Hit; discriminate| |rewrite nitem_ok_ref in Hit|rewrite nitem_ok_inline in Hit].
        -- cbn [itoks app]. rewrite pn_body_str. cbv zeta.
           rewrite Hf, Hne, andb_false_r, Hname, Hend, Hmem, Ee. reflexivity.
        -- cbn [andb] in Hit. cbn [itoks app]. rewrite pn_body_str. cbv zeta.
           rewrite Hf, Hne, andb_false_r, Hname, Hend, Hmem, Ee. cbn [expect tok_eqb tok_tag N.eqb]. cbn -[pn_body nref_of].
           now rewrite nref_of_ok.
        -- (* inline element *)
           cbn [andb] in Hit. destruct e as [ty eid enm eattrs].
           destruct (nelem_ok_parts _ _ _ _ _ Hit) as ([Htop|Hkw] & _); [discriminate|].
           destruct (not_keyword_scalar ty Hkw) as (Hk1 & Hk2).
           cbn [itoks ne_type app]. rewrite pn_body_str. cbv zeta.
           rewrite Hk1, andb_false_r, Hname.
           match goal with |- context [mem_str ?x vtnames] => replace (mem_str x vtnames) with false by (symmetry; exact Hk2) end.
           assert (Hx : pn_elem fold vtnames n ty an (ebody (NElem ty eid enm eattrs) ++ tNL :: rest)
                        = Some (NElem ty eid enm eattrs, tNL :: rest)).
           { apply (Hinl false (tNL :: rest) n an Hit).
             cbn [itoks ne_type app length] in Hn. rewrite app_length in *. cbn [length] in *. lia. }
           now rewrite Hx.
      * destruct it as [s| |u|e]; [|rewrite nitem_ok_null in Hit; discriminate|rewrite nitem_ok_ref in Hit; discriminate
                                   |rewrite nitem_ok_inline in Hit; discriminate].
        exists [(STRING, an); (STRING, at_); (STRING, s)]. split; [reflexivity|]. split; [cbn [length]; lia|].
        intros id nm acc rest n Hn. destruct n as [|n]; [cbn in Hn; lia|]. rewrite Nat.sub_succ, Nat.sub_0_r.
        cbn [app]. rewrite pn_body_str. cbv zeta.
        rewrite Hf, Hne, andb_false_r, Hname, Hend, Hmem, Ee. reflexivity.
  - (* NStr *)
    intros s is_elem Hok. rewrite nitem_ok_str in Hok. apply negb_true_iff in Hok. subst is_elem. split; [|exact I].
    intros an acc p X n Hp Hn. destruct n as [|n]; [rewrite app_length in Hn; cbn in Hn; lia|]. rewrite Nat.sub_succ, Nat.sub_0_r.
    rewrite pn_array_S, (skip_nl_app p _ Hp). cbn [itoks app skip_nl tok_eqb tok_tag N.eqb]. reflexivity.
  - (* NNull *)
    intros is_elem Hok. rewrite nitem_ok_null in Hok. subst is_elem. split; [|exact I].
    intros an acc p X n Hp Hn. destruct n as [|n]; [rewrite app_length in Hn; cbn in Hn; lia|]. rewrite Nat.sub_succ, Nat.sub_0_r.
    rewrite pn_array_S, (skip_nl_app p _ Hp). cbn [itoks app].
    cbn -[pn_array pn_elem skip_comma str_eqb s_element nref_of expect]. rewrite str_eqb_refl. reflexivity.
  - (* NRef *)
    intros u is_elem Hok. rewrite nitem_ok_ref in Hok. apply andb_prop in Hok. destruct Hok as [-> Hu]. split; [|exact I].
    intros an acc p X n Hp Hn. destruct n as [|n]; [rewrite app_length in Hn; cbn in Hn; lia|]. rewrite Nat.sub_succ, Nat.sub_0_r.
    rewrite pn_array_S, (skip_nl_app p _ Hp). cbn [itoks app].
    cbn -[pn_array pn_elem skip_comma str_eqb s_element nref_of expect]. rewrite str_eqb_refl.
    cbn -[pn_array skip_comma nref_of]. now rewrite nref_of_ok.
  - (* NInline *)
    intros e IH is_elem Hok. rewrite nitem_ok_inline in Hok. apply andb_prop in Hok. destruct Hok as [-> He]. split; [|exact IH].
    intros an acc p X n Hp Hn. destruct n as [|n]; [rewrite app_length in Hn; cbn in Hn; lia|]. rewrite Nat.sub_succ, Nat.sub_0_r.
    destruct e as [ty eid enm eattrs].
    destruct (nelem_ok_parts _ _ _ _ _ He) as ([Htop|Hkw] & _); [discriminate|].
    pose proof (not_keyword_array ty Hkw) as Hne.
    rewrite pn_array_S, (skip_nl_app p _ Hp). cbn [itoks ne_type app].
    cbn -[pn_array pn_elem skip_comma str_eqb s_element nref_of expect ebody]. rewrite Hne.
    rewrite app_length in Hn. cbn [itoks ne_type app length] in Hn.
    assert (Hx : pn_elem fold vtnames n ty an (ebody (NElem ty eid enm eattrs) ++ X) = Some (NElem ty eid enm eattrs, X)).
    { apply (IH false X n an He). lia. }
    now rewrite Hx.
Qed.
End NParse.

(** * The document, and the text *)
Section NDoc.
Variable T : tables.
Variable o : opts.
Variable fold : str -> str.
Variable vtnames : list str.
Hypothesis HT : kv2_tables_ok T = true.
Hypothesis Ho : kv2_opts_ok o = true.
Hypothesis Hvt : vtnames_ok T fold vtnames = true.

Definition chunkn (x : nelem) : tl := tNL :: (STRING, ne_type x) :: ebody x ++ [tNL].

Lemma pn_doc_skip : forall p n acc l, nls p = true ->
  pn_doc fold vtnames (length p + n) acc (p ++ l) = pn_doc fold vtnames n acc l.
Proof.
  induction p as [|[k v] p IH]; intros n acc l Hp; [reflexivity|].
  cbn [nls forallb fst] in Hp. apply andb_prop in Hp. destruct Hp as [H1 H2]. apply tok_eqb_eq in H1. subst k.
  cbn [length plus app pn_doc]. cbn [tok_eqb tok_tag N.eqb]. cbn -[pn_doc]. now apply IH.
Qed.

Lemma ebody_nonempty e : (4 <= length (ebody e))%nat.
Proof. destruct e as [ty id nm attrs]. rewrite ebody_eq. cbn [length]. rewrite !app_length. cbn [namet length]. lia. Qed.

Lemma pn_doc_elems : forall es e acc p n, nls p = true -> nelem_ok T fold vtnames true e = true ->
  forallb (nelem_ok T fold vtnames true) es = true ->
  (length (p ++ (STRING, ne_type e) :: ebody e ++ tNL :: flat_map chunkn es) <= n)%nat ->
  pn_doc fold vtnames n acc (p ++ (STRING, ne_type e) :: ebody e ++ tNL :: flat_map chunkn es) = Some (rev acc ++ e :: es).
Proof.
  destruct (nested_parse T fold vtnames Hvt) as (HPe & _ & _). unfold Pe in HPe.
  induction es as [|e2 es IH]; intros e acc p n Hp He Hes Hn;
    rewrite app_length in Hn; cbn [length] in Hn; rewrite app_length in Hn; cbn [length] in Hn;
    replace n with (length p + S (n - length p - 1))%nat by lia; rewrite pn_doc_skip by exact Hp;
    cbn [pn_doc]; cbn [tok_eqb tok_tag N.eqb]; cbn -[pn_doc pn_elem ebody chunkn flat_map].
  - rewrite (HPe e true (tNL :: flat_map chunkn []) _ [] He) by lia.
    cbn [flat_map]. remember (n - length p - 1)%nat as m eqn:Em. pose proof (ebody_nonempty e).
    destruct m as [|[|m]]; [cbn [flat_map length] in Hn; lia|cbn [flat_map length] in Hn; lia|]. cbn. reflexivity.
  - cbn [forallb] in Hes. apply andb_prop in Hes. destruct Hes as [He2 Hes].
    rewrite (HPe e true (tNL :: flat_map chunkn (e2 :: es)) _ [] He) by lia.
    cbn [flat_map]. unfold chunkn at 1. cbn [app]. rewrite <- app_assoc. cbn [app].
    change (tNL :: tNL :: (STRING, ne_type e2) :: ebody e2 ++ tNL :: flat_map chunkn es)
      with ([tNL; tNL] ++ (STRING, ne_type e2) :: ebody e2 ++ tNL :: flat_map chunkn es).
    rewrite (IH e2 (e :: acc) [tNL; tNL]); [cbn [rev]; now rewrite <- app_assoc|reflexivity|exact He2|exact Hes|].
    cbn [flat_map] in Hn. unfold chunkn at 1 in Hn. cbn [app length] in Hn. rewrite <- app_assoc in Hn. cbn [app] in Hn.
    rewrite !app_length in Hn. cbn [length] in Hn. cbn [app length]. rewrite !app_length. cbn [length].
    pose proof (ebody_nonempty e). lia.
Qed.

Lemma lexn_doc_toks e es :
  toks_of (lexn_doc (e :: es)) = (STRING, ne_type e) :: ebody e ++ tNL :: flat_map chunkn es.
Proof.
  destruct toks_lexn as (Hte & _ & _).
  unfold lexn_doc. rewrite !toks_of_app, Hte. cbn [app]. f_equal. f_equal. cbn [toks_of map ltok_tok snd app]. fold tNL. f_equal.
  induction es as [|x es IH]; [reflexivity|]. cbn [flat_map]. rewrite toks_of_app, IH. f_equal.
  change (([], LNl) :: lexn_elem [] 0 x ++ [([], LNl)]) with ([([], LNl)] ++ lexn_elem [] 0 x ++ [([], LNl)]).
  rewrite !toks_of_app, Hte. reflexivity.
Qed.

Theorem parsen_tokens_doc d : ndoc_ok T fold vtnames d = true -> parsen_tokens fold vtnames (toks_of (lexn_doc d)) = Some d.
Proof.
  intros H. unfold ndoc_ok in H. apply andb_prop in H. destruct H as [Hne Hall].
  destruct d as [|e es]; [discriminate|]. cbn [forallb] in Hall. apply andb_prop in Hall. destruct Hall as [He Hes].
  unfold parsen_tokens. rewrite lexn_doc_toks.
  exact (pn_doc_elems es e [] [] _ eq_refl He Hes (Nat.le_succ_diag_r _)).
Qed.

(** every lexeme the nested writer emits is one the tokenizer lemma covers *)
Lemma blanks_tabs k : blanks (tabs k) = true.
Proof. induction k; [reflexivity|]. cbn [tabs repeat blanks forallb]. fold (tabs k). unfold blanks in IHk. now rewrite IHk. Qed.

Lemma lexn_ok :
  (forall e, forall top w k, blanks w = true -> nelem_ok T fold vtnames top e = true -> forallb (lexeme_ok T) (lexn_elem w k e) = true) /\
  (forall a, forall k, nattr_ok T fold vtnames a = true -> forallb (lexeme_ok T) (lexn_attr k a) = true) /\
  (forall it, forall is_elem w k, blanks w = true -> nitem_ok T fold vtnames is_elem it = true ->
              forallb (lexeme_ok T) (lexn_item w k it) = true).
Proof.
  destruct (literals_ok T fold vtnames Hvt) as (Hel & Heid & Hid & Hnm & Hst & Hnil). unfold literal_ok in *.
  apply nested_ind.
  - intros ty id nm attrs IH top w k Hw Hok.
    destruct (nelem_ok_parts T fold vtnames _ _ _ _ _ Hok) as (_ & Hu & Hattrs).
    rewrite lexn_elem_eq, !forallb_app.
    assert (Ha : forallb (lexeme_ok T) (flat_map (lexn_attr k) attrs) = true).
    { rewrite forallb_forall in Hattrs. rewrite Forall_forall in IH. apply forallb_forall. intros x Hx.
      apply in_flat_map in Hx. destruct Hx as [a [Ha Hx]]. pose proof (IH a Ha k (Hattrs a Ha)) as Hl.
      rewrite forallb_forall in Hl. now apply Hl. }
    rewrite Ha. unfold lexeme_ok, idl, namel. cbn [fst snd forallb andb]. rewrite Hw, !blanks_tabs, Hnm, Hst. cbn [andb blanks forallb].
    destruct id as [u|]; [|reflexivity]. unfold blank_free_uuid in Hu. apply andb_prop in Hu. destruct Hu as [Hu _].
    unfold literal_ok in Hu. cbn [fst snd forallb andb]. rewrite !blanks_tabs, Hid, Heid, Hu. reflexivity.
  - intros an at_ arr items IH k Hok.
    destruct (nattr_ok_parts T fold vtnames _ _ _ _ Hok) as (Hmem & _ & Hitems & Hshape).
    pose proof (vt_facts T fold vtnames Hvt _ Hmem) as Hv. unfold vtname_ok in Hv.
    repeat (apply andb_prop in Hv; destruct Hv as [Hv ?]).
    destruct arr.
    + rewrite lexn_attr_arr_eq, !forallb_app.
      assert (Hi : forallb (lexeme_ok T) (lexn_items k items) = true).
      { clear Hok Hshape. induction IH as [|it r Hit _ IHr]; [reflexivity|]. cbn [forallb] in Hitems. apply andb_prop in Hitems.
        destruct Hitems as [Hi Hr]. cbn [lexn_items]. rewrite !forallb_app, (Hit _ _ _ (blanks_tabs _) Hi), (IHr Hr).
        now destruct r. }
      rewrite Hi. unfold lexeme_ok. cbn [fst snd forallb andb]. rewrite !blanks_tabs.
      match goal with He : str_eqb (escape T false (at_ ++ s_array)) (at_ ++ s_array) = true |- _ => now rewrite He end.
    + destruct Hshape as [Hd|[it ->]]; [discriminate|]. cbn [forallb] in Hitems. apply andb_prop in Hitems. destruct Hitems as [Hit _].
      inversion IH as [|? ? Hpi _]; subst. cbn [lexn_attr]. destruct (is_elem_type at_) eqn:Ee.
      * cbn [forallb]. rewrite forallb_app, (Hpi true [SP] (S k) eq_refl Hit). unfold lexeme_ok. cbn [fst snd forallb andb].
        now rewrite blanks_tabs.
      * destruct it as [s| |u|e]; [|rewrite nitem_ok_null in Hit; discriminate|rewrite nitem_ok_ref in Hit; discriminate
                                   |rewrite nitem_ok_inline in Hit; discriminate].
        unfold lexeme_ok. cbn [fst snd forallb blanks andb]. rewrite blanks_tabs.
        match goal with He : str_eqb (escape T false at_) at_ = true |- _ => now rewrite He end.
  - intros s is_elem w k Hw _. cbn [lexn_item forallb]. unfold lexeme_ok. cbn [fst snd]. now rewrite Hw.
  - intros is_elem w k Hw _. cbn [lexn_item forallb]. unfold lexeme_ok. cbn [fst snd]. rewrite Hw, Hel, Hnil. reflexivity.
  - intros u is_elem w k Hw Hok. rewrite nitem_ok_ref in Hok. apply andb_prop in Hok. destruct Hok as [_ Hu].
    unfold blank_free_uuid in Hu. apply andb_prop in Hu. destruct Hu as [Hu _]. unfold literal_ok in Hu.
    cbn [lexn_item forallb]. unfold lexeme_ok. cbn [fst snd]. rewrite Hw, Hel, Hu. reflexivity.
  - intros e IH is_elem w k Hw Hok. rewrite nitem_ok_inline in Hok. apply andb_prop in Hok. destruct Hok as [_ He].
    cbn [lexn_item]. now apply (IH false).
Qed.

Lemma lexn_doc_ok d : ndoc_ok T fold vtnames d = true -> forallb (lexeme_ok T) (lexn_doc d) = true.
Proof.
  destruct lexn_ok as (Hle & _ & _).
  intros H. unfold ndoc_ok in H. apply andb_prop in H. destruct H as [_ Hall]. destruct d as [|e es]; [reflexivity|].
  cbn [forallb] in Hall. apply andb_prop in Hall. destruct Hall as [He Hes].
  unfold lexn_doc. rewrite !forallb_app, (Hle e true [] 0%nat eq_refl He), forallb_flat_map'. cbn [forallb andb].
  rewrite forallb_forall in Hes. apply forallb_forall. intros x Hx. cbn [forallb].
  rewrite forallb_app, (Hle x true [] 0%nat eq_refl (Hes x Hx)). reflexivity.
Qed.

(** The text [export_kv2] writes in the nested layout (after the header line), tokenized and parsed by
    [_parse_kv2_element] with its recursion into inline blocks, gives back the tree of blocks — provided no inline
    element has an attribute type keyword as its type. *)
Theorem kv2_nested_roundtrip_gen : forall d, ndoc_ok T fold vtnames d = true ->
  parsen_text T o fold vtnames (rendern_doc T d) = Some d.
Proof.
  intros d Hd. unfold parsen_text, rendern_doc.
  rewrite (tokenize_lexemes T o HT Ho (lexn_doc d) (lexn_doc_ok d Hd)).
  exact (parsen_tokens_doc d Hd).
Qed.
End NDoc.

Example kv2_nested_example :
  ndoc_ok pinned_tables (fun s => s) pinned_vtnames ex_ndoc = true.
Proof. vm_compute. reflexivity. Qed.
(** The carve-out is real: an inline element of type "element" inside an element array is read as a UUID reference,
    one of type "int" in a scalar attribute as a typed attribute (the defect repaired by writing them at the top level). *)
Example kv2_inline_keyword_refuted :
  let bad1 := [NElem [84] None [] [NAttr [97] s_element true [NInline (NElem s_element None [] [])]]] in
  let bad2 := [NElem [84] None [] [NAttr [97] s_element false [NInline (NElem [105;110;116] None [] [])]]] in
  ndoc_ok pinned_tables (fun s => s) pinned_vtnames bad1 = false /\
  parsen_text pinned_tables pinned_kv2_opts (fun s => s) pinned_vtnames (rendern_doc pinned_tables bad1) = None /\
  ndoc_ok pinned_tables (fun s => s) pinned_vtnames bad2 = false /\
  parsen_text pinned_tables pinned_kv2_opts (fun s => s) pinned_vtnames (rendern_doc pinned_tables bad2) = None.
Proof. vm_compute. repeat split; reflexivity. Qed.
