(** C11: references ACROSS lumps.  save() runs the writers in the order of LUMP_REBUILD_ORDER; the writer of lump [L] walks
    its own list (live: see BspWorklist.v) and turns every reference of an object - to an object of its own lump or of
    another lump [M] - into an index by [find_or_insert] on the list of [M], which appends what it does not know yet.  An
    object appended to the list of [M] gets its record when the writer of [M] runs: so [M] must come later in the order.
    Lumps are numbers, objects are keys [N], [refs L o] are the references of object [o] of lump [L] as (target lump, object).
    Executable definitions only; proofs in BspSaveOrderProofs.v. *)
From Coq Require Import NArith List Bool PeanoNat.
From SV Require Import Bin.FindInsert.
Import ListNotations.

Definition ref := (nat * N)%type.
Definition mrecord := (N * list (nat * nat))%type.      (* object, (target lump, index) for each of its references *)
Definition tables := nat -> fi_state.
Definition tupd (T : tables) (M : nat) (s : fi_state) : tables := fun x => if Nat.eqb x M then s else T x.
Definition rupd (R : nat -> list mrecord) (L : nat) (out : list mrecord) : nat -> list mrecord := fun x => if Nat.eqb x L then out else R x.

Section Save.
Variable refs : nat -> N -> list ref.

Fixpoint add_refs (T : tables) (rs : list ref) : tables * list (nat * nat) :=
  match rs with
  | [] => (T, [])
  | (M, k) :: r =>
      let '(s', i) := fi_find (T M) k in
      let '(T2, is) := add_refs (tupd T M s') r in
      (T2, (M, i) :: is)
  end.

(** The writer of lump [L]: [for o in list_L] over the live list. *)
Fixpoint mw_loop (fuel : nat) (L : nat) (T : tables) (pos : nat) (out : list mrecord) : tables * list mrecord * bool :=
  match fuel with
  | O => (T, out, false)
  | S f =>
      match nth_error (items (T L)) pos with
      | None => (T, out, true)
      | Some o => let '(T', idx) := add_refs T (refs L o) in mw_loop f L T' (S pos) (out ++ [(o, idx)])
      end
  end.

(** save(): the writers in order; every writer's records are kept. *)
Fixpoint msave (fuel : nat) (order : list nat) (T : tables) (R : nat -> list mrecord) : tables * (nat -> list mrecord) * bool :=
  match order with
  | [] => (T, R, true)
  | L :: r =>
      let '(T', out, ok) := mw_loop fuel L T 0 [] in
      if ok then msave fuel r T' (rupd R L out) else (T', R, false)
  end.

(** Every reference goes to the writer's own lump or to a lump that is rebuilt LATER. *)
Fixpoint forward (order : list nat) : Prop :=
  match order with
  | [] => True
  | L :: r => (forall o M k, In (M, k) (refs L o) -> M = L \/ In M r) /\ forward r
  end.
End Save.

(** What the reader does with a record: index [i] stored for a reference into lump [M] is resolved in the list of [M]. *)
Definition resolves (T : tables) (rs : list ref) (idx : list (nat * nat)) : Prop :=
  Forall2 (fun (r : ref) (mi : nat * nat) => fst r = fst mi /\ nth_error (items (T (fst r))) (snd mi) = Some (snd r)) rs idx.
