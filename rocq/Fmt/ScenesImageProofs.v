(* ScenesImageProofs.v -- properties of the scenes.image container model. *)

From Coq Require Import List NArith ZArith Lia Bool Arith Sorted Permutation.
From SV Require Import Fmt.ScenesImage.
Import ListNotations.
Local Open Scope N_scope.

(* ------------------------------------------------------------------ *)
(** * Generic list facts *)

Lemma skipn_app_exact {A : Type} (a b : list A) : skipn (length a) (a ++ b) = b.
Proof. induction a as [|x a IH]; cbn [length app skipn]; auto. Qed.

Lemma firstn_app_exact {A : Type} (a b : list A) : firstn (length a) (a ++ b) = a.
Proof. induction a as [|x a IH]; cbn [length app firstn]; f_equal; auto. Qed.

Lemma skipn_add {A : Type} (n m : nat) (l : list A) :
  skipn (n + m) l = skipn m (skipn n l).
Proof.
  revert l; induction n as [|n IH]; intros l.
  - reflexivity.
  - destruct l as [|x l]; cbn [Nat.add skipn].
    + destruct m; reflexivity.
    + apply IH.
Qed.

Lemma lenN_nil {A : Type} : lenN (@nil A) = 0.
Proof. reflexivity. Qed.

Lemma lenN_cons {A : Type} (x : A) (l : list A) : lenN (x :: l) = 1 + lenN l.
Proof. unfold lenN. cbn [length]. lia. Qed.

Lemma lenN_app {A : Type} (a b : list A) : lenN (a ++ b) = lenN a + lenN b.
Proof. unfold lenN. rewrite app_length. lia. Qed.

Lemma to_nat_lenN {A : Type} (l : list A) : N.to_nat (lenN l) = length l.
Proof. unfold lenN. apply Nat2N.id. Qed.

Lemma seek_eq (file : list N) (off : N) : seek file off = skipn (N.to_nat off) file.
Proof.
  unfold seek, lenN.
  destruct (N.leb_spec off (N.of_nat (length file))); [reflexivity|].
  symmetry; apply skipn_all2; lia.
Qed.

Lemma take_eq (n : N) (l : list N) : take n l = firstn (N.to_nat n) l.
Proof.
  unfold take, lenN.
  destruct (N.leb_spec n (N.of_nat (length l))); [reflexivity|].
  symmetry; apply firstn_all2; lia.
Qed.

Lemma take_ok (b r : list N) : take (lenN b) (b ++ r) = b.
Proof. rewrite take_eq, to_nat_lenN. apply firstn_app_exact. Qed.

(** Moving a cursor over a known segment. *)
Lemma skipn_advance (file : list N) (off off' : N) (a rest : list N) :
  skipn (N.to_nat off) file = a ++ rest ->
  off' = off + lenN a ->
  skipn (N.to_nat off') file = rest.
Proof.
  intros H ->. rewrite N2Nat.inj_add, to_nat_lenN, skipn_add, H.
  apply skipn_app_exact.
Qed.

Lemma skipn_lenN_le (file : list N) (n : nat) (a b : list N) :
  skipn n file = a ++ b -> lenN a <= lenN file.
Proof.
  intros H. apply (f_equal (@length N)) in H.
  rewrite skipn_length, app_length in H. unfold lenN. lia.
Qed.

Lemma mapM_ext_Forall2 {A B : Type} (f : A -> option B) (l : list A) (r : list B) :
  Forall2 (fun a b => f a = Some b) l r -> mapM f l = Some r.
Proof.
  induction 1 as [|a b l r Hab _ IH]; cbn [mapM]; [reflexivity|].
  rewrite Hab, IH. reflexivity.
Qed.

(* ------------------------------------------------------------------ *)
(** * 1. Little-endian integers *)

Lemma two32 : 2 ^ 32 = 4294967296.
Proof. reflexivity. Qed.

Lemma le32_arith (n : N) :
  n < 4294967296 ->
  n mod 256 + 256 * ((n / 256) mod 256) + 65536 * ((n / 65536) mod 256)
  + 16777216 * ((n / 16777216) mod 256) = n.
Proof.
  intros H.
  change 65536 with (256 * 256). change 16777216 with (256 * 256 * 256).
  rewrite <- !N.div_div by lia.
  pose proof (N.div_mod n 256 ltac:(lia)) as E0.
  pose proof (N.div_mod (n / 256) 256 ltac:(lia)) as E1.
  pose proof (N.div_mod (n / 256 / 256) 256 ltac:(lia)) as E2.
  pose proof (N.div_mod (n / 256 / 256 / 256) 256 ltac:(lia)) as E3.
  pose proof (N.mod_lt n 256 ltac:(lia)) as L0.
  pose proof (N.mod_lt (n / 256) 256 ltac:(lia)) as L1.
  pose proof (N.mod_lt (n / 256 / 256) 256 ltac:(lia)) as L2.
  pose proof (N.mod_lt (n / 256 / 256 / 256) 256 ltac:(lia)) as L3.
  set (q1 := n / 256) in *. set (q2 := q1 / 256) in *.
  set (q3 := q2 / 256) in *. set (q4 := q3 / 256) in *.
  set (r0 := n mod 256) in *. set (r1 := q1 mod 256) in *.
  set (r2 := q2 mod 256) in *. set (r3 := q3 mod 256) in *.
  clearbody r0 r1 r2 r3 q4. clearbody q3. clearbody q2. clearbody q1.
  assert (q4 = 0) by lia.
  lia.
Qed.

Lemma le32_length (n : N) : length (le32 n) = 4%nat.
Proof. reflexivity. Qed.

Lemma lenN_le32 (n : N) : lenN (le32 n) = 4.
Proof. reflexivity. Qed.

Lemma le32_bytes (n : N) : Forall (fun b => b < 256) (le32 n).
Proof. unfold le32. repeat constructor; apply N.mod_lt; lia. Qed.

Lemma rd32_le32 (n : N) (r : list N) :
  n < 4294967296 -> rd32 (le32 n ++ r) = Some (n, r).
Proof.
  intros H. unfold le32. cbn [app]. unfold rd32.
  rewrite (le32_arith n H). reflexivity.
Qed.

Theorem le32_de32 (n : N) (rest : list N) :
  n < 2 ^ 32 -> de32 (le32 n ++ rest) = Some n.
Proof.
  rewrite two32. intros H. unfold de32. rewrite rd32_le32 by assumption.
  reflexivity.
Qed.

Lemma de32_short (b : list N) : (length b < 4)%nat -> de32 b = None.
Proof.
  intros H. do 4 (destruct b as [|? b]; [reflexivity|]).
  cbn [length] in H. lia.
Qed.

(** From here on [le32] is handled through the lemmas above only. *)
Arguments le32 : simpl never.

Lemma lenN_flat_le32 (xs : list N) : lenN (flat_map le32 xs) = 4 * lenN xs.
Proof.
  induction xs as [|x xs IH]; [reflexivity|].
  cbn [flat_map]. rewrite lenN_app, lenN_cons, IH, lenN_le32. lia.
Qed.

Lemma read_ints_ok (xs r : list N) :
  Forall (fun x => x < 4294967296) xs ->
  read_ints (length xs) (flat_map le32 xs ++ r) = Some xs.
Proof.
  induction 1 as [|x xs Hx _ IH]; cbn [length flat_map read_ints]; [reflexivity|].
  rewrite <- app_assoc, rd32_le32 by assumption. cbv beta iota.
  rewrite IH. reflexivity.
Qed.

(* ------------------------------------------------------------------ *)
(** * 2. The sort *)

Definition crc_le (a b : entry) : Prop := e_crc a <= e_crc b.

Lemma insert_crc_perm (e : entry) (l : list entry) :
  Permutation (e :: l) (insert_crc e l).
Proof.
  induction l as [|h t IH]; cbn [insert_crc]; [apply Permutation_refl|].
  destruct (e_crc e <=? e_crc h); [apply Permutation_refl|].
  eapply perm_trans; [apply perm_swap|]. apply perm_skip. exact IH.
Qed.

Theorem sort_by_crc_perm (es : list entry) : Permutation es (sort_by_crc es).
Proof.
  induction es as [|e t IH]; [apply perm_nil|].
  cbn [sort_by_crc fold_right].
  eapply perm_trans; [apply perm_skip; exact IH|]. apply insert_crc_perm.
Qed.

Lemma insert_crc_Forall (P : entry -> Prop) (e : entry) (l : list entry) :
  P e -> Forall P l -> Forall P (insert_crc e l).
Proof.
  intros He Hl. eapply Permutation_Forall; [apply insert_crc_perm|].
  constructor; assumption.
Qed.

Lemma insert_crc_sorted (e : entry) (l : list entry) :
  StronglySorted crc_le l -> StronglySorted crc_le (insert_crc e l).
Proof.
  induction 1 as [|h t Hs IH Hh]; cbn [insert_crc].
  - constructor; constructor.
  - destruct (N.leb_spec (e_crc e) (e_crc h)) as [Hle|Hlt].
    + constructor; [constructor; assumption|].
      constructor; [exact Hle|].
      eapply Forall_impl; [|exact Hh]. unfold crc_le. intros a Ha. lia.
    + constructor; [exact IH|].
      apply insert_crc_Forall; [unfold crc_le; lia | exact Hh].
Qed.

Theorem sort_by_crc_strongly_sorted (es : list entry) :
  StronglySorted (fun a b => e_crc a <= e_crc b) (sort_by_crc es).
Proof.
  change (StronglySorted crc_le (sort_by_crc es)).
  induction es as [|e t IH]; [constructor|].
  cbn [sort_by_crc fold_right]. apply insert_crc_sorted. exact IH.
Qed.

Theorem sort_by_crc_sorted (es : list entry) :
  Sorted (fun a b => e_crc a <= e_crc b) (sort_by_crc es).
Proof. apply StronglySorted_Sorted, sort_by_crc_strongly_sorted. Qed.

Lemma sort_by_crc_length (es : list entry) :
  length (sort_by_crc es) = length es.
Proof. symmetry. apply Permutation_length, sort_by_crc_perm. Qed.

(** Stability: entries with equal crc keep their relative order. *)
Lemma insert_crc_filter (c : N) (e : entry) (l : list entry) :
  filter (fun x => e_crc x =? c) (insert_crc e l)
  = filter (fun x => e_crc x =? c) (e :: l).
Proof.
  induction l as [|h t IH]; [reflexivity|].
  cbn [insert_crc].
  destruct (N.leb_spec (e_crc e) (e_crc h)) as [Hle|Hlt]; [reflexivity|].
  cbn [filter] in *. rewrite IH.
  destruct (N.eqb_spec (e_crc h) c), (N.eqb_spec (e_crc e) c);
    try reflexivity.
  lia.
Qed.

Theorem sort_by_crc_stable (c : N) (es : list entry) :
  filter (fun x => e_crc x =? c) (sort_by_crc es)
  = filter (fun x => e_crc x =? c) es.
Proof.
  induction es as [|e t IH]; [reflexivity|].
  cbn [sort_by_crc fold_right]. rewrite insert_crc_filter.
  cbn [filter]. fold (sort_by_crc t). rewrite IH. reflexivity.
Qed.

Lemma StronglySorted_map {A B : Type} (f : A -> B) (R : B -> B -> Prop) (l : list A) :
  StronglySorted (fun a b => R (f a) (f b)) l -> StronglySorted R (map f l).
Proof.
  induction 1 as [|a l Hs IH Ha]; cbn [map]; constructor; [exact IH|].
  apply Forall_map. exact Ha.
Qed.

(* ------------------------------------------------------------------ *)
(** * Reader lemmas, one per section of the file *)

(** ** The string pool *)

Lemma scan0_ok (s r : list N) :
  Forall (fun b => b <> 0) s ->
  forall fuel, (length s < fuel)%nat -> scan0 fuel (s ++ 0 :: r) = Some s.
Proof.
  induction 1 as [|b s Hb _ IH]; intros fuel Hf;
    (destruct fuel as [|fuel]; [cbn [length] in Hf; lia|]);
    cbn [app scan0 length] in *.
  - reflexivity.
  - destruct (N.eqb_spec b 0) as [E|_]; [contradiction|].
    rewrite IH by lia. reflexivity.
Qed.

Lemma lenN_str_bytes (s : list N) : lenN (str_bytes s) = lenN s + 1.
Proof. unfold str_bytes. rewrite lenN_app. reflexivity. Qed.

Lemma str_offsets_length (pool : list (list N)) :
  forall start, length (str_offsets start pool) = length pool.
Proof.
  induction pool as [|s t IH]; intros start; cbn [str_offsets length]; auto.
Qed.

Lemma lenN_str_offsets (pool : list (list N)) (start : N) :
  lenN (str_offsets start pool) = lenN pool.
Proof. unfold lenN. rewrite str_offsets_length. reflexivity. Qed.

Lemma str_offsets_bound (pool : list (list N)) :
  forall start bound,
    start + lenN (flat_map str_bytes pool) <= bound ->
    Forall (fun o => o <= bound) (str_offsets start pool).
Proof.
  induction pool as [|s t IH]; intros start bound H;
    cbn [str_offsets flat_map] in *; constructor.
  - lia.
  - apply IH. rewrite lenN_app in H. lia.
Qed.

Lemma read_strs_ok (file : list N) (pool : list (list N)) :
  forall start R,
    Forall str_ok pool ->
    0 < start ->
    skipn (N.to_nat start) file = flat_map str_bytes pool ++ R ->
    mapM (read_str file) (str_offsets start pool) = Some pool.
Proof.
  induction pool as [|s t IH]; intros start R Hok Hpos Hsk; [reflexivity|].
  cbn [str_offsets mapM flat_map] in *.
  pose proof (Forall_inv Hok) as Hs. pose proof (Forall_inv_tail Hok) as Ht.
  rewrite <- app_assoc in Hsk.
  assert (read_str file start = Some s) as ->.
  { unfold read_str. destruct (N.eqb_spec start 0) as [E|_]; [lia|].
    rewrite seek_eq, Hsk. unfold str_bytes. rewrite <- app_assoc. cbn [app].
    apply scan0_ok.
    - unfold str_ok in Hs. eapply Forall_impl; [|exact Hs].
      cbv beta. intros a Ha. lia.
    - apply (f_equal (@length N)) in Hsk. rewrite skipn_length in Hsk.
      unfold str_bytes in Hsk. rewrite !app_length in Hsk.
      cbn [length] in Hsk. lia. }
  rewrite (IH (start + lenN (str_bytes s)) R); [reflexivity|exact Ht|lia|].
  eapply skipn_advance; [exact Hsk|reflexivity].
Qed.

(** ** The entry table *)

Definition rec_ok (r : rawrec) : Prop :=
  let '(c, d, s, o) := r in
  c < 4294967296 /\ d < 4294967296 /\ s < 4294967296 /\ o < 4294967296.

Lemma lenN_rec_bytes (r : rawrec) : lenN (rec_bytes r) = 16.
Proof. destruct r as [[[c d] s] o]. reflexivity. Qed.

Lemma lenN_flat_rec_bytes (rs : list rawrec) :
  lenN (flat_map rec_bytes rs) = 16 * lenN rs.
Proof.
  induction rs as [|r rs IH]; [reflexivity|].
  cbn [flat_map]. rewrite lenN_app, lenN_cons, IH, lenN_rec_bytes. lia.
Qed.

Lemma read_recs_ok (rs : list rawrec) (r : list N) :
  Forall rec_ok rs ->
  read_recs (length rs) (flat_map rec_bytes rs ++ r) = Some rs.
Proof.
  induction 1 as [|[[[c d] s] o] rs (Hc & Hd & Hs & Ho) _ IH];
    cbn [length flat_map read_recs rec_bytes]; [reflexivity|].
  rewrite <- !app_assoc.
  rewrite rd32_le32 by assumption; cbv beta iota.
  rewrite rd32_le32 by assumption; cbv beta iota.
  rewrite rd32_le32 by assumption; cbv beta iota.
  rewrite rd32_le32 by assumption; cbv beta iota.
  rewrite IH. reflexivity.
Qed.

Lemma recs_length (v : N) (es : list entry) :
  forall soff doff, length (recs v es soff doff) = length es.
Proof.
  induction es as [|e t IH]; intros soff doff; cbn [recs length]; auto.
Qed.

Lemma lenN_recs (v : N) (es : list entry) (soff doff : N) :
  lenN (recs v es soff doff) = lenN es.
Proof. unfold lenN. rewrite recs_length. reflexivity. Qed.

Lemma recs_ok (v : N) (es : list entry) :
  forall soff doff bound,
    Forall (fun e => e_crc e < 4294967296) es ->
    soff + lenN (flat_map (summary v) es) <= bound ->
    doff + lenN (flat_map e_blob es) <= bound ->
    bound < 4294967296 ->
    Forall rec_ok (recs v es soff doff).
Proof.
  induction es as [|e t IH]; intros soff doff bound Hc Hs Hd Hb;
    cbn [recs flat_map] in *; constructor.
  - rewrite lenN_app in *. pose proof (Forall_inv Hc) as Hc0. cbv beta in Hc0.
    unfold rec_ok. repeat split; lia.
  - rewrite lenN_app in *.
    apply (IH _ _ bound); [exact (Forall_inv_tail Hc)|lia|lia|exact Hb].
Qed.

Lemma map_crc_recs (v : N) (es : list entry) :
  forall soff doff,
    map (fun r : rawrec => let '(c, _, _, _) := r in c) (recs v es soff doff)
    = map e_crc es.
Proof.
  induction es as [|e t IH]; intros soff doff; cbn [recs map]; [reflexivity|].
  rewrite IH. reflexivity.
Qed.

(** ** Summaries, blobs *)

Lemma lenN_summary (v : N) (e : entry) :
  lenN (summary v e)
  = 8 + (if v =? 3 then 4 else 0) + 4 * lenN (e_sounds e).
Proof.
  unfold summary. rewrite !lenN_app, lenN_flat_le32, !lenN_le32.
  destruct (v =? 3); [rewrite lenN_le32|rewrite lenN_nil]; lia.
Qed.

Lemma read_summary_ok (v : N) (e : entry) (r : list N) :
  e_dur e < 4294967296 ->
  e_last e < 4294967296 ->
  Forall (fun i => i < 4294967296) (e_sounds e) ->
  lenN (e_sounds e) < 4294967296 ->
  read_summary v (summary v e ++ r)
  = Some (e_dur e, (if v =? 3 then e_last e else e_dur e), e_sounds e).
Proof.
  intros Hd Hl Hs Hn. unfold read_summary, summary.
  rewrite <- !app_assoc.
  rewrite rd32_le32 by assumption; cbv beta iota.
  destruct (v =? 3).
  - rewrite rd32_le32 by assumption; cbv beta iota.
    rewrite rd32_le32 by assumption; cbv beta iota.
    destruct (N.leb_spec (lenN (e_sounds e)) (lenN (flat_map le32 (e_sounds e) ++ r))) as [_|Hbad].
    + rewrite to_nat_lenN, read_ints_ok by assumption. reflexivity.
    + rewrite lenN_app, lenN_flat_le32 in Hbad. lia.
  - cbn [app].
    rewrite rd32_le32 by assumption; cbv beta iota.
    destruct (N.leb_spec (lenN (e_sounds e)) (lenN (flat_map le32 (e_sounds e) ++ r))) as [_|Hbad].
    + rewrite to_nat_lenN, read_ints_ok by assumption. reflexivity.
    + rewrite lenN_app, lenN_flat_le32 in Hbad. lia.
Qed.

Lemma lookup_all_ok (pool : list (list N)) (idx : list N) :
  Forall (fun i => i < lenN pool) idx ->
  mapM (lookup pool) idx = Some (map (fun i => nth (N.to_nat i) pool []) idx).
Proof.
  induction 1 as [|i idx Hi _ IH]; cbn [mapM map]; [reflexivity|].
  unfold lookup at 1. destruct (N.ltb_spec i (lenN pool)); [|lia].
  rewrite IH. reflexivity.
Qed.

Lemma read_entry_ok (file : list N) (v : N) (pool : list (list N)) (e : entry)
    (soff doff : N) (Bs R : list N) :
  entry_ok (lenN pool) e ->
  lenN file < 4294967296 ->
  lenN pool < 4294967296 ->
  doff < 2147483648 ->
  skipn (N.to_nat soff) file = summary v e ++ Bs ->
  skipn (N.to_nat doff) file = e_blob e ++ R ->
  read_entry file v pool (e_crc e, doff, lenN (e_blob e), soff)
  = Some (to_pentry v pool e).
Proof.
  intros (Hc & Hd & Hl & Hs) Hf Hp Hdo Hsum Hblob.
  unfold read_entry. cbv beta iota.
  rewrite seek_eq, Hsum.
  rewrite read_summary_ok; try assumption.
  - cbv beta iota. rewrite (lookup_all_ok pool (e_sounds e) Hs).
    destruct (N.leb_spec 2147483648 doff) as [Hbad|_]; [lia|].
    rewrite seek_eq, Hblob, take_ok. reflexivity.
  - eapply Forall_impl; [|exact Hs]. cbv beta. intros a Ha. lia.
  - pose proof (skipn_lenN_le _ _ _ _ Hsum) as Hle.
    rewrite lenN_summary in Hle. lia.
Qed.

Lemma read_entries_ok (file : list N) (v : N) (pool : list (list N)) (es : list entry) :
  forall soff doff Bs R,
    Forall (entry_ok (lenN pool)) es ->
    lenN file < 4294967296 ->
    lenN pool < 4294967296 ->
    doff + lenN (flat_map e_blob es) < 2147483648 ->
    skipn (N.to_nat soff) file = flat_map (summary v) es ++ Bs ->
    skipn (N.to_nat doff) file = flat_map e_blob es ++ R ->
    mapM (read_entry file v pool) (recs v es soff doff)
    = Some (map (to_pentry v pool) es).
Proof.
  induction es as [|e t IH]; intros soff doff Bs R Hok Hf Hp Hdo Hsum Hblob;
    [reflexivity|].
  cbn [recs mapM map flat_map] in *.
  rewrite lenN_app in Hdo.
  rewrite <- app_assoc in Hsum, Hblob.
  rewrite (read_entry_ok file v pool e soff doff _ _
             (Forall_inv Hok) Hf Hp ltac:(lia) Hsum Hblob).
  rewrite (IH _ _ Bs R (Forall_inv_tail Hok) Hf Hp).
  - reflexivity.
  - lia.
  - eapply skipn_advance; [exact Hsum|reflexivity].
  - eapply skipn_advance; [exact Hblob|reflexivity].
Qed.

(** ** Header *)

Lemma lenN_sec_header (v a b c : N) : lenN (sec_header v a b c) = 20.
Proof. reflexivity. Qed.

Lemma parse_header_ok (v a b c : N) (r : list N) :
  v < 4294967296 -> a < 4294967296 -> b < 4294967296 -> c < 4294967296 ->
  parse_header (sec_header v a b c ++ r) = Some (v, a, b, c, r).
Proof.
  intros Hv Ha Hb Hc. unfold sec_header, magic.
  rewrite <- !app_assoc. cbn [app]. unfold parse_header.
  change ((86 =? 86) && (83 =? 83) && (73 =? 73) && (70 =? 70)) with true.
  cbv beta iota.
  rewrite rd32_le32 by assumption; cbv beta iota.
  rewrite rd32_le32 by assumption; cbv beta iota.
  rewrite rd32_le32 by assumption; cbv beta iota.
  rewrite rd32_le32 by assumption; cbv beta iota.
  reflexivity.
Qed.

(* ------------------------------------------------------------------ *)
(** * The whole file *)

(** The writer after sorting. *)
Definition layout (v : N) (pool : list (list N)) (l : list entry) : list N :=
  let npool := lenN pool in
  let nent := lenN l in
  let strs := flat_map str_bytes pool in
  let str_start := 20 + 4 * npool in
  let scene_off := str_start + lenN strs in
  let sums := flat_map (summary v) l in
  let blobs := flat_map e_blob l in
  let soff := scene_off + 16 * nent in
  let doff := soff + lenN sums in
  sec_header v nent npool scene_off
  ++ flat_map le32 (str_offsets str_start pool)
  ++ strs
  ++ flat_map rec_bytes (recs v l soff doff)
  ++ sums
  ++ blobs.

Lemma img_write_layout (v : N) (pool : list (list N)) (es : list entry) :
  img_write v pool es = layout v pool (sort_by_crc es).
Proof. reflexivity. Qed.

Lemma lenN_layout (v : N) (pool : list (list N)) (l : list entry) :
  lenN (layout v pool l)
  = 20 + 4 * lenN pool + lenN (flat_map str_bytes pool) + 16 * lenN l
    + lenN (flat_map (summary v) l) + lenN (flat_map e_blob l).
Proof.
  unfold layout. cbv zeta.
  rewrite !lenN_app, lenN_sec_header, lenN_flat_le32, lenN_flat_rec_bytes.
  rewrite lenN_str_offsets, lenN_recs. lia.
Qed.

Lemma parse_layout (v : N) (pool : list (list N)) (l : list entry) :
  (v = 2 \/ v = 3) ->
  Forall str_ok pool ->
  Forall (entry_ok (lenN pool)) l ->
  lenN (layout v pool l) < 2147483648 ->
  img_parse (layout v pool l) = Some (v, pool, map (to_pentry v pool) l).
Proof.
  intros Hv Hpool Hes Hlen.
  rewrite lenN_layout in Hlen.
  remember (layout v pool l) as file eqn:Hfile.
  assert (HlenF : lenN file
    = 20 + 4 * lenN pool + lenN (flat_map str_bytes pool) + 16 * lenN l
      + lenN (flat_map (summary v) l) + lenN (flat_map e_blob l))
    by (rewrite Hfile; apply lenN_layout).
  unfold layout in Hfile. cbv zeta in Hfile.
  set (strs := flat_map str_bytes pool) in *.
  set (sums := flat_map (summary v) l) in *.
  set (blobs := flat_map e_blob l) in *.
  set (str_start := 20 + 4 * lenN pool) in *.
  set (scene_off := str_start + lenN strs) in *.
  set (soff := scene_off + 16 * lenN l) in *.
  set (doff := soff + lenN sums) in *.
  set (S2 := flat_map le32 (str_offsets str_start pool)) in *.
  set (S4 := flat_map rec_bytes (recs v l soff doff)) in *.
  assert (HS2 : lenN S2 = 4 * lenN pool).
  { unfold S2. rewrite lenN_flat_le32, lenN_str_offsets. reflexivity. }
  assert (HS4 : lenN S4 = 16 * lenN l).
  { unfold S4. rewrite lenN_flat_rec_bytes, lenN_recs. reflexivity. }
  (* cursor positions *)
  assert (K0 : skipn (N.to_nat 0) file
               = sec_header v (lenN l) (lenN pool) scene_off
                 ++ S2 ++ strs ++ S4 ++ sums ++ blobs)
    by (rewrite Hfile; reflexivity).
  assert (K1 : skipn (N.to_nat 20) file = S2 ++ strs ++ S4 ++ sums ++ blobs)
    by (eapply skipn_advance; [exact K0|rewrite lenN_sec_header; reflexivity]).
  assert (K2 : skipn (N.to_nat str_start) file = strs ++ S4 ++ sums ++ blobs)
    by (eapply skipn_advance; [exact K1|rewrite HS2; reflexivity]).
  assert (K3 : skipn (N.to_nat scene_off) file = S4 ++ sums ++ blobs)
    by (eapply skipn_advance; [exact K2|reflexivity]).
  assert (K4 : skipn (N.to_nat soff) file = sums ++ blobs)
    by (eapply skipn_advance; [exact K3|rewrite HS4; reflexivity]).
  assert (K5 : skipn (N.to_nat doff) file = blobs ++ [])
    by (rewrite app_nil_r; eapply skipn_advance; [exact K4|reflexivity]).
  (* bounds *)
  assert (Hv32 : v < 4294967296) by (destruct Hv; subst v; lia).
  assert (Hso : scene_off <= lenN file) by (unfold scene_off, str_start; lia).
  (* header *)
  unfold img_parse.
  assert (parse_header file
          = Some (v, lenN l, lenN pool, scene_off,
                  S2 ++ strs ++ S4 ++ sums ++ blobs)) as ->.
  { rewrite Hfile. apply parse_header_ok; lia. }
  cbv beta iota. unfold parse_body.
  assert (negb ((v =? 2) || (v =? 3)) = false) as ->
    by (destruct Hv; subst v; reflexivity).
  assert (negb (lenN pool <=? lenN file) = false) as ->
    by (apply negb_false_iff, N.leb_le; lia).
  cbv beta iota.
  (* pool offsets *)
  assert (read_ints (N.to_nat (lenN pool)) (S2 ++ strs ++ S4 ++ sums ++ blobs)
          = Some (str_offsets str_start pool)) as ->.
  { rewrite to_nat_lenN, <- (str_offsets_length pool str_start).
    unfold S2. apply read_ints_ok.
    eapply Forall_impl;
      [|apply (str_offsets_bound pool str_start (lenN file));
        unfold str_start; fold strs; lia].
    cbv beta. intros a Ha. lia. }
  (* pool strings *)
  rewrite (read_strs_ok file pool str_start (S4 ++ sums ++ blobs) Hpool);
    [|unfold str_start; lia|exact K2].
  destruct (N.leb_spec 2147483648 scene_off) as [Hbad|_]; [lia|].
  destruct (N.leb_spec 2147483648 (lenN l)) as [Hbad|_]; [lia|].
  assert (negb (lenN l <=? lenN file) = false) as ->
    by (apply negb_false_iff, N.leb_le; lia).
  cbv beta iota.
  (* entry table *)
  rewrite seek_eq, K3.
  assert (read_recs (N.to_nat (lenN l)) (S4 ++ sums ++ blobs)
          = Some (recs v l soff doff)) as ->.
  { rewrite to_nat_lenN, <- (recs_length v l soff doff).
    unfold S4. apply read_recs_ok.
    apply (recs_ok v l soff doff (lenN file)).
    - eapply Forall_impl; [|exact Hes]. intros a (Ha & _). exact Ha.
    - fold sums. unfold soff, scene_off, str_start. lia.
    - fold blobs. unfold doff, soff, scene_off, str_start. lia.
    - lia. }
  (* entries *)
  rewrite (read_entries_ok file v pool l soff doff blobs [] Hes);
    [reflexivity|lia|lia|fold blobs; unfold doff, soff, scene_off, str_start; lia
    |exact K4|exact K5].
Qed.

(* ------------------------------------------------------------------ *)
(** * image_ok and its boolean twin *)

Lemma str_okb_sound (s : list N) : str_okb s = true -> str_ok s.
Proof.
  unfold str_okb, str_ok. intros H. apply Forall_forall. intros b Hb.
  rewrite forallb_forall in H. specialize (H b Hb).
  apply andb_true_iff in H. destruct H as [H1 H2].
  apply N.ltb_lt in H1. apply N.ltb_lt in H2. split; assumption.
Qed.

Lemma entry_okb_sound (npool : N) (e : entry) :
  entry_okb npool e = true -> entry_ok npool e.
Proof.
  unfold entry_okb, entry_ok. intros H.
  repeat (apply andb_true_iff in H; destruct H as [H ?]).
  repeat match goal with
         | X : (_ <? _) = true |- _ => apply N.ltb_lt in X
         end.
  repeat split; try assumption.
  apply Forall_forall. intros i Hi.
  match goal with
  | X : forallb _ _ = true |- _ =>
      rewrite forallb_forall in X; specialize (X i Hi); apply N.ltb_lt in X;
      exact X
  end.
Qed.

Theorem image_okb_sound (v : N) (pool : list (list N)) (es : list entry) :
  image_okb v pool es = true -> image_ok v pool es.
Proof.
  unfold image_okb, image_ok. intros H.
  apply andb_true_iff in H. destruct H as [H H4].
  apply andb_true_iff in H. destruct H as [H H3].
  apply andb_true_iff in H. destruct H as [H1 H2].
  split; [|split; [|split]].
  - apply orb_true_iff in H1. destruct H1 as [H1|H1];
      apply N.eqb_eq in H1; auto.
  - apply Forall_forall. intros s Hs. apply str_okb_sound.
    rewrite forallb_forall in H2. auto.
  - apply Forall_forall. intros e He. apply entry_okb_sound.
    rewrite forallb_forall in H3. auto.
  - apply N.ltb_lt. exact H4.
Qed.

(* ------------------------------------------------------------------ *)
(** * 4. Round trip *)

Theorem image_roundtrip (version : N) (pool : list (list N)) (es : list entry) :
  image_ok version pool es ->
  img_parse (img_write version pool es)
  = Some (version, pool, map (to_pentry version pool) (sort_by_crc es)).
Proof.
  intros (Hv & Hpool & Hes & Hlen).
  rewrite img_write_layout in *.
  apply parse_layout; try assumption.
  eapply Permutation_Forall; [apply sort_by_crc_perm|exact Hes].
Qed.

(** Header + pool alone (weaker, kept as a separate statement). *)
Corollary image_roundtrip_pool (version : N) (pool : list (list N)) (es : list entry) :
  image_ok version pool es ->
  exists ps, img_parse (img_write version pool es) = Some (version, pool, ps)
             /\ length ps = length es.
Proof.
  intros H. eexists; split; [apply image_roundtrip; exact H|].
  rewrite map_length. apply sort_by_crc_length.
Qed.

(* ------------------------------------------------------------------ *)
(** * 3. The parsed table is sorted by crc *)

Lemma map_p_crc_to_pentry (v : N) (pool : list (list N)) (l : list entry) :
  map p_crc (map (to_pentry v pool) l) = map e_crc l.
Proof. rewrite map_map. reflexivity. Qed.

Theorem image_sorted_by_crc (version : N) (pool : list (list N)) (es : list entry) :
  image_ok version pool es ->
  exists ps,
    img_parse (img_write version pool es) = Some (version, pool, ps)
    /\ StronglySorted N.le (map p_crc ps)
    /\ Sorted N.le (map p_crc ps)
    /\ Permutation (map e_crc es) (map p_crc ps).
Proof.
  intros H. eexists. split; [apply image_roundtrip; exact H|].
  rewrite map_p_crc_to_pentry.
  assert (S : StronglySorted N.le (map e_crc (sort_by_crc es))).
  { apply StronglySorted_map. apply sort_by_crc_strongly_sorted. }
  split; [exact S|]. split; [apply StronglySorted_Sorted; exact S|].
  apply Permutation_map, sort_by_crc_perm.
Qed.

(* ------------------------------------------------------------------ *)
(** * 5. Codec *)

Section Codec.
  Variables (store unstore : list N -> list N).
  Hypothesis unstore_store : forall d, unstore (store d) = d.

  (** An entry whose [e_blob] is the (uncompressed) payload becomes the
      entry actually written. *)
  Definition store_entry (e : entry) : entry :=
    mkEntry (e_crc e) (e_dur e) (e_last e) (e_sounds e) (store (e_blob e)).

  Definition unstore_pentry (p : pentry) : pentry :=
    mkPentry (p_crc p) (p_dur p) (p_last p) (p_sounds p) (unstore (p_blob p)).

  Lemma insert_crc_store (e : entry) (l : list entry) :
    insert_crc (store_entry e) (map store_entry l)
    = map store_entry (insert_crc e l).
  Proof.
    induction l as [|h t IH]; [reflexivity|].
    cbn [map insert_crc store_entry e_crc].
    destruct (e_crc e <=? e_crc h); cbn [map]; [reflexivity|].
    f_equal. exact IH.
  Qed.

  Lemma sort_by_crc_store (es : list entry) :
    sort_by_crc (map store_entry es) = map store_entry (sort_by_crc es).
  Proof.
    induction es as [|e t IH]; [reflexivity|].
    cbn [map sort_by_crc fold_right]. fold (sort_by_crc (map store_entry t)).
    rewrite IH. apply insert_crc_store.
  Qed.

  Lemma unstore_to_pentry (v : N) (pool : list (list N)) (e : entry) :
    unstore_pentry (to_pentry v pool (store_entry e)) = to_pentry v pool e.
  Proof.
    unfold unstore_pentry, to_pentry, store_entry.
    cbn [p_crc p_dur p_last p_sounds p_blob e_crc e_dur e_last e_sounds e_blob].
    rewrite unstore_store. reflexivity.
  Qed.

  Theorem image_payload_roundtrip (version : N) (pool : list (list N))
      (es : list entry) :
    image_ok version pool (map store_entry es) ->
    exists ps,
      img_parse (img_write version pool (map store_entry es))
      = Some (version, pool, ps)
      /\ map unstore_pentry ps = map (to_pentry version pool) (sort_by_crc es)
      /\ map (fun p => unstore (p_blob p)) ps = map e_blob (sort_by_crc es).
  Proof.
    intros H. eexists. split; [apply image_roundtrip; exact H|].
    rewrite sort_by_crc_store, !map_map. split.
    - apply map_ext. intros e. apply unstore_to_pentry.
    - apply map_ext. intros e.
      cbn [to_pentry store_entry p_blob e_blob]. apply unstore_store.
  Qed.
End Codec.

(* ------------------------------------------------------------------ *)
(** * The DeferredWrites-faithful writer *)

Lemma recs_py_eq (v : N) (l : list entry) :
  no_adj_dup l = true ->
  forall soff doff, recs_py v l soff doff = recs v l soff doff.
Proof.
  induction l as [|e t IH]; intros H soff doff; [reflexivity|].
  cbn [no_adj_dup recs_py recs] in *.
  apply andb_true_iff in H. destruct H as [H1 H2].
  apply negb_true_iff in H1. rewrite H1, (IH H2). reflexivity.
Qed.

Theorem img_write_py_eq (version : N) (pool : list (list N)) (es : list entry) :
  crcs_distinctb es = true ->
  img_write_py version pool es = img_write version pool es.
Proof.
  intros H. unfold img_write_py, img_write. cbv zeta.
  rewrite (recs_py_eq version (sort_by_crc es) H). reflexivity.
Qed.

Corollary image_roundtrip_py (version : N) (pool : list (list N)) (es : list entry) :
  image_ok version pool es ->
  crcs_distinctb es = true ->
  img_parse (img_write_py version pool es)
  = Some (version, pool, map (to_pentry version pool) (sort_by_crc es)).
Proof.
  intros H D. rewrite (img_write_py_eq version pool es D).
  apply image_roundtrip. exact H.
Qed.

(* ------------------------------------------------------------------ *)
(** * Concrete witnesses (hypotheses are satisfiable) *)

Definition ex_pool : list (list N) := [[97; 46; 119; 97; 118]; [98; 98]].

Definition ex_entries : list entry :=
  [ mkEntry 3000000000 1500 1200 [1; 0] [98; 118; 99; 100; 0; 255; 7];
    mkEntry 17 250 200 [0] [1; 2; 3] ].

Example ex_ok3 : image_okb 3 ex_pool ex_entries = true.
Proof. vm_compute. reflexivity. Qed.

Example ex_ok2 : image_okb 2 ex_pool ex_entries = true.
Proof. vm_compute. reflexivity. Qed.

Example ex_image_ok3 : image_ok 3 ex_pool ex_entries.
Proof. apply image_okb_sound. vm_compute. reflexivity. Qed.

Example ex_roundtrip3 :
  img_parse (img_write 3 ex_pool ex_entries)
  = Some (3, ex_pool,
          [ mkPentry 17 250 200 [[97; 46; 119; 97; 118]] [1; 2; 3];
            mkPentry 3000000000 1500 1200 [[98; 98]; [97; 46; 119; 97; 118]]
                     [98; 118; 99; 100; 0; 255; 7] ]).
Proof. vm_compute. reflexivity. Qed.

Example ex_roundtrip2 :
  img_parse (img_write 2 ex_pool ex_entries)
  = Some (2, ex_pool,
          [ mkPentry 17 250 250 [[97; 46; 119; 97; 118]] [1; 2; 3];
            mkPentry 3000000000 1500 1500 [[98; 98]; [97; 46; 119; 97; 118]]
                     [98; 118; 99; 100; 0; 255; 7] ]).
Proof. vm_compute. reflexivity. Qed.

(** Byte-exact agreement with the Python writer.  The three byte lists below
    are the output of [save_scenes_image_sync] (pinned tree) for the same
    pool/entries, entries built with raw [(data, pool)] payloads that LZMA
    does not shrink. *)
Example ex_bytes3 :
  img_write 3 ex_pool ex_entries
  = [ 86; 83; 73; 70; 3; 0; 0; 0; 2; 0; 0; 0; 2; 0; 0; 0; 37; 0; 0; 0;
      28; 0; 0; 0; 34; 0; 0; 0; 97; 46; 119; 97; 118; 0; 98; 98; 0; 17; 0; 0;
      0; 105; 0; 0; 0; 3; 0; 0; 0; 69; 0; 0; 0; 0; 94; 208; 178; 108; 0; 0;
      0; 7; 0; 0; 0; 85; 0; 0; 0; 250; 0; 0; 0; 200; 0; 0; 0; 1; 0; 0;
      0; 0; 0; 0; 0; 220; 5; 0; 0; 176; 4; 0; 0; 2; 0; 0; 0; 1; 0; 0;
      0; 0; 0; 0; 0; 1; 2; 3; 98; 118; 99; 100; 0; 255; 7 ].
Proof. vm_compute. reflexivity. Qed.

Example ex_bytes2 :
  img_write 2 ex_pool ex_entries
  = [ 86; 83; 73; 70; 2; 0; 0; 0; 2; 0; 0; 0; 2; 0; 0; 0; 37; 0; 0; 0;
      28; 0; 0; 0; 34; 0; 0; 0; 97; 46; 119; 97; 118; 0; 98; 98; 0; 17; 0; 0;
      0; 97; 0; 0; 0; 3; 0; 0; 0; 69; 0; 0; 0; 0; 94; 208; 178; 100; 0; 0;
      0; 7; 0; 0; 0; 81; 0; 0; 0; 250; 0; 0; 0; 1; 0; 0; 0; 0; 0; 0;
      0; 220; 5; 0; 0; 2; 0; 0; 0; 1; 0; 0; 0; 0; 0; 0; 0; 1; 2; 3;
      98; 118; 99; 100; 0; 255; 7 ].
Proof. vm_compute. reflexivity. Qed.

Example ex_bad_magic : img_parse (0 :: tl (img_write 3 ex_pool ex_entries)) = None.
Proof. vm_compute. reflexivity. Qed.

Example ex_bad_version : img_parse (img_write 4 ex_pool ex_entries) = None.
Proof. vm_compute. reflexivity. Qed.

(** With two entries sharing a crc the literal DeferredWrites writer does
    NOT round-trip: the first of the two keeps zeroed table slots, so the
    reader decodes the file header as its summary. *)
Definition ex_dup : list entry :=
  [ mkEntry 5 10 9 [0] [1; 1]; mkEntry 5 20 19 [1] [2; 2; 2] ].

Example ex_dup_ok : image_okb 3 ex_pool ex_dup = true /\ crcs_distinctb ex_dup = false.
Proof. vm_compute. split; reflexivity. Qed.

(** Output of the Python writer for [ex_dup]: note the 12 zero bytes after
    the first crc (offset 41). *)
Example ex_dup_bytes_py :
  img_write_py 3 ex_pool ex_dup
  = [ 86; 83; 73; 70; 3; 0; 0; 0; 2; 0; 0; 0; 2; 0; 0; 0; 37; 0; 0; 0;
      28; 0; 0; 0; 34; 0; 0; 0; 97; 46; 119; 97; 118; 0; 98; 98; 0; 5; 0; 0;
      0; 0; 0; 0; 0; 0; 0; 0; 0; 0; 0; 0; 0; 5; 0; 0; 0; 103; 0; 0;
      0; 3; 0; 0; 0; 85; 0; 0; 0; 10; 0; 0; 0; 9; 0; 0; 0; 1; 0; 0;
      0; 0; 0; 0; 0; 20; 0; 0; 0; 19; 0; 0; 0; 1; 0; 0; 0; 1; 0; 0;
      0; 1; 1; 2; 2; 2 ].
Proof. vm_compute. reflexivity. Qed.

(** Python: IndexError while parsing that file; the ideal writer is fine. *)
Example ex_dup_py_parse : img_parse (img_write_py 3 ex_pool ex_dup) = None.
Proof. vm_compute. reflexivity. Qed.

Example ex_dup_ideal_parse :
  img_parse (img_write 3 ex_pool ex_dup)
  = Some (3, ex_pool, map (to_pentry 3 ex_pool) ex_dup).
Proof. vm_compute. reflexivity. Qed.
