(* TextLinesProofs.v -- every structured line: the tokenizer model reads the rendered text back as exactly the tokens of
   its keywords and field values, whatever the field values are (within vals_ok). *)
From Coq Require Import List NArith Bool Lia.
From SV Require Import KV.KvBase KV.KvLex KV.KvSym KV.KvLexProofs Fmt.TextFields Fmt.TextFieldsProofs Fmt.VmtQuote Fmt.VmtQuoteProofs Fmt.TextLines.
Import ListNotations.
Open Scope N_scope.

Lemma word_then E l w d : word_ok w = true -> delim_ok d = true -> lexes E l (w ++ [d]) (TStr w :: dtoks d) (dline d l).
Proof.
  destruct w as [|h t]; [discriminate|]. cbn [word_ok]. rewrite !andb_true_iff, !negb_true_iff.
  intros [[[[Hb H47] H35] Hbom] Ht] Hd.
  assert (Hs : starts_bare l h = true).
  { unfold starts_bare. rewrite Hb, H47, H35, Hbom. reflexivity. }
  unfold delim_ok in Hd. rewrite !orb_true_iff, !N.eqb_eq in Hd. unfold dtoks, dline.
  destruct Hd as [[-> | ->] | ->]; cbn [N.eqb Pos.eqb SP TAB LF].
  - apply (bare_then E l h t SP [] l Ht Hs); reflexivity.
  - apply (bare_then E l h t TAB [] l Ht Hs); reflexivity.
  - apply (bare_then E l h t LF [TNL] (l + 1) Ht Hs); reflexivity.
Qed.

Theorem items_lex E ind : esc_ok E = true -> ws_only ind = true -> forall its, items_ok its = true -> forall vs l, vals_ok its vs = true ->
  lexes E l (render E ind its vs) (toks its vs) (lines its l).
Proof.
  intros HE Hind its. induction its as [|i r IH]; intros Hok vs l Hv.
  - apply lexes_nil.
  - destruct i; cbn [items_ok] in Hok; cbn [vals_ok] in Hv; cbn [render toks lines].
    + apply andb_true_iff in Hok as [Hw Hr]. change (toks r vs) with ([] ++ toks r vs).
      apply lexes_app with (l1 := l); [apply lexes_ws; exact Hw | apply IH; assumption].
    + change (toks r vs) with ([] ++ toks r vs).
      apply lexes_app with (l1 := l); [apply lexes_ws; exact Hind | apply IH; assumption].
    + apply lexes_app with (l1 := l + 1); [apply lexes_lf | apply IH; assumption].
    + apply lexes_app with (l1 := l); [apply lexes_bo | apply IH; assumption].
    + apply lexes_app with (l1 := l); [apply lexes_bc | apply IH; assumption].
    + apply andb_true_iff in Hok as [Hs Hr].
      apply lexes_app with (l1 := l); [apply lexes_raw_quoted; exact Hs | apply IH; assumption].
    + destruct vs as [|v vs']; [discriminate|]. apply andb_true_iff in Hv as [Hs Hv].
      apply lexes_app with (l1 := l); [apply lexes_raw_quoted; exact Hs | apply IH; assumption].
    + destruct vs as [|v vs']; [discriminate|].
      apply lexes_app with (l1 := l); [apply lexes_quoted; exact HE | apply IH; assumption].
    + apply andb_true_iff in Hok as [Hwd Hr]. apply andb_true_iff in Hwd as [Hw Hd].
      apply lexes_app with (l1 := dline d l); [apply word_then; assumption | apply IH; assumption].
    + destruct vs as [|v vs']; [discriminate|]. apply andb_true_iff in Hv as [Hw Hv].
      apply andb_true_iff in Hok as [Hd Hr].
      apply lexes_app with (l1 := dline d l); [apply word_then; assumption | apply IH; assumption].
Qed.

(** all lines of a writer at once *)
Corollary lines_lex E ind ls : esc_ok E = true -> ws_only ind = true -> forallb items_ok ls = true ->
  forall its vs l, In its ls -> vals_ok its vs = true -> lexes E l (render E ind its vs) (toks its vs) (lines its l).
Proof.
  intros HE Hind H its vs l Hin Hv. rewrite forallb_forall in H. apply items_lex; auto.
Qed.

(** non-vacuity: the soundscript line `\tsoundlevel "<pair>"\n` and the entry head `"<name>"\n\t{\n` *)
Example ex_soundlevel :
  let its := [IWs [TAB]; IWord [115; 111; 117; 110; 100; 108; 101; 118; 101; 108] SP; IQRaw; INl] in
  items_ok its = true /\ vals_ok its [[57; 53; 44; 32; 49; 49; 48]] = true
  /\ lex_all ex_escfg ([97; 10] ++ render ex_escfg [] its [[57; 53; 44; 32; 49; 49; 48]])
     = ([TStr [97]; TNL; TStr [115; 111; 117; 110; 100; 108; 101; 118; 101; 108]; TStr [57; 53; 44; 32; 49; 49; 48]; TNL], None).
Proof. repeat split; vm_compute; reflexivity. Qed.

(** the unquoted low/high pair `95, 110` (the repaired soundscript defect) is not a bare word: as a bare field it is outside vals_ok *)
Example bare_pair_not_a_word : word_ok [57; 53; 44; 32; 49; 49; 48] = false.
Proof. reflexivity. Qed.

(** a choreo text line with the run-time indent: `{indent}event <type> "<escaped name>"\n`, the name holding a quote *)
Example ex_event_line :
  let its := [IInd; IWord [101; 118; 101; 110; 116] SP; IBare SP; IQEsc; INl] in
  items_ok its = true /\ vals_ok its [[115; 112; 101; 97; 107]; [97; 34; 98]] = true
  /\ lex_all ex_escfg ([97; 10] ++ render ex_escfg [SP; SP] its [[115; 112; 101; 97; 107]; [97; 34; 98]])
     = ([TStr [97]; TNL; TStr [101; 118; 101; 110; 116]; TStr [115; 112; 101; 97; 107]; TStr [97; 34; 98]; TNL], None).
Proof. repeat split; vm_compute; reflexivity. Qed.
