(** Model of the binary DMX body written by [Element.export_binary] and read by [Element.parse_bin]
    (srctools/dmx.py), encoding versions 0-5, after the [<!-- dmx encoding ... -->\n\0] header.

    A document is the list of elements in the order export_binary numbers them (root first); element references
    are indexes into that list, [RNull] (-1) or [RStub uuid-text] (-2).  Fixed-width values (int, float, bool,
    time, colour, vectors, angle, quaternion, matrix) are carried as their wire bytes (bit patterns); the
    conversion between those bytes and Python objects (struct) is outside this model.
    Strings are lists of code points; the text codec is a parameter ([cenc]/[cdec], selected per site by the
    generated configuration).  Executable definitions only; proofs are in DmxBinProofs.v. *)
From Coq Require Import NArith ZArith List Bool.
From SV Require Import Fmt.DmxCodes.
Import ListNotations.

Definition str := list N.      (* code points *)
Definition bytes := list N.

(** ** Little-endian integers: struct '<h' (w = 2), '<i' (w = 4). *)
Fixpoint le_bytes (w : nat) (n : N) : bytes :=
  match w with O => [] | S w' => (n mod 256)%N :: le_bytes w' (n / 256)%N end.
Fixpoint le_val (bs : bytes) : N :=
  match bs with [] => 0%N | b :: r => (b + 256 * le_val r)%N end.
Definition pow256 (w : nat) : Z := Z.pow 256 (Z.of_nat w).
(** pack: total here (two's complement); out-of-range values (struct.error) are excluded by [expressible]. *)
Definition put_int (w : nat) (z : Z) : bytes := le_bytes w (Z.to_N (z mod pow256 w)).
(** struct_read: a short read is a struct.error ([None]). *)
Definition get_int (w : nat) (bs : bytes) : option (Z * bytes) :=
  if Nat.ltb (length bs) w then None else
  let n := Z.of_N (le_val (firstn w bs)) in
  Some ((if (n <? pow256 w / 2)%Z then n else n - pow256 w)%Z, skipn w bs).

(** binformat.read_nullstr: bytes up to the first NUL; end of file first is an error. *)
Fixpoint get_cstr (bs : bytes) : option (bytes * bytes) :=
  match bs with
  | [] => None
  | b :: r => if (b =? 0)%N then Some ([], r)
              else match get_cstr r with Some (s, r') => Some (b :: s, r') | None => None end
  end.

Definition parser (A : Type) := bytes -> option (A * bytes).
Fixpoint rep {A} (p : parser A) (n : nat) : parser (list A) := fun bs =>
  match n with
  | O => Some ([], bs)
  | S n' => match p bs with
            | Some (x, r) => match rep p n' r with Some (l, r') => Some (x :: l, r') | None => None end
            | None => None
            end
  end.
(** exactly n bytes (UUID(bytes_le=...), struct unpack of a fixed-width value: short data is an error). *)
Definition get_bytes (n : nat) : parser bytes := fun bs =>
  if Nat.ltb (length bs) n then None else Some (firstn n bs, skipn n bs).
(** file.read(n): up to n bytes, never fails. *)
Definition read_upto (n : nat) : parser bytes := fun bs => Some (firstn n bs, skipn n bs).

(** ** Documents *)
Inductive eref := RElem (i : N) | RNull | RStub (uuid_text : str).
Inductive shape (A : Type) := Scalar (x : A) | Array (l : list A).
Arguments Scalar {A} x. Arguments Array {A} l.
Inductive aval :=
| VElem (s : shape eref)
| VStr (s : shape str)
| VBin (s : shape bytes)
| VFix (t : vtype) (s : shape bytes).
Record attr := { aname : str; adata : aval }.
Record elem := { etype : str; ename : str; euuid : bytes; eattrs : list attr }.
Definition doc := list elem.

Definition items {A} (s : shape A) : list A := match s with Scalar x => [x] | Array l => l end.
Definition shape_is_arr {A} (s : shape A) : bool := match s with Scalar _ => false | Array _ => true end.
Definition vt (d : aval) : vtype :=
  match d with VElem _ => TElement | VStr _ => TString | VBin _ => TBinary | VFix t _ => t end.
Definition data_is_arr (d : aval) : bool :=
  match d with VElem s => shape_is_arr s | VStr s => shape_is_arr s | VBin s => shape_is_arr s | VFix _ s => shape_is_arr s end.
Definition data_len (d : aval) : nat :=
  match d with VElem s => length (items s) | VStr s => length (items s) | VBin s => length (items s)
             | VFix _ s => length (items s) end.

(** ** Version-dependent layout (the if-chains at the top of export_binary / parse_bin) *)
Definition has_db (v : N) : bool := (2 <=? v)%N.            (* string table present *)
Definition db_count_w (v : N) : nat := if (4 <=? v)%N then 4%nat else 2%nat.   (* stringdb_size *)
Definition db_ind_w (v : N) : nat := if (5 <=? v)%N then 4%nat else 2%nat.     (* stringdb_ind *)
Definition names_in_db (v : N) : bool := (4 <=? v)%N.       (* element names and scalar strings use the table *)

(** ** The string table: sorted(used_strings) *)
Definition s_name : str := [110; 97; 109; 101]%N.   (* "name" *)
Definition attr_strings (v : N) (a : attr) : list str :=
  (if has_db v then [aname a] else []) ++
  match adata a with VStr (Scalar s) => if names_in_db v then [s] else [] | _ => [] end.
Definition elem_strings (v : N) (e : elem) : list str :=
  (if has_db v then [etype e] else []) ++ (if names_in_db v then [ename e] else []) ++
  flat_map (attr_strings v) (eattrs e).
Definition used_strings (v : N) (d : doc) : list str := s_name :: flat_map (elem_strings v) d.

Fixpoint str_cmp (a b : str) : comparison :=
  match a, b with
  | [], [] => Eq | [], _ => Lt | _, [] => Gt
  | x :: a', y :: b' => match (x ?= y)%N with Eq => str_cmp a' b' | c => c end
  end.
Fixpoint tab_insert (s : str) (l : list str) : list str :=
  match l with
  | [] => [s]
  | x :: r => match str_cmp s x with Lt => s :: l | Eq => l | Gt => x :: tab_insert s r end
  end.
Definition strtab (v : N) (d : doc) : list str := fold_right tab_insert [] (used_strings v d).

Definition str_eqb (a b : str) : bool := match str_cmp a b with Eq => true | _ => false end.
Fixpoint index_of (s : str) (l : list str) : option N :=
  match l with
  | [] => None
  | x :: r => if str_eqb s x then Some 0%N else option_map N.succ (index_of s r)
  end.

Section Codec.
  (** The text codecs: [cenc e s] = s.encode(e), [cdec e b] = b.decode(e) ([None] = UnicodeDecodeError). *)
  Variable cenc : enc -> str -> bytes.
  Variable cdec : enc -> bytes -> option str.
  Variable cfg : dmxcfg.

  Definition put_str (e : enc) (s : str) : bytes := cenc e s ++ [0%N].
  Definition get_str (e : enc) : parser str := fun bs =>
    match get_cstr bs with
    | Some (b, r) => match cdec e b with Some s => Some (s, r) | None => None end
    | None => None
    end.

  (** *** Writer (export_binary after the header) *)
  Definition put_tabref (v : N) (tab : list str) (s : str) : bytes :=
    put_int (db_ind_w v) (match index_of s tab with Some i => Z.of_N i | None => -1 end).

  Definition put_eref (r : eref) : bytes :=
    match r with
    | RElem i => put_int 4 (Z.of_N i)
    | RNull => put_int 4 (-1)
    | RStub u => put_int 4 (-2) ++
                 match stub_written cfg with StubUuidStr => put_str EncAscii u | StubNothing => [] end
    end.
  Definition put_blob (b : bytes) : bytes := put_int 4 (Z.of_nat (length b)) ++ b.

  Definition put_data (v : N) (tab : list str) (d : aval) : bytes :=
    match d with
    | VElem s => flat_map put_eref (items s)
    | VStr (Scalar x) => if names_in_db v then put_tabref v tab x else put_str (enc_write cfg SiteScalarStr) x
    | VStr (Array l) => flat_map (put_str (enc_write cfg SiteArrayStr)) l
    | VBin s => flat_map put_blob (items s)
    | VFix _ s => concat (items s)
    end.

  Definition put_attr (v : N) (tab : list str) (a : attr) : bytes :=
    (if has_db v then put_tabref v tab (aname a) else put_str (enc_write cfg SiteAttrName) (aname a)) ++
    (match encode_code cfg (vt (adata a)) (data_is_arr (adata a)) with Some c => c | None => 0%N end) ::
    (if data_is_arr (adata a) then put_int 4 (Z.of_nat (data_len (adata a))) else []) ++
    put_data v tab (adata a).

  Definition put_elem_head (v : N) (tab : list str) (e : elem) : bytes :=
    (if has_db v then put_tabref v tab (etype e) else put_str (enc_write cfg SiteElType) (etype e)) ++
    (if names_in_db v then put_tabref v tab (ename e) else put_str (enc_write cfg SiteElName) (ename e)) ++
    euuid e.
  Definition put_elem_attrs (v : N) (tab : list str) (e : elem) : bytes :=
    put_int 4 (Z.of_nat (length (eattrs e))) ++ flat_map (put_attr v tab) (eattrs e).

  Definition export_bin (v : N) (d : doc) : bytes :=
    let tab := strtab v d in
    (if has_db v
     then put_int (db_count_w v) (Z.of_nat (length tab)) ++ flat_map (put_str (enc_write cfg SiteTable)) tab
     else []) ++
    put_int 4 (Z.of_nat (length d)) ++
    flat_map (put_elem_head v tab) d ++
    flat_map (put_elem_attrs v tab) d.

  (** *** Reader (parse_bin after the header and the "\n\0" pair) *)
  Definition get_tabref (v : N) (tab : list str) : parser str := fun bs =>
    match get_int (db_ind_w v) bs with
    | Some (i, r) => if (i <? 0)%Z then None   (* Python would index from the end; never written *)
                     else match nth_error tab (Z.to_nat i) with Some s => Some (s, r) | None => None end
    | None => None
    end.

  Definition get_eref (nel : nat) : parser eref := fun bs =>
    match get_int 4 bs with
    | Some (i, r) =>
        if (i =? -1)%Z then Some (RNull, r)
        else if (i =? -2)%Z then
          match get_str EncAscii r with Some (u, r') => Some (RStub u, r') | None => None end
        else if (i <? 0)%Z then None               (* as above *)
        else if Nat.ltb (Z.to_nat i) nel then Some (RElem (Z.to_N i), r) else None
    | None => None
    end.
  Definition get_blob : parser bytes := fun bs =>
    match get_int 4 bs with Some (n, r) => read_upto (Z.to_nat n) r | None => None end.

  Definition to_shape {A} (cnt : option nat) (l : list A) : option (shape A) :=
    match cnt with
    | Some _ => Some (Array l)
    | None => match l with [x] => Some (Scalar x) | _ => None end
    end.
  Definition cnt_n (cnt : option nat) : nat := match cnt with Some n => n | None => 1%nat end.

  Definition with_shape {A} (mk : shape A -> aval) (cnt : option nat) (p : parser A) : parser aval := fun bs =>
    match rep p (cnt_n cnt) bs with
    | Some (l, r) => match to_shape cnt l with Some s => Some (mk s, r) | None => None end
    | None => None
    end.

  Definition get_data (v : N) (tab : list str) (nel : nat) (t : vtype) (cnt : option nat) : parser aval := fun bs =>
    match t with
    | TElement => with_shape VElem cnt (get_eref nel) bs
    | TString =>
        match cnt with
        | Some _ => with_shape VStr cnt (get_str (enc_read cfg SiteArrayStr)) bs
        | None => with_shape VStr cnt (if names_in_db v then get_tabref v tab
                                       else get_str (enc_read cfg SiteScalarStr)) bs
        end
    | TBinary => with_shape VBin cnt get_blob bs
    | _ => if (match t with TTime => true | _ => false end) && (v <? 3)%N then None
           else match size_of cfg t with
                | Some sz => with_shape (VFix t) cnt (get_bytes (N.to_nat sz)) bs
                | None => None
                end
    end.

  Definition get_attr (v : N) (tab : list str) (nel : nat) : parser attr := fun bs =>
    match (if has_db v then get_tabref v tab bs else get_str (enc_read cfg SiteAttrName) bs) with
    | Some (nm, r) =>
        match r with
        | [] => None
        | b :: r1 =>
            match decode_code cfg b with
            | Some (t, true) =>
                match get_int 4 r1 with
                | Some (n, r2) =>
                    match get_data v tab nel t (Some (Z.to_nat n)) r2 with
                    | Some (d, r3) => Some ({| aname := nm; adata := d |}, r3)
                    | None => None
                    end
                | None => None
                end
            | Some (t, false) =>
                match get_data v tab nel t None r1 with
                | Some (d, r3) => Some ({| aname := nm; adata := d |}, r3)
                | None => None
                end
            | None => None
            end
        end
    | None => None
    end.

  Definition get_elem_head (v : N) (tab : list str) : parser elem := fun bs =>
    match (if has_db v then get_tabref v tab bs else get_str (enc_read cfg SiteElType) bs) with
    | Some (ty, r) =>
        match (if names_in_db v then get_tabref v tab r else get_str (enc_read cfg SiteElName) r) with
        | Some (nm, r1) =>
            match get_bytes 16 r1 with
            | Some (u, r2) => Some ({| etype := ty; ename := nm; euuid := u; eattrs := [] |}, r2)
            | None => None
            end
        | None => None
        end
    | None => None
    end.
  Definition get_elem_attrs (v : N) (tab : list str) (nel : nat) : parser (list attr) := fun bs =>
    match get_int 4 bs with Some (n, r) => rep (get_attr v tab nel) (Z.to_nat n) r | None => None end.

  Fixpoint fill_attrs (heads : list elem) (attrs : list (list attr)) : list elem :=
    match heads, attrs with
    | h :: hs, a :: ats => {| etype := etype h; ename := ename h; euuid := euuid h; eattrs := a |} :: fill_attrs hs ats
    | _, _ => []
    end.

  Definition parse_bin (v : N) (bs : bytes) : option doc :=
    match (if has_db v
           then match get_int (db_count_w v) bs with
                | Some (n, r) => rep (get_str (enc_read cfg SiteTable)) (Z.to_nat n) r
                | None => None
                end
           else Some ([], bs)) with
    | Some (tab, r) =>
        match get_int 4 r with
        | Some (n, r1) =>
            let nel := Z.to_nat n in
            match rep (get_elem_head v tab) nel r1 with
            | Some (heads, r2) =>
                match rep (get_elem_attrs v tab nel) nel r2 with
                | Some (attrs, _) => match heads with [] => None | _ => Some (fill_attrs heads attrs) end
                | None => None
                end
            | None => None
            end
        | None => None
        end
    | None => None
    end.

  (** *** Which documents version [v] can express *)
  Definition str_ok (e : enc) (s : str) : Prop := cdec e (cenc e s) = Some s /\ ~ In 0%N (cenc e s).
  Definition int_fits (w : nat) (n : nat) : Prop := (Z.of_nat n < pow256 w / 2)%Z.

  Definition ref_ok (nel : nat) (r : eref) : Prop :=
    match r with RElem i => (N.to_nat i < nel)%nat | RNull => True | RStub u => str_ok EncAscii u end.

  Definition data_ok (v : N) (nel : nat) (d : aval) : Prop :=
    match d with
    | VElem s => int_fits 4 (length (items s)) /\ Forall (ref_ok nel) (items s)
    | VStr (Scalar x) => names_in_db v = false -> str_ok (enc_write cfg SiteScalarStr) x
    | VStr (Array l) => int_fits 4 (length l) /\ Forall (str_ok (enc_write cfg SiteArrayStr)) l
    | VBin s => int_fits 4 (length (items s)) /\ Forall (fun b => int_fits 4 (length b)) (items s)
    | VFix t s => is_var_type t = false /\ (t = TTime -> (3 <= v)%N) /\ int_fits 4 (length (items s)) /\
                  exists sz, size_of cfg t = Some sz /\ Forall (fun b => length b = N.to_nat sz) (items s)
    end.
  Definition attr_ok (v : N) (nel : nat) (a : attr) : Prop :=
    (has_db v = false -> str_ok (enc_write cfg SiteAttrName) (aname a)) /\ data_ok v nel (adata a).
  Definition elem_ok (v : N) (nel : nat) (e : elem) : Prop :=
    length (euuid e) = 16%nat /\ int_fits 4 (length (eattrs e)) /\
    (has_db v = false -> str_ok (enc_write cfg SiteElType) (etype e)) /\
    (names_in_db v = false -> str_ok (enc_write cfg SiteElName) (ename e)) /\
    Forall (attr_ok v nel) (eattrs e).

  Definition expressible (v : N) (d : doc) : Prop :=
    d <> [] /\ int_fits 4 (length d) /\
    (has_db v = true ->
       Forall (str_ok (enc_write cfg SiteTable)) (strtab v d) /\
       int_fits (db_count_w v) (length (strtab v d)) /\ int_fits (db_ind_w v) (length (strtab v d))) /\
    Forall (elem_ok v (length d)) d.
End Codec.
