(** C11: the PHYSCOLLIDE lump written by [_lmp_write_bmodels] and parsed by [_lmp_read_bmodels].
    One block per brush model that has physics data:
      header [<iiii] (model index, size of the solids section, length of the keyvalues text incl. its NUL, number of solids),
      every solid as [<i] length + bytes, the keyvalues text + NUL;
    after the last block a header whose model index is the sentinel (-1).
    The ORDER of the four header values on either side, the sentinel compared with / written, and the order of the two
    variable-length sections are read from bsp.py (phys_cfg); the model is generic in them.  The keyvalues text itself is
    opaque here (its syntax is C01's); bytes of solids are opaque.  Executable definitions only; proofs in BspPhysProofs.v. *)
From Coq Require Import NArith ZArith List Bool PeanoNat.
From SV Require Import Bin.LE Bin.Struct.
Import ListNotations.
Open Scope N_scope.

Inductive hlabel := HIndex | HSize | HKvLen | HCount.
Inductive pseg := SSolids | SKvs.
Definition hlabel_eqb (a b : hlabel) : bool :=
  match a, b with HIndex, HIndex | HSize, HSize | HKvLen, HKvLen | HCount, HCount => true | _, _ => false end.
Definition pseg_eqb (a b : pseg) : bool := match a, b with SSolids, SSolids | SKvs, SKvs => true | _, _ => false end.

(** writer's header order, reader's header order, sentinel written, sentinel compared with, sections written, sections read,
    does the writer terminate the text with NUL, does the reader strip trailing NULs *)
Definition phys_cfg := (list hlabel * list hlabel * Z * Z * list pseg * list pseg * bool * bool)%type.

Record pblock := { pb_index : Z; pb_solids : list (list N); pb_kvs : list N }.

Definition i32 : kind := KInt true 4.
Definition hdr_fmt : fmt := [i32; i32; i32; i32].
Definition len_fmt : fmt := [i32].

Definition solids_size (ss : list (list N)) : Z := fold_right (fun s a => (Z.of_nat (List.length s) + 4 + a)%Z) 0%Z ss.
Definition hval (b : pblock) (l : hlabel) : Z :=
  match l with
  | HIndex => pb_index b
  | HSize => solids_size (pb_solids b)
  | HKvLen => Z.of_nat (S (List.length (pb_kvs b)))
  | HCount => Z.of_nat (List.length (pb_solids b))
  end.

Definition oapp (a b : option (list N)) : option (list N) :=
  match a, b with Some x, Some y => Some (x ++ y) | _, _ => None end.

Fixpoint write_solids (ss : list (list N)) : option (list N) :=
  match ss with
  | [] => Some []
  | s :: r => oapp (oapp (pack len_fmt [VInt (Z.of_nat (List.length s))]) (Some s)) (write_solids r)
  end.

Definition write_block (worder : list hlabel) (b : pblock) : option (list N) :=
  oapp (oapp (pack hdr_fmt (map (fun l => VInt (hval b l)) worder)) (write_solids (pb_solids b))) (Some (pb_kvs b ++ [0])).

Definition sentinel_hdr (worder : list hlabel) (sent : Z) : option (list N) :=
  pack hdr_fmt (map (fun l => VInt (match l with HIndex => sent | _ => 0%Z end)) worder).

Fixpoint write_blocks (worder : list hlabel) (sent : Z) (bl : list pblock) : option (list N) :=
  match bl with
  | [] => sentinel_hdr worder sent
  | b :: r => oapp (write_block worder b) (write_blocks worder sent r)
  end.

(** [struct_read(fmt, buf)]: exactly calcsize bytes or struct.error. *)
Definition take (n : nat) (bs : list N) : option (list N * list N) :=
  if (List.length bs <? n)%nat then None else Some (firstn n bs, skipn n bs).
(** [buf.read(z)]: what is there; everything for a negative size. *)
Definition bread (z : Z) (bs : list N) : list N * list N :=
  if (z <? 0)%Z then (bs, []) else (firstn (Z.to_nat z) bs, skipn (Z.to_nat z) bs).

Fixpoint read_solids (count : nat) (bs : list N) : option (list (list N) * list N) :=
  match count with
  | O => Some ([], bs)
  | S c =>
      match take 4 bs with
      | None => None
      | Some (h, r) =>
          match unpack len_fmt h with
          | Some [VInt z] =>
              let '(s, r') := bread z r in
              match read_solids c r' with
              | Some (ss, r'') => Some (s :: ss, r'')
              | None => None
              end
          | _ => None
          end
      end
  end.

Fixpoint hpos (l : hlabel) (order : list hlabel) : nat :=
  match order with
  | [] => O
  | x :: r => if hlabel_eqb l x then O else S (hpos l r)
  end.
Definition hget (order : list hlabel) (vs : list value) (l : hlabel) : Z :=
  match nth (hpos l order) vs (VInt 0) with VInt z => z | _ => 0%Z end.

Fixpoint read_blocks (fuel : nat) (rorder : list hlabel) (sent : Z) (strip : bool) (bs : list N) : option (list pblock) :=
  match fuel with
  | O => None
  | S f =>
      match take 16 bs with
      | None => None
      | Some (h, r) =>
          match unpack hdr_fmt h with
          | None => None
          | Some vs =>
              if (hget rorder vs HIndex =? sent)%Z then Some []
              else
                match read_solids (Z.to_nat (hget rorder vs HCount)) r with
                | None => None
                | Some (ss, r') =>
                    let '(kv, r'') := bread (hget rorder vs HKvLen) r' in
                    match read_blocks f rorder sent strip r'' with
                    | Some bl => Some ({| pb_index := hget rorder vs HIndex; pb_solids := ss; pb_kvs := if strip then rstrip0 kv else kv |} :: bl)
                    | None => None
                    end
                end
          end
      end
  end.

Fixpoint hl_eqb (a b : list hlabel) : bool :=
  match a, b with [], [] => true | x :: a', y :: b' => hlabel_eqb x y && hl_eqb a' b' | _, _ => false end.
Fixpoint sg_eqb (a b : list pseg) : bool :=
  match a, b with [], [] => true | x :: a', y :: b' => pseg_eqb x y && sg_eqb a' b' | _, _ => false end.
Definition has (l : hlabel) (o : list hlabel) : bool := existsb (hlabel_eqb l) o.

Definition phys_cfg_ok (c : phys_cfg) : bool :=
  let '(wo, ro, ws, rs, wseg, rseg, term, strip) := c in
  hl_eqb wo ro && Nat.eqb (List.length wo) 4 && has HIndex wo && has HSize wo && has HKvLen wo && has HCount wo &&
  (ws =? rs)%Z && in_range true 4 ws && sg_eqb wseg [SSolids; SKvs] && sg_eqb rseg [SSolids; SKvs] && term && strip.

(** A block the format can hold: the index is not the sentinel, every number fits its 32-bit field, the text does not end
    in NUL (the reader strips every trailing NUL). *)
Definition i32_ok (z : Z) : bool := in_range true 4 z.
Definition block_wf (sent : Z) (b : pblock) : bool :=
  negb (pb_index b =? sent)%Z && i32_ok (pb_index b) && i32_ok (solids_size (pb_solids b)) &&
  i32_ok (Z.of_nat (S (List.length (pb_kvs b)))) && i32_ok (Z.of_nat (List.length (pb_solids b))) &&
  forallb (fun s => i32_ok (Z.of_nat (List.length s))) (pb_solids b) &&
  negb (last (pb_kvs b) 1 =? 0).
