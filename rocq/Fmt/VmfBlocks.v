(** C06 — block-level model of VMF export: every export method of vmf.py as a *write program* (keyvalue lines built
    from the templates of Fmt/VmfText.v, blocks, optional wrapper blocks, conditionals, loops and calls of other export
    methods), executed over an environment tree that gives the interpolated field values, the outcome of every
    condition and one sub-environment per loop iteration / callee.  [run] produces at the same time the text written
    and the KeyValues1 tree the writer was given (key and value of every line, the child blocks).
    The programs are generated from vmf.py (Gen/VmfProg_gen.v); the parser is the C01 model (KV/KvLex.v, KV/KvParse.v).
    Definitions only; proofs are in Fmt/VmfBlocksProofs.v. *)
From Coq Require Import NArith List Bool.
From SV Require Import KV.KvBase KV.KvLex Fmt.VmfText.
Import ListNotations.
Open Scope N_scope.

(** tokenizer.ESCAPES and the characters escape_text (multiline=False) leaves alone, as a C01 escape configuration. *)
Definition vmf_E : escfg := {| e_table := VmfText.esc_table; e_excl := [63; 47] |}.

(** * Environments *)
Inductive denv := DEnv (fld : N -> list N) (cnd : N -> bool) (sub : N -> list denv).
Definition d_fld (e : denv) := match e with DEnv f _ _ => f end.
Definition d_cnd (e : denv) := match e with DEnv _ c _ => c end.
Definition d_sub (e : denv) := match e with DEnv _ _ s => s end.

(** * Write programs (a statement sequence in continuation style) *)
(** indentation of a line: the method's [ind] variable (or nothing, for methods that write literal tabs only) followed
    by a literal number of tabs *)
Definition idt := (bool * nat)%type.
Inductive wprog :=
| PEnd
| PKv (i : idt) (key val : list tseg) (k : wprog)                       (* ind "key" "val" LF *)
| PBlock (i : idt) (name : list N) (quoted : bool) (body k : wprog)     (* name LF { LF body } LF *)
| POpt (c : N) (i : idt) (name : list N) (body k : wprog)               (* if c: name { ; ind += TAB ... if c: } *)
| PIf (c : N) (th el k : wprog)
| PFor (slot : N) (body k : wprog)                                      (* one sub-environment per iteration *)
| PCall (slot : N) (fn : N) (i : idt) (k : wprog).                      (* callee once per sub-environment *)

Definition tabs (d : nat) : list N := repeat TAB d.
Definition indent (ind : list N) (i : idt) : list N := (if fst i then ind else []) ++ tabs (snd i).
Definition name_text (name : list N) (quoted : bool) : list N := if quoted then DQ :: name ++ [DQ] else name.
Definition open_text (ind name : list N) (quoted : bool) : list N :=
  ind ++ name_text name quoted ++ [LF] ++ ind ++ [123; LF].
Definition close_text (ind : list N) : list N := ind ++ [125; LF].
Definition kv_text (ind : list N) (e : VmfText.env) (key val : list tseg) : list N :=
  ind ++ render_kv e key val ++ [LF].

Definition outp := option (list N * list kv).
Definition seq2 (a b : outp) : outp :=
  match a, b with Some (t1, k1), Some (t2, k2) => Some (t1 ++ t2, k1 ++ k2) | _, _ => None end.
Fixpoint each (f : denv -> outp) (l : list denv) : outp :=
  match l with [] => Some ([], []) | e :: r => seq2 (f e) (each f r) end.
Definition wrap (ind name : list N) (quoted : bool) (body : outp) : outp :=
  match body with
  | Some (t, cs) => Some (open_text ind name quoted ++ t ++ close_text ind, [Block name cs])
  | None => None
  end.

Section Run.
  Variable funs : N -> wprog.

  (** [fuel] bounds the depth of calls (VisGroup.export calls itself for child groups). *)
  Fixpoint run (fuel : nat) : wprog -> list N -> denv -> outp :=
    match fuel with
    | O => fun _ _ _ => None
    | S f =>
      fix go (p : wprog) (ind : list N) (e : denv) {struct p} : outp :=
        match p with
        | PEnd => Some ([], [])
        | PKv i key val k =>
            seq2 (Some (kv_text (indent ind i) (d_fld e) key val,
                        [Leaf (value_field (d_fld e) key) (value_field (d_fld e) val)]))
                 (go k ind e)
        | PBlock i name q body k => seq2 (wrap (indent ind i) name q (go body ind e)) (go k ind e)
        | POpt c i name body k =>
            seq2 (if d_cnd e c then wrap (indent ind i) name false (go body (ind ++ [TAB]) e) else go body ind e)
                 (go k ind e)
        | PIf c th el k => seq2 (if d_cnd e c then go th ind e else go el ind e) (go k ind e)
        | PFor slot body k => seq2 (each (go body ind) (d_sub e slot)) (go k ind e)
        | PCall slot fn i k => seq2 (each (run f (funs fn) (indent ind i)) (d_sub e slot)) (go k ind e)
        end
    end.
End Run.

(** * The decidable side condition on a program *)
(** block names written bare: letters, digits, underscore (every block name of the VMF format) *)
Definition ident_char (c : N) : bool :=
  ((97 <=? c) && (c <=? 122)) || ((65 <=? c) && (c <=? 90)) || ((48 <=? c) && (c <=? 57)) || (c =? 95).
Definition name_ok (name : list N) (quoted : bool) : bool :=
  if quoted then plain name
  else match name with [] => false | _ => forallb ident_char name end.

(** the Num / Sep fields of a line are among the fields declared numeric *)
Definition seg_num_in (nums : list N) (s : tseg) : bool :=
  match s with
  | TIp Num f | TIp Sep f => VmfText.mem f nums
  | _ => true
  end.
Definition line_ok (nums : list N) (key val : list tseg) : bool :=
  forallb seg_ok key && forallb seg_ok val && forallb (seg_num_in nums) key && forallb (seg_num_in nums) val.

Fixpoint prog_ok (nums : list N) (p : wprog) : bool :=
  match p with
  | PEnd => true
  | PKv _ key val k => line_ok nums key val && prog_ok nums k
  | PBlock _ name q body k => name_ok name q && prog_ok nums body && prog_ok nums k
  | POpt _ _ name body k => name_ok name false && prog_ok nums body && prog_ok nums k
  | PIf _ th el k => prog_ok nums th && prog_ok nums el && prog_ok nums k
  | PFor _ body k => prog_ok nums body && prog_ok nums k
  | PCall _ _ _ k => prog_ok nums k
  end.

(** function table as an association list *)
Fixpoint fun_lookup (tbl : list (N * wprog)) (fn : N) : wprog :=
  match tbl with [] => PEnd | (n, p) :: r => if n =? fn then p else fun_lookup r fn end.
Definition table_ok (nums : list N) (tbl : list (N * wprog)) : bool := forallb (fun np => prog_ok nums (snd np)) tbl.

(** What is assumed of the environment: the text of every numeric field (number formatting of CPython) contains no
    quote, backslash, CR or LF -- in the environment and in all its sub-environments. *)
Inductive env_ok (nums : list N) : denv -> Prop :=
| EnvOk f c s :
    (forall i, In i nums -> plain (f i) = true) ->
    (forall slot e', In e' (s slot) -> env_ok nums e') ->
    env_ok nums (DEnv f c s).

(** * Census of a program: how many keyvalue lines, blocks, calls it contains (instance obligations about coverage) *)
Fixpoint count_kv (p : wprog) : nat :=
  match p with
  | PEnd => 0
  | PKv _ _ _ k => S (count_kv k)
  | PBlock _ _ _ b k | POpt _ _ _ b k | PFor _ b k => count_kv b + count_kv k
  | PIf _ a b k => count_kv a + count_kv b + count_kv k
  | PCall _ _ _ k => count_kv k
  end.
Fixpoint calls_of (p : wprog) : list N :=
  match p with
  | PEnd => []
  | PKv _ _ _ k => calls_of k
  | PBlock _ _ _ b k | POpt _ _ _ b k | PFor _ b k => calls_of b ++ calls_of k
  | PIf _ a b k => calls_of a ++ calls_of b ++ calls_of k
  | PCall _ fn _ k => fn :: calls_of k
  end.
(** every callee is defined in the table *)
Definition calls_defined (tbl : list (N * wprog)) : bool :=
  forallb (fun np => forallb (fun fn => existsb (fun nq => fst nq =? fn) tbl) (calls_of (snd np))) tbl.
