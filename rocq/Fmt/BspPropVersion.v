(** C11: which static-prop format the reader and the writer of a BSP use.

    The format of the records of the static-prop game lump is not written into the file: the reader chooses it from
    (BSP version, header number of the game lump, record size) - or, for an EMPTY lump, from the first two alone -, records
    the choice in the BSP object, and the writer writes in whatever is recorded there.  The three functions are given here
    as TABLES (generated from the source by translate/c11_propver.py, which executes the heads of `_lmp_read_props` and
    `_lmp_write_props` for every point of the finite domain).  This file gives the tables a meaning - histories of reads and
    writes - and the decidable conditions under which every history returns the format it started with.

    Formats are numbers: 0 = none recorded (UNKNOWN), k = k-th member of the enum, 255 = the call raises. *)
From Coq Require Import List String NArith Bool.
Import ListNotations.
Open Scope N_scope.

Definition pv_member := (string * N * N)%type.                   (* name, header number, record size *)
Definition pv_empty_row := (N * N * N * N)%type.                 (* BSP version, header number, named beforehand, recorded *)
Definition pv_sized_row := (N * N * N * N * N * N * N)%type.     (* BSP version, header number, record size, named, recorded, decoded with, ladder *)
Definition pv_writer_row := (N * N * N * N * N)%type.            (* recorded before, recorded after, written in, ladder, header number set (255 = left as it was) *)
Definition pv_cfg := (list pv_member * list N * list pv_empty_row * list pv_sized_row * list pv_writer_row)%type.

Definition PV_ERR : N := 255.
Definition pv_hdrs : list N := [0; 1; 2; 3; 4; 5; 6; 7; 8; 9; 10; 11; 12; 13; 14; 15].

Definition c_members (c : pv_cfg) : list pv_member := let '(m, _, _, _, _) := c in m.
Definition c_bsp (c : pv_cfg) : list N := let '(_, b, _, _, _) := c in b.
Definition c_empty (c : pv_cfg) : list pv_empty_row := let '(_, _, e, _, _) := c in e.
Definition c_sized (c : pv_cfg) : list pv_sized_row := let '(_, _, _, s, _) := c in s.
Definition c_writer (c : pv_cfg) : list pv_writer_row := let '(_, _, _, _, w) := c in w.

Definition member_of (c : pv_cfg) (f : N) : option pv_member :=
  if f =? 0 then None else nth_error (c_members c) (N.to_nat (f - 1)).
Definition hdr_of (c : pv_cfg) (f : N) : option N := option_map (fun m : pv_member => snd (fst m)) (member_of c f).
Definition size_of (c : pv_cfg) (f : N) : option N := option_map (fun m : pv_member => snd m) (member_of c f).

(** The three calls.  Outer [None]: the table has no row (the check then fails); inner [None]: the call raises. *)
Definition read_empty (c : pv_cfg) (bv h st : N) : option (option N) :=
  match find (fun r : pv_empty_row => let '(b, h', p, _) := r in (b =? bv) && (h' =? h) && (p =? st)) (c_empty c) with
  | Some (_, _, _, r) => Some (if r =? PV_ERR then None else Some r)
  | None => None
  end.

(** result: format recorded, format the records are decoded with, ladder number *)
Definition read_sized (c : pv_cfg) (bv h sz st : N) : option (option (N * N * N)) :=
  match find (fun r : pv_sized_row => let '(b, h', s, p, _, _, _) := r in (b =? bv) && (h' =? h) && (s =? sz) && (p =? st)) (c_sized c) with
  | Some (_, _, _, _, r, d, l) => Some (if r =? PV_ERR then None else Some (r, d, l))
  | None => None
  end.

(** result: format recorded afterwards, format the records are written in, ladder number, header number save() will write
    given the header number [h] of the file that was opened *)
Definition write_props (c : pv_cfg) (st h : N) : option (option (N * N * N * N)) :=
  match find (fun r : pv_writer_row => let '(p, _, _, _, _) := r in p =? st) (c_writer c) with
  | Some (_, r, w, l, hw) => Some (if r =? PV_ERR then None else Some (r, w, l, if hw =? PV_ERR then h else hw))
  | None => None
  end.

(** save with recorded format [st] into a file opened with header number [h], then a fresh object of the same BSP version reads
    the file.  Result: (format written in, ladder of the writer, what the fresh reader does). *)
Definition save_reread (c : pv_cfg) (bv h st : N) : option (N * N * option (N * N * N)) :=
  match write_props c st h with
  | Some (Some (_, w, lw, h')) =>
    match size_of c w with
    | Some sz => match read_sized c bv h' sz 0 with Some r => Some (w, lw, r) | None => None end
    | None => None
    end
  | _ => None
  end.

(** History 1: a fresh object reads a file whose lump is EMPTY (BSP version [bv], header number [h]); props are assigned; the
    object saves - the records have the size of the format written in -; a fresh object reads that file. *)
Definition hist_from_empty (c : pv_cfg) (bv h : N) : option (option (N * N * option (N * N * N))) :=
  match read_empty c bv h 0 with
  | None => None
  | Some None => Some None                         (* the empty lump is rejected: nothing is written *)
  | Some (Some st) => option_map Some (save_reread c bv h st)
  end.

(** History 3: a fresh object opens a file (header number [h]), props are assigned WITHOUT the lump ever being read - no format
    is recorded -, the object saves, a fresh object reads. *)
Definition hist_never_read (c : pv_cfg) (bv h : N) : option (N * N * option (N * N * N)) := save_reread c bv h 0.

Definition reread_ok (x : option (N * N * option (N * N * N))) : bool :=
  match x with Some (w, lw, Some (r, d, ld)) => (d =? w) && (r =? w) && (ld =? lw) | _ => false end.

Definition hist_from_empty_ok (c : pv_cfg) (bv h : N) : bool :=
  match hist_from_empty c bv h with
  | Some None => true
  | Some (Some x) => reread_ok (Some x)
  | None => false
  end.
Definition hist_never_read_ok (c : pv_cfg) (bv h : N) : bool := reread_ok (hist_never_read c bv h).

(** History 2: the caller names the format [m] (`bsp.static_prop_version = m`, header number of [m]) and saves at least one
    prop; a fresh object reads the file.  The writer must write in [m]; the reader must settle on a format with the header
    number and record size of [m] - which is [m] itself when no other member has that pair, and then it must run the writer's
    ladder.  (Where two members share the pair the file cannot say which one it holds: the caller names it to the reader.) *)
Definition hist_named_ok (c : pv_cfg) (bv m : N) : bool :=
  match hdr_of c m, size_of c m with
  | Some h, Some sz =>
    match write_props c m h with
    | Some (Some (r, w, lw, h')) =>
    (r =? m) && (w =? m) && (h' =? h) &&
    match read_sized c bv h sz 0 with
    | Some (Some (r', d, ld)) =>
      (r' =? d) && (negb (d =? m) || (ld =? lw)) &&
      match hdr_of c d, size_of c d with Some h', Some sz' => (h' =? h) && (sz' =? sz) | _, _ => false end
    | _ => false
    end &&
    (* the caller may also name the format to the reader: it is believed - also by the reader of an EMPTY lump *)
    match read_sized c bv h sz m with Some (Some (r', d, ld)) => (r' =? m) && (d =? m) && (ld =? lw) | _ => false end &&
    match read_empty c bv h m with Some (Some r') => r' =? m | _ => false end
    | _ => false
    end
  | _, _ => false
  end.

Definition member_ids (c : pv_cfg) : list N := map (fun k => N.of_nat (S k)) (seq 0 (List.length (c_members c))).

Definition pv_from_empty_ok (c : pv_cfg) : bool :=
  forallb (fun bv => forallb (fun h => hist_from_empty_ok c bv h) pv_hdrs) (c_bsp c).
Definition pv_named_ok (c : pv_cfg) : bool :=
  forallb (fun bv => forallb (fun m => hist_named_ok c bv m) (member_ids c)) (c_bsp c).
Definition pv_never_read_ok (c : pv_cfg) : bool :=
  forallb (fun bv => forallb (fun h => hist_never_read_ok c bv h) pv_hdrs) (c_bsp c).
Definition pv_ok (c : pv_cfg) : bool :=
  pv_from_empty_ok c && pv_named_ok c && pv_never_read_ok c && negb (N.of_nat (List.length (c_members c)) =? 0).

(** one BSP version / one header number at a time (named obligations of the check) *)
Definition pv_from_empty_ok_hdr (c : pv_cfg) (h : N) : bool := forallb (fun bv => hist_from_empty_ok c bv h) (c_bsp c).
Definition pv_never_read_ok_hdr (c : pv_cfg) (h : N) : bool := forallb (fun bv => hist_never_read_ok c bv h) (c_bsp c).

(** is [m] the only member with its (header number, record size)? *)
Definition unique_pair (c : pv_cfg) (m : N) : bool :=
  match hdr_of c m, size_of c m with
  | Some h, Some sz =>
    forallb (fun k => (k =? m) || negb (match hdr_of c k, size_of c k with Some h', Some sz' => (h' =? h) && (sz' =? sz) | _, _ => false end))
            (member_ids c)
  | _, _ => false
  end.

(** The nearby wrong shape: two formats share (header number 11, 80 bytes); BSP version 20 reads that pair as the second;
    the guess for an empty lump stops at the FIRST member with the header number. *)
Definition pv_first_match_cfg : pv_cfg :=
  ([("A"%string, 11, 80); ("B"%string, 11, 80)], [20],
   [(20, 11, 0, 1)],
   [(20, 11, 80, 0, 2, 2, 7)],
   [(1, 1, 1, 11, 255); (2, 2, 2, 7, 255)]).
Definition pv_last_match_cfg : pv_cfg :=
  ([("A"%string, 11, 80); ("B"%string, 11, 80)], [20],
   [(20, 11, 0, 2)],
   [(20, 11, 80, 0, 2, 2, 7)],
   [(1, 1, 1, 11, 255); (2, 2, 2, 7, 255)]).
(** The writer falls back to format 1 (header number 5) when nothing is recorded, and leaves the header number of the file
    (10) as it was: the fresh reader looks for (10, 60 bytes) and raises.  Setting the header number passes. *)
Definition pv_header_left_cfg : pv_cfg :=
  ([("A"%string, 5, 60); ("B"%string, 10, 76)], [20], [], [(20, 10, 60, 0, 255, 0, 0); (20, 5, 60, 0, 1, 1, 5)], [(0, 1, 1, 5, 255)]).
Definition pv_header_set_cfg : pv_cfg :=
  ([("A"%string, 5, 60); ("B"%string, 10, 76)], [20], [], [(20, 10, 60, 0, 255, 0, 0); (20, 5, 60, 0, 1, 1, 5)], [(0, 1, 1, 5, 5)]).
