(** Quantised values of binary choreo scenes (choreo.py): tag positions, ramp and flex-track samples are written as
    [min(MAX, max(0, round(value * FACTOR)))] into a byte / 16-bit field and read back as [field / FACTOR] (binary64
    arithmetic, Python [round] = nearest integer, ties to even).  Modelled on Coq's primitive binary64 floats (the kernel's
    own IEEE arithmetic, evaluated by vm_compute; no axiom is used: only computations), with [round] computed exactly on the
    mantissa / exponent of the product.  The domain of stored values is finite (256 / 65536): the stability statement
    "what was read is written back as the same field" is checked for EVERY field value in the kernel. *)
From Coq Require Import ZArith List Bool Floats Uint63 Lia.
Import ListNotations.
Open Scope Z_scope.

Definition ofZ (k : Z) : float := PrimFloat.of_uint63 (Uint63.of_Z k).
(** the float m * 2^e for 0 <= m < 2^53 (how the check hands Python floats over) *)
Definition mk_float (neg : bool) (m e : Z) : float :=
  let x := PrimFloat.ldshiftexp (ofZ m) (Uint63.of_Z (e + FloatOps.shift)) in if neg then PrimFloat.opp x else x.

(** nearest integer, ties to even, of m * 2^e (exact) *)
Definition round_he_pos (m : positive) (e : Z) : Z :=
  if 0 <=? e then Zpos m * 2 ^ e
  else
    let d := 2 ^ (- e) in
    let q := Zpos m / d in
    let r := Zpos m mod d in
    if 2 * r <? d then q else if d <? 2 * r then q + 1 else if Z.even q then q else q + 1.

(** Python [round(x)]; [None] = it raises (infinity, NaN) *)
Definition py_round (x : float) : option Z :=
  match Prim2SF x with
  | S754_zero _ => Some 0
  | S754_finite s m e => Some (if s then - round_he_pos m e else round_he_pos m e)
  | _ => None
  end.
(** the same on the kernel's 63-bit integers (mantissa < 2^53): what the enumerations run; [None] outside 0 <= |x| < 2^53.
    x = m * 2^(ex - shift - 53) with m the 53-bit mantissa of the normalised fraction. *)
Definition round_u (x : float) : option Z :=
  let ax := PrimFloat.abs x in
  let '(fr, ex) := PrimFloat.frshiftexp ax in
  let m := PrimFloat.normfr_mantissa fr in
  let top := Uint63.of_Z (FloatOps.shift + 53) in
  if PrimFloat.ltb ax PrimFloat.infinity then
    if Uint63.ltb top ex then None
    else
      let s := Uint63.sub top ex in
      let n :=
        if Uint63.leb 63 s then 0%uint63
        else if Uint63.eqb s 0 then m
        else
          let q := Uint63.lsr m s in
          let r := Uint63.land m (Uint63.sub (Uint63.lsl 1 s) 1) in
          let half := Uint63.lsl 1 (Uint63.sub s 1) in
          if Uint63.ltb r half then q
          else if Uint63.ltb half r then Uint63.add q 1
          else if Uint63.eqb (Uint63.land q 1) 0 then q else Uint63.add q 1 in
      let z := Uint63.to_Z n in
      Some (if PrimFloat.ltb x PrimFloat.zero then - z else z)
  else None.

(** Python [int(x)]: truncation towards zero (the nearby wrong shape) *)
Definition py_trunc (x : float) : option Z :=
  match Prim2SF x with
  | S754_zero _ => Some 0
  | S754_finite s m e =>
      let n := if 0 <=? e then Zpos m * 2 ^ e else Zpos m / 2 ^ (- e) in Some (if s then - n else n)
  | _ => None
  end.

Inductive qmode := QRound | QTrunc.
(** one quantisation site: how the writer converts, its factor, the clamp bounds, the reader's factor *)
Record qsite := mkQ { q_mode : qmode; q_wfactor : float; q_clamped : bool; q_max : Z; q_rfactor : float }.

Definition quant (s : qsite) (v : float) : option Z :=
  let p := PrimFloat.mul v (q_wfactor s) in
  option_map (fun n => if q_clamped s then Z.min (q_max s) (Z.max 0 n) else n)
             (match q_mode s with QRound => round_u p | QTrunc => py_trunc p end).
Definition dequant (s : qsite) (k : Z) : float := PrimFloat.div (ofZ k) (q_rfactor s).

Definition stable (s : qsite) (k : Z) : bool :=
  match quant s (dequant s k) with Some k' => k' =? k | None => false end.
(** [0; 1; ...; mx] without a list of unary numbers *)
Fixpoint down (n : nat) (k : Z) (acc : list Z) : list Z :=
  match n with O => acc | S n' => down n' (k - 1) (k :: acc) end.
Definition fields (mx : Z) : list Z := down (Z.to_nat (mx + 1)) mx [].
Definition all_stable (s : qsite) : bool := forallb (stable s) (fields (q_max s)).
(** the sites of the pinned tree *)
Definition site_byte : qsite := mkQ QRound 255%float true 255 255%float.
Definition site_abs : qsite := mkQ QRound 4096%float true 65535 4096%float.

Lemma down_In : forall n k acc x, In x acc \/ (k - Z.of_nat n < x <= k) -> In x (down n k acc).
Proof.
  induction n as [|n IH]; intros k acc x H; cbn [down].
  - destruct H as [H|H]; [exact H|lia].
  - apply IH. destruct H as [H|H]; [left; right; exact H|].
    destruct (Z.eq_dec x k) as [->|Hne]; [left; left; reflexivity|right; lia].
Qed.
Lemma fields_complete : forall mx k, 0 <= k <= mx -> In k (fields mx).
Proof. intros mx k H. unfold fields. apply down_In. right. rewrite Z2Nat.id by lia. lia. Qed.

(** every stored field value is read and written back as itself, for every site passing the boolean *)
Theorem quant_dequant : forall s, all_stable s = true -> forall k, 0 <= k <= q_max s -> quant s (dequant s k) = Some k.
Proof.
  intros s H k Hk. unfold all_stable in H. rewrite forallb_forall in H. specialize (H k (fields_complete _ _ Hk)).
  unfold stable in H. destruct (quant s (dequant s k)) as [k'|]; [|discriminate]. apply Z.eqb_eq in H. subst. reflexivity.
Qed.

(** and so is the value: reading, writing and reading again gives the same float *)
Theorem dequant_second_generation : forall s, all_stable s = true -> forall k, 0 <= k <= q_max s ->
  option_map (dequant s) (quant s (dequant s k)) = Some (dequant s k).
Proof. intros s H k Hk. rewrite (quant_dequant s H k Hk). reflexivity. Qed.

Theorem byte_sites_stable : all_stable site_byte = true.
Proof. vm_compute. reflexivity. Qed.
Theorem abs_sites_stable : all_stable site_abs = true.
Proof. vm_compute. reflexivity. Qed.

(** comparing a generated site with one of the two above (the 65536-value enumeration is done once, at build time) *)
Definition qmode_eqb (a b : qmode) : bool := match a, b with QRound, QRound | QTrunc, QTrunc => true | _, _ => false end.
Definition qsite_eqb (a b : qsite) : bool :=
  qmode_eqb (q_mode a) (q_mode b) && PrimFloat.eqb (q_wfactor a) (q_wfactor b) && Bool.eqb (q_clamped a) (q_clamped b)
  && (q_max a =? q_max b) && PrimFloat.eqb (q_rfactor a) (q_rfactor b).

(** [round_u] is [py_round] on every product the byte sites can see (and on the examples below) *)
Theorem round_u_is_py_round_on_byte_products :
  forallb (fun k => match round_u (PrimFloat.mul (dequant site_byte k) 255%float), py_round (PrimFloat.mul (dequant site_byte k) 255%float) with
                    | Some a, Some b => a =? b | _, _ => false end) (fields 255) = true.
Proof. vm_compute. reflexivity. Qed.

(** nearby wrong shapes: factors that differ between the two sides (a reader dividing by 256); an unclamped writer is still
    stable on stored values (the clamp only matters for values outside [0, 1]).  Truncation ([int]) instead of [round] is NOT
    refuted: k / 255 * 255 = k exactly for all 256 field values in binary64, so it keeps every stored value. *)
Theorem quant_factor_mismatch_refuted :
  all_stable (mkQ QRound 255%float true 255 256%float) = false /\
  quant (mkQ QRound 255%float true 255 256%float) (dequant (mkQ QRound 255%float true 255 256%float) 200) = Some 199.
Proof. vm_compute. split; reflexivity. Qed.
Theorem quant_trunc_keeps_stored_values : all_stable (mkQ QTrunc 255%float true 255 255%float) = true.
Proof. vm_compute. reflexivity. Qed.

Example ex_round_ties_even : py_round 0.5%float = Some 0 /\ py_round 1.5%float = Some 2 /\ py_round 2.5%float = Some 2 /\
  py_round (-0.5)%float = Some 0 /\ py_round (-3.5)%float = Some (-4) /\ py_round 0x1.fd00000000001p+7%float = Some 255.
Proof. vm_compute. repeat split; reflexivity. Qed.
Example ex_round_u_ties_even : round_u 0.5%float = Some 0 /\ round_u 1.5%float = Some 2 /\ round_u 2.5%float = Some 2 /\
  round_u (-0.5)%float = Some 0 /\ round_u (-3.5)%float = Some (-4) /\ round_u 0x1.fd00000000001p+7%float = Some 255 /\
  round_u 0%float = Some 0 /\ round_u 65535%float = Some 65535 /\ round_u 0x1p-100%float = Some 0 /\ round_u PrimFloat.infinity = None.
Proof. vm_compute. repeat split; reflexivity. Qed.
Example ex_mk_float : mk_float false 4503599627370496 (-53) = 0.5%float /\ mk_float true 3 0 = (-3)%float.
Proof. vm_compute. split; reflexivity. Qed.
