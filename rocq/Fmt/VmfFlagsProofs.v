From Coq Require Import NArith List Bool Lia.
From SV Require Import Fmt.VmfFlags.
Import ListNotations.
Open Scope N_scope.

Theorem flags_roundtrip written t2c sub n : flags_tables_ok written t2c sub n = true ->
  forall f, (N.to_nat f < n)%nat ->
  exists p, flags_write written f = Some p /\ flags_read t2c sub p = Some f.
Proof.
  unfold flags_tables_ok. intros H f Hf. apply andb_true_iff in H. destruct H as [H _].
  rewrite forallb_forall in H.
  assert (In f (map N.of_nat (seq 0 n))) as Hin.
  { apply in_map_iff. exists (N.to_nat f). split; [apply N2Nat.id|]. apply in_seq. lia. }
  specialize (H f Hin). unfold flag_ok in H.
  destruct (flags_write written f) as [p|]; [|discriminate].
  exists p. split; [reflexivity|].
  destruct (flags_read t2c sub p) as [g|]; [|discriminate].
  apply N.eqb_eq in H. subst. reflexivity.
Qed.

(** The pinned tables pass; a writer table that sends two collision sets to the same number does not, and loses one. *)
Definition ex_t2c : list N := [7; 7; 6; 6; 5; 5; 4; 4; 3; 3; 2; 2; 1; 1; 0; 0].
Definition ex_written : list (N * bool) :=
  [(14, false); (12, false); (10, false); (8, false); (6, false); (4, false); (2, false); (0, false);
   (14, true); (12, true); (10, true); (8, true); (6, true); (4, true); (2, true); (0, true)].
Example flags_example_ok : flags_tables_ok ex_written ex_t2c 8 16 = true.
Proof. vm_compute. reflexivity. Qed.
Definition ex_written_bad : list (N * bool) :=
  [(14, false); (12, false); (10, false); (8, false); (6, false); (4, false); (2, false); (2, false)].
Theorem flags_not_inverse_refuted : flags_tables_ok ex_written_bad ex_t2c 8 8 = false /\
  exists p, flags_write ex_written_bad 7 = Some p /\ flags_read ex_t2c 8 p = Some 6.
Proof. split; [vm_compute; reflexivity|]. eexists. split; vm_compute; reflexivity. Qed.
