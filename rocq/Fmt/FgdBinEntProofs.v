(** C16 — proofs about Fmt/FgdBinEnt.v: what ent_serialise writes, ent_unserialise reads back (records,
    whole blocks, with the block's string dictionary), as a composition of the codec lemmas of Fmt/FgdBinProofs.v. *)
From Coq Require Import List NArith Arith Bool String Lia.
From SV Require Import Fmt.FgdBin Fmt.FgdBinProofs Fmt.FgdBinEnt.
Import ListNotations.
Open Scope N_scope.

Lemma encode_decode_type order v i : encode_type order v = Some i ->
  decode_type order i = Some v /\ (i < List.length order)%nat.
Proof.
  unfold encode_type, decode_type, index_last. intros H. apply index_last_aux_spec in H.
  destruct H as [H|[k [-> Hk]]]; [discriminate|]. cbn [Nat.add]. split; [exact Hk|]. apply nth_error_Some. congruence.
Qed.

Lemma flag_of_name_In n l v : flag_of_name n l = Some v -> In v (map snd l).
Proof.
  induction l as [|[x w] r IH]; cbn [flag_of_name map snd In]; [discriminate|].
  destruct (String.eqb x n); [intros [= ->]; left; reflexivity|intros H; right; apply IH, H].
Qed.

Lemma Forall_True {T} (l : list T) : Forall (fun _ => True) l.
Proof. induction l; constructor; auto. Qed.

Section Proofs.
Variable A : Type.
Variable enc : A -> option (N * N).
Variable dec : N * N -> option A.
Hypothesis enc_dec : forall s p, enc s = Some p -> dec p = Some s.
Variable empty : A.
Variables vt_order ft_order : list string.
Hypothesis vt_len : (List.length vt_order < 128)%nat.
Hypothesis ft_len : (List.length ft_order < 128)%nat.
Variables list_type choices_type : string.
Variable kinds : list (string * N).
Variables mask alias_bit : N.
Hypothesis kinds_layout : entflags_ok (map snd kinds) mask alias_bit = true.
Hypothesis kinds_values_distinct : nodup_N (map snd kinds) = true.
Hypothesis kinds_names_distinct : nodup_str (map fst kinds) = true.

Local Notation str_b := (str_b A enc).
Local Notation rd_str := (rd_str A dec).
Local Notation kvdef := (kvdef A).
Local Notation flag_ser := (flag_ser A enc).
Local Notation flag_unser := (flag_unser A dec).
Local Notation kv_ser := (kv_ser A enc vt_order list_type choices_type).
Local Notation kv_unser := (kv_unser A dec empty vt_order list_type).
Local Notation io_ser := (io_ser A enc vt_order).
Local Notation io_unser := (io_unser A dec vt_order).
Local Notation res_ser := (res_ser A enc ft_order).
Local Notation res_unser := (res_unser A dec ft_order).
Local Notation ent_ser := (ent_ser A enc vt_order ft_order list_type choices_type kinds alias_bit).
Local Notation ent_unser := (ent_unser A dec empty vt_order ft_order list_type kinds mask alias_bit).
Local Notation kv_wf := (kv_wf A empty list_type).
Local Notation ent_wf := (ent_wf A empty list_type).

Lemma cat_some a b bs : cat a b = Some bs -> exists x y, a = Some x /\ b = Some y /\ bs = x ++ y.
Proof. destruct a as [x|], b as [y|]; cbn [cat]; try discriminate. intros [= <-]. eauto. Qed.
Lemma cat_all_cons a l bs : cat_all (a :: l) = Some bs -> exists x y, a = Some x /\ cat_all l = Some y /\ bs = x ++ y.
Proof. cbn [cat_all fold_right]. apply cat_some. Qed.
Lemma cat_all_nil bs : cat_all [] = Some bs -> bs = [].
Proof. cbn [cat_all fold_right]. congruence. Qed.

Lemma byte_some n bs : byte n = Some bs -> bs = [n].
Proof. unfold byte. destruct (n <? 256); congruence. Qed.
Lemma rd_byte_ok n bs rest : byte n = Some bs -> rd_byte (bs ++ rest) = Some (n, rest).
Proof. intros H. apply byte_some in H. subst. reflexivity. Qed.
Lemma rd_str_ok s bs rest : str_b s = Some bs -> rd_str (bs ++ rest) = Some (s, rest).
Proof.
  unfold FgdBinEnt.str_b. destruct (enc s) as [[a b]|] eqn:E; cbn [option_map]; [|discriminate]. intros [= <-].
  cbn [fst snd app FgdBinEnt.rd_str]. rewrite (enc_dec _ _ E). reflexivity.
Qed.
Lemma count_some {T} (l : list T) bs : count_b l = Some bs -> bs = [N.of_nat (List.length l)].
Proof. apply byte_some. Qed.

(** a counted sequence of records *)
Lemma rd_n_ok {T} (ser : T -> option (list N)) (rd : reader T) (P : T -> Prop) :
  (forall x bs rest, P x -> ser x = Some bs -> rd (bs ++ rest) = Some (x, rest)) ->
  forall l bs rest, Forall P l -> cat_all (map ser l) = Some bs -> rd_n (List.length l) rd (bs ++ rest) = Some (l, rest).
Proof.
  intros H. induction l as [|x l IH]; intros bs rest Hl Hs; cbn [map List.length rd_n] in *.
  - apply cat_all_nil in Hs. subst. reflexivity.
  - apply cat_all_cons in Hs. destruct Hs as [b1 [b2 [H1 [H2 ->]]]]. inversion Hl as [|? ? Hx Hl']; subst.
    rewrite <- app_assoc, (H x b1 _ Hx H1), (IH b2 rest Hl' H2). reflexivity.
Qed.
Lemma rd_n_count {T} (l : list T) (rd : reader T) bs : rd_n (N.to_nat (N.of_nat (List.length l))) rd bs = rd_n (List.length l) rd bs.
Proof. rewrite Nat2N.id. reflexivity. Qed.

Lemma flag_roundtrip f bs rest : flag_wf A f -> flag_ser f = Some bs -> flag_unser (bs ++ rest) = Some (f, rest).
Proof.
  destruct f as [[m name] d]. intros [p [Hp Hm]]. cbn [fst] in Hm. subst m. unfold FgdBinEnt.flag_ser.
  destruct ((2 ^ p =? 0) || (128 <=? N.log2 (2 ^ p))); [discriminate|]. intros H.
  apply cat_some in H. destruct H as [b1 [b2 [H1 [H2 ->]]]]. unfold FgdBinEnt.flag_unser.
  rewrite <- app_assoc, (rd_byte_ok _ _ _ H1), (spawnflag_roundtrip p d Hp), (rd_str_ok _ _ _ H2). reflexivity.
Qed.

Lemma kv_roundtrip k bs rest : kv_wf k -> kv_ser k = Some bs -> kv_unser (bs ++ rest) = Some (k, rest).
Proof.
  destruct k as [name disp ty ro dflt fl]. unfold FgdBinEnt.kv_wf, FgdBinEnt.kv_ser. cbn [kv_type kv_name kv_disp kv_ro kv_default kv_flags].
  intros Hwf. destruct (encode_type vt_order ty) as [i|] eqn:Ei; [|discriminate].
  destruct (encode_decode_type _ _ _ Ei) as [Hd Hi]. intros H.
  apply cat_all_cons in H. destruct H as [b1 [r1 [H1 [H ->]]]].
  apply cat_all_cons in H. destruct H as [b2 [r2 [H2 [H ->]]]].
  apply cat_all_cons in H. destruct H as [b3 [r3 [H3 [H ->]]]].
  apply cat_all_cons in H. destruct H as [b4 [r4 [H4 [H ->]]]]. apply cat_all_nil in H. subst r4.
  unfold FgdBinEnt.kv_unser. rewrite app_nil_r, <- !app_assoc.
  rewrite (rd_str_ok _ _ _ H1), (rd_str_ok _ _ _ H2), (rd_byte_ok _ _ _ H3).
  destruct (flag7_roundtrip (N.of_nat i) ro) as [-> _]; [lia|]. rewrite Nat2N.id, Hd.
  destruct (String.eqb ty list_type).
  - destruct Hwf as [-> Hfl]. apply cat_some in H4. destruct H4 as [c1 [c2 [Hc1 [Hc2 ->]]]].
    rewrite <- app_assoc, (rd_byte_ok _ _ _ Hc1), rd_n_count.
    rewrite (rd_n_ok flag_ser flag_unser (flag_wf A) (fun x b r Hx Hs => flag_roundtrip x b r Hx Hs) fl c2 rest Hfl Hc2). reflexivity.
  - subst fl. destruct (String.eqb ty choices_type); [discriminate|]. rewrite (rd_str_ok _ _ _ H4). reflexivity.
Qed.

Lemma io_roundtrip o bs rest : io_ser o = Some bs -> io_unser (bs ++ rest) = Some (o, rest).
Proof.
  destruct o as [name ty]. unfold FgdBinEnt.io_ser. cbn [io_name io_type].
  destruct (encode_type vt_order ty) as [i|] eqn:Ei; [|discriminate]. destruct (encode_decode_type _ _ _ Ei) as [Hd Hi].
  intros H. apply cat_some in H. destruct H as [b1 [b2 [H1 [H2 ->]]]]. unfold FgdBinEnt.io_unser.
  rewrite <- app_assoc, (rd_str_ok _ _ _ H1), (rd_byte_ok _ _ _ H2), Nat2N.id, Hd. reflexivity.
Qed.

Lemma pack_flag7_false i : pack_flag7 i false = i.
Proof. unfold pack_flag7. apply N.lor_0_r. Qed.

Lemma res_roundtrip r bs rest : res_ser r = Some bs -> res_unser (bs ++ rest) = Some (r, rest).
Proof.
  destruct r as [f ty tags]. unfold FgdBinEnt.res_ser. cbn [res_file res_type res_tags].
  destruct (encode_type ft_order ty) as [i|] eqn:Ei; [|discriminate]. destruct (encode_decode_type _ _ _ Ei) as [Hd Hi].
  unfold FgdBinEnt.res_unser. destruct tags as [|t tags].
  - intros H. apply cat_some in H. destruct H as [b1 [b2 [H1 [H2 ->]]]].
    rewrite <- app_assoc, (rd_byte_ok _ _ _ H1). rewrite <- (pack_flag7_false (N.of_nat i)).
    destruct (flag7_roundtrip (N.of_nat i) false) as [-> _]; [lia|]. rewrite Nat2N.id, Hd, (rd_str_ok _ _ _ H2). reflexivity.
  - intros H.
    apply cat_all_cons in H. destruct H as [b1 [r1 [H1 [H ->]]]].
    apply cat_all_cons in H. destruct H as [b2 [r2 [H2 [H ->]]]].
    apply cat_all_cons in H. destruct H as [b3 [r3 [H3 [H ->]]]].
    apply cat_all_cons in H. destruct H as [b4 [r4 [H4 [H ->]]]]. apply cat_all_nil in H. subst r4.
    rewrite app_nil_r, <- !app_assoc, (rd_byte_ok _ _ _ H1).
    destruct (flag7_roundtrip (N.of_nat i) true) as [-> _]; [lia|]. rewrite Nat2N.id, Hd, (rd_byte_ok _ _ _ H2), rd_n_count.
    rewrite (rd_n_ok str_b rd_str (fun _ => True) (fun x b r _ Hs => rd_str_ok x b r Hs) (t :: tags) b3 _ (Forall_True _) H3).
    rewrite (rd_str_ok _ _ _ H4). reflexivity.
Qed.

(** what ent_serialise writes for a definition, ent_unserialise reads back, consuming exactly those bytes *)
Theorem ent_roundtrip e bs rest : ent_wf e -> ent_ser e = Some bs -> ent_unser (bs ++ rest) = Some (e, rest).
Proof.
  destruct e as [kind al bases kvs ins outs res]. unfold FgdBinEnt.ent_wf, FgdBinEnt.ent_ser.
  cbn [e_kind e_alias e_bases e_kvs e_ins e_outs e_res]. intros Hwf.
  destruct (flag_of_name kind kinds) as [ty|] eqn:Ek; [|discriminate]. intros H.
  apply cat_all_cons in H. destruct H as [b0 [r0 [H0 [H ->]]]].
  apply cat_all_cons in H. destruct H as [c1 [r1 [C1 [H ->]]]].
  apply cat_all_cons in H. destruct H as [c2 [r2 [C2 [H ->]]]].
  apply cat_all_cons in H. destruct H as [c3 [r3 [C3 [H ->]]]].
  apply cat_all_cons in H. destruct H as [c4 [r4 [C4 [H ->]]]].
  apply cat_all_cons in H. destruct H as [c5 [r5 [C5 [H ->]]]].
  apply cat_all_cons in H. destruct H as [s1 [t1 [S1 [H ->]]]].
  apply cat_all_cons in H. destruct H as [s2 [t2 [S2 [H ->]]]].
  apply cat_all_cons in H. destruct H as [s3 [t3 [S3 [H ->]]]].
  apply cat_all_cons in H. destruct H as [s4 [t4 [S4 [H ->]]]].
  apply cat_all_cons in H. destruct H as [s5 [t5 [S5 [H ->]]]]. apply cat_all_nil in H. subst t5.
  apply byte_some in H0. apply count_some in C1, C2, C3, C4, C5. subst b0 c1 c2 c3 c4 c5.
  rewrite app_nil_r. cbn [app]. unfold FgdBinEnt.ent_unser.
  destruct (entflags_roundtrip (map snd kinds) mask alias_bit ty al kinds_layout (flag_of_name_In _ _ _ Ek)) as [-> _].
  rewrite (flag_table_inverse kinds kind ty kinds_values_distinct kinds_names_distinct Ek).
  rewrite <- !app_assoc, !Nat2N.id.
  rewrite (rd_n_ok str_b rd_str (fun _ => True) (fun x b r _ Hs => rd_str_ok x b r Hs) bases s1 _ (Forall_True _) S1). cbv beta iota.
  rewrite (rd_n_ok kv_ser kv_unser kv_wf (fun x b r Hx Hs => kv_roundtrip x b r Hx Hs) kvs s2 _ Hwf S2). cbv beta iota.
  rewrite (rd_n_ok io_ser io_unser (fun _ => True) (fun x b r _ Hs => io_roundtrip x b r Hs) ins s3 _ (Forall_True _) S3). cbv beta iota.
  rewrite (rd_n_ok io_ser io_unser (fun _ => True) (fun x b r _ Hs => io_roundtrip x b r Hs) outs s4 _ (Forall_True _) S4). cbv beta iota.
  rewrite (rd_n_ok res_ser res_unser (fun _ => True) (fun x b r _ Hs => res_roundtrip x b r Hs) res s5 rest (Forall_True _) S5).
  reflexivity.
Qed.

(** the records of a whole block, in the order of the block's class names *)
Theorem block_roundtrip es bs rest : Forall ent_wf es ->
  block_ser A enc vt_order ft_order list_type choices_type kinds alias_bit es = Some bs ->
  block_unser A dec empty vt_order ft_order list_type kinds mask alias_bit (List.length es) (bs ++ rest) = Some (es, rest).
Proof.
  intros Hwf H. unfold block_ser, block_unser in *.
  exact (rd_n_ok ent_ser ent_unser ent_wf (fun x b r Hx Hs => ent_roundtrip x b r Hx Hs) es bs rest Hwf H).
Qed.

(** the writer emits at most 255 of anything it counts and every byte it emits fits a byte where it is an index *)
Lemma ent_ser_counts e bs : ent_ser e = Some bs ->
  (List.length (e_bases A e) < 256 /\ List.length (e_kvs A e) < 256 /\ List.length (e_ins A e) < 256
   /\ List.length (e_outs A e) < 256 /\ List.length (e_res A e) < 256)%nat.
Proof.
  unfold FgdBinEnt.ent_ser. destruct (flag_of_name (e_kind A e) kinds); [|discriminate]. intros H.
  apply cat_all_cons in H. destruct H as [b0 [r0 [H0 [H ->]]]].
  apply cat_all_cons in H. destruct H as [c1 [r1 [C1 [H ->]]]].
  apply cat_all_cons in H. destruct H as [c2 [r2 [C2 [H ->]]]].
  apply cat_all_cons in H. destruct H as [c3 [r3 [C3 [H ->]]]].
  apply cat_all_cons in H. destruct H as [c4 [r4 [C4 [H ->]]]].
  apply cat_all_cons in H. destruct H as [c5 [r5 [C5 [H ->]]]].
  unfold count_b, byte in *.
  repeat match goal with Hc : (if ?n <? 256 then _ else _) = Some _ |- _ => destruct (N.ltb_spec n 256); [clear Hc|discriminate Hc] end.
  lia.
Qed.
End Proofs.

(** * The block dictionary as [enc]/[dec] *)
Section DictProofs.
Variable A : Type.
Variable eqb : A -> A -> bool.
Hypothesis eqb_spec : forall a b, eqb a b = true <-> a = b.
Variables base own : list A.
Variable shared : nat.
Hypothesis base_len : List.length base = shared.

Lemma sd_encode_decode s i : sd_encode A eqb base own shared s = Some i -> sd_decode A base own i = Some s.
Proof.
  unfold sd_encode, sd_decode. destruct (index_first A eqb s base) as [j|] eqn:E.
  - intros [= <-]. pose proof (index_first_nth A eqb eqb_spec _ _ _ E) as Hn.
    rewrite nth_error_app1; [exact Hn|]. apply nth_error_Some. congruence.
  - destruct (index_first A eqb s own) as [j|] eqn:E2; cbn [option_map]; [|discriminate]. intros [= <-].
    pose proof (index_first_nth A eqb eqb_spec _ _ _ E2) as Hn.
    rewrite nth_error_app2 by lia. replace (shared + j - List.length base)%nat with j by lia. exact Hn.
Qed.

Lemma dict_enc_dec s p : dict_enc A eqb base own shared s = Some p -> dict_dec A base own p = Some s.
Proof.
  unfold dict_enc, dict_dec. destruct (sd_encode A eqb base own shared s) as [i|] eqn:E; [|discriminate].
  destruct (N.ltb_spec (N.of_nat i) 65536) as [Hi|]; [|discriminate]. intros [= <-].
  destruct (le16_roundtrip (N.of_nat i) Hi) as [_ [_ ->]]. rewrite Nat2N.id. apply sd_encode_decode, E.
Qed.
End DictProofs.

(** * The file header and the block positions *)
Lemma un32_le32 n : n < 4294967296 -> match le32 n with [a; b; c; d] => un32 a b c d = n | _ => False end.
Proof.
  intros H. unfold le32, un32.
  pose proof (N.div_mod n 256 ltac:(discriminate)) as H1.
  pose proof (N.div_mod (n / 256) 256 ltac:(discriminate)) as H2.
  pose proof (N.div_mod (n / 256 / 256) 256 ltac:(discriminate)) as H3.
  rewrite !N.div_div in H2, H3 by discriminate. change (256 * 256) with 65536 in *.
  rewrite N.div_div in H3 by discriminate. change (65536 * 256) with 16777216 in *.
  lia.
Qed.
Lemma un16_le16 n : match le16 n with [a; b] => a + 256 * b = n | _ => False end.
Proof. unfold le16. pose proof (N.div_mod n 256 ltac:(discriminate)). lia. Qed.

Lemma bpos_roundtrip b bs rest : bpos_ser b = Some bs -> bpos_unser (bs ++ rest) = Some (b, rest).
Proof.
  destruct b as [names off size]. unfold bpos_ser. cbn [bp_names bp_off bp_size].
  destruct (N.ltb_spec (N.of_nat (List.length names)) 65536) as [H1|]; [|discriminate].
  destruct (N.ltb_spec off 4294967296) as [H2|]; [|discriminate].
  destruct (N.ltb_spec size 65536) as [H3|]; [|discriminate]. cbn [andb]. intros [= <-].
  unfold bpos_unser. pose proof (un16_le16 (N.of_nat (List.length names))) as E1. pose proof (un32_le32 off H2) as E2.
  pose proof (un16_le16 size) as E3. unfold le16, le32 in *. cbn [app]. rewrite E1, Nat2N.id.
  rewrite <- !app_assoc. rewrite app_length. rewrite (proj2 (Nat.leb_le _ _)) by lia.
  rewrite skipn_app, skipn_all, Nat.sub_diag. cbn [app skipn]. rewrite E2, E3.
  rewrite firstn_app, firstn_all, Nat.sub_diag. cbn [firstn]. rewrite app_nil_r. reflexivity.
Qed.

(** the header reads back as the list of (class names, position, size) *)
Theorem header_roundtrip version positions0 bs rest : header_ser version positions0 = Some bs ->
  header_unser version (bs ++ rest) = Some (positions0, rest).
Proof.
  unfold header_ser. destruct (N.ltb_spec version 256) as [Hv|]; [|discriminate].
  destruct (N.ltb_spec (N.of_nat (List.length positions0)) 4294967296) as [Hn|]; [|discriminate]. cbn [andb].
  destruct (cat_all (map bpos_ser positions0)) as [body|] eqn:Eb; [|discriminate]. cbn [cat]. intros [= <-].
  pose proof (un32_le32 _ Hn) as E. unfold le32 in *. unfold MAGIC. cbn [app]. unfold header_unser.
  rewrite N.eqb_refl, E, Nat2N.id.
  exact (rd_n_ok bpos_ser bpos_unser (fun _ => True) (fun x b r _ Hs => bpos_roundtrip x b r Hs) positions0 body rest (Forall_True _) Eb).
Qed.

(** reading `size` bytes at `off` for every position written by serialise gives back every block's data *)
Lemma slice_app pre data post : slice (pre ++ data ++ post) (N.of_nat (List.length pre)) (N.of_nat (List.length data)) = data.
Proof.
  unfold slice. rewrite !Nat2N.id, skipn_app, skipn_all, Nat.sub_diag. cbn [app skipn].
  rewrite firstn_app, firstn_all, Nat.sub_diag. cbn [firstn]. apply app_nil_r.
Qed.
Theorem positions_slices blocks : forall pre post,
  Forall2 (fun p blk => slice (pre ++ List.concat (map snd blocks) ++ post) (bp_off p) (bp_size p) = snd blk /\ bp_names p = fst blk)
          (positions (N.of_nat (List.length pre)) blocks) blocks.
Proof.
  induction blocks as [|[names data] blocks IH]; intros pre post; cbn [positions map List.concat]; constructor.
  - cbn [bp_off bp_size bp_names fst snd]. split; [|reflexivity]. rewrite <- app_assoc. apply slice_app.
  - specialize (IH (pre ++ data) post). rewrite app_length, Nat2N.inj_add in IH. cbn [snd].
    rewrite <- !app_assoc in IH. rewrite <- app_assoc. exact IH.
Qed.
