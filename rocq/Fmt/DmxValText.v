(** C14 — the value strings of KeyValues2: [TYPE_CONVERT[t, STRING]] / [TYPE_CONVERT[STRING, t]] for FLOAT and the float
    vectors (through C05's exact model of ['%.6f'] formatting, Num/Dec6.v), INTEGER and COLOR.
    A binary64 value is a [dyadic] (sign, mantissa, exponent) as in Num/Dec6.v.  Reading a decimal back into a double
    ([float(text)], CPython's correctly rounded strtod) is not modelled: the theorems speak about the decimal value of
    the text.  Executable definitions only; proofs are in DmxValTextProofs.v. *)
From Coq Require Import ZArith NArith List Bool String.
From SV Require Import Num.Dec6 Fmt.DmxCodes.
Import ListNotations.
Open Scope N_scope.

Definition SPC : N := 32.
Fixpoint list_eqb_N (a b : list N) : bool :=
  match a, b with [], [] => true | x :: a', y :: b' => (x =? y) && list_eqb_N a' b' | _, _ => false end.
(** [' '.join(parts)] *)
Definition join_sp (l : list (list N)) : list N :=
  match l with [] => [] | x :: r => x ++ flat_map (fun y => SPC :: y) r end.
(** [text.split()]: maximal runs of non-whitespace; [cur] is the run being collected, reversed *)
Fixpoint split_ws (is_ws : N -> bool) (cur : list N) (s : list N) : list (list N) :=
  match s with
  | [] => match cur with [] => [] | _ => [rev cur] end
  | c :: r => if is_ws c
              then match cur with [] => split_ws is_ws [] r | _ => rev cur :: split_ws is_ws [] r end
              else split_ws is_ws (c :: cur) r
  end.
(** [parse_vector(text, count)] up to the conversion of the parts: [None] = ValueError *)
Definition parse_parts (is_ws : N -> bool) (count : nat) (s : list N) : option (list (list N)) :=
  let parts := split_ws is_ws [] s in if Nat.eqb (List.length parts) count then Some parts else None.

(** FLOAT: [_fmt_float(x)]; VEC2/VEC3/VEC4/ANGLE/QUATERNION: the components joined by single spaces *)
Definition float_text (c : fmt_cfg) (x : dyadic) : list N := format6 c x.
Definition vec_text (c : fmt_cfg) (xs : list dyadic) : list N := join_sp (map (format6 c) xs).

(** INTEGER: [str(n)] / [int(text)] (plain decimal; Python's [int] also accepts '+', '_' and blanks, never written) *)
Definition int_text (z : Z) : list N :=
  match z with
  | Z0 => [48]
  | Zpos p => map ch (to_digits (Npos p))
  | Zneg p => 45 :: map ch (to_digits (Npos p))
  end.
Definition digit_val (c : N) : option N := if is_digit c then Some (c - 48) else None.
Fixpoint dec_val (acc : N) (s : list N) : option N :=
  match s with
  | [] => Some acc
  | c :: r => match digit_val c with Some d => dec_val (acc * 10 + d) r | None => None end
  end.
Definition parse_int (s : list N) : option Z :=
  match s with
  | [] => None
  | c :: r => if c =? 45 then match r with [] => None | _ => option_map (fun n => (- Z.of_N n)%Z) (dec_val 0 r) end
              else option_map Z.of_N (dec_val 0 s)
  end.

(** COLOR: [f'{r} {g} {b} {a}'] / split, 3 or 4 integers (alpha 255 when missing) *)
Definition color_text (r g b a : N) : list N := join_sp (map (fun n => int_text (Z.of_N n)) [r; g; b; a]).
Fixpoint mapM_opt {A B} (f : A -> option B) (l : list A) : option (list B) :=
  match l with
  | [] => Some []
  | x :: r => match f x, mapM_opt f r with Some y, Some r' => Some (y :: r') | _, _ => None end
  end.
Definition parse_color (is_ws : N -> bool) (s : list N) : option (Z * Z * Z * Z) :=
  match mapM_opt parse_int (split_ws is_ws [] s) with
  | Some [r; g; b] => Some (r, g, b, 255%Z)
  | Some [r; g; b; a] => Some (r, g, b, a)
  | _ => None
  end.

(** BINARY: [byt.hex(' ', 1).upper()] / [bytes.fromhex(text)] (ASCII whitespace is skipped between bytes, never inside one) *)
Definition hexd (n : N) : N := if n <? 10 then 48 + n else 55 + n.
Definition hex_byte (b : N) : list N := [hexd (b / 16); hexd (b mod 16)].
Definition hex_text (bs : list N) : list N := join_sp (map hex_byte bs).
Definition hex_val (c : N) : option N :=
  if (48 <=? c) && (c <=? 57) then Some (c - 48)
  else if (65 <=? c) && (c <=? 70) then Some (c - 55)
  else if (97 <=? c) && (c <=? 102) then Some (c - 87)
  else None.
Fixpoint parse_hex (is_ws : N -> bool) (s : list N) : option (list N) :=
  match s with
  | [] => Some []
  | c :: r =>
      if is_ws c then parse_hex is_ws r
      else match r with
           | d :: r' => match hex_val c, hex_val d, parse_hex is_ws r' with
                        | Some h, Some l, Some bs => Some ((h * 16 + l) :: bs)
                        | _, _, _ => None
                        end
           | [] => None
           end
  end.
Definition hex_char (c : N) : bool := ((48 <=? c) && (c <=? 57)) || ((65 <=? c) && (c <=? 70)).

Definition ascii_space (c : N) : bool := existsb (N.eqb c) [9; 10; 11; 12; 13; 32].
(** [byt.hex(sep, n).upper()]: separator, bytes per group, upper-cased *)
Definition hex_text_ok (sep : list N) (group : N) (upper : bool) : bool := list_eqb_N sep [SPC] && (group =? 1) && upper.

(** the decisive constants of [_fmt_float]: six places, trailing zeros and a bare point stripped, no [x + 0.0] *)
Definition float_text_cfg_ok (c : fmt_cfg) : bool := cfg_base_ok c && negb (adds_zero c) && negb (neg_zero_fix c).
Definition dmx_float_cfg : fmt_cfg := {| adds_zero := false; places := 6; strips := true; neg_zero_fix := false |}.
(** characters a decimal may consist of *)
Definition dec_char (c : N) : bool := is_digit c || (c =? 45) || (c =? 46).

(** Python's [str.isspace] / the separators of [str.split()] *)
Definition py_space (c : N) : bool :=
  existsb (N.eqb c) [9; 10; 11; 12; 13; 28; 29; 30; 31; 32; 133; 160; 5760; 8192; 8193; 8194; 8195; 8196; 8197; 8198; 8199;
                     8200; 8201; 8202; 8232; 8233; 8239; 8287; 12288].

(** ** What the translator reads from the string converters, and the conditions on it *)
Inductive cread := CPart (i : N) | CConst (z : Z).        (* an argument of [Color(...)] in _conv_string_to_color *)
Definition cread_eqb (a b : cread) : bool :=
  match a, b with CPart i, CPart j => i =? j | CConst x, CConst y => (x =? y)%Z | _, _ => false end.
Fixpoint list_eqb {A} (f : A -> A -> bool) (a b : list A) : bool :=
  match a, b with [] , [] => true | x :: a', y :: b' => f x y && list_eqb f a' b' | _, _ => false end.
Definition expected_comps (t : vtype) : list string :=
  match t with
  | TVec2 => ["x"; "y"] | TVec3 => ["x"; "y"; "z"] | TVec4 | TQuat => ["x"; "y"; "z"; "w"]
  | TAngle => ["pitch"; "yaw"; "roll"] | _ => []
  end%string.
Definition float_vec_types : list vtype := [TVec2; TVec3; TVec4; TAngle; TQuat].
(** every float vector writes its components in order, [_fmt_float]-formatted, and reads as many parts as it writes *)
Definition vec_text_components_ok (w : list (vtype * list string)) (r : list (vtype * N)) : bool :=
  forallb (fun t => opt_test (assoc_type t w) (fun comps => list_eqb String.eqb comps (expected_comps t)) &&
                    opt_test (assoc_type t r) (fun n => n =? N.of_nat (List.length (expected_comps t)))) float_vec_types.
Fixpoint lookupN {B} (k : N) (l : list (N * B)) : option B :=
  match l with [] => None | (k', v) :: r => if k' =? k then Some v else lookupN k r end.
(** COLOR writes r g b a and reads three parts (alpha 255) or four *)
Definition color_text_ok (w : list string) (r : list (N * list cread)) : bool :=
  list_eqb String.eqb w ["r"; "g"; "b"; "a"]%string &&
  opt_test (lookupN 3 r) (fun a => list_eqb cread_eqb a [CPart 0; CPart 1; CPart 2; CConst 255]) &&
  opt_test (lookupN 4 r) (fun a => list_eqb cread_eqb a [CPart 0; CPart 1; CPart 2; CPart 3]) &&
  Nat.eqb (List.length r) 2.
Definition scalar_text_funcs_ok (i f : string * string) : bool :=
  (String.eqb (fst i) "str" && String.eqb (snd i) "int" && String.eqb (fst f) "_fmt_float" && String.eqb (snd f) "float")%string.
