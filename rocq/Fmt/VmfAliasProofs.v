(** C06, round 5: alias identity (axiom-free).  The enumeration of worlds over the atoms of two reference expressions is a
    sound and complete decision procedure for "the two expressions denote the same object in every world". *)
From Coq Require Import List String Bool NArith Lia.
From SV Require Import Fmt.VmfAlias.
Import ListNotations.
Open Scope N_scope.

Lemma reval_in_locs w r : In (reval w r) (rlocs r).
Proof.
  induction r as [l|c IHc a IHa b IHb|k a IHa b IHb]; cbn [reval rlocs].
  - left; reflexivity.
  - destruct (w _); apply in_or_app; [left|right]; assumption.
  - destruct (w _); apply in_or_app; [left|right]; assumption.
Qed.

Lemma reval_ext w w' r : (forall a, In a (ratoms r) -> w a = w' a) -> reval w r = reval w' r.
Proof.
  induction r as [l|c IHc a IHa b IHb|k a IHa b IHb]; cbn [reval ratoms]; intros H.
  - reflexivity.
  - assert (Ec : reval w c = reval w' c).
    { apply IHc. intros x Hx. apply H. apply in_or_app; right. apply in_or_app; left. exact Hx. }
    rewrite Ec.
    assert (Et : w (at_truthy (reval w' c)) = w' (at_truthy (reval w' c))).
    { apply H. apply in_or_app; left. apply in_map. apply reval_in_locs. }
    rewrite Et. destruct (w' _).
    + apply IHa. intros x Hx. apply H. apply in_or_app; right. apply in_or_app; right. apply in_or_app; left. exact Hx.
    + apply IHb. intros x Hx. apply H. apply in_or_app; right. apply in_or_app; right. apply in_or_app; right. exact Hx.
  - assert (Et : w (at_opaque k) = w' (at_opaque k)) by (apply H; left; reflexivity).
    rewrite Et. destruct (w' _).
    + apply IHa. intros x Hx. apply H. right. apply in_or_app; left. exact Hx.
    + apply IHb. intros x Hx. apply H. right. apply in_or_app; right. exact Hx.
Qed.

Lemma worlds_cover l : forall w, exists w', In w' (all_worlds l) /\ forall a, In a l -> w' a = w a.
Proof.
  induction l as [|a r IH]; intros w; cbn [all_worlds].
  - exists (fun _ => false). split; [left; reflexivity|]. intros ? [].
  - destruct (IH w) as [w0 [Hin Hag]].
    exists (wupd w0 a (w a)). split.
    + apply in_flat_map. exists w0. split; [exact Hin|]. destruct (w a); [right; left|left]; reflexivity.
    + intros x Hx. unfold wupd. destruct (N.eqb x a) eqn:E.
      * apply N.eqb_eq in E. subst x. reflexivity.
      * destruct Hx as [Hx|Hx]; [subst x; rewrite N.eqb_refl in E; discriminate|]. apply Hag. exact Hx.
Qed.

Theorem alias_same_sound a b : alias_same a b = true -> forall w, reval w a = reval w b.
Proof.
  unfold alias_same. intros H w. rewrite forallb_forall in H.
  destruct (worlds_cover (ratoms a ++ ratoms b) w) as [w' [Hin Hag]].
  specialize (H w' Hin). apply N.eqb_eq in H.
  rewrite (reval_ext w w' a), (reval_ext w w' b); [exact H| |].
  - intros x Hx. symmetry. apply Hag. apply in_or_app; right. exact Hx.
  - intros x Hx. symmetry. apply Hag. apply in_or_app; left. exact Hx.
Qed.

Lemma forallb_false_witness {A} (f : A -> bool) l : forallb f l = false -> exists x, In x l /\ f x = false.
Proof.
  induction l as [|y r IH]; cbn [forallb]; [discriminate|].
  destruct (f y) eqn:E; cbn [andb]; intros H.
  - destruct (IH H) as [x [Hx Hf]]. exists x. split; [right; exact Hx|exact Hf].
  - exists y. split; [left; reflexivity|exact E].
Qed.

(** The check is complete: when it fails there is a world in which the two attributes hold different objects. *)
Theorem alias_same_complete a b : alias_same a b = false -> exists w, reval w a <> reval w b.
Proof.
  unfold alias_same. intros H. destruct (forallb_false_witness _ _ H) as [w [_ Hw]].
  exists w. apply N.eqb_neq. exact Hw.
Qed.

(** Identity is what makes content added through one attribute visible through the other. *)
Theorem alias_add_then_read a b : alias_same a b = true ->
  forall (X : Type) w (h : heap X) x, add_then_read w a b h x = h (reval w b) ++ [x].
Proof.
  intros H X w h x. unfold add_then_read, append_at. rewrite (alias_same_sound a b H w). rewrite N.eqb_refl. reflexivity.
Qed.

(** [x or []] (and [x or <anything new>]): in the world where [x] is an EMPTY list the attribute holds the new object; what is
    appended to it afterwards is not in the list the writer reads. *)
Theorem alias_or_fresh_refuted x f : x <> f ->
  alias_same (RIteT (RLoc x) (RLoc x) (RLoc f)) (RLoc x) = false /\
  forall (X : Type) (h : heap X) v, add_then_read (fun _ => false) (RIteT (RLoc x) (RLoc x) (RLoc f)) (RLoc x) h v = h x.
Proof.
  intros Hne. split.
  - destruct (alias_same _ _) eqn:E; [|reflexivity]. exfalso. apply Hne.
    pose proof (alias_same_sound _ _ E (fun _ => false)) as H. cbn [reval] in H. symmetry. exact H.
  - intros X h v. unfold add_then_read, append_at. cbn [reval].
    destruct (N.eqb x f) eqn:E; [apply N.eqb_eq in E; contradiction|reflexivity].
Qed.

(** A copy ([list(x)], [x[:]], a comprehension, [x.copy()]) is a new object in every world. *)
Theorem alias_copy_refuted x f : x <> f -> alias_same (RLoc f) (RLoc x) = false.
Proof.
  intros Hne. destruct (alias_same _ _) eqn:E; [|reflexivity]. exfalso. apply Hne.
  pose proof (alias_same_sound _ _ E (fun _ => false)) as H. cbn [reval] in H. symmetry. exact H.
Qed.

(** Meaning of the table obligation. *)
Theorem alias_table_meaning fns pairs t : alias_table_ok fns pairs t = true ->
  forall fn p, In fn fns -> In p pairs ->
  exists row, In row t /\ ar_fn row = fn /\ ar_left row = fst p /\ ar_right row = snd p /\
              (forall w, reval w (ar_l row) = reval w (ar_r row)) /\
              (forall (X : Type) w (h : heap X) x, add_then_read w (ar_l row) (ar_r row) h x = h (reval w (ar_r row)) ++ [x]).
Proof.
  unfold alias_table_ok. intros H fn p Hfn Hp.
  apply andb_prop in H. destruct H as [H _]. apply andb_prop in H. destruct H as [H _].
  apply andb_prop in H. destruct H as [Hrows Hall].
  rewrite forallb_forall in Hall. specialize (Hall fn Hfn). rewrite forallb_forall in Hall. specialize (Hall p Hp).
  unfold has_row in Hall. apply existsb_exists in Hall. destruct Hall as [row [Hin Hm]].
  apply andb_prop in Hm. destruct Hm as [Hm Hr]. apply andb_prop in Hm. destruct Hm as [Hf Hl].
  apply String.eqb_eq in Hf, Hl, Hr.
  rewrite forallb_forall in Hrows. specialize (Hrows row Hin). unfold row_ok in Hrows.
  exists row. repeat split; try assumption.
  - apply alias_same_sound. exact Hrows.
  - intros X w h x. apply alias_add_then_read. exact Hrows.
Qed.

(** Non-vacuity: the shape of today's VMF.parse (a dead [is None] guard that installs a new list, then the alias) passes;
    both attributes go through the same conditional. *)
Example alias_example_ok :
  alias_table_ok ["f"%string] [("a"%string, "b.c"%string)]
    [mk_aliasrow "f" "a" "b.c" (RIteO 0 (RLoc 7) (RLoc 5)) (RIteO 0 (RLoc 7) (RLoc 5))] = true.
Proof. vm_compute. reflexivity. Qed.
Example alias_example_or_empty :
  alias_same (RIteT (RIteO 0 (RLoc 7) (RLoc 5)) (RIteO 0 (RLoc 7) (RLoc 5)) (RLoc 9)) (RIteO 0 (RLoc 7) (RLoc 5)) = false.
Proof. vm_compute. reflexivity. Qed.
