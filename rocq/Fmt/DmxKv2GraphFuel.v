(** C14 — [nest_doc] is total: below a root no chain of inline blocks is longer than the number of elements, because the blocks of
    different levels are different elements (Fmt/DmxKv2GraphUnique.v); the fuel [length g + 1] is enough. *)
From Coq Require Import NArith List Bool Lia PeanoNat Permutation.
From SV Require Import Text.Str Text.Tokenizer Fmt.DmxKv2 Fmt.DmxKv2Proofs Fmt.DmxKv2Nested Fmt.DmxKv2Graph Fmt.DmxKv2GraphProofs Fmt.DmxKv2GraphUnique.
Import ListNotations.
Open Scope nat_scope.

Lemma map_opt_none {A B} (f : A -> option B) : forall l, map_opt f l = None -> exists x, In x l /\ f x = None.
Proof.
  induction l as [|a l IH]; intros H; [discriminate|]. cbn [map_opt] in H. destruct (f a) as [b|] eqn:Fa.
  - destruct (map_opt f l) as [bs|] eqn:Fl; [discriminate|]. destruct (IH eq_refl) as [x [Hx Hf]]. exists x. split; [now right|assumption].
  - exists a. split; [now left|assumption].
Qed.

Section Fuel.
Variable g : gdoc.
Variable isroot : nat -> bool.
Notation n := (length g).
Hypothesis Hrange : refs_in_range g.
Hypothesis HU : NoDup (K g isroot (seq 0 n)).

Fixpoint itK (k : nat) (l : list nat) : list nat := match k with O => l | S k' => itK k' (K g isroot l) end.

Lemma itK_mono : forall k a b, (forall y, In y a -> In y b) -> forall y, In y (itK k a) -> In y (itK k b).
Proof.
  induction k as [|k IH]; intros a b H y Hy; [now apply H|]. cbn [itK] in Hy |- *. apply (IH (K g isroot a)); [|assumption].
  intros z Hz. unfold K in Hz |- *. apply in_flat_map in Hz. destruct Hz as [i [Hi Hz]]. apply in_flat_map. exists i. split; [now apply H|assumption].
Qed.

Lemma failing_child f i : i < n -> nest_elem g isroot false (S f) i = None ->
  exists j, In j (kids g isroot i) /\ nest_elem g isroot false f j = None.
Proof.
  intros Li H. rewrite nest_elem_S in H. destruct (nth_error g i) as [e|] eqn:Ne; [|apply nth_error_None in Ne; lia].
  fold (item_fn g isroot f) in H. destruct (map_opt _ (ge_attrs e)) as [attrs|] eqn:Ha; [discriminate|].
  destruct (map_opt_none _ _ Ha) as [a [Hin Hf]].
  destruct (map_opt (item_fn g isroot f) (ga_items a)) as [its|] eqn:Hi; [discriminate|].
  destruct (map_opt_none _ _ Hi) as [it [Hit Hnone]].
  destruct it as [s|[j| |u]]; cbn [item_fn] in Hnone; try discriminate.
  destruct (isroot j) eqn:Rj; [discriminate|]. destruct (nest_elem g isroot false f j) eqn:Nj; [discriminate|].
  exists j. split; [|exact Nj]. unfold kids. rewrite (nth_error_nth _ _ dflt_gelem Ne).
  apply in_flat_map. exists a. split; [assumption|]. apply in_flat_map. exists (GRef (GElem j)). split; [assumption|].
  cbn [item_blocks]. rewrite Rj. now left.
Qed.

Lemma failing_levels : forall f i, i < n -> nest_elem g isroot false f i = None -> itK f [i] <> [].
Proof.
  induction f as [|f IH]; intros i Li H; [discriminate|].
  destruct (failing_child f i Li H) as [j [Hj Hn]].
  assert (Lj : j < n) by (apply (kids_range g isroot Hrange i j Hj)).
  specialize (IH j Lj Hn). cbn [itK]. intros E.
  destruct (itK f [j]) as [|y r] eqn:Ey; [now apply IH|].
  assert (In y (itK f (K g isroot [i]))).
  { apply (itK_mono f [j]); [|rewrite Ey; now left]. intros z [<-|[]]. unfold K. cbn [flat_map]. rewrite app_nil_r. assumption. }
  rewrite E in H0. destruct H0.
Qed.

Lemma itK_nil k : itK k [] = [].
Proof. induction k; [reflexivity|]. cbn [itK]. unfold K. cbn. assumption. Qed.
Lemma itK_prefix : forall k m l, itK (k + m) l <> [] -> itK k l <> [].
Proof.
  induction k as [|k IH]; intros m l H.
  - cbn [itK]. intros E. subst l. apply H. apply itK_nil.
  - cbn [Nat.add itK] in H |- *. now apply (IH m).
Qed.

Lemma lv_length : forall f l, (forall k, k < f -> itK k l <> []) -> f <= length (lv_union g isroot f l).
Proof.
  induction f as [|f IH]; intros l H; [lia|]. cbn [lv_union]. rewrite app_length.
  assert (l <> []) by (apply (H 0); lia).
  assert (f <= length (lv_union g isroot f (K g isroot l))).
  { apply IH. intros k Hk. apply (H (S k)). lia. }
  destruct l; [congruence|]. cbn [length]. lia.
Qed.

Theorem nest_elem_enough_fuel r : r < n -> isroot r = true -> nest_elem g isroot false (S n) r <> None.
Proof.
  intros Lr Rr H. pose proof (failing_levels (S n) r Lr H) as Hne.
  assert (Hall : forall k, k < S (S n) -> itK k [r] <> []).
  { intros k Hk. apply (itK_prefix k (S n - k)). replace (k + (S n - k)) with (S n) by lia. assumption. }
  pose proof (lv_length (S (S n)) [r] Hall) as Hlen.
  assert (Hnd : NoDup (lv_union g isroot (S (S n)) [r])).
  { apply (lv_nodup g isroot Hrange HU).
    - constructor; [intros []|constructor].
    - intros x [<-|[]]. assumption.
    - intros m x [<-|[]] Hx. pose proof (lv_nonroot g isroot m (K g isroot [r]) (K_nonroot g isroot [r]) r Hx). congruence. }
  assert (Hinc : incl (lv_union g isroot (S (S n)) [r]) (seq 0 n)).
  { apply (in_range_incl g). apply (lv_range g isroot Hrange). intros x [<-|[]]. assumption. }
  pose proof (NoDup_incl_length Hnd Hinc) as Hle. rewrite seq_length in Hle. lia.
Qed.

Theorem nest_doc_total : exists d, nest_doc g isroot false = Some d.
Proof.
  unfold nest_doc.
  assert (H : forall l, (forall r, In r l -> r < n /\ isroot r = true) -> exists d, map_opt (nest_elem g isroot false (S n)) l = Some d).
  { induction l as [|r l IH]; intros Hl; [now exists []|].
    destruct (IH (fun x Hx => Hl x (or_intror Hx))) as [d Hd]. destruct (Hl r (or_introl eq_refl)) as [Lr Rr].
    destruct (nest_elem g isroot false (S n) r) as [t|] eqn:Nr; [|now apply nest_elem_enough_fuel in Nr].
    exists (t :: d). cbn [map_opt]. now rewrite Nr, Hd. }
  apply H. intros r Hr. unfold root_list in Hr. apply filter_In in Hr. destruct Hr as [Hr Rr]. apply in_seq in Hr. split; [lia|assumption].
Qed.
End Fuel.
