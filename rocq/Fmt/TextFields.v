(* TextFields.v -- census of the values the text writers (soundscripts, VMT, text choreo scenes) interpolate
   into their output, regenerated from the source as Gen/TextFields_gen.v, and what each class of field needs
   to be read back by the tokenizer.  Definitions only; lemmas in TextFieldsProofs.v. *)
From Coq Require Import List NArith Bool.
From SV Require Import KV.KvBase KV.KvLex.
Import ListNotations.
Open Scope N_scope.

Inductive fclass := FEscQuoted | FEscBare | FRawQuoted | FRawBare | FCondQuoted.
Inductive ftype := TyStr | TyNum | TyWord | TyPair | TyConst.
Record fsite := mkSite { fs_line : N; fs_class : fclass; fs_type : ftype }.

Definition fclass_eqb (a b : fclass) : bool :=
  match a, b with FEscQuoted, FEscQuoted | FEscBare, FEscBare | FRawQuoted, FRawQuoted | FRawBare, FRawBare
                  | FCondQuoted, FCondQuoted => true | _, _ => false end.
Definition is_free_text (t : ftype) : bool := match t with TyStr | TyPair => true | _ => false end.

(** escape_text outside quotes is never right: the tokenizer only un-escapes inside a quoted string *)
Definition no_escape_outside_quotes (l : list fsite) : bool := forallb (fun s => negb (fclass_eqb (fs_class s) FEscBare)) l.
(** formats with escapes (text choreo scenes): every free-text field is escaped and quoted *)
Definition free_text_escaped (l : list fsite) : bool :=
  forallb (fun s => if is_free_text (fs_type s) then fclass_eqb (fs_class s) FEscQuoted else true) l.
(** formats without escapes (soundscripts): every free-text field is between quotes *)
Definition free_text_quoted (l : list fsite) : bool :=
  forallb (fun s => if is_free_text (fs_type s) then fclass_eqb (fs_class s) FRawQuoted || fclass_eqb (fs_class s) FEscQuoted else true) l.
(** VMT: free text is quoted, or quoted on demand; at most [n] bare sites (the shader name) *)
Definition free_text_quoted_or_on_demand (n : nat) (l : list fsite) : bool :=
  Nat.leb (length (filter (fun s => is_free_text (fs_type s) && fclass_eqb (fs_class s) FRawBare) l)) n
  && forallb (fun s => if is_free_text (fs_type s)
                       then negb (fclass_eqb (fs_class s) FEscBare) else true) l.
(** a str parameter that all callers pass a literal for is a keyword: it must stay outside quotes *)
Definition keywords_bare (l : list fsite) : bool :=
  forallb (fun s => match fs_type s with TyConst => fclass_eqb (fs_class s) FRawBare | _ => true end) l.

(** what a field of a given class puts into the file *)
Definition render_field (E : escfg) (c : fclass) (v : str) : str :=
  match c with
  | FEscQuoted => DQ :: escape E v ++ [DQ]
  | FRawQuoted => DQ :: v ++ [DQ]
  | FEscBare => escape E v
  | FRawBare | FCondQuoted => v
  end.

(** the characters a raw quoted string cannot hold *)
Definition raw_char_ok (c : char) : bool := negb ((c =? DQ) || (c =? BS) || (c =? CR) || (c =? LF)).
Definition raw_safe (v : str) : bool := forallb raw_char_ok v.

(** * Operator stacks of soundscripts: block names paired with attributes on both sides *)
Definition stacks_paired (written : list (str * str * str)) (read : list (str * str)) : bool :=
  forallb (fun w => let '(name, guard, src) := w in
                    str_eqb guard src && existsb (fun r => str_eqb (fst r) name && str_eqb (snd r) src) read) written
  && forallb (fun r => existsb (fun w => let '(name, _, src) := w in str_eqb name (fst r) && str_eqb src (snd r)) written) read
  && Nat.eqb (length written) (length read).
