(* ScenesImageCfg.v -- the scenes.image writer over a configuration regenerated from choreo.py.

   Gen/ScenesImg_gen.v (translate/c20_formats.py, translate_scenes_image) describes what
   save_scenes_image_sync / parse_scenes_image do today: every struct format with the value each
   field carries (writer: the expression packed; reader: what the unpacked name is used for), the
   version tests, the sort that is in effect when the string pool is filled and when the table is
   written (per input form: dict / iterable), the DeferredWrites key.  This file defines

   - [layout_g c] / [img_save_g c]: the writer driven by that configuration ([None] where struct.pack
     would raise), over the container-level entries of ScenesImage.v;
   - [img_save_s c]: the same including the construction of the string pool (find_or_insert over the
     sounds and the strings of the exported scenes, in the order the pool loop sees the entries);
   - [icfg_okb]: the conjunction of small named booleans the check discharges on the generated
     configuration.

   Definitions only; lemmas are in ScenesImageCfgProofs.v. *)
From Coq Require Import List NArith Bool Arith.
From SV Require Import Fmt.ScenesImage.
Import ListNotations.
Local Open Scope N_scope.

(** * Struct formats ('<' = little endian, no padding): I, i, <n>s *)
Inductive sfld := SU | SI | SS (n : nat).
Inductive fval := VN (n : N) | VB (b : list N).

Definition fld_size (k : sfld) : N := match k with SU | SI => 4 | SS n => N.of_nat n end.

(** struct.pack of one field; the writer only ever passes non-negative numbers.  A string of the wrong
    length is refused (Python would pad or truncate: not a faithful copy either way). *)
Definition pack_one (k : sfld) (v : fval) : option (list N) :=
  match k, v with
  | SU, VN n => if n <? 4294967296 then Some (le32 n) else None
  | SI, VN n => if n <? 2147483648 then Some (le32 n) else None
  | SS w, VB b => if Nat.eqb (length b) w then Some b else None
  | _, _ => None
  end.

Fixpoint pack_fields {S : Type} (val : S -> option fval) (l : list (sfld * S)) : option (list N) :=
  match l with
  | [] => Some []
  | (k, s) :: t =>
      match val s with
      | None => None
      | Some v =>
          match pack_one k v, pack_fields val t with
          | Some a, Some b => Some (a ++ b)
          | _, _ => None
          end
      end
  end.

Fixpoint concatM {A : Type} (f : A -> option (list N)) (l : list A) : option (list N) :=
  match l with
  | [] => Some []
  | a :: t => match f a, concatM f t with Some x, Some y => Some (x ++ y) | _, _ => None end
  end.

Definition fmt_size {S : Type} (l : list (sfld * S)) : N := fold_right (fun p acc => fld_size (fst p) + acc) 0 l.

(** * What a field carries *)
Inductive eattr := ACrc | ADur | ALast | AOther.          (* Entry.checksum / duration_ms / last_speak_ms / anything else *)
Inductive sortkey := SKAttr (a : eattr) | SKDictKey | SKNone.
Inductive hsrc := HMagic | HVersion | HSceneCount | HPoolCount | HSceneOff | HOther.
Inductive esrc := EAttr (a : eattr) | EDataOff | EDataSize | ESumOff | EOther.
Inductive ssrc := SAttr (a : eattr) | SSoundCount | SOther.
Inductive sndsrc := SoundIdx | SoundOther.

Record icfg := mkIcfg {
  ic_magic_w : list N; ic_magic_r : list N;
  ic_hdr_w : list (sfld * hsrc); ic_hdr_r : list (sfld * hsrc);
  ic_ent_w : list (sfld * esrc); ic_ent_r : list (sfld * esrc);
  ic_sumL_w : list (sfld * ssrc); ic_sumL_r : list (sfld * ssrc);     (* summary with last-speak *)
  ic_sumS_w : list (sfld * ssrc); ic_sumS_r : list (sfld * ssrc);     (* summary without *)
  ic_snd_w : list (sfld * sndsrc); ic_snd_r : sfld;
  ic_pooloff_w : sfld; ic_pool_slot : nat;
  ic_long_version_w : N; ic_long_version_r : N; ic_versions_r : list N;
  ic_sort_dict : sortkey; ic_sort_iter : sortkey;                     (* order in effect when the table is written *)
  ic_pool_sort_dict : sortkey; ic_pool_sort_iter : sortkey;           (* order in effect when the pool is filled *)
  ic_defer_key : eattr;
  ic_layout_in_order : bool;
  ic_short_summary_last_is_duration : bool;
  ic_sounds_through_pool : bool;
  ic_same_encoding : bool;
  ic_reader_keys_by_crc : bool
}.

(** * Generic stable sort (Python list.sort(key=...)) *)
Fixpoint insert_by {A : Type} (key : A -> N) (x : A) (l : list A) : list A :=
  match l with
  | [] => [x]
  | h :: t => if key x <=? key h then x :: l else h :: insert_by key x t
  end.
Definition sort_by {A : Type} (key : A -> N) (l : list A) : list A := fold_right (insert_by key) [] l.

Definition ekey (a : eattr) (e : entry) : N :=
  match a with ACrc => e_crc e | ADur => e_dur e | ALast => e_last e | AOther => 0 end.

(** the list the loops see: entries come with the key they are stored under in the caller's dict
    (ignored for the iterable form) *)
Definition order_g {E : Type} (key : eattr -> E -> N) (k : sortkey) (kes : list (N * E)) : list E :=
  match k with
  | SKAttr a => sort_by (key a) (map snd kes)
  | SKDictKey => map snd (sort_by fst kes)
  | SKNone => map snd kes
  end.

(** * Values of the fields *)
Definition hval (magic : list N) (version nent npool scene_off : N) (s : hsrc) : option fval :=
  match s with
  | HMagic => Some (VB magic) | HVersion => Some (VN version) | HSceneCount => Some (VN nent)
  | HPoolCount => Some (VN npool) | HSceneOff => Some (VN scene_off) | HOther => None
  end.
Definition entval (e : entry) (doff dsize soff : N) (s : esrc) : option fval :=
  match s with
  | EAttr AOther => None
  | EAttr a => Some (VN (ekey a e)) | EDataOff => Some (VN doff) | EDataSize => Some (VN dsize)
  | ESumOff => Some (VN soff) | EOther => None
  end.
Definition sval (e : entry) (s : ssrc) : option fval :=
  match s with
  | SAttr AOther => None
  | SAttr a => Some (VN (ekey a e)) | SSoundCount => Some (VN (lenN (e_sounds e))) | SOther => None
  end.
Definition sndval (i : N) (s : sndsrc) : option fval := match s with SoundIdx => Some (VN i) | SoundOther => None end.

(** * The writer over the configuration *)
Definition summary_g (c : icfg) (version : N) (e : entry) : option (list N) :=
  match pack_fields (sval e) (if version =? ic_long_version_w c then ic_sumL_w c else ic_sumS_w c),
        concatM (fun i => pack_fields (sndval i) (ic_snd_w c)) (e_sounds e) with
  | Some a, Some b => Some (a ++ b)
  | _, _ => None
  end.

Fixpoint recs_g (c : icfg) (version : N) (es : list entry) (soff doff : N) : option (list N) :=
  match es with
  | [] => Some []
  | e :: t =>
      match pack_fields (entval e doff (lenN (e_blob e)) soff) (ic_ent_w c), summary_g c version e with
      | Some a, Some s =>
          match recs_g c version t (soff + lenN s) (doff + lenN (e_blob e)) with
          | Some b => Some (a ++ b)
          | None => None
          end
      | _, _ => None
      end
  end.

Definition layout_g (c : icfg) (version : N) (pool : list (list N)) (l : list entry) : option (list N) :=
  let npool := lenN pool in
  let nent := lenN l in
  let strs := flat_map str_bytes pool in
  let str_start := fmt_size (ic_hdr_w c) + N.of_nat (ic_pool_slot c) * npool in
  let scene_off := str_start + lenN strs in
  match pack_fields (hval (ic_magic_w c) version nent npool scene_off) (ic_hdr_w c),
        concatM (fun o => pack_one (ic_pooloff_w c) (VN o)) (str_offsets str_start pool),
        concatM (summary_g c version) l with
  | Some hdr, Some offs, Some sums =>
      let soff := scene_off + fmt_size (ic_ent_w c) * nent in
      let doff := soff + lenN sums in
      match recs_g c version l soff doff with
      | Some rs => Some (hdr ++ offs ++ strs ++ rs ++ sums ++ flat_map e_blob l)
      | None => None
      end
  | _, _, _ => None
  end.

Definition img_save_g (c : icfg) (is_dict : bool) (version : N) (pool : list (list N)) (kes : list (N * entry)) : option (list N) :=
  layout_g c version pool (order_g ekey (if is_dict then ic_sort_dict c else ic_sort_iter c) kes).

(** * Including the construction of the string pool *)
Record sentry := mkSentry {
  s_crc : N; s_dur : N; s_last : N;
  s_sounds : list (list N);      (* Entry.sounds *)
  s_strs : list (list N);        (* strings Scene.export_binary asks the pool for, in order (none for raw blobs) *)
  s_blob : list N
}.
Definition skey (a : eattr) (e : sentry) : N :=
  match a with ACrc => s_crc e | ADur => s_dur e | ALast => s_last e | AOther => 0 end.

Fixpoint bytes_eqb (a b : list N) : bool :=
  match a, b with [], [] => true | x :: a', y :: b' => (x =? y) && bytes_eqb a' b' | _, _ => false end.
Fixpoint index_of (s : list N) (pool : list (list N)) : option nat :=
  match pool with
  | [] => None
  | h :: t => if bytes_eqb s h then Some O else option_map S (index_of s t)
  end.
(** binformat.find_or_insert *)
Definition add_pool (pool : list (list N)) (s : list N) : list (list N) :=
  match index_of s pool with Some _ => pool | None => pool ++ [s] end.
Definition fill_entry (pool : list (list N)) (e : sentry) : list (list N) := fold_left add_pool (s_sounds e ++ s_strs e) pool.
Definition fill_pool (pool0 : list (list N)) (es : list sentry) : list (list N) := fold_left fill_entry es pool0.
Definition pidx (pool : list (list N)) (s : list N) : N :=
  match index_of s pool with Some i => N.of_nat i | None => lenN pool end.
Definition resolve (pool : list (list N)) (e : sentry) : entry :=
  mkEntry (s_crc e) (s_dur e) (s_last e) (map (pidx pool) (s_sounds e)) (s_blob e).

Definition pool_g (c : icfg) (is_dict : bool) (pool0 : list (list N)) (kes : list (N * sentry)) : list (list N) :=
  fill_pool pool0 (order_g skey (if is_dict then ic_pool_sort_dict c else ic_pool_sort_iter c) kes).

Definition img_save_s (c : icfg) (is_dict : bool) (version : N) (pool0 : list (list N)) (kes : list (N * sentry)) : option (list N) :=
  let pool := pool_g c is_dict pool0 kes in
  img_save_g c is_dict version pool (map (fun ke => (fst ke, resolve pool (snd ke))) kes).

(** what the reader is expected to return for an entry *)
Definition to_pentry_s (version : N) (e : sentry) : pentry :=
  mkPentry (s_crc e) (s_dur e) (if version =? 3 then s_last e else s_dur e) (s_sounds e) (s_blob e).

(** what the writer accepts: the container-level representability of ScenesImage.v, plus the signed
    last-speak field of version 3 *)
Definition image_ok_w (version : N) (pool : list (list N)) (es : list entry) : Prop :=
  image_ok version pool es /\ (version = 3 -> Forall (fun e => e_last e < 2147483648) es).

(** * Obligations on the configuration *)
Definition sfld_eqb (a b : sfld) : bool :=
  match a, b with SU, SU | SI, SI => true | SS n, SS m => Nat.eqb n m | _, _ => false end.
(** the writer may use the unsigned code where the model expects the signed one (same bytes for every value the
    signed code accepts); nothing else may differ *)
Definition accepts (k k0 : sfld) : bool :=
  match k0, k with SI, SI | SI, SU | SU, SU => true | SS n, SS m => Nat.eqb n m | _, _ => false end.
Definition eattr_eqb (a b : eattr) : bool :=
  match a, b with ACrc, ACrc | ADur, ADur | ALast, ALast | AOther, AOther => true | _, _ => false end.
Definition hsrc_eqb (a b : hsrc) : bool :=
  match a, b with HMagic, HMagic | HVersion, HVersion | HSceneCount, HSceneCount | HPoolCount, HPoolCount
                  | HSceneOff, HSceneOff | HOther, HOther => true | _, _ => false end.
Definition esrc_eqb (a b : esrc) : bool :=
  match a, b with EAttr x, EAttr y => eattr_eqb x y | EDataOff, EDataOff | EDataSize, EDataSize | ESumOff, ESumOff
                  | EOther, EOther => true | _, _ => false end.
Definition ssrc_eqb (a b : ssrc) : bool :=
  match a, b with SAttr x, SAttr y => eattr_eqb x y | SSoundCount, SSoundCount | SOther, SOther => true | _, _ => false end.
Definition sndsrc_eqb (a b : sndsrc) : bool :=
  match a, b with SoundIdx, SoundIdx | SoundOther, SoundOther => true | _, _ => false end.
Definition sortkey_eqb (a b : sortkey) : bool :=
  match a, b with SKAttr x, SKAttr y => eattr_eqb x y | SKDictKey, SKDictKey | SKNone, SKNone => true | _, _ => false end.

Fixpoint accepts_list {S : Type} (eqb : S -> S -> bool) (l l0 : list (sfld * S)) : bool :=
  match l, l0 with
  | [], [] => true
  | (k, s) :: t, (k0, s0) :: t0 => accepts k k0 && eqb s s0 && accepts_list eqb t t0
  | _, _ => false
  end.
Fixpoint same_list {S : Type} (eqb : S -> S -> bool) (l l0 : list (sfld * S)) : bool :=
  match l, l0 with
  | [], [] => true
  | (k, s) :: t, (k0, s0) :: t0 => sfld_eqb k k0 && eqb s s0 && same_list eqb t t0
  | _, _ => false
  end.
(** writer and reader agree on a record: same values in the same order, same widths *)
Fixpoint same_layout {S : Type} (eqb : S -> S -> bool) (l l0 : list (sfld * S)) : bool :=
  match l, l0 with
  | [], [] => true
  | (k, s) :: t, (k0, s0) :: t0 => (fld_size k =? fld_size k0) && eqb s s0 && same_layout eqb t t0
  | _, _ => false
  end.

(** the layout the hand model ScenesImage.v implements *)
Definition ref_hdr : list (sfld * hsrc) := [(SS 4, HMagic); (SI, HVersion); (SI, HSceneCount); (SI, HPoolCount); (SI, HSceneOff)].
Definition ref_ent : list (sfld * esrc) := [(SU, EAttr ACrc); (SI, EDataOff); (SI, EDataSize); (SI, ESumOff)].
Definition ref_sumL : list (sfld * ssrc) := [(SU, SAttr ADur); (SI, SAttr ALast); (SI, SSoundCount)].
Definition ref_sumS : list (sfld * ssrc) := [(SU, SAttr ADur); (SI, SSoundCount)].
Definition ref_snd : list (sfld * sndsrc) := [(SI, SoundIdx)].

Definition magic_okb (c : icfg) : bool := bytes_eqb (ic_magic_w c) magic && bytes_eqb (ic_magic_r c) magic.
Definition hdr_okb (c : icfg) : bool := accepts_list hsrc_eqb (ic_hdr_w c) ref_hdr && same_list hsrc_eqb (ic_hdr_r c) ref_hdr.
Definition ent_okb (c : icfg) : bool := accepts_list esrc_eqb (ic_ent_w c) ref_ent && same_list esrc_eqb (ic_ent_r c) ref_ent.
Definition sum_okb (c : icfg) : bool :=
  accepts_list ssrc_eqb (ic_sumL_w c) ref_sumL && same_list ssrc_eqb (ic_sumL_r c) ref_sumL
  && accepts_list ssrc_eqb (ic_sumS_w c) ref_sumS && same_list ssrc_eqb (ic_sumS_r c) ref_sumS.
Definition snd_okb (c : icfg) : bool := accepts_list sndsrc_eqb (ic_snd_w c) ref_snd && sfld_eqb (ic_snd_r c) SI.
Definition pooloff_okb (c : icfg) : bool := accepts (ic_pooloff_w c) SI && Nat.eqb (ic_pool_slot c) 4.
Definition version_okb (c : icfg) : bool :=
  (ic_long_version_w c =? 3) && (ic_long_version_r c =? 3)
  && match ic_versions_r c with [a; b] => ((a =? 2) && (b =? 3)) || ((a =? 3) && (b =? 2)) | _ => false end.
(** the first field of the table record: what the game binary-searches *)
Definition table_attr (c : icfg) : eattr :=
  match ic_ent_w c with (_, EAttr a) :: _ => a | _ => AOther end.
Definition sort_table_okb (c : icfg) : bool :=
  sortkey_eqb (ic_sort_dict c) (SKAttr (table_attr c)) && sortkey_eqb (ic_sort_iter c) (SKAttr (table_attr c))
  && eattr_eqb (table_attr c) ACrc.
Definition sort_pool_okb (c : icfg) : bool :=
  sortkey_eqb (ic_pool_sort_dict c) (SKAttr ACrc) && sortkey_eqb (ic_pool_sort_iter c) (SKAttr ACrc).
Definition flags_okb (c : icfg) : bool :=
  eattr_eqb (ic_defer_key c) ACrc && ic_layout_in_order c && ic_short_summary_last_is_duration c
  && ic_sounds_through_pool c && ic_same_encoding c && ic_reader_keys_by_crc c.

Definition icfg_okb (c : icfg) : bool :=
  magic_okb c && hdr_okb c && ent_okb c && sum_okb c && snd_okb c && pooloff_okb c && version_okb c
  && sort_table_okb c && sort_pool_okb c && flags_okb c.

(** the configuration of the repaired tree, for non-vacuity and for the refuted variants *)
Definition ref_cfg : icfg := {|
  ic_magic_w := magic; ic_magic_r := magic;
  ic_hdr_w := ref_hdr; ic_hdr_r := ref_hdr; ic_ent_w := ref_ent; ic_ent_r := ref_ent;
  ic_sumL_w := ref_sumL; ic_sumL_r := ref_sumL; ic_sumS_w := ref_sumS; ic_sumS_r := ref_sumS;
  ic_snd_w := ref_snd; ic_snd_r := SI; ic_pooloff_w := SI; ic_pool_slot := 4;
  ic_long_version_w := 3; ic_long_version_r := 3; ic_versions_r := [2; 3];
  ic_sort_dict := SKAttr ACrc; ic_sort_iter := SKAttr ACrc;
  ic_pool_sort_dict := SKAttr ACrc; ic_pool_sort_iter := SKAttr ACrc;
  ic_defer_key := ACrc; ic_layout_in_order := true; ic_short_summary_last_is_duration := true;
  ic_sounds_through_pool := true; ic_same_encoding := true; ic_reader_keys_by_crc := true
|}.

Definition with_sorts (c : icfg) (table_dict table_iter pool_dict pool_iter : sortkey) : icfg :=
  mkIcfg (ic_magic_w c) (ic_magic_r c) (ic_hdr_w c) (ic_hdr_r c) (ic_ent_w c) (ic_ent_r c) (ic_sumL_w c) (ic_sumL_r c)
         (ic_sumS_w c) (ic_sumS_r c) (ic_snd_w c) (ic_snd_r c) (ic_pooloff_w c) (ic_pool_slot c)
         (ic_long_version_w c) (ic_long_version_r c) (ic_versions_r c) table_dict table_iter pool_dict pool_iter
         (ic_defer_key c) (ic_layout_in_order c) (ic_short_summary_last_is_duration c) (ic_sounds_through_pool c)
         (ic_same_encoding c) (ic_reader_keys_by_crc c).

(** witnesses used by the non-vacuity examples and the refuted variants *)
Definition ex_s1 := mkSentry 30 1000 900 [[97]; [98]] [[120]] [1; 2; 3].
Definition ex_s2 := mkSentry 10 2000 0 [[99]; [97]] [] [4; 5].
Definition ex_s3 := mkSentry 20 5 5 [] [[121]; [98]] [].

Definition cfg_dict_key := with_sorts ref_cfg SKDictKey (SKAttr ACrc) SKDictKey (SKAttr ACrc).
Definition cfg_pool_unsorted := with_sorts ref_cfg (SKAttr ACrc) (SKAttr ACrc) SKNone SKNone.
Definition cfg_sort_other := with_sorts ref_cfg (SKAttr ADur) (SKAttr ADur) (SKAttr ACrc) (SKAttr ACrc).

Definition parsed_crcs (ob : option (list N)) : option (list N) :=
  match ob with
  | Some b => match img_parse b with Some (_, _, ps) => Some (map p_crc ps) | None => None end
  | None => None
  end.
