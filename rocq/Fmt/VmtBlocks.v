(* VmtBlocks.v -- C20, round 5: the sub-blocks and proxies of a VMT material, vmt._write_block and the part of Material.export
   after the parameter lines.  _write_block is recursive:
       if block.has_children():  write(OPEN);  for child in block: _write_block(f, child, indent + STEP);  write(CLOSE)
       else:                     write(LEAF)
   The three written templates, the indent step, the indents Material.export starts with and the frame of the Proxies block are
   regenerated from vmt.py as lists of Fmt/TextLines.v items (Gen/VmtBlocks_gen.v, [bcfg]); this file gives them their meaning:
   the text written for a tree of keyvalues and the tokens the reader has to see.  Definitions only; proofs in VmtBlocksProofs.v. *)
From Coq Require Import List NArith Bool.
From SV Require Import KV.KvBase KV.KvLex KV.KvSym Fmt.TextFields Fmt.TextLines Fmt.VmtQuote.
Import ListNotations.
Open Scope N_scope.

Inductive kvt := KLeaf (n v : str) | KNode (n : str) (cs : list kvt).

Record bcfg := mkB {
  b_open : list titem;          (* written before the children of a block; one field: the block's name *)
  b_close : list titem;         (* written after them; no field *)
  b_leaf : list titem;          (* a block without children; two fields: name, value *)
  b_step : str;                 (* what the recursive call appends to the indent *)
  b_top : str;                  (* indent Material.export gives the blocks of the material *)
  b_prox_open : list titem;     (* frame of the Proxies block (written only when there are proxies), no field *)
  b_prox_close : list titem;
  b_prox_ind : str              (* indent of the blocks inside it *)
}.

Section Model.
Variable E : escfg.
Variable c : bcfg.

Fixpoint write_block (ind : str) (t : kvt) : str :=
  match t with
  | KLeaf n v => render E ind (b_leaf c) [n; v]
  | KNode n cs => render E ind (b_open c) [n] ++ flat_map (write_block (ind ++ b_step c)) cs ++ render E ind (b_close c) []
  end.

(** the tokens of what is written, as the item lists say *)
Fixpoint block_toks (t : kvt) : list tok :=
  match t with
  | KLeaf n v => toks (b_leaf c) [n; v]
  | KNode n cs => toks (b_open c) [n] ++ flat_map block_toks cs ++ toks (b_close c) []
  end.

(** representable: every name / value fits the field it is written into (raw between quotes: no quote, backslash, line break) *)
Fixpoint tree_ok (t : kvt) : bool :=
  match t with
  | KLeaf n v => vals_ok (b_leaf c) [n; v]
  | KNode n cs => vals_ok (b_open c) [n] && forallb tree_ok cs && vals_ok (b_close c) []
  end.

Definition blocks_text (ind : str) (ts : list kvt) : str := flat_map (write_block ind) ts.
Definition proxies_text (ps : list kvt) : str :=
  match ps with [] => [] | _ => render E [] (b_prox_open c) [] ++ blocks_text (b_prox_ind c) ps ++ render E [] (b_prox_close c) [] end.
Definition proxies_toks (ps : list kvt) : list tok :=
  match ps with [] => [] | _ => toks (b_prox_open c) [] ++ flat_map block_toks ps ++ toks (b_prox_close c) [] end.

(** Material.export: shader line and `{`, the parameter lines (Fmt/VmtQuote.v), the blocks, the Proxies block if any, `}` *)
Definition vmt_file_b (q : nqcfg) (shader : str) (ps : list (str * str)) (blocks proxies : list kvt) : str :=
  shader ++ [LF; TAB; 123; LF] ++ params_text q ps ++ blocks_text (b_top c) blocks ++ proxies_text proxies ++ [TAB; 125; LF].
Definition vmt_tokens_b (shader : str) (ps : list (str * str)) (blocks proxies : list kvt) : list tok :=
  [TStr shader; TNL; TBO; TNL] ++ param_tokens ps ++ flat_map block_toks blocks ++ proxies_toks proxies ++ [TBC; TNL].
End Model.

(** the booleans the check discharges for the generated configuration *)
Definition bcfg_okb (c : bcfg) : bool :=
  items_ok (b_open c) && items_ok (b_close c) && items_ok (b_leaf c) && items_ok (b_prox_open c) && items_ok (b_prox_close c)
  && ws_only (b_step c) && ws_only (b_top c) && ws_only (b_prox_ind c)
  && vals_ok (b_close c) [] && vals_ok (b_prox_open c) [] && vals_ok (b_prox_close c) [].

(** the shape of the tokens: dropping layout (whitespace, indent), the three templates are  "name" NL { NL  /  } NL  /  "name" "value" NL
    and the Proxies frame is  NL word NL { NL  /  } NL *)
Definition is_layout (i : titem) : bool := match i with IWs _ | IInd => true | _ => false end.
Definition strip (its : list titem) : list titem := filter (fun i => negb (is_layout i)) its.
Definition open_shape (its : list titem) : bool := match strip its with [IQRaw; INl; IBO; INl] => true | _ => false end.
Definition close_shape (its : list titem) : bool := match strip its with [IBC; INl] => true | _ => false end.
Definition leaf_shape (its : list titem) : bool := match strip its with [IQRaw; IQRaw; INl] => true | _ => false end.
Definition prox_word (its : list titem) : option str := match strip its with [INl; IWord w d; IBO; INl] => if d =? LF then Some w else None | _ => None end.
Definition bcfg_shape_okb (c : bcfg) : bool :=
  open_shape (b_open c) && close_shape (b_close c) && leaf_shape (b_leaf c) && close_shape (b_prox_close c)
  && match prox_word (b_prox_open c) with Some _ => true | None => false end.

(** the canonical token stream of a keyvalues tree *)
Fixpoint kv_toks (t : kvt) : list tok :=
  match t with
  | KLeaf n v => [TStr n; TStr v; TNL]
  | KNode n cs => [TStr n; TNL; TBO; TNL] ++ flat_map kv_toks cs ++ [TBC; TNL]
  end.

(** the reader's side at token level: a recursive-descent reader of a block list up to the closing brace (fuel = number of tokens) *)
Fixpoint read_blocks (fuel : nat) (ts : list tok) : option (list kvt * list tok) :=
  match fuel with
  | O => None
  | S f =>
    match ts with
    | TBC :: TNL :: rest => Some ([], rest)
    | TStr n :: TStr v :: TNL :: rest =>
        match read_blocks f rest with Some (sibs, r) => Some (KLeaf n v :: sibs, r) | None => None end
    | TStr n :: TNL :: TBO :: TNL :: rest =>
        match read_blocks f rest with
        | Some (cs, r1) => match read_blocks f r1 with Some (sibs, r2) => Some (KNode n cs :: sibs, r2) | None => None end
        | None => None
        end
    | _ => None
    end
  end.

Definition ref_bcfg : bcfg :=
  mkB [IInd; IQRaw; INl; IInd; IWs [9]; IBO; INl] [IInd; IWs [9]; IBC; INl] [IInd; IQRaw; IWs [32]; IQRaw; INl] [9] [9]
      [INl; IWs [9]; IWord [80; 114; 111; 120; 105; 101; 115] 10; IWs [9; 9]; IBO; INl] [IWs [9; 9]; IBC; INl] [9; 9].
