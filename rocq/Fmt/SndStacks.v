(* SndStacks.v -- the operator-stack part of a soundscript entry: srctools.sndscript.Sound keeps three optional
   Keyvalues blocks behind LAZY properties (reading `snd.stack_start` stores an empty block in `_stack_start` when
   it was None), `Sound.export` decides with a disjunction of tests whether the version-2 keys and the
   `operator_stacks` block are written, writes each stack under a guard, and `Sound.parse_one` reads them back.
   The guard terms, the per-block guards and sources are regenerated from sndscript.py (Gen/TextFields_gen.v:
   snd_v2_guard, snd_stack_blocks); this file is the executable model over that census.  Definitions only; the
   lemmas are in SndStacksProofs.v.

   The three stacks are named by the position of the block in the READER's list of looked-up block names
   (SStart = the private field the reader fills from its first block, ...). *)
From Coq Require Import List Bool.
Import ListNotations.

Inductive stk := SStart | SUpdate | SStop.
Definition stk_eqb (a b : stk) : bool :=
  match a, b with SStart, SStart | SUpdate, SUpdate | SStop, SStop => true | _, _ => false end.
Definition all_stk : list stk := [SStart; SUpdate; SStop].

(** one test of the code on a Sound:
    - GForce: `self.force_v2`
    - GTruthy pub s: truthiness of stack s (a Keyvalues block is true iff it has children; None is false);
      pub = through the lazy property (which creates the empty block as a side effect), else the private field
    - GPresent pub s: `... is not None` *)
Inductive gterm := GForce | GTruthy (pub : bool) (s : stk) | GPresent (pub : bool) (s : stk).

(** a stack block of the writer: the block name written (as the stack the reader stores that name in), the test
    guarding it, and the attribute whose children are serialised into it *)
Record wblock := mkW { w_name : stk; w_guard : gterm; w_pub : bool; w_src : stk }.

Section Model.
Variable A : Type.            (* a child keyvalue of a stack *)

Record sound := mkSnd { force : bool; f_start : option (list A); f_update : option (list A); f_stop : option (list A) }.

Definition get (x : sound) (s : stk) : option (list A) :=
  match s with SStart => f_start x | SUpdate => f_update x | SStop => f_stop x end.
Definition set (x : sound) (s : stk) (v : option (list A)) : sound :=
  match s with
  | SStart => mkSnd (force x) v (f_update x) (f_stop x)
  | SUpdate => mkSnd (force x) (f_start x) v (f_stop x)
  | SStop => mkSnd (force x) (f_start x) (f_update x) v
  end.
(** the lazy property getter *)
Definition touch (s : stk) (x : sound) : sound := match get x s with None => set x s (Some []) | Some _ => x end.
Definition touches (ts : list stk) (x : sound) : sound := fold_left (fun y s => touch s y) ts x.
Definition content (x : sound) (s : stk) : list A := match get x s with None => [] | Some l => l end.
Definition nonempty (l : list A) : bool := match l with [] => false | _ => true end.
Definition present (x : sound) (s : stk) : bool := match get x s with None => false | Some _ => true end.

Definition look (pub : bool) (s : stk) (x : sound) : sound := if pub then touch s x else x.
Definition eval_term (t : gterm) (x : sound) : bool * sound :=
  match t with
  | GForce => (force x, x)
  | GTruthy pub s => let x' := look pub s x in (nonempty (content x' s), x')
  | GPresent pub s => let x' := look pub s x in (present x' s, x')
  end.
(** `a or b or c`: left to right, stops at the first true term *)
Fixpoint eval_or (g : list gterm) (x : sound) : bool * sound :=
  match g with
  | [] => (false, x)
  | t :: r => let '(b, x') := eval_term t x in if b then (true, x') else eval_or r x'
  end.

(** what export puts into the file, as far as the stacks are concerned: are the version-2 keys and the
    operator_stacks block there, and which stack blocks with which children, in file order *)
Record out := mkOut { o_v2 : bool; o_blocks : list (stk * list A) }.

Fixpoint export_blocks (ws : list wblock) (x : sound) : list (stk * list A) * sound :=
  match ws with
  | [] => ([], x)
  | w :: r =>
      let '(b, x1) := eval_term (w_guard w) x in
      if b then
        let x2 := look (w_pub w) (w_src w) x1 in
        let '(bl, x3) := export_blocks r x2 in ((w_name w, content x2 (w_src w)) :: bl, x3)
      else export_blocks r x1
  end.
Definition export (g : list gterm) (ws : list wblock) (x : sound) : out * sound :=
  let '(b, x1) := eval_or g x in
  if b then let '(bl, x2) := export_blocks ws x1 in (mkOut true bl, x2) else (mkOut false [], x1).

(** Keyvalues.find_children('operator_stacks', name): the children of every block of that name *)
Definition find (s : stk) (bl : list (stk * list A)) : list A :=
  flat_map (fun p => if stk_eqb (fst p) s then snd p else []) bl.
(** Sound.parse_one: with the operator_stacks block all three stacks exist (possibly empty) and force_v2 is
    `soundentry_version == 2`; without it they are None *)
Definition parse (o : out) : sound :=
  if o_v2 o then mkSnd true (Some (find SStart (o_blocks o))) (Some (find SUpdate (o_blocks o))) (Some (find SStop (o_blocks o)))
  else mkSnd false None None None.

(** the value of a Sound as far as a file can hold it (the harness's canonical form): is it a version-2 entry, and
    the children of the three stacks -- a missing stack and an empty one are the same value *)
Definition is_v2 (x : sound) : bool := force x || existsb (fun s => nonempty (content x s)) all_stk.
Definition same_value (x y : sound) : Prop := is_v2 x = is_v2 y /\ forall s, content x s = content y s.
End Model.

Arguments mkSnd {A}. Arguments force {A}. Arguments get {A}. Arguments touch {A}. Arguments touches {A}.
Arguments content {A}. Arguments export {A}. Arguments parse {A}. Arguments mkOut {A}. Arguments o_v2 {A}.
Arguments o_blocks {A}. Arguments is_v2 {A}. Arguments same_value {A}. Arguments present {A}. Arguments eval_or {A}.
Arguments export_blocks {A}. Arguments find {A}. Arguments eval_term {A}. Arguments look {A}. Arguments set {A}.
Arguments nonempty {A}. Arguments f_start {A}. Arguments f_update {A}. Arguments f_stop {A}.

(** * What the census must satisfy *)
Definition term_emptiness_based (t : gterm) : bool := match t with GPresent _ _ => false | _ => true end.
Definition is_force (t : gterm) : bool := match t with GForce => true | _ => false end.
Definition is_truthy_of (s : stk) (t : gterm) : bool := match t with GTruthy _ s' => stk_eqb s s' | _ => false end.

(** no term looks at whether a stack object EXISTS (that depends on who read the lazy property before) *)
Definition guard_no_presence_test (g : list gterm) : bool := forallb term_emptiness_based g.
(** force_v2 and every stack can switch the version-2 block on *)
Definition guard_covers_force (g : list gterm) : bool := existsb is_force g.
Definition guard_covers_every_stack (g : list gterm) : bool := forallb (fun s => existsb (is_truthy_of s) g) all_stk.
(** nothing else can (a term that is neither is a presence test: excluded above) *)
Definition guard_okb (g : list gterm) : bool := guard_no_presence_test g && guard_covers_force g && guard_covers_every_stack g.

(** each block: written when its own stack has children, from its own stack, under its own name *)
Definition block_okb (w : wblock) : bool := is_truthy_of (w_name w) (w_guard w) && stk_eqb (w_src w) (w_name w).
Fixpoint nodupb (l : list stk) : bool := match l with [] => true | a :: r => negb (existsb (stk_eqb a) r) && nodupb r end.
Definition blocks_okb (ws : list wblock) : bool :=
  forallb block_okb ws && nodupb (map w_name ws) && forallb (fun s => existsb (fun w => stk_eqb (w_name w) s) ws) all_stk.
