(** C06 — model of the text layer of VMF export: quoted keyvalue lines built from literal text, escaped string
    fields and numbers; the quoted-string scanner of the tokenizer; key tables, displacement array shapes and the
    entity-order / fixup-index list models.  Definitions only; proofs are in Fmt/VmfTextProofs.v.
    The objects these definitions range over are generated from vmf.py (Gen/Vmf*_gen.v). *)
From Coq Require Import NArith ZArith List String Bool Ascii.
Import ListNotations.

(** * Characters and the escape table (srctools.tokenizer.ESCAPES / ESCAPE_RE / ESCAPE_MULTILINE_RE).
    The table is hand-copied; checks/c06.py compares [escape] and [scan_quoted] with escape_text and the real
    Tokenizer on generated strings on every run. *)
Open Scope N_scope.
Definition char := N.
Definition DQ : char := 34.
Definition BS : char := 92.
Definition LF : char := 10.
Definition CR : char := 13.
Definition SP : char := 32.

(* escape letter -> character it denotes *)
Definition esc_table : list (char * char) :=
  [(110,10);(116,9);(118,11);(98,8);(114,13);(102,12);(97,7);(34,34);(39,39);(47,47);(92,92);(63,63)].
(* characters escape_text leaves alone although they have an escape letter; LF only in multiline mode *)
Definition excluded (ml : bool) : list char := if ml then [63;47;10] else [63;47].

Fixpoint lookup (e : char) (t : list (char*char)) : option char :=
  match t with [] => None | (s,c)::r => if s =? e then Some c else lookup e r end.
Fixpoint rlookup (c : char) (t : list (char*char)) : option char :=
  match t with [] => None | (s,c')::r => if c' =? c then Some s else rlookup c r end.
Definition mem (c : char) (l : list char) := existsb (N.eqb c) l.
Definition esc_char (ml : bool) (c : char) : list char :=
  if mem c (excluded ml) then [c] else
  match rlookup c esc_table with Some s => [BS; s] | None => [c] end.
(** escape_text(s, multiline=ml) *)
Definition escape (ml : bool) (s : list char) : list char := flat_map (esc_char ml) s.

(** Tokenizer._handle_string with allow_escapes: called after the opening quote; returns the string value and the
    rest of the input after the closing quote. Structural recursion (a backslash consumes two characters). *)
Fixpoint hs (acc : list char) (last_cr : bool) (inp : list char) : option (list char * list char) :=
  match inp with
  | [] => None
  | c :: r =>
    if c =? DQ then Some (rev acc, r)
    else if c =? CR then hs (LF :: acc) true r
    else if c =? LF then (if last_cr then hs acc false r else hs (LF :: acc) false r)
    else if c =? BS then
      match r with
      | [] => None
      | e :: r' => if e =? LF then hs acc false r'
                   else match lookup e esc_table with
                        | Some x => hs (x :: acc) false r'
                        | None => hs (e :: BS :: acc) false r'
                        end
      end
    else hs (c :: acc) false r
  end.
Definition scan_quoted (inp : list char) := hs [] false inp.

(** A keyvalue line as the Keyvalues parser sees it: ["key" "value"] then the rest of the input. *)
Definition scan_kv (inp : list char) : option (list char * list char * list char) :=
  match inp with
  | q :: r =>
    if q =? DQ then
      match scan_quoted r with
      | Some (k, s :: q2 :: r2) =>
        if (s =? SP) && (q2 =? DQ) then
          match scan_quoted r2 with Some (v, r3) => Some (k, v, r3) | None => None end
        else None
      | _ => None
      end
    else None
  | [] => None
  end.

(** * Write templates *)
Inductive cls := Esc | EscML | Num | Sep | RawStr | Struct.
Inductive tseg := TLit (s : list char) | TIp (c : cls) (f : N).
Record kvsite := mk_site { ks_fn : string; ks_block : string; ks_line : N; ks_key : list tseg; ks_val : list tseg }.

(** The value of every interpolated field: for Esc/EscML/RawStr fields the string itself, for Num/Sep fields the text
    Python's number formatting produced. *)
Definition env := N -> list char.
Definition render_seg (e : env) (s : tseg) : list char :=
  match s with
  | TLit l => l
  | TIp Esc f => escape false (e f)
  | TIp EscML f => escape true (e f)
  | TIp _ f => e f
  end.
Definition value_seg (e : env) (s : tseg) : list char := match s with TLit l => l | TIp _ f => e f end.
Definition render_field (e : env) (segs : list tseg) := flat_map (render_seg e) segs.
Definition value_field (e : env) (segs : list tseg) := flat_map (value_seg e) segs.
Definition render_kv (e : env) (k v : list tseg) : list char :=
  DQ :: render_field e k ++ DQ :: SP :: DQ :: render_field e v ++ [DQ].

(** Characters that are scanned verbatim inside quotes. *)
Definition plain_char (c : char) : bool := negb (mem c [DQ; BS; CR; LF]).
Definition plain (l : list char) : bool := forallb plain_char l.

(** A segment is safe inside quotes when it is plain literal text, an escaped field, or a number/separator.
    Raw string fields and structural interpolations are not. *)
Definition seg_ok (s : tseg) : bool :=
  match s with
  | TLit l => plain l
  | TIp Esc _ | TIp EscML _ | TIp Num _ | TIp Sep _ => true
  | TIp RawStr _ | TIp Struct _ => false
  end.
Definition site_ok (s : kvsite) : bool := forallb seg_ok (ks_key s) && forallb seg_ok (ks_val s).
(** What is assumed of Python's number formatting: the text of a Num/Sep field contains no quote, backslash, CR, LF. *)
Definition num_fields_plain (e : env) (segs : list tseg) : Prop :=
  forall f, (In (TIp Num f) segs \/ In (TIp Sep f) segs) -> plain (e f) = true.

Definition str_eqb (a b : string) : bool := if string_dec a b then true else false.
Definition sites_of (fn : string) (l : list kvsite) := filter (fun s => str_eqb (ks_fn s) fn) l.
Definition strings_escaped_in (fn : string) (l : list kvsite) : bool := forallb site_ok (sites_of fn l).

(** * Keys written vs keys read *)
Record wkey := mk_wkey { wk_fn : string; wk_block : string; wk_key : string; wk_prefix : bool }.
Record rkey := mk_rkey { rk_block : string; rk_key : string; rk_prefix : bool }.
(** A written key (or every key with a written prefix) is looked up by a reader of the same block. *)
Definition covers (r : rkey) (w : wkey) : bool :=
  str_eqb (rk_block r) (wk_block w) &&
  (if rk_prefix r then String.prefix (rk_key r) (wk_key w)
   else negb (wk_prefix w) && str_eqb (rk_key r) (wk_key w)).
Definition key_read (reads : list rkey) (w : wkey) : bool := existsb (fun r => covers r w) reads.
Definition keys_read_for (fn : string) (writes : list wkey) (reads : list rkey) : bool :=
  forallb (key_read reads) (filter (fun w => str_eqb (wk_fn w) fn) writes).

(** * Displacement array shapes *)
Open Scope Z_scope.
Record disp_array := mk_disp_array {
  da_name : string; da_written : bool; da_read : bool;
  da_rows : Z -> Z;            (* size -> rows written *)
  da_lo : Z -> Z -> Z;         (* size, y -> first vertex index of row y *)
  da_hi : Z -> Z -> Z;         (* size, y -> one past the last vertex index *)
  da_arity : list Z;           (* numbers written per vertex, one entry per alternative of the element expression *)
  da_rcols : Z -> Z -> Z       (* power, size -> values per row the reader insists on *)
}.
Fixpoint zrange (lo : Z) (n : nat) : list Z := match n with O => [] | S k => lo :: zrange (lo + 1) k end.
Definition row_ok (size_of : Z -> Z) (a : disp_array) (power y : Z) : bool :=
  let size := size_of power in
  forallb (fun ar => ((da_hi a size y - da_lo a size y) * ar =? da_rcols a power size)) (da_arity a)
  && (da_lo a size y =? size * y) && (da_hi a size y <=? size * size).
Definition array_ok (size_of : Z -> Z) (a : disp_array) (power : Z) : bool :=
  let size := size_of power in
  da_written a && da_read a && negb (match da_arity a with [] => true | _ => false end)
  && (0 <=? da_rows a size) && (da_rows a size <=? size)
  && forallb (fun ar => da_rows a size * ar =? da_rcols a power size) (da_arity a)
  && forallb (row_ok size_of a power) (zrange 0 (Z.to_nat (da_rows a size))).
Definition powers : list Z := [1; 2; 3; 4].
Definition array_ok_all_powers (size_of : Z -> Z) (a : disp_array) : bool := forallb (array_ok size_of a) powers.
Definition disp_shapes_ok (size_of : Z -> Z) (l : list disp_array) : bool := forallb (array_ok_all_powers size_of) l.
Definition find_array (n : string) (l : list disp_array) : option disp_array := find (fun a => str_eqb (da_name a) n) l.
Definition named_array_ok (size_of : Z -> Z) (n : string) (l : list disp_array) : bool :=
  match find_array n l with Some a => array_ok_all_powers size_of a | None => false end.

(** * Decimal formatting: round-half-even of n/d to an integer ('%.6f' is this at scale 10^6, '%g' at 6 digits) *)
Definition round_he (n d : Z) : Z :=
  let q := n / d in let r := n mod d in
  if 2 * r <? d then q else if d <? 2 * r then q + 1 else if Z.even q then q else q + 1.

(** * Entity order: VMF.export writes entities in list order, hidden ones wrapped in a hidden block *)
Inductive parse_mode := InOrder | TwoPass.
Definition mode_eqb (a b : parse_mode) : bool := match a, b with InOrder, InOrder | TwoPass, TwoPass => true | _, _ => false end.
Inductive top_block := BEntity (id : N) | BHidden (ids : list N).
Definition ent := (bool * N)%type.     (* hidden?, id *)
Definition export_ents (l : list ent) : list top_block :=
  map (fun e : ent => if fst e then BHidden [snd e] else BEntity (snd e)) l.
Definition parse_in_order (bs : list top_block) : list ent :=
  flat_map (fun b => match b with BEntity i => [(false, i)] | BHidden ids => map (fun i => (true, i)) ids end) bs.
Definition parse_two_pass (bs : list top_block) : list ent :=
  flat_map (fun b => match b with BEntity i => [(false, i)] | BHidden _ => [] end) bs ++
  flat_map (fun b => match b with BEntity _ => [] | BHidden ids => map (fun i => (true, i)) ids end) bs.
Definition parse_ents (m : parse_mode) := match m with InOrder => parse_in_order | TwoPass => parse_two_pass end.

(** * replaceNN: index written with at least [w] digits, read from the last [r] characters *)
Close Scope Z_scope.
Open Scope N_scope.
Fixpoint digits_fuel (fuel : nat) (n : N) (acc : list char) : list char :=
  match fuel with
  | O => acc
  | S k => let acc' := (48 + n mod 10) :: acc in if n / 10 =? 0 then acc' else digits_fuel k (n / 10) acc'
  end.
Definition digits (n : N) : list char := digits_fuel 40 n [].
Definition pad0 (w : nat) (l : list char) : list char := repeat 48 (w - List.length l) ++ l.
Definition fmt_index (w : nat) (n : N) : list char := pad0 w (digits n).
Definition last_n (r : nat) (l : list char) : list char := skipn (List.length l - r) l.
Definition parse_digits (l : list char) : N := fold_left (fun a c => a * 10 + (c - 48)) l 0.
Definition index_roundtrip (w r : nat) (n : N) : bool := parse_digits (last_n r (fmt_index w n)) =? n.
