(** Proofs for Fmt/DmxMembersKv2.v: what the KeyValues2 reader builds from what the writer wrote for a dict denotes the
    same element (name, attribute records in order), for every dict keyed by the casefolded names — hence for every
    history of the mapping API — whatever the spelling of the name member, for either name test and any skip test that
    skips only the member keyed "name". *)
From Coq Require Import NArith ZArith List Bool Lia.
From SV Require Import Fmt.DmxCodes Fmt.DmxBin Fmt.DmxBinLemmas Fmt.DmxBinProofs Fmt.DmxMembers Fmt.DmxMembersProofs
  Fmt.DmxMembersParse Fmt.DmxMembersParseProofs Fmt.DmxMembersKv2.
Import ListNotations.

Section Fold.
  Variable fold : str -> str.
  Hypothesis FN : fold s_name = s_name.
  Variable t : nametest.
  Variable v : str.

  Definition key (a : attr) : str := fold (aname a).
  Definition nonname (a : attr) : bool := negb (str_eqb (key a) s_name).

  Lemma is_name_key : forall a, is_name fold t (aname a) = true -> key a = s_name.
  Proof.
    intros a H. unfold key. destruct t; cbn [is_name] in H; apply str_eqb_true in H; [now rewrite H|exact H].
  Qed.

  Lemma read_fold : forall l rest an,
    adata an = VStr (Scalar v) -> fold (aname an) = s_name ->
    (forall ka, In ka rest -> fst ka <> s_name) ->
    NoDup (map fst rest ++ map key (filter nonname l)) ->
    (forall a, In a l -> key a = s_name -> adata a = VStr (Scalar v)) ->
    exists an', adata an' = VStr (Scalar v) /\ fold (aname an') = s_name /\
      fold_left (kv2_read_rec fold t KFolded) l ((s_name, an) :: rest)
      = (s_name, an') :: rest ++ map (fun a => (key a, a)) (filter nonname l).
  Proof.
    induction l as [|a l IH]; intros rest an DA KA NR ND NV; cbn [fold_left filter map].
    - exists an. now rewrite app_nil_r.
    - unfold kv2_read_rec at 2.
      destruct (is_name fold t (aname a)) eqn:IS.
      + (* the name setter *)
        pose proof (is_name_key a IS) as KN.
        rewrite (NV a (or_introl eq_refl) KN).
        cbn [apply_op mget]. rewrite str_eqb_refl. cbn [mset]. rewrite str_eqb_refl.
        assert (NN : nonname a = false) by (unfold nonname; rewrite KN, str_eqb_refl; reflexivity).
        rewrite NN. apply IH; try assumption; [reflexivity| |].
        * cbn [filter] in ND. now rewrite NN in ND.
        * intros b I. apply NV. now right.
      + unfold store. cbn [key_of]. fold (key a). destruct (str_eqb (key a) s_name) eqn:KE.
        * (* stored under "name": replaces the name member, keeps its own spelling *)
          apply str_eqb_true in KE. rewrite KE. cbn [mset]. rewrite str_eqb_refl.
          assert (NN : nonname a = false) by (unfold nonname; rewrite KE, str_eqb_refl; reflexivity).
          rewrite NN. apply IH; try assumption.
          -- apply NV; [now left|exact KE].
          -- cbn [filter] in ND. now rewrite NN in ND.
          -- intros b I. apply NV. now right.
        * (* a new key: appended *)
          assert (NN : nonname a = true) by (unfold nonname; now rewrite KE).
          rewrite NN. cbn [mset]. rewrite KE. cbn [filter] in ND. rewrite NN in ND. cbn [map] in ND.
          rewrite mset_new.
          2:{ apply NoDup_remove_2 in ND. intro X. apply ND. apply in_or_app. now left. }
          destruct (IH (rest ++ [(key a, a)]) an DA KA) as [an' [D' [K' E']]].
          -- intros ka I. apply in_app_or in I. destruct I as [I|[<-|[]]]; [now apply NR|]. cbn [fst]. now apply str_eqb_false.
          -- rewrite map_app. cbn [map fst]. rewrite <- app_assoc. exact ND.
          -- intros b I. apply NV. now right.
          -- exists an'. split; [exact D'|split; [exact K'|]]. rewrite E'. cbn [map]. now rewrite <- app_assoc.
  Qed.
End Fold.

Lemma filter_ok_skips_name_key : forall fold f ka, fold s_name = s_name -> kv2_filter_ok f = true ->
  fst ka = fold (aname (snd ka)) -> skipped f ka = true -> fst ka = s_name.
Proof.
  intros fold f ka FN OK KB S. destruct f as [k|k|]; cbn [kv2_filter_ok skipped] in *; try discriminate.
  - apply str_eqb_true in OK. apply str_eqb_true in S. congruence.
  - apply str_eqb_true in OK. apply str_eqb_true in S. rewrite KB, S, OK. exact FN.
Qed.

(** the records with a key other than "name" among those the writer keeps are all members keyed other than "name" *)
Lemma kept_nonname : forall fold f m, fold s_name = s_name -> kv2_filter_ok f = true -> keyed_by_fold fold m ->
  filter (nonname fold) (map snd (records f m)) = map snd (records (FKeyIs s_name) m).
Proof.
  intros fold f m FN OK KB. induction m as [|ka r IH]; [reflexivity|].
  inversion KB as [|? ? K1 K2]; subst. rewrite !records_cons. specialize (IH K2).
  destruct (skipped f ka) eqn:S.
  - pose proof (filter_ok_skips_name_key fold f ka FN OK K1 S) as E. unfold skipped at 1. rewrite E, str_eqb_refl. exact IH.
  - cbn [map filter]. unfold nonname at 1, key. rewrite <- K1. unfold skipped at 1.
    destruct (str_eqb (fst ka) s_name); cbn [negb]; [exact IH|cbn [map]; now rewrite IH].
Qed.

(** What the reader builds from what the writer wrote: a name member holding Element.name, then every member keyed other
    than "name" under its key, in order. *)
Theorem kv2_read_written : forall fold t cc f (m : members) block_name,
  fold s_name = s_name -> name_getter_ok cc = true -> kv2_filter_ok f = true ->
  keys_nodup m -> keyed_by_fold fold m -> name_is_string m ->
  exists an, adata an = VStr (Scalar (rname cc m)) /\ fold (aname an) = s_name /\
    kv2_read fold t KFolded block_name (kv2_written cc f m) = (s_name, an) :: records (FKeyIs s_name) m.
Proof.
  intros fold t cc f m bn FN NG OK ND KB NS.
  unfold kv2_read, kv2_written. cbn [fold_left]. unfold kv2_read_rec at 2. cbn [aname adata].
  assert (IN : is_name fold t s_name = true) by (destruct t; cbn [is_name]; [apply str_eqb_refl|rewrite FN; apply str_eqb_refl]).
  rewrite IN. unfold init_members. cbn [apply_op mget]. rewrite str_eqb_refl. cbn [mset aname]. rewrite str_eqb_refl.
  set (v := rname cc m).
  destruct (read_fold fold FN t v (map snd (records f m)) [] {| aname := s_name; adata := VStr (Scalar v) |}) as [an [DA [KA E]]].
  - reflexivity.
  - exact FN.
  - intros ka [].
  - cbn [map app]. rewrite (kept_nonname fold f m FN OK KB).
    (* keys of the members keyed other than "name": pairwise distinct *)
    assert (EQ : map (key fold) (map snd (records (FKeyIs s_name) m)) = map fst (records (FKeyIs s_name) m)).
    { rewrite map_map. apply map_ext_in. intros ka I. unfold records in I. apply filter_In in I. destruct I as [I _].
      unfold keyed_by_fold in KB. rewrite Forall_forall in KB. unfold key. symmetry. exact (KB ka I). }
    rewrite EQ. clear -ND. unfold keys_nodup in ND. unfold records. induction m as [|ka r IH]; [constructor|].
    cbn [filter]. inversion ND as [|? ? NI ND']; subst. destruct (negb (skipped (FKeyIs s_name) ka)).
    + cbn [map]. constructor; [|now apply IH]. intro X. apply NI. apply in_map_iff in X. destruct X as [x [E I]].
      apply filter_In in I. apply in_map_iff. exists x. tauto.
    + now apply IH.
  - (* a record kept by the writer whose key is "name" is the name member: a scalar string equal to Element.name *)
    intros a I KN. apply in_map_iff in I. destruct I as [ka [E I]]. subst a. unfold records in I. apply filter_In in I. destruct I as [I _].
    unfold keyed_by_fold in KB. rewrite Forall_forall in KB. pose proof (KB ka I) as K1. unfold key in KN. rewrite <- K1 in KN.
    assert (G : mget s_name m = Some (snd ka)).
    { clear -ND I KN. unfold keys_nodup in ND. induction m as [|[k' a'] r IH]; [destruct I|]. cbn [mget].
      inversion ND as [|? ? NI ND']; subst. destruct I as [<-|I].
      - cbn [fst] in KN. subst k'. now rewrite str_eqb_refl.
      - destruct (str_eqb s_name k') eqn:Q.
        + apply str_eqb_true in Q. subst k'. exfalso. apply NI. cbn [fst]. rewrite <- KN. apply in_map. exact I.
        + now apply IH. }
    unfold name_is_string in NS. rewrite G in NS. destruct NS as [s Hs]. rewrite Hs. f_equal. f_equal.
    subst v. unfold rname. unfold name_getter_ok in NG. apply andb_true_iff in NG. destruct NG as [K _]. apply str_eqb_true in K.
    rewrite K, G, Hs. reflexivity.
  - exists an. split; [exact DA|split; [exact KA|]]. rewrite E. cbn [app]. f_equal.
    rewrite (kept_nonname fold f m FN OK KB). rewrite map_map.
    transitivity (map (fun ka : str * attr => ka) (records (FKeyIs s_name) m)); [|apply map_id].
    apply map_ext_in. intros ka I. unfold records in I. apply filter_In in I. destruct I as [I _].
    unfold keyed_by_fold in KB. rewrite Forall_forall in KB. unfold key. rewrite <- (KB ka I). now destruct ka.
Qed.

Lemma records_idem : forall f m, records f (records f m) = records f m.
Proof.
  intros f m. unfold records. induction m as [|ka r IH]; [reflexivity|]. cbn [filter].
  destruct (negb (skipped f ka)) eqn:S; [cbn [filter]; rewrite S; now rewrite IH|exact IH].
Qed.

(** Hence the element read denotes the element written: same name, same attribute records in the same order. *)
Theorem kv2_members_roundtrip : forall fold t cc f (r : relem) block_name,
  fold s_name = s_name -> name_getter_ok cc = true -> kv2_filter_ok f = true ->
  keys_nodup (r_members r) -> keyed_by_fold fold (r_members r) -> name_is_string (r_members r) ->
  abstract cc {| r_type := r_type r; r_uuid := r_uuid r; r_members := kv2_read fold t KFolded block_name (kv2_written cc f (r_members r)) |}
  = abstract cc r.
Proof.
  intros fold t cc f r bn FN NG OK ND KB NS.
  destruct (kv2_read_written fold t cc f (r_members r) bn FN NG OK ND KB NS) as [an [DA [KA E]]].
  unfold abstract, view. cbn [r_type r_uuid r_members]. rewrite E. f_equal.
  - unfold rname at 1. unfold name_getter_ok in NG. apply andb_true_iff in NG. destruct NG as [K _]. apply str_eqb_true in K.
    rewrite K. cbn [mget]. rewrite str_eqb_refl. now rewrite DA.
  - rewrite records_cons. unfold skipped at 1. cbn [fst]. rewrite str_eqb_refl.
    now rewrite records_idem.
Qed.

(** For every history of the mapping API on a fresh element (name member a string whenever present: no operation of
    [mop] here stores a non-string under "name" unless the history assigns one — that case is a premise). *)
Theorem kv2_members_roundtrip_after_history : forall fold t cc f ops name ty uu block_name,
  fold s_name = s_name -> name_getter_ok cc = true -> kv2_filter_ok f = true ->
  let m := run_ops fold ops (init_members name) in
  name_is_string m ->
  abstract cc {| r_type := ty; r_uuid := uu; r_members := kv2_read fold t KFolded block_name (kv2_written cc f m) |}
  = abstract cc {| r_type := ty; r_uuid := uu; r_members := m |}.
Proof.
  intros fold t cc f ops name ty uu bn FN NG OK m NS.
  apply (kv2_members_roundtrip fold t cc f {| r_type := ty; r_uuid := uu; r_members := m |} bn FN NG OK);
    cbn [r_members]; [apply history_keys_nodup|now apply history_keyed|exact NS].
Qed.

(** Examples.  [elem['NAME'] = 'x'; elem['Ab'] = 5] after [clear()]: the loop of _export_kv2 ([attr.name == 'name']) keeps
    the member spelled NAME, the reader stores it under "name" again: spelling kept.  With the dict-key test of
    export_binary the member is skipped and the name line alone restores it, spelled "name".  Both denote the same element. *)
Definition name_upper : str := [78; 65; 77; 69]%N.
Definition kv2_hist : list mop := [OClear; OSet name_upper (VStr (Scalar [120]%N)); OSet [65; 98]%N (VFix TInt (Scalar [5; 0; 0; 0]%N))].
Definition kv2_hist_m : members := run_ops ascii_lower kv2_hist (init_members [110]%N).
Theorem kv2_name_spelling_example :
  map fst kv2_hist_m = [s_name; [97; 98]%N] /\
  name_is_string kv2_hist_m /\
  option_map aname (mget s_name (kv2_read ascii_lower TExact KFolded [] (kv2_written good_cnt (FRealNameIs s_name) kv2_hist_m))) = Some name_upper /\
  option_map aname (mget s_name (kv2_read ascii_lower TExact KFolded [] (kv2_written good_cnt (FKeyIs s_name) kv2_hist_m))) = Some s_name /\
  option_map aname (mget s_name (kv2_read ascii_lower TFolded KFolded [] (kv2_written good_cnt (FRealNameIs s_name) kv2_hist_m))) = Some s_name /\
  map fst (kv2_read ascii_lower TExact KFolded [] (kv2_written good_cnt (FRealNameIs s_name) kv2_hist_m)) = [s_name; [97; 98]%N].
Proof. vm_compute. repeat split. now exists [120]%N. Qed.

(** A loop that skips a member keyed otherwise (here "ab") fails [kv2_filter_ok] and loses that attribute. *)
Theorem kv2_skip_other_key_refuted :
  kv2_filter_ok (FKeyIs [97; 98]%N) = false /\ kv2_filter_ok (FRealNameIs s_name) = true /\ kv2_filter_ok (FKeyIs s_name) = true /\
  map fst (kv2_read ascii_lower TExact KFolded [] (kv2_written good_cnt (FKeyIs [97; 98]%N) kv2_hist_m)) = [s_name].
Proof. vm_compute. repeat split. Qed.
