(** C11: proofs about the commit order of save() (Fmt/BspSaveCommit.v). *)
From Coq Require Import List Bool Arith Lia.
From SV Require Import Fmt.BspSaveCommit.
Import ListNotations.

Lemma run_none_finishes : forall evs s, snd (sc_run evs None s) = true.
Proof. induction evs as [|e r IH]; intros s; cbn; auto. destruct e; apply IH. Qed.

Lemma no_raise_run : forall evs fail s, no_raise evs = true -> snd (sc_run evs fail s) = true.
Proof.
  induction evs as [|e r IH]; intros fail s H; cbn in *; auto.
  destruct e; try discriminate; apply IH; exact H.
Qed.

Lemma no_raise_final : forall evs fail s, no_raise evs = true ->
  cached (fst (sc_run evs fail s)) = (cached s && negb (existsb (fun e => match e with EvDrop => true | _ => false end) evs)) /\
  stored (fst (sc_run evs fail s)) = (stored s || existsb (fun e => match e with EvStore => true | _ => false end) evs).
Proof.
  induction evs as [|e r IH]; intros fail s H; cbn in *.
  - rewrite andb_true_r, orb_false_r. auto.
  - destruct e; try discriminate.
    + destruct (IH fail {| cached := false; stored := stored s |} H) as [A B]. rewrite A, B. cbn.
      rewrite andb_false_r. auto.
    + destruct (IH fail {| cached := cached s; stored := true |} H) as [A B]. rewrite A, B. cbn.
      rewrite orb_true_r. auto.
Qed.

(** If [commit_ok]: whichever raising point raises, the view is still in the cache when save() gives up - nothing was stored
    either, the object is as it was; and when nothing raises the view has left the cache and its bytes are in the lump. *)
Theorem commit_ok_sound : forall evs, commit_ok evs = true ->
  (forall k, let '(s, finished) := sc_run evs (Some k) sc_init in finished = false -> cached s = true /\ stored s = false) /\
  (let '(s, finished) := sc_run evs None sc_init in finished = true /\ cached s = false /\ stored s = true).
Proof.
  unfold commit_ok. intros evs.
  assert (G : forall fail, commit_ok_from evs = true ->
              let '(s, finished) := sc_run evs fail sc_init in
              (finished = false -> cached s = true /\ stored s = false) /\ (finished = true -> cached s = false /\ stored s = true)).
  { induction evs as [|e r IH]; intros fail H; cbn in H; try discriminate.
    destruct e.
    - apply andb_true_iff in H. destruct H as [Hn Hs]. cbn.
      pose proof (no_raise_run r fail {| cached := false; stored := false |} Hn) as Hf.
      destruct (no_raise_final r fail {| cached := false; stored := false |} Hn) as [A B].
      destruct (sc_run r fail {| cached := false; stored := false |}) as [s f]. cbn in *. subst f.
      split; [discriminate|]. intros _. rewrite A, B, Hs. auto.
    - cbn. destruct fail as [[|k]|].
      + split; [auto|discriminate].
      + apply (IH (Some k) H).
      + apply (IH None H).
    - apply andb_true_iff in H. destruct H as [Hn Hs]. cbn.
      pose proof (no_raise_run r fail {| cached := true; stored := true |} Hn) as Hf.
      destruct (no_raise_final r fail {| cached := true; stored := true |} Hn) as [A B].
      destruct (sc_run r fail {| cached := true; stored := true |}) as [s f]. cbn in *. subst f.
      split; [discriminate|]. intros _. rewrite A, B, Hs. auto. }
  intros H. split.
  - intros k. specialize (G (Some k) H). destruct (sc_run evs (Some k) sc_init) as [s f]. tauto.
  - specialize (G None H). pose proof (run_none_finishes evs sc_init) as Hf.
    destruct (sc_run evs None sc_init) as [s f]. cbn in Hf. subst f. destruct G as [_ G]. destruct (G eq_refl). auto.
Qed.

(** The nearby wrong shape: the view is popped from the cache first.  A writer that raises leaves it neither in the cache nor in
    the lump; the shape read from today's source passes. *)
Theorem commit_pop_first_refuted :
  commit_ok [EvDrop; EvRaise; EvStore] = false /\
  sc_run [EvDrop; EvRaise; EvStore] (Some 0) sc_init = ({| cached := false; stored := false |}, false) /\
  commit_ok [EvRaise; EvDrop; EvStore] = true.
Proof. vm_compute. repeat split. Qed.
