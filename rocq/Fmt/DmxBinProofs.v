(** Round trip of the binary DMX model (Fmt/DmxBin.v): for every configuration satisfying [bin_cfg_ok] and every
    document the version can express, [parse_bin (export_bin d) = Some d]. *)
From Coq Require Import NArith ZArith List Bool Lia.
From SV Require Import Fmt.DmxCodes Fmt.DmxCodesProofs Fmt.DmxBin Fmt.DmxBinLemmas.
Import ListNotations.
Local Close Scope N_scope.

(** ** What [bin_cfg_ok] gives *)
Lemma enc_eqb_eq : forall a b, enc_eqb a b = true -> a = b.
Proof. destruct a, b; cbn; intros H; try reflexivity; discriminate H. Qed.

Lemma all_sites_complete : forall s, In s all_sites.
Proof. destruct s; cbn; tauto. Qed.

Lemma bin_cfg_ok_parts : forall cfg, bin_cfg_ok cfg = true ->
  codes_ok cfg = true /\ (forall s, enc_read cfg s = enc_write cfg s) /\ stub_written cfg = StubUuidStr.
Proof.
  intros cfg H. unfold bin_cfg_ok in H.
  apply andb_prop in H. destruct H as [H Hstub].
  apply andb_prop in H. destruct H as [H _].
  apply andb_prop in H. destruct H as [Hcodes Hencs].
  split; [assumption|]. split.
  - intros s. unfold encodings_ok in Hencs. rewrite forallb_forall in Hencs.
    specialize (Hencs s (all_sites_complete s)). apply enc_eqb_eq in Hencs. symmetry. exact Hencs.
  - unfold stub_ok in Hstub. destruct (stub_written cfg); [discriminate | reflexivity].
Qed.

Lemma names_in_db_has_db : forall v, names_in_db v = true -> has_db v = true.
Proof. unfold names_in_db, has_db. intros v H. apply N.leb_le in H. apply N.leb_le. lia. Qed.

(** ** Shapes *)
Lemma with_shape_scalar : forall A (mk : shape A -> aval) (p : parser A) x bs rest,
  p bs = Some (x, rest) -> with_shape mk None p bs = Some (mk (Scalar x), rest).
Proof. intros A mk p x bs rest H. unfold with_shape. cbn [cnt_n rep]. rewrite H. reflexivity. Qed.

Lemma with_shape_array : forall A (mk : shape A -> aval) (p : parser A) (w : A -> bytes) l rest,
  Forall (fun x => forall r, p (w x ++ r) = Some (x, r)) l ->
  with_shape mk (Some (length l)) p (flat_map w l ++ rest) = Some (mk (Array l), rest).
Proof. intros A mk p w l rest H. unfold with_shape. cbn [cnt_n]. rewrite (rep_flat_map _ p w l rest H). reflexivity. Qed.

Definition shape_cnt {A} (s : shape A) : option nat := if shape_is_arr s then Some (length (items s)) else None.

Lemma with_shape_rt : forall A (mk : shape A -> aval) (p : parser A) (w : A -> bytes) (s : shape A) rest,
  Forall (fun x => forall r, p (w x ++ r) = Some (x, r)) (items s) ->
  with_shape mk (shape_cnt s) p (flat_map w (items s) ++ rest) = Some (mk s, rest).
Proof.
  intros A mk p w [x|l] rest H; unfold shape_cnt; cbn [shape_is_arr items] in *.
  - apply with_shape_scalar. cbn [flat_map]. rewrite app_nil_r. apply (Forall_inv H).
  - apply with_shape_array. assumption.
Qed.

Section RT.
  Variable cenc : enc -> str -> bytes.
  Variable cdec : enc -> bytes -> option str.
  Variable cfg : dmxcfg.
  Hypothesis Hcfg : bin_cfg_ok cfg = true.

  Let Hcodes : codes_ok cfg = true := proj1 (bin_cfg_ok_parts cfg Hcfg).
  Let Henc : forall s, enc_read cfg s = enc_write cfg s := proj1 (proj2 (bin_cfg_ok_parts cfg Hcfg)).
  Let Hstub : stub_written cfg = StubUuidStr := proj2 (proj2 (bin_cfg_ok_parts cfg Hcfg)).

  (** [tw] is the table the writer uses, [tr] the one the reader has. *)
  Variable v : N.
  Variables tw tr : list str.
  Variable nel : nat.
  Hypothesis Htab : has_db v = true -> tr = tw.
  Hypothesis Hfit : has_db v = true -> int_fits (db_ind_w v) (length tw).
  Hypothesis Hnel : int_fits 4 nel.

  Lemma tabref_rt : forall s rest, has_db v = true -> In s tw ->
    get_tabref v tr (put_tabref v tw s ++ rest) = Some (s, rest).
  Proof. intros s rest Hdb Hin. rewrite (Htab Hdb). apply get_put_tabref; auto. Qed.

  Lemma eref_rt : forall r rest, ref_ok cenc cdec nel r ->
    get_eref cdec nel (put_eref cenc cfg r ++ rest) = Some (r, rest).
  Proof.
    intros [i| |u] rest Hok; cbn [ref_ok] in Hok; unfold get_eref, put_eref.
    - pose proof (int_fits_4 _ Hnel) as Hnel'.
      rewrite get_int4_put_int4 by lia.
      replace (Z.of_N i =? -1)%Z with false by (symmetry; apply Z.eqb_neq; lia).
      replace (Z.of_N i =? -2)%Z with false by (symmetry; apply Z.eqb_neq; lia).
      replace (Z.of_N i <? 0)%Z with false by (symmetry; apply Z.ltb_ge; lia).
      replace (Nat.ltb (Z.to_nat (Z.of_N i)) nel) with true by (symmetry; apply Nat.ltb_lt; lia).
      rewrite N2Z.id. reflexivity.
    - rewrite get_int4_put_int4 by lia. reflexivity.
    - rewrite Hstub, <- app_assoc. rewrite get_int4_put_int4 by lia.
      cbn [Z.eqb Pos.eqb]. rewrite get_put_str by assumption. reflexivity.
  Qed.

  Lemma blob_rt : forall b rest, int_fits 4 (length b) -> get_blob (put_blob b ++ rest) = Some (b, rest).
  Proof.
    intros b rest H. unfold get_blob, put_blob. rewrite <- app_assoc, get_int_put_nat by assumption.
    rewrite Nat2Z.id. apply read_upto_app.
  Qed.

  Definition data_cnt (d : aval) : option nat := if data_is_arr d then Some (data_len d) else None.

  Lemma get_data_fix : forall t cnt bs, is_var_type t = false ->
    get_data cdec cfg v tr nel t cnt bs =
    if (match t with TTime => true | _ => false end) && (v <? 3)%N then None
    else match size_of cfg t with
         | Some sz => with_shape (VFix t) cnt (get_bytes (N.to_nat sz)) bs
         | None => None
         end.
  Proof. intros t cnt bs H. destruct t; try discriminate H; reflexivity. Qed.

  Lemma data_rt : forall d rest,
    data_ok cenc cdec cfg v nel d ->
    (forall x, d = VStr (Scalar x) -> names_in_db v = true -> In x tw) ->
    get_data cdec cfg v tr nel (vt d) (data_cnt d) (put_data cenc cfg v tw d ++ rest) = Some (d, rest).
  Proof.
    intros [s|s|s|t s] rest Hok Hin; unfold data_cnt; cbn [vt data_is_arr data_len put_data data_ok] in *.
    - (* elements *)
      destruct Hok as [_ Hok]. cbn [get_data]. apply (with_shape_rt _ VElem).
      eapply Forall_impl; [|exact Hok]. intros r Hr rest'. apply eref_rt. assumption.
    - (* strings *)
      destruct s as [x|l]; cbn [shape_is_arr items get_data] in *.
      + apply with_shape_scalar. destruct (names_in_db v) eqn:En.
        * apply tabref_rt; [apply names_in_db_has_db; assumption | apply (Hin x eq_refl eq_refl)].
        * rewrite Henc. apply get_put_str. apply Hok. reflexivity.
      + destruct Hok as [_ Hok]. rewrite Henc. apply with_shape_array.
        eapply Forall_impl; [|exact Hok]. intros x Hx rest'. apply get_put_str. assumption.
    - (* binary *)
      destruct Hok as [_ Hok]. cbn [get_data]. apply (with_shape_rt _ VBin).
      eapply Forall_impl; [|exact Hok]. intros b Hb rest'. apply blob_rt. assumption.
    - (* fixed width *)
      destruct Hok as (Hvar & Htime & _ & sz & Hsz & Hall).
      rewrite get_data_fix by assumption.
      replace ((match t with TTime => true | _ => false end) && (v <? 3)%N) with false.
      2:{ symmetry. destruct t; try reflexivity. cbn [andb]. apply N.ltb_ge. apply Htime. reflexivity. }
      rewrite Hsz, concat_flat_map_id. apply (with_shape_rt _ (VFix t)).
      eapply Forall_impl; [|exact Hall]. intros b Hb rest'. apply get_bytes_app. assumption.
  Qed.

  Lemma data_ok_arr_fits : forall d, data_ok cenc cdec cfg v nel d -> data_is_arr d = true -> int_fits 4 (data_len d).
  Proof.
    intros [s|s|s|t s] Hok Harr; cbn [data_ok data_is_arr data_len] in *.
    - apply Hok.
    - destruct s; [discriminate | apply Hok].
    - apply Hok.
    - apply Hok.
  Qed.

  Lemma attr_rt : forall a rest,
    attr_ok cenc cdec cfg v nel a ->
    (forall s, In s (attr_strings v a) -> In s tw) ->
    get_attr cdec cfg v tr nel (put_attr cenc cfg v tw a ++ rest) = Some (a, rest).
  Proof.
    intros [nm d] rest [Hnm Hd] Hin. cbn [aname adata] in *.
    unfold attr_strings in Hin. cbn [aname adata] in Hin.
    unfold put_attr, get_attr. cbn [aname adata].
    destruct (type_code_roundtrip_gen cfg Hcodes (vt d) (data_is_arr d)) as (b & Hb & _ & Hdec).
    rewrite Hb. rewrite <- app_assoc, <- app_comm_cons, <- app_assoc.
    pose proof tabref_rt as Htr.
    pose proof (data_rt d rest Hd) as HD. unfold data_cnt in HD.
    assert (Hin' : forall x, d = VStr (Scalar x) -> names_in_db v = true -> In x tw)
      by (intros x Hx Hn; apply Hin; subst d; rewrite Hn; apply in_or_app; right; left; reflexivity).
    specialize (HD Hin').
    assert (Hfits : data_is_arr d = true -> int_fits 4 (data_len d)) by (apply data_ok_arr_fits; assumption).
    destruct (has_db v) eqn:Edb.
    - rewrite (Htr nm _ eq_refl) by (apply Hin; left; reflexivity).
      rewrite Hdec. destruct (data_is_arr d) eqn:Earr.
      + rewrite get_int_put_nat by auto. rewrite Nat2Z.id, HD. reflexivity.
      + cbn [app]. rewrite HD. reflexivity.
    - rewrite Henc, get_put_str by auto.
      rewrite Hdec. destruct (data_is_arr d) eqn:Earr.
      + rewrite get_int_put_nat by auto. rewrite Nat2Z.id, HD. reflexivity.
      + cbn [app]. rewrite HD. reflexivity.
  Qed.

  Definition strip (e : elem) : elem := {| etype := etype e; ename := ename e; euuid := euuid e; eattrs := [] |}.

  Lemma head_rt : forall e rest,
    elem_ok cenc cdec cfg v nel e ->
    (forall s, In s (elem_strings v e) -> In s tw) ->
    get_elem_head cdec cfg v tr (put_elem_head cenc cfg v tw e ++ rest) = Some (strip e, rest).
  Proof.
    intros e rest (Hu & _ & Hty & Hnm & _) Hin. unfold elem_strings in Hin.
    unfold get_elem_head, put_elem_head. rewrite <- !app_assoc.
    pose proof tabref_rt as Htr.
    assert (H1 : forall r, (if has_db v then get_tabref v tr else get_str cdec (enc_read cfg SiteElType))
                   ((if has_db v then put_tabref v tw (etype e) else put_str cenc (enc_write cfg SiteElType) (etype e)) ++ r)
                   = Some (etype e, r)).
    { intros r. destruct (has_db v) eqn:Edb.
      - apply Htr; [reflexivity|]. apply Hin. left. reflexivity.
      - rewrite Henc. apply get_put_str. apply Hty. reflexivity. }
    assert (H2 : forall r, (if names_in_db v then get_tabref v tr else get_str cdec (enc_read cfg SiteElName))
                   ((if names_in_db v then put_tabref v tw (ename e) else put_str cenc (enc_write cfg SiteElName) (ename e)) ++ r)
                   = Some (ename e, r)).
    { intros r. destruct (names_in_db v) eqn:En.
      - apply tabref_rt; [apply names_in_db_has_db; assumption|]. apply Hin.
        apply in_or_app. right. left. reflexivity.
      - rewrite Henc. apply get_put_str. apply Hnm. reflexivity. }
    destruct (has_db v); rewrite H1; destruct (names_in_db v); rewrite H2;
      rewrite (get_bytes_app 16 _ _ Hu); reflexivity.
  Qed.

  Lemma elem_attrs_rt : forall e rest,
    elem_ok cenc cdec cfg v nel e ->
    (forall s, In s (elem_strings v e) -> In s tw) ->
    get_elem_attrs cdec cfg v tr nel (put_elem_attrs cenc cfg v tw e ++ rest) = Some (eattrs e, rest).
  Proof.
    intros e rest (_ & Hn & _ & _ & Hall) Hin. unfold elem_strings in Hin.
    unfold get_elem_attrs, put_elem_attrs. rewrite <- app_assoc, get_int_put_nat by assumption.
    rewrite Nat2Z.id. apply rep_flat_map.
    rewrite Forall_forall in Hall |- *. intros a Ha rest'. apply attr_rt; [apply Hall; assumption|].
    intros s Hs. apply Hin. apply in_or_app. right. apply in_or_app. right.
    apply in_flat_map. exists a. split; assumption.
  Qed.
End RT.

Lemma fill_attrs_strip : forall d, fill_attrs (map strip d) (map eattrs d) = d.
Proof. induction d as [|[ty nm u ats] d IH]; cbn [map fill_attrs strip etype ename euuid eattrs]; [reflexivity | rewrite IH; reflexivity]. Qed.

Theorem dmx_bin_roundtrip_rest :
  forall (cenc : enc -> str -> bytes) (cdec : enc -> bytes -> option str) (cfg : dmxcfg) (v : N) (d : doc) (rest : bytes),
    bin_cfg_ok cfg = true ->
    expressible cenc cdec cfg v d ->
    parse_bin cdec cfg v (export_bin cenc cfg v d ++ rest) = Some d.
Proof.
  intros cenc cdec cfg v d rest Hcfg (Hne & Hlen & Hdb & Hall).
  destruct (bin_cfg_ok_parts cfg Hcfg) as (_ & Henc & _).
  unfold parse_bin, export_bin.
  set (tw := strtab v d) in *.
  assert (Hstrs : forall e, In e d -> forall s, In s (elem_strings v e) -> In s tw).
  { intros e He s Hs. apply strtab_in. unfold used_strings. right. apply in_flat_map. exists e. split; assumption. }
  assert (Hfit : has_db v = true -> int_fits (db_ind_w v) (length tw)) by (intros E; apply (Hdb E)).
  assert (Hheads : forall tr, (has_db v = true -> tr = tw) -> forall r,
            rep (get_elem_head cdec cfg v tr) (length d) (flat_map (put_elem_head cenc cfg v tw) d ++ r)
            = Some (map strip d, r)).
  { intros tr Htab r. apply rep_flat_map_gen. rewrite Forall_forall in Hall |- *. intros e He r'.
    apply (head_rt cenc cdec cfg Hcfg v tw tr (length d) Htab Hfit); [apply Hall | apply Hstrs]; assumption. }
  assert (Hattrs : forall tr, (has_db v = true -> tr = tw) -> forall r,
            rep (get_elem_attrs cdec cfg v tr (length d)) (length d) (flat_map (put_elem_attrs cenc cfg v tw) d ++ r)
            = Some (map eattrs d, r)).
  { intros tr Htab r. apply rep_flat_map_gen. rewrite Forall_forall in Hall |- *. intros e He r'.
    apply (elem_attrs_rt cenc cdec cfg Hcfg v tw tr (length d) Htab Hfit Hlen); [apply Hall | apply Hstrs]; assumption. }
  assert (Hfin : match map strip d with [] => None | _ :: _ => Some (fill_attrs (map strip d) (map eattrs d)) end = Some d).
  { rewrite fill_attrs_strip. destruct d; [contradiction | reflexivity]. }
  destruct (has_db v) eqn:Edb.
  - destruct (Hdb eq_refl) as (Hstr & Hcnt & _).
    rewrite <- !app_assoc. rewrite get_int_put_nat by assumption. rewrite Nat2Z.id, Henc.
    rewrite (rep_flat_map _ _ (put_str cenc (enc_write cfg SiteTable))).
    2:{ eapply Forall_impl; [|exact Hstr]. intros s Hs r. apply get_put_str. assumption. }
    rewrite get_int_put_nat by assumption. rewrite Nat2Z.id. cbv zeta.
    rewrite (Hheads tw (fun _ => eq_refl)), (Hattrs tw (fun _ => eq_refl)). exact Hfin.
  - cbn [app]. rewrite <- !app_assoc.
    rewrite get_int_put_nat by assumption. rewrite Nat2Z.id. cbv zeta.
    rewrite (Hheads [] ltac:(discriminate)), (Hattrs [] ltac:(discriminate)). exact Hfin.
Qed.

Theorem dmx_bin_roundtrip_gen :
  forall (cenc : enc -> str -> bytes) (cdec : enc -> bytes -> option str) (cfg : dmxcfg) (v : N) (d : doc),
    bin_cfg_ok cfg = true ->
    expressible cenc cdec cfg v d ->
    parse_bin cdec cfg v (export_bin cenc cfg v d) = Some d.
Proof.
  intros cenc cdec cfg v d Hcfg Hex.
  rewrite <- (app_nil_r (export_bin cenc cfg v d)). apply dmx_bin_roundtrip_rest; assumption.
Qed.

(** ** Non-vacuity: a concrete configuration and document *)
Definition idenc (_ : enc) (s : str) : bytes := s.
Definition iddec (_ : enc) (b : bytes) : option str := Some b.

(** [pinned_cfg] with the three repairs: scalar/array split test [>], the stub UUID string is written, every
    reader uses the file codec like its writer. *)
Definition good_cfg : dmxcfg := {|
  code_table := [(TElement, 1); (TInt, 2); (TFloat, 3); (TBool, 4); (TString, 5); (TBinary, 6); (TTime, 7);
                 (TColor, 8); (TVec2, 9); (TVec3, 10); (TVec4, 11); (TAngle, 12); (TQuat, 13); (TMatrix, 14)]%N;
  array_offset := 14%N;
  split_cmp := CGt;
  size_table := [(TInt, 4); (TFloat, 4); (TBool, 1); (TTime, 4); (TColor, 4); (TVec2, 8); (TVec3, 12); (TVec4, 16);
                 (TAngle, 12); (TQuat, 16); (TMatrix, 64)]%N;
  stub_written := StubUuidStr;
  enc_write := fun _ => EncFile;
  enc_read := fun _ => EncFile;
|}.

Lemma good_cfg_ok : bin_cfg_ok good_cfg = true.
Proof. vm_compute. reflexivity. Qed.

Definition ex_uuid (b : N) : bytes := repeat b 16.
Definition ex_doc : doc :=
  [ {| etype := [68; 109; 69]%N; ename := [114; 111; 111; 116]%N; euuid := ex_uuid 1%N;
       eattrs := [ {| aname := [115; 101; 108; 102]%N; adata := VElem (Scalar (RElem 0%N)) |};
                   {| aname := [107; 105; 100; 115]%N;
                      adata := VElem (Array [RElem 1%N; RNull; RStub [97; 98; 45; 49]%N]) |};
                   {| aname := s_name; adata := VStr (Scalar [114; 111; 111; 116]%N) |};
                   {| aname := [116; 97; 103; 115]%N; adata := VStr (Array [[120]%N; []; [121; 122]%N]) |} ] |};
    {| etype := [68; 109; 69]%N; ename := [99]%N; euuid := ex_uuid 2%N;
       eattrs := [ {| aname := [109]%N; adata := VFix TMatrix (Scalar (repeat 7%N 64)) |};
                   {| aname := [116]%N; adata := VFix TInt (Array [[1; 0; 0; 0]%N; [2; 0; 0; 0]%N]) |};
                   {| aname := [98]%N; adata := VBin (Array [[0; 1; 0; 255]%N; []]) |};
                   {| aname := [110]%N; adata := VElem (Scalar RNull) |} ] |} ].

Lemma idenc_str_ok : forall e s, ~ In 0%N s -> str_ok idenc iddec e s.
Proof. intros e s H. split; [reflexivity | exact H]. Qed.

Ltac no_nul := vm_compute; intuition discriminate.
Ltac fits := unfold int_fits; vm_compute; reflexivity.
Ltac brk :=
  repeat match goal with
         | |- _ /\ _ => split
         | |- Forall _ (_ :: _) => apply Forall_cons
         | |- Forall _ [] => apply Forall_nil
         | |- _ = false -> _ => let Hf := fresh in intros Hf; try discriminate Hf
         | |- exists sz, size_of _ _ = Some sz /\ _ => eexists; split; [vm_compute; reflexivity|]
         | |- _ = TTime -> _ => let Hf := fresh in intros Hf; try discriminate Hf
         end.
Ltac leaf :=
  lazymatch goal with
  | |- int_fits _ _ => fits
  | |- str_ok _ _ _ _ => apply idenc_str_ok; no_nul
  | |- ref_ok _ _ _ _ => cbn [ref_ok]; first [exact I | apply idenc_str_ok; no_nul | vm_compute; lia]
  | |- (_ <= _)%N => vm_compute; discriminate
  | |- _ = _ => reflexivity
  end.
Ltac solve_expressible :=
  unfold expressible; split; [discriminate|]; split; [fits|]; split;
  [ let Hdb := fresh in
    intros Hdb; vm_compute in Hdb;
    first [ discriminate Hdb
          | split; [vm_compute; repeat constructor; no_nul | split; fits] ]
  | repeat (apply Forall_cons || apply Forall_nil);
    unfold elem_ok, attr_ok; cbn [euuid eattrs etype ename aname adata];
    brk; cbn [data_ok items adata aname]; brk; leaf ].

Example expressible_example :
  expressible idenc iddec good_cfg 5 ex_doc /\ expressible idenc iddec good_cfg 1 ex_doc /\ length ex_doc = 2%nat.
Proof.
  split; [|split; [|reflexivity]].
  - solve_expressible.
  - solve_expressible.
Qed.

Example roundtrip_example_v5 : parse_bin iddec good_cfg 5 (export_bin idenc good_cfg 5 ex_doc) = Some ex_doc.
Proof. vm_compute. reflexivity. Qed.

Example roundtrip_example_v1 : parse_bin iddec good_cfg 1 (export_bin idenc good_cfg 1 ex_doc) = Some ex_doc.
Proof. vm_compute. reflexivity. Qed.

(** The same through the general theorem. *)
Example roundtrip_example_by_theorem : forall v, v = 5%N \/ v = 1%N ->
  parse_bin iddec good_cfg v (export_bin idenc good_cfg v ex_doc) = Some ex_doc.
Proof.
  intros v [E|E]; subst v; apply dmx_bin_roundtrip_gen; try exact good_cfg_ok; apply expressible_example.
Qed.

(** ** The stub condition is necessary: without the UUID string after -2 the reader consumes following data. *)
Definition bad_stub_cfg : dmxcfg := {|
  code_table := code_table good_cfg; array_offset := array_offset good_cfg; split_cmp := split_cmp good_cfg;
  size_table := size_table good_cfg; stub_written := StubNothing;
  enc_write := enc_write good_cfg; enc_read := enc_read good_cfg |}.

Definition stub_doc : doc :=
  [ {| etype := [68; 109; 69]%N; ename := [114]%N; euuid := ex_uuid 1%N;
       eattrs := [ {| aname := [107]%N; adata := VElem (Scalar (RStub [97; 98]%N)) |} ] |} ].

Theorem stub_without_uuid_refuted :
  exists d, parse_bin iddec bad_stub_cfg 5 (export_bin idenc bad_stub_cfg 5 d) <> Some d.
Proof. exists stub_doc. vm_compute. discriminate. Qed.

(** ... although the document is expressible and the configuration fails only [stub_ok]. *)
Lemma bad_stub_cfg_conditions :
  codes_ok bad_stub_cfg = true /\ encodings_ok bad_stub_cfg = true /\ sizes_ok bad_stub_cfg = true /\
  stub_ok bad_stub_cfg = false.
Proof. vm_compute. repeat split. Qed.

Lemma stub_doc_expressible : expressible idenc iddec bad_stub_cfg 5 stub_doc.
Proof. solve_expressible. Qed.
