(** C11: what save() leaves behind when a writer raises.

    One view during save(): it sits in the cache of parsed views (its raw lump data was cleared when it was assigned), save()
    takes it out of the cache, runs the writer - which raises when a value does not fit its field -, and stores the bytes in
    the lump.  The order of these events is read from the source (translate/c11_savecommit.py).  If the view leaves the cache
    BEFORE the last point that can raise, a rejected save loses it: the next save() finds nothing to rebuild and writes the
    (empty) raw data, without any error. *)
From Coq Require Import List Bool Arith.
Import ListNotations.

Inductive sc_event := EvDrop | EvRaise | EvStore.

(** state of one view: is it in the cache, does the lump hold its bytes *)
Record sc_state := { cached : bool; stored : bool }.
Definition sc_init : sc_state := {| cached := true; stored := false |}.

(** run the events; [fail] = which of the raising points (counted from 0) raises, [None] = none does.
    Result: the state, and whether the loop body ran to its end. *)
Fixpoint sc_run (evs : list sc_event) (fail : option nat) (s : sc_state) : sc_state * bool :=
  match evs with
  | [] => (s, true)
  | EvDrop :: r => sc_run r fail {| cached := false; stored := stored s |}
  | EvStore :: r => sc_run r fail {| cached := cached s; stored := true |}
  | EvRaise :: r =>
    match fail with
    | Some 0 => (s, false)
    | Some (S k) => sc_run r (Some k) s
    | None => sc_run r None s
    end
  end.

(** the content of the view survives: it is still in the cache (save() can be repeated) or its bytes are in the lump *)
Definition sc_safe (s : sc_state) : bool := cached s || stored s.

(** decidable condition on the event list: nothing can raise once the view has left the cache or the bytes were stored, the
    view does leave the cache, and the bytes are stored *)
Fixpoint no_raise (evs : list sc_event) : bool :=
  match evs with [] => true | EvRaise :: _ => false | _ :: r => no_raise r end.
Fixpoint commit_ok_from (evs : list sc_event) : bool :=
  match evs with
  | [] => false
  | EvRaise :: r => commit_ok_from r
  | EvDrop :: r => no_raise r && existsb (fun e => match e with EvStore => true | _ => false end) r
  | EvStore :: r => no_raise r && existsb (fun e => match e with EvDrop => true | _ => false end) r
  end.
Definition commit_ok (evs : list sc_event) : bool := commit_ok_from evs.
