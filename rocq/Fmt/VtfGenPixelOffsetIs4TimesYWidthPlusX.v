(** C15 — compiled by the check as the named obligation
    build:Fmt/VtfGenPixelOffsetIs4TimesYWidthPlusX.vo : the offset formulas that translate/c15_pixel.py reads from
    Frame.__getitem__ / Frame.__setitem__ (Gen/VtfLayout_gen.v) compute 4 * (y * width + x) for all arguments. *)
From Coq Require Import ZArith List Bool Lia.
From SV Require Import Fmt.VtfLayout Fmt.VtfLayoutProofs Gen.VtfLayout_gen Fmt.VtfGenProofs.
Open Scope Z_scope.

Lemma pixel_offsets_hold : pixel_offsets_spec.
Proof. split; intros; unfold getitem_off, setitem_off, pixel_off; ring. Qed.
