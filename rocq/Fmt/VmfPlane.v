(** C06, round 3: the plane triple of a face.  Side.export writes  "(v1) (v2) (v3)"  (each v the text of a Vec);
    Side.parse drops the first and the last character and splits at the three characters ") (" (str.split with a separator:
    leftmost non-overlapping occurrences).  Definitions only; proofs in Fmt/VmfPlaneProofs.v. *)
From Coq Require Import NArith List Bool.
Import ListNotations.
Open Scope N_scope.

Fixpoint pl_prefix (p s : list N) : bool :=
  match p, s with
  | [], _ => true
  | x :: p', y :: s' => (x =? y) && pl_prefix p' s'
  | _ :: _, [] => false
  end.

(** str.split(sep) for a non-empty separator: [skip] counts the characters of a separator just recognised that are still
    to be passed over. *)
Fixpoint split_str_aux (sep : list N) (skip : nat) (cur s : list N) : list (list N) :=
  match s with
  | [] => [rev cur]
  | c :: r => match skip with
              | S k => split_str_aux sep k cur r
              | O => if pl_prefix sep s then rev cur :: split_str_aux sep (List.length sep - 1) [] r
                     else split_str_aux sep 0 (c :: cur) r
              end
  end.
Definition split_str (sep s : list N) : list (list N) := split_str_aux sep 0 [] s.

Definition PSEP : list N := [41; 32; 40].       (* ") (" *)
Definition plane_text (a b c : list N) : list N := 40 :: a ++ PSEP ++ b ++ PSEP ++ c ++ [41].
(** value[1:-1].split(") (") ; exactly three parts *)
Definition drop_ends (s : list N) : list N := match s with [] => [] | _ :: r => removelast r end.
Definition plane_parse (s : list N) : option (list N * list N * list N) :=
  match split_str PSEP (drop_ends s) with
  | [a; b; c] => Some (a, b, c)
  | _ => None
  end.
Definition no_paren (s : list N) : bool := forallb (fun c => negb ((c =? 40) || (c =? 41))) s.
