(** C14 — [cull_uuid] at the level of the tree of blocks: the tree written with [cull_uuid] is the tree written without it, with
    the id line of every inline block left out (top-level blocks keep theirs); no reference names an inline block
    ([inline_blocks_not_roots]), so no reference is lost. *)
From Coq Require Import NArith List Bool Lia PeanoNat.
From SV Require Import Text.Str Text.Tokenizer Fmt.DmxKv2 Fmt.DmxKv2Proofs Fmt.DmxKv2Nested Fmt.DmxKv2Graph Fmt.DmxKv2GraphProofs.
Import ListNotations.
Open Scope nat_scope.

Lemma erase_elem_eq top ty id nm attrs :
  erase_elem top (NElem ty id nm attrs) = NElem ty (if top then id else None) nm (map erase_attr attrs).
Proof. reflexivity. Qed.
Lemma erase_attr_eq an at_ arr items : erase_attr (NAttr an at_ arr items) = NAttr an at_ arr (map erase_item items).
Proof. reflexivity. Qed.

Lemma map_opt_map {A B C} (f : A -> option B) (h : B -> C) (f' : A -> option C) :
  forall l, (forall a, In a l -> f' a = option_map h (f a)) -> map_opt f' l = option_map (map h) (map_opt f l).
Proof.
  induction l as [|a l IH]; intros H; [reflexivity|]. cbn [map_opt]. rewrite (H a) by now left.
  rewrite IH by (intros b Hb; apply H; now right). destruct (f a); [|reflexivity]. cbn [option_map]. destruct (map_opt f l); reflexivity.
Qed.

Section Cull.
Variable g : gdoc.
Variable isroot : nat -> bool.

Lemma nest_elem_cull_S f i : nest_elem g isroot true (S f) i =
  match nth_error g i with
  | None => None
  | Some e =>
      match map_opt (fun a =>
              match map_opt (fun it =>
                      match it with
                      | GStr s => Some (NStr s)
                      | GRef GNull => Some NNull
                      | GRef (GStub u) => Some (NRef u)
                      | GRef (GElem j) =>
                          if isroot j then Some (NRef (nth j (ids g) []))
                          else match nest_elem g isroot true f j with Some t => Some (NInline t) | None => None end
                      end) (ga_items a) with
              | Some its => Some (NAttr (ga_name a) (ga_type a) (ga_arr a) its)
              | None => None
              end) (ge_attrs e) with
      | Some attrs => Some (NElem (ge_type e) (if negb (isroot i) then None else Some (ge_id e)) (ge_name e) attrs)
      | None => None
      end
  end.
Proof. reflexivity. Qed.

Theorem nest_elem_cull : forall f i,
  nest_elem g isroot true f i = option_map (erase_elem (isroot i)) (nest_elem g isroot false f i).
Proof.
  induction f as [|f IH]; intros i; [reflexivity|].
  rewrite nest_elem_cull_S, nest_elem_S. destruct (nth_error g i) as [e|]; [|reflexivity].
  fold (item_fn g isroot f).
  rewrite (map_opt_map
             (fun a => match map_opt (item_fn g isroot f) (ga_items a) with
                       | Some its => Some (NAttr (ga_name a) (ga_type a) (ga_arr a) its) | None => None end) erase_attr).
  - destruct (map_opt _ (ge_attrs e)) as [attrs|]; [|reflexivity]. cbn [option_map]. rewrite erase_elem_eq.
    destruct (isroot i); reflexivity.
  - intros a _.
    rewrite (map_opt_map (item_fn g isroot f) erase_item).
    + destruct (map_opt (item_fn g isroot f) (ga_items a)) as [its|]; [|reflexivity]. cbn [option_map]. now rewrite erase_attr_eq.
    + intros it _. destruct it as [s|[j| |u]]; cbn [item_fn]; try reflexivity.
      destruct (isroot j) eqn:Rj; [reflexivity|]. rewrite IH, Rj. destruct (nest_elem g isroot false f j); reflexivity.
Qed.

(** the whole document: every top-level block keeps its id *)
Theorem nest_doc_cull : nest_doc g isroot true = option_map (map (erase_elem true)) (nest_doc g isroot false).
Proof.
  unfold nest_doc. apply map_opt_map. intros r Hr. unfold root_list in Hr. apply filter_In in Hr. destruct Hr as [_ Rr].
  rewrite nest_elem_cull, Rr. reflexivity.
Qed.
End Cull.
